import cbor2, sys, collections, time
sys.path.insert(0,'/repo')
import logging
from suit_generator.suit.envelope import SuitEnvelopeTagged
data = open('e1.suit','rb').read()

# generic tree walk: decode with cbor2, replace each node by representatives
reps = [0, -1, 2**64, b'', b'\x01', 'x', '', [], [1], {}, {1:2}, None, True, 1.5, cbor2.CBORTag(18, 0), cbor2.CBORTag(107, {}), cbor2.undefined]

def thaw(o):
    if isinstance(o, cbor2.CBORTag): return cbor2.CBORTag(o.tag, thaw(o.value))
    if isinstance(o, (dict,)) or type(o).__name__=='frozendict': return {thaw(k) if not isinstance(k,(int,str,bytes)) else k: thaw(v) for k,v in o.items()}
    if isinstance(o,(list,tuple)): return [thaw(x) for x in o]
    return o

# nested bstr-aware walker: positions are paths; bstr content that decodes as CBOR is recursed
def mutate(o, depth=0):
    """yield mutated copies of o (one node replaced)."""
    for r in reps:
        yield r
    if isinstance(o, cbor2.CBORTag):
        for m in mutate(o.value): yield cbor2.CBORTag(o.tag, m)
    elif isinstance(o, dict):
        for k in list(o.keys()):
            for m in mutate(o[k]):
                d = dict(o); d[k]=m; yield d
            # key replaced
            d = {(99 if kk==k else kk):vv for kk,vv in o.items()}; yield d
    elif isinstance(o, list):
        for i in range(len(o)):
            for m in mutate(o[i]):
                l=list(o); l[i]=m; yield l
        yield o[:-1]
        yield o+[0]
    elif isinstance(o, bytes) and len(o)>0:
        try:
            inner = thaw(cbor2.loads(o))
            if cbor2.dumps(inner)==o:
                for m in mutate(inner):
                    try: yield cbor2.dumps(m)
                    except Exception: pass
        except Exception: pass

top = thaw(cbor2.loads(data))
res = collections.Counter()
ex = {}
n=0
t=time.time()
for m in mutate(top):
    try: b = cbor2.dumps(m)
    except Exception as e: continue
    n+=1
    try:
        SuitEnvelopeTagged.from_cbor(b).to_obj()
        res['ok']+=1
    except Exception as e:
        import traceback
        tb = traceback.extract_tb(e.__traceback__)[-1]
        key=(type(e).__name__, tb.filename.split('/')[-1], tb.lineno)
        res[key]+=1
        ex.setdefault(key, b.hex()[:200])
print(n, time.time()-t)
for k,v in res.most_common(): print(k,v, ex.get(k,'')[:120])
