From Coq Require Import ZArith List Bool Lia ZifyBool.
Import ListNotations.
Open Scope Z_scope.
Ltac Zify.zify_post_hook ::= Z.to_euclidean_division_equations.

Notation byte := Z (only parsing).
Definition ceil_div (a b : Z) : Z := (a + b - 1) / b.
Definition ljust (l : list byte) (n : Z) (fill : byte) : list byte :=
  l ++ repeat fill (Z.to_nat (n - Z.of_nat (length l))).
Definition to_bytes_be2 (x : Z) : list byte := [x / 256; x mod 256].
Definition blen (l : list byte) : Z := Z.of_nat (length l).

Inductive res (A : Type) := Ok (a : A) | Err.
Arguments Ok {A}. Arguments Err {A}.

Definition add_padding_rest (data : list byte) (pad rounded : Z) : res (list byte) :=
  if pad =? 0 then Ok data else
  let padded := data ++ [96] in
  if pad <=? 23 then Ok (ljust (padded ++ [64 + (pad - 2)]) rounded 0)
  else if pad <=? 65535 then Ok (ljust (padded ++ [89] ++ to_bytes_be2 (pad - 4)) rounded 0)
  else Err.

Definition add_padding (eb : Z) (data : list byte) : res (list byte) :=
  let rounded := ceil_div (blen data) eb * eb in
  let pad := rounded - blen data in
  if pad =? 1 then add_padding_rest data (pad + eb) (rounded + eb)
  else add_padding_rest data pad rounded.

Lemma blen_app a b : blen (a ++ b) = blen a + blen b.
Proof. unfold blen. rewrite app_length. lia. Qed.
Lemma blen_ljust l n f : blen l <= n -> blen (ljust l n f) = n.
Proof. unfold blen, ljust. intros. rewrite app_length, repeat_length. lia. Qed.
Lemma blen_cons x l : blen (x :: l) = 1 + blen l.
Proof. unfold blen. cbn [length]. lia. Qed.
Lemma blen_nil : blen [] = 0. Proof. reflexivity. Qed.
Lemma blen_tb2 x : blen (to_bytes_be2 x) = 2. Proof. reflexivity. Qed.
#[global] Hint Rewrite blen_app blen_cons blen_nil blen_tb2 : blen.
Lemma blen_nonneg l : 0 <= blen l. Proof. unfold blen; lia. Qed.

Lemma rest_ok data pad rounded out :
  rounded = blen data + pad -> 0 <= pad -> pad <> 1 ->
  add_padding_rest data pad rounded = Ok out -> blen out = rounded.
Proof.
  intros Hr Hp H1. unfold add_padding_rest.
  destruct (pad =? 0) eqn:E0. { intros [= <-]. lia. }
  destruct (pad <=? 23) eqn:E23.
  { intros [= <-]. apply blen_ljust. autorewrite with blen. lia. }
  destruct (pad <=? 65535) eqn:E64; [|discriminate].
  intros [= <-]. apply blen_ljust. autorewrite with blen. lia.
Qed.

Lemma ceil_bounds a b : 0 < b -> 0 <= a -> a <= ceil_div a b * b < a + b.
Proof. intros. unfold ceil_div. lia. Qed.

Theorem add_padding_aligned eb data out :
  0 < eb -> add_padding eb data = Ok out ->
  blen out mod eb = 0 /\ blen data <= blen out.
Proof.
  intros Heb. unfold add_padding.
  pose proof (blen_nonneg data) as Hl.
  pose proof (ceil_bounds (blen data) eb Heb Hl) as Hb.
  set (q := ceil_div (blen data) eb) in *.
  destruct (q * eb - blen data =? 1) eqn:E1; intros H; apply rest_ok in H; try lia.
  - rewrite H. split; [|lia]. replace (q*eb+eb) with ((q+1)*eb) by ring. apply Z_mod_mult.
  - rewrite H. split; [|lia]. apply Z_mod_mult.
Qed.
Print Assumptions add_padding_aligned.
