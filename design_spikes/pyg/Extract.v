Require Import Prelude GenCache.
Require Extraction.
Require Import ExtrOcamlBasic.
Extraction Language OCaml.
Extraction "model.ml" add_padding add_cache_slot.
