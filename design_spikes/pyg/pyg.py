#!/usr/bin/env python3
"""Spike: restricted, fail-closed Python -> Gallina translator (PyG).

Translates straight-line/if-else methods over ints, bools, bytes and lists into a `res`-monadic Gallina
term by continuation duplication.  Anything outside the subset raises Unsupported (fail closed)."""
import ast, sys, textwrap

class Unsupported(Exception):
    def __init__(self, node, why=""):
        super().__init__(f"line {getattr(node,'lineno','?')}: unsupported {type(node).__name__} {why}: {ast.unparse(node)[:80] if isinstance(node, ast.AST) else node}")

# static types
INT, BOOL, BYTES, STR, LSTR, SELF, NONE = "int", "bool", "bytes", "str", "list_str", "self", "none"

class Ctx:
    def __init__(self, fields, params, methods):
        self.fields = fields      # self.attr -> type
        self.vars = dict(params)  # local name -> (gallina ident, type)
        self.methods = methods    # name -> (param types, return type, mutates_self)
        self.selfv = "self"
        self.n = 0
    def fresh(self, base):
        self.n += 1
        return f"{base}_{self.n}"
    def copy(self):
        c = Ctx(self.fields, {}, self.methods); c.vars = dict(self.vars); c.selfv = self.selfv; c.n = self.n; return c

def expr(e, cx):
    """-> (gallina term of type `res T` or pure T, type, is_res)"""
    if isinstance(e, ast.Constant):
        if isinstance(e.value, bool): return ("true" if e.value else "false", BOOL, False)
        if isinstance(e.value, int): return (f"({e.value})", INT, False)
        if isinstance(e.value, bytes): return ("[" + "; ".join(str(b) for b in e.value) + "]", BYTES, False)
        if isinstance(e.value, str): return ("(str_lit \"" + e.value.replace('"','""') + "\")", STR, False)
        raise Unsupported(e)
    if isinstance(e, ast.Name):
        if e.id in cx.vars: g, t = cx.vars[e.id]; return (g, t, False)
        raise Unsupported(e, "unknown name")
    if isinstance(e, ast.Attribute) and isinstance(e.value, ast.Name) and e.value.id == "self":
        if e.attr in cx.fields: return (f"({e.attr} {cx.selfv})", cx.fields[e.attr], False)
        raise Unsupported(e, "unknown field")
    if isinstance(e, ast.BinOp):
        (a, ta, ra), (b, tb, rb) = expr(e.left, cx), expr(e.right, cx)
        if ra or rb: raise Unsupported(e, "effectful operand (bind first)")
        op = type(e.op)
        if ta == tb == INT:
            sym = {ast.Add: "+", ast.Sub: "-", ast.Mult: "*", ast.FloorDiv: "/", ast.Mod: "mod"}.get(op)
            if sym is None: raise Unsupported(e)
            return (f"({a} {sym} {b})", INT, False)
        if ta == tb == BYTES and op is ast.Add: return (f"({a} ++ {b})", BYTES, False)
        raise Unsupported(e, f"types {ta},{tb}")
    if isinstance(e, ast.Compare) and len(e.ops) == 1:
        (a, ta, ra), (b, tb, rb) = expr(e.left, cx), expr(e.comparators[0], cx)
        op = type(e.ops[0])
        if ta == tb == INT:
            sym = {ast.Eq: "=?", ast.LtE: "<=?", ast.Lt: "<?", ast.GtE: ">=?", ast.Gt: ">?"}.get(op)
            if sym: return (f"({a} {sym} {b})", BOOL, False)
            if op is ast.NotEq: return (f"(negb ({a} =? {b}))", BOOL, False)
        if op is ast.In and ta == STR and tb == LSTR: return (f"(str_in {a} {b})", BOOL, False)
        raise Unsupported(e, f"types {ta},{tb}")
    if isinstance(e, ast.Call):
        f = e.func
        # bytes([...]) / bytes()
        if isinstance(f, ast.Name) and f.id == "bytes":
            if not e.args: return ("[]", BYTES, False)
            if isinstance(e.args[0], ast.List):
                items = [expr(x, cx) for x in e.args[0].elts]
                if any(t != INT or r for _, t, r in items): raise Unsupported(e)
                return ("(bytes_of_ints [" + "; ".join(g for g, _, _ in items) + "])", BYTES, True)
        if isinstance(f, ast.Name) and f.id == "len" and len(e.args) == 1:
            a, ta, ra = expr(e.args[0], cx)
            if ta in (BYTES, STR) and not ra: return (f"(blen {a})", INT, False)
        # math.ceil(a / b)
        if ast.unparse(f) == "math.ceil" and isinstance(e.args[0], ast.BinOp) and isinstance(e.args[0].op, ast.Div):
            (a, ta, _), (b, tb, _) = expr(e.args[0].left, cx), expr(e.args[0].right, cx)
            if ta == tb == INT: return (f"(ceil_div {a} {b})", INT, False)
        if ast.unparse(f) == "cbor2.dumps" and len(e.args) == 1:
            a, ta, ra = expr(e.args[0], cx)
            if ta == STR and not ra: return (f"(cbor_dumps_text {a})", BYTES, False)
        if isinstance(f, ast.Attribute) and isinstance(f.value, ast.Name) and f.value.id == "self" and f.attr in cx.methods:
            ptypes, rt, mut = cx.methods[f.attr]
            args = [expr(a, cx) for a in e.args]
            if any(r for _, _, r in args): raise Unsupported(e, "effectful arg")
            return (f"({f.attr} {cx.selfv} " + " ".join(g for g, _, _ in args) + ")", rt, True)
        if isinstance(f, ast.Attribute):
            recv, tr, rr = expr(f.value, cx)
            kw = {k.arg: k.value for k in e.keywords}
            if f.attr == "to_bytes" and tr == INT:
                n = expr(e.args[0], cx)[0]
                order = kw.get("byteorder") or (e.args[1] if len(e.args) > 1 else None)
                if not (isinstance(order, ast.Constant) and order.value in ("big", "little")): raise Unsupported(e, "byteorder")
                return (f"(to_bytes_{order.value} {n} {recv})", BYTES, True)
            if f.attr == "ljust" and tr == BYTES:
                n, fill = expr(e.args[0], cx), e.args[1]
                if not (isinstance(fill, ast.Constant) and isinstance(fill.value, bytes) and len(fill.value) == 1): raise Unsupported(e, "fill")
                return (f"(ljust {recv} {n[0]} {fill.value[0]})", BYTES, False)
            if isinstance(f.value, ast.Name) and f.value.id == "self" and f.attr in cx.methods:
                ptypes, rt, mut = cx.methods[f.attr]
                args = [expr(a, cx) for a in e.args]
                if any(r for _, _, r in args): raise Unsupported(e, "effectful arg")
                return (f"({f.attr} {cx.selfv} " + " ".join(g for g, _, _ in args) + ")", rt, True)
        raise Unsupported(e)
    raise Unsupported(e)

def bind(term_t_r, cx, base, k):
    """bind a (possibly res) expression to a fresh ident then continue with k(ident, type)"""
    g, t, r = term_t_r
    v = cx.fresh(base)
    if r: return f"match {g} with Raise x => Raise x | Ok {v} =>\n{k(v, t)} end"
    return f"let {v} := {g} in\n{k(v, t)}"

def flatten_effects(e, cx, k):
    """Evaluate nested effectful sub-expressions of a `+` chain left to right (only shape needed here)."""
    if isinstance(e, ast.BinOp) and isinstance(e.op, ast.Add):
        return flatten_effects(e.left, cx, lambda a, ta: flatten_effects(e.right, cx, lambda b, tb:
            k(f"({a} ++ {b})" if ta == BYTES else f"({a} + {b})", ta)))
    g, t, r = expr(e, cx)
    if r:
        v = cx.fresh("t")
        return f"match {g} with Raise x => Raise x | Ok {v} =>\n{k(v, t)} end"
    return k(g, t)

def block(stmts, cx, ret_self):
    if not stmts:
        return f"Ok {cx.selfv}" if ret_self else "Ok tt"
    s, rest = stmts[0], stmts[1:]
    if isinstance(s, ast.Expr) and isinstance(s.value, ast.Constant) and isinstance(s.value.value, str):
        return block(rest, cx, ret_self)  # docstring
    if isinstance(s, ast.Return):
        if s.value is None: return f"Ok {cx.selfv}" if ret_self else "Ok tt"
        return flatten_effects(s.value, cx, lambda g, t: f"Ok {g}")
    if isinstance(s, ast.Raise):
        return f"Raise {s.exc.func.id if isinstance(s.exc, ast.Call) else s.exc.id}"
    if isinstance(s, (ast.Assign, ast.AugAssign)):
        tgt = s.targets[0] if isinstance(s, ast.Assign) else s.target
        val = s.value if isinstance(s, ast.Assign) else ast.BinOp(left=tgt, op=s.op, right=s.value)
        def k(g, t):
            c2 = cx  # mutate in place: straight-line SSA
            if isinstance(tgt, ast.Name):
                v = c2.fresh(tgt.id); c2.vars[tgt.id] = (v, t)
                return f"let {v} := {g} in\n{block(rest, c2, ret_self)}"
            if isinstance(tgt, ast.Attribute) and isinstance(tgt.value, ast.Name) and tgt.value.id == "self":
                v = c2.fresh("self"); old = c2.selfv; c2.selfv = v
                return f"let {v} := set_{tgt.attr} {g} {old} in\n{block(rest, c2, ret_self)}"
            raise Unsupported(tgt)
        return flatten_effects(val, cx, k)
    if isinstance(s, ast.If):
        c, tc, rc = expr(s.test, cx)
        if tc != BOOL or rc: raise Unsupported(s.test, "condition")
        ca, cb = cx.copy(), cx.copy()
        a = block(s.body + rest, ca, ret_self)
        cb.n = ca.n
        b = block(s.orelse + rest, cb, ret_self)
        cx.n = cb.n
        return f"if {c} then\n{textwrap.indent(a,'  ')}\nelse\n{textwrap.indent(b,'  ')}"
    if isinstance(s, ast.Expr) and isinstance(s.value, ast.Call):
        c = s.value
        if ast.unparse(c.func) == "self.uris.append":
            g, t, r = expr(c.args[0], cx)
            v = cx.fresh("self"); old = cx.selfv; cx.selfv = v
            return f"let {v} := set_uris (uris {old} ++ [{g}]) {old} in\n{block(rest, cx, ret_self)}"
    raise Unsupported(s)

def method(fn, fields, ptypes, methods, ret_self):
    params = {a.arg: (a.arg, ptypes[a.arg]) for a in fn.args.args if a.arg != "self"}
    cx = Ctx(fields, params, methods)
    body = block(fn.body, cx, ret_self)
    sig = " ".join(f"({a} : {gt(t)})" for a, (_, t) in params.items())
    return f"Definition {fn.name} (self : cache) {sig} :=\n{textwrap.indent(body,'  ')}."

def gt(t): return {INT: "Z", BOOL: "bool", BYTES: "list Z", STR: "pystr", LSTR: "list pystr"}[t]

if __name__ == "__main__":
    src = open(sys.argv[1]).read()
    tree = ast.parse(src)
    cls = next(n for n in tree.body if isinstance(n, ast.ClassDef) and n.name == "CachePartition")
    fns = {n.name: n for n in cls.body if isinstance(n, ast.FunctionDef)}
    fields = {"first_slot": BOOL, "cache_data": BYTES, "eb_size": INT, "uris": LSTR}
    methods = {"add_padding": ({"data": BYTES}, BYTES, False)}
    print("(* generated by pyg.py from", sys.argv[1], "- do not edit *)")
    print(method(fns["add_padding"], fields, {"data": BYTES}, methods, False)); print()
    print(method(fns["add_cache_slot"], fields, {"uri": STR, "data": BYTES}, methods, True))
