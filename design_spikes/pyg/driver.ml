open Model
let rec z_of_int n = if n = 0 then Z0 else if n > 0 then Zpos (pos_of_int n) else Zneg (pos_of_int (-n))
and pos_of_int n = if n = 1 then XH else if n land 1 = 0 then XO (pos_of_int (n lsr 1)) else XI (pos_of_int (n lsr 1))
let rec int_of_pos = function XH -> 1 | XO p -> 2 * int_of_pos p | XI p -> 2 * int_of_pos p + 1
let int_of_z = function Z0 -> 0 | Zpos p -> int_of_pos p | Zneg p -> - (int_of_pos p)
let () =
  let eb = int_of_string Sys.argv.(1) and n = int_of_string Sys.argv.(2) in
  let c = { first_slot = true; cache_data = []; eb_size = z_of_int eb; uris = [] } in
  let data = List.init n (fun i -> z_of_int (i land 255)) in
  match add_cache_slot c [z_of_int 117] data with
  | Ok c' -> List.iter (fun b -> Printf.printf "%02x" (int_of_z b)) c'.cache_data; print_newline ()
  | Raise _ -> print_endline "RAISE"
