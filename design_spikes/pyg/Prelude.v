From Coq Require Export ZArith List Bool Lia ZifyBool.
Export ListNotations.
Open Scope Z_scope.
Ltac Zify.zify_post_hook ::= Z.to_euclidean_division_equations.

Inductive exn := ValueError | OverflowError | GeneratorError | TypeError.
Inductive res (A : Type) := Ok (a : A) | Raise (e : exn).
Arguments Ok {A}. Arguments Raise {A}.

Definition pystr := list Z.   (* UTF-8 bytes *)
Definition blen {A} (l : list A) : Z := Z.of_nat (length l).
Definition ceil_div (a b : Z) : Z := (a + b - 1) / b.
Definition ljust (l : list Z) (n : Z) (fill : Z) : list Z := l ++ repeat fill (Z.to_nat (n - blen l)).
Definition bytes_of_ints (l : list Z) : res (list Z) :=
  if forallb (fun b => (0 <=? b) && (b <? 256)) l then Ok l else Raise ValueError.
Fixpoint be (w : nat) (x : Z) : list Z := match w with O => [] | S w' => be w' (x / 256) ++ [x mod 256] end.
Definition to_bytes_big (n x : Z) : res (list Z) :=
  if (0 <=? x) && (x <? 256 ^ n) then Ok (be (Z.to_nat n) x) else Raise OverflowError.
Fixpoint str_eqb (a b : pystr) : bool :=
  match a, b with [], [] => true | x :: a', y :: b' => (x =? y) && str_eqb a' b' | _, _ => false end.
Definition str_in (s : pystr) (l : list pystr) : bool := existsb (str_eqb s) l.
Definition head (major arg : Z) : list Z :=
  if arg <? 24 then [major * 32 + arg]
  else if arg <? 256 then [major * 32 + 24; arg]
  else if arg <? 65536 then (major * 32 + 25) :: be 2 arg
  else if arg <? 4294967296 then (major * 32 + 26) :: be 4 arg
  else (major * 32 + 27) :: be 8 arg.
Definition cbor_dumps_text (s : pystr) : list Z := head 3 (blen s) ++ s.

Record cache := { first_slot : bool; cache_data : list Z; eb_size : Z; uris : list pystr }.
Definition set_first_slot v c := {| first_slot := v; cache_data := cache_data c; eb_size := eb_size c; uris := uris c |}.
Definition set_cache_data v c := {| first_slot := first_slot c; cache_data := v; eb_size := eb_size c; uris := uris c |}.
Definition set_uris v c := {| first_slot := first_slot c; cache_data := cache_data c; eb_size := eb_size c; uris := v |}.
