Require Import Prelude GenCache.

Lemma blen_app {A} (a b : list A) : blen (a ++ b) = blen a + blen b.
Proof. unfold blen. rewrite app_length. lia. Qed.
Lemma blen_cons {A} (x : A) l : blen (x :: l) = 1 + blen l. Proof. unfold blen. cbn [length]. lia. Qed.
Lemma blen_nil {A} : blen (@nil A) = 0. Proof. reflexivity. Qed.
Lemma blen_nonneg {A} (l : list A) : 0 <= blen l. Proof. unfold blen; lia. Qed.
Lemma blen_ljust l n f : blen l <= n -> blen (ljust l n f) = n.
Proof. unfold ljust. intros. rewrite blen_app. unfold blen at 2. rewrite repeat_length. lia. Qed.
Lemma boi_len l l' : bytes_of_ints l = Ok l' -> l' = l.
Proof. unfold bytes_of_ints. destruct forallb; congruence. Qed.
Lemma be_length w x : length (be w x) = w.
Proof. revert x; induction w as [|w IH]; intros; cbn [be]; [reflexivity|]. rewrite app_length, IH. cbn. lia. Qed.
Lemma tbb_len n x l : 0 <= n -> to_bytes_big n x = Ok l -> blen l = n.
Proof. unfold to_bytes_big. destruct (_ && _); [|discriminate]. intros ? [= <-]. unfold blen. rewrite be_length. lia. Qed.
#[global] Hint Rewrite @blen_app @blen_cons @blen_nil : blen.

Lemma ceil_bounds a b : 0 < b -> 0 <= a -> a <= ceil_div a b * b < a + b.
Proof. intros. unfold ceil_div. lia. Qed.

(* generic destructor for translator output *)
Ltac step :=
  match goal with
  | |- context [if ?c then _ else _] => destruct c eqn:?
  | |- context [match ?x with Ok _ => _ | Raise _ => _ end] =>
      let E := fresh "E" in destruct x eqn:E; [| try discriminate]
  | H : bytes_of_ints _ = Ok _ |- _ => apply boi_len in H; subst
  | H : to_bytes_big _ _ = Ok _ |- _ => apply tbb_len in H; [|lia]
  end.

Theorem add_padding_aligned self data out :
  0 < eb_size self -> add_padding self data = Ok out ->
  blen out mod eb_size self = 0 /\ exists pad, out = data ++ pad /\ blen pad <> 1.
Proof.
  intros Heb. unfold add_padding.
  pose proof (blen_nonneg data) as Hl.
  pose proof (ceil_bounds (blen data) (eb_size self) Heb Hl) as Hb.
  pose proof (Z_mod_mult (ceil_div (blen data) (eb_size self)) (eb_size self)) as Hm0.
  pose proof (Z_mod_mult (ceil_div (blen data) (eb_size self) + 1) (eb_size self)) as Hm1.
  replace ((ceil_div (blen data) (eb_size self) + 1) * eb_size self) with
    (ceil_div (blen data) (eb_size self) * eb_size self + eb_size self) in Hm1 by ring.
  set (r := ceil_div (blen data) (eb_size self) * eb_size self) in *.
  cbv zeta.
  repeat step; intros [= <-]; try lia.
  all: try (split; [ replace (blen data) with r by lia; assumption | exists []; rewrite app_nil_r; split; [reflexivity | discriminate] ]).
  all: split; [ rewrite blen_ljust; [assumption | autorewrite with blen; lia] | ].
  all: unfold ljust; rewrite <- ?app_assoc; eexists; (split; [reflexivity|]).
  all: autorewrite with blen; unfold blen; rewrite ?repeat_length; fold (blen data); autorewrite with blen.
  Show.
  all: lia.
Qed.
Print Assumptions add_padding_aligned.
