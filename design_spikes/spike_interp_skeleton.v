From Coq Require Import ZArith List Bool Lia String.
Import ListNotations.
Open Scope string_scope.
Open Scope Z_scope.

Inductive exn := ValueError | SUITError | IndexError | TypeError | RecursionLimit.
Inductive res (A : Type) := Ok (a : A) | Raise (e : exn).
Arguments Ok {A}. Arguments Raise {A}.
Definition bind {A B} (x : res A) (f : A -> res B) : res B := match x with Ok a => f a | Raise e => Raise e end.
Notation "'do' x <- e ; k" := (bind e (fun x => k)) (at level 200, x name, e at level 100, k at level 200).

(* python values as seen after cbor2.loads / in descriptions *)
Inductive py := PInt (z : Z) | PBool (b : bool) | PNone | PBytes (b : list Z) | PStr (s : string)
              | PList (l : list py) | PDict (l : list (py * py)) | PTag (t : Z) (v : py) | POther (n : nat).

Inductive ty :=
| TInt | TUint | TBool | TNull | TTstr | TBstr
| TEnum (tbl : list (string * Z))
| TUnion (alts : list ty)
| TKeyValue (m : list (Z * string * ty)) (embedded : bool)
| TKVTuple (m : list (Z * string * ty))
| TList (elem : ty) (group : option nat)
| TBitfield (bit : ty) (nbits : nat)
| TTag (n : Z) (name : string) (inner : ty)
| TCbstr (inner : ty)
| TRef (name : string).

(* internal value tree *)
Inductive val := VAtom (p : py) | VUnion (i : nat) (v : val) | VKV (l : list (Z * string * val))
               | VList (l : list val) | VTag (n : Z) (v : val).

Section Interp.
  Variable dec : list Z -> res py.          (* deserialize_cbor: arbitrary in C17, the proved codec in C03 *)
  Variable enc : py -> res (list Z).        (* serialize_cbor *)
  Variable env : string -> option ty.       (* named (cyclic) types *)

  Definition ensure_cbor (p : py) : res (list Z) := match p with PBytes b => Ok b | _ => enc p end.

  Fixpoint lookup_id (m : list (Z * string * ty)) (k : py) : option (Z * string * ty) :=
    match m with [] => None
    | (i, n, t) :: r => match k with
                        | PInt z => if i =? z then Some (i, n, t) else lookup_id r k
                        | PBool b => if i =? (if b then 1 else 0) then Some (i, n, t) else lookup_id r k  (* True == 1 *)
                        | _ => lookup_id r k end
    end.

  Fixpoint mapM {A B} (f : A -> res B) (l : list A) : res (list B) :=
    match l with [] => Ok [] | x :: r => do y <- f x; do ys <- mapM f r; Ok (y :: ys) end.

  Fixpoint first_ok {A} (fs : list (unit -> res A)) (i : nat) : res (nat * A) :=
    match fs with [] => Raise ValueError
    | f :: r => match f tt with Ok a => Ok (i, a) | Raise ValueError => first_ok r (S i) | Raise e => Raise e end
    end.

  Fixpoint chunk2 (l : list py) : list py :=
    match l with a :: b :: r => PList [a; b] :: chunk2 r | [a] => [PList [a]] | [] => [] end.

  Fixpoint from_cbor (fuel : nat) (t : ty) (b : list Z) {struct fuel} : res val :=
    match fuel with O => Raise RecursionLimit | S f =>
    match t with
    | TInt => do p <- dec b; match p with PInt _ | PBool _ | PNone => Ok (VAtom p) | _ => Raise ValueError end
    | TUint => do p <- dec b; match p with PInt z => if z <? 0 then Raise ValueError else Ok (VAtom p)
                                          | PBool _ | PNone => Ok (VAtom p) | _ => Raise ValueError end
    | TBool => do p <- dec b; match p with PBool _ | PNone => Ok (VAtom p) | _ => Raise ValueError end
    | TNull => do p <- dec b; match p with PNone => Ok (VAtom p) | _ => Raise ValueError end
    | TTstr => do p <- dec b; match p with PStr _ | PNone => Ok (VAtom p) | _ => Raise ValueError end
    | TBstr => Ok (VAtom (PBytes b))
    | TEnum tbl => do p <- dec b;
        match p with
        | PInt z => match find (fun e => snd e =? z) tbl with Some (n, _) => Ok (VAtom (PStr n)) | None => Raise ValueError end
        | _ => Raise ValueError end
    | TUnion alts => do r <- first_ok (map (fun a (_ : unit) => from_cbor f a b) alts) 0; Ok (VUnion (fst r) (snd r))
    | TKeyValue m emb => do p <- dec b;
        match p with
        | PDict kvs =>
            do l <- mapM (fun kv => match lookup_id m (fst kv) with
                                    | Some (i, n, t') => do c <- ensure_cbor (snd kv); do v <- from_cbor f t' c; Ok (i, n, v)
                                    | None => Raise ValueError
                                    end) kvs;
            Ok (VKV l)
        | _ => Raise ValueError end
    | TKVTuple m => do p <- dec b;
        match p with
        | PList [k; v] => match lookup_id m k with
                          | Some (i, n, t') => do c <- ensure_cbor v; do x <- from_cbor f t' c; Ok (VKV [(i, n, x)])
                          | None => Raise ValueError end
        | _ => Raise ValueError end
    | TList e g => do p <- dec b;
        match p with
        | PList l => let l' := match g with Some _ => chunk2 l | None => l end in
                     do vs <- mapM (fun x => do c <- ensure_cbor x; from_cbor f e c) l'; Ok (VList vs)
        | _ => Raise ValueError end
    | TBitfield bit n => do p <- dec b;
        match p with PInt _ | PBool _ => Ok (VAtom p) (* simplified *) | _ => Raise ValueError end
    | TTag n _ inner => do p <- dec b;
        match p with
        | PTag t v => if t =? n then do c <- enc v; do x <- from_cbor f inner c; Ok (VTag n x) else Raise SUITError
        | _ => Raise SUITError end
    | TCbstr inner => from_cbor f inner b
    | TRef name => match env name with Some t' => from_cbor f t' b | None => Raise ValueError end
    end end.

  Definition clean {A} (r : res A) : Prop :=
    match r with Raise IndexError | Raise TypeError => False | _ => True end.
End Interp.


(* ---- C17 on the skeleton: no internal error for ANY decoder / encoder / environment ---- *)
Section Clean.
  Variable dec : list Z -> res py.
  Variable enc : py -> res (list Z).
  Variable env : string -> option ty.

  Lemma bind_clean {A B} (x : res A) (f : A -> res B) :
    clean x -> (forall a, clean (f a)) -> clean (bind x f).
  Proof. destruct x as [a|e]; cbn; intros Hx Hf; [apply Hf | exact Hx]. Qed.

  Lemma mapM_clean {A B} (f : A -> res B) l : (forall a, clean (f a)) -> clean (mapM f l).
  Proof.
    intros Hf. induction l as [|x l IH]; cbn [mapM]; [exact I|].
    apply bind_clean; [apply Hf|]. intros y. apply bind_clean; [exact IH|]. intros ys. exact I.
  Qed.

  Lemma first_ok_clean {A} (fs : list (unit -> res A)) i :
    Forall (fun f => clean (f tt)) fs -> clean (first_ok fs i).
  Proof.
    revert i. induction fs as [|f fs IH]; intros i HF; cbn [first_ok]; [exact I|].
    inversion HF as [|? ? Hf Hr]; subst.
    destruct (f tt) as [a|[]]; cbn in *; try exact I; try contradiction. apply IH; assumption.
  Qed.

  Lemma ensure_clean p : (forall q, clean (enc q)) -> clean (ensure_cbor enc p).
  Proof. intros He. destruct p; cbn; try apply He; exact I. Qed.

  Hypothesis dec_clean : forall b, clean (dec b).   (* deserialize_cbor wraps every exception into ValueError *)
  Hypothesis enc_clean : forall p, clean (enc p).   (* serialize_cbor likewise *)

  Theorem no_internal_error : forall fuel t b, clean (from_cbor dec enc env fuel t b).
  Proof.
    induction fuel as [|f IH]; intros t b; [exact I|].
    destruct t; cbn [from_cbor].
    all: try (apply bind_clean; [apply dec_clean|]; intros p).
    - destruct p; exact I.
    - destruct p; try exact I. destruct (z <? 0); exact I.
    - destruct p; exact I.
    - destruct p; exact I.
    - destruct p; exact I.
    - exact I.
    - destruct p; try exact I. destruct (find _ tbl) as [[n z']|]; exact I.
    - apply bind_clean; [|intros r; exact I]. apply first_ok_clean.
      apply Forall_forall. intros g Hg. apply in_map_iff in Hg. destruct Hg as (a & <- & _). apply IH.
    - destruct p; try exact I. apply bind_clean; [|intros; exact I]. apply mapM_clean. intros [k v]. cbn [fst snd].
      destruct (lookup_id m k) as [[[i n] t']|]; [|exact I].
      apply bind_clean; [apply ensure_clean, enc_clean|]. intros c. apply bind_clean; [apply IH|]. intros; exact I.
    - destruct p; try exact I. destruct l as [|k [|v [|? ?]]]; try exact I.
      destruct (lookup_id m k) as [[[i n] t']|]; [|exact I].
      apply bind_clean; [apply ensure_clean, enc_clean|]. intros c. apply bind_clean; [apply IH|]. intros; exact I.
    - destruct p; try exact I. apply bind_clean; [|intros; exact I]. apply mapM_clean. intros x.
      apply bind_clean; [apply ensure_clean, enc_clean|]. intros c. apply IH.
    - destruct p; exact I.
    - destruct p as [| | | | | | |tg pv|]; try exact I. destruct (tg =? n); [|exact I].
      apply bind_clean; [apply enc_clean|]. intros c. apply bind_clean; [apply IH|]. intros; exact I.
    - apply IH.
    - destruct (env name); [apply IH | exact I].
  Qed.
End Clean.
Print Assumptions no_internal_error.

(* a cyclic toy grammar: sequences of [code, arg] with run-sequence nesting *)
Definition cond : ty := TKVTuple [(14, "abort", TUint)].
Definition dirv : ty := TKVTuple [(32, "run-sequence", TCbstr (TRef "seq")); (12, "set-index", TUint)].
Definition seq : ty := TList (TUnion [cond; dirv]) (Some 2%nat).
Definition envf (n : string) : option ty := if String.eqb n "seq" then Some seq else None.
Definition toy_dec (b : list Z) : res py :=
  match b with
  | [1] => Ok (PList [PInt 32; PBytes [2]]) | [2] => Ok (PList [PInt 14; PInt 0; PInt 12; PInt 7])
  | [3] => Ok (PList [PInt 14; PInt 0]) | [4] => Ok (PList [PInt 12; PInt 7]) | [5] => Ok (PInt 0) | [6] => Ok (PInt 7)
  | [7] => Ok (PList [PInt 12; PStr "x"]) | _ => Raise ValueError end.
Definition toy_enc (p : py) : res (list Z) :=
  match p with
  | PList [PInt 32; _] => Ok [1] | PList [PInt 14; _] => Ok [3] | PList [PInt 12; PInt _] => Ok [4]
  | PInt 0 => Ok [5] | PInt 7 => Ok [6] | _ => Raise ValueError end.
Eval vm_compute in from_cbor toy_dec toy_enc envf 20 seq [1].
Eval vm_compute in from_cbor toy_dec toy_enc envf 3 seq [1].   (* recursion budget exhausted *)
