From Coq Require Import ZArith List Bool Lia.
From Rt Require Import Cbor.
Import ListNotations.
Open Scope Z_scope.

Inductive exn := ValueError | SUITError | RecursionLimit.
Inductive res (A : Type) := Ok (a : A) | Raise (e : exn).
Arguments Ok {A}. Arguments Raise {A}.
Definition bind {A B} (x : res A) (f : A -> res B) : res B := match x with Ok a => f a | Raise e => Raise e end.
Notation "'do' x <- e ; k" := (bind e (fun x => k)) (at level 200, x name, e at level 100, k at level 200).

(* ---- the library layer: cbor2.loads / dumps as the proved codec ---- *)
Definition dec (b : list Z) : res cbor :=
  match decode (S (length b)) b with Some (c, _) => Ok c | None => Raise ValueError end.   (* trailing bytes ignored *)
Definition enc (c : cbor) : list Z := encode c.

Lemma head_nonempty m a : (1 <= length (head m a))%nat.
Proof. unfold head. repeat (destruct (_ <? _)); cbn; lia. Qed.

Lemma depth_le_len : forall c, (depth c <= length (encode c))%nat.
Proof.
  induction c using cbor_ind'; cbn [depth encode]; rewrite ?app_length.
  - pose proof (head_nonempty 0 n); lia.
  - pose proof (head_nonempty 1 n); lia.
  - pose proof (head_nonempty 2 (blen b)); lia.
  - pose proof (head_nonempty 3 (blen b)); lia.
  - pose proof (head_nonempty 4 (blen l)) as Hh.
    enough (fold_right (fun x m => Nat.max (depth x) m) 0%nat l <= length (flat_map encode l))%nat by lia.
    clear Hh. induction H as [|x l Hx Hl IH]; cbn [fold_right flat_map]; [lia|]. rewrite app_length. lia.
  - pose proof (head_nonempty 5 (blen l)) as Hh.
    enough (fold_right (fun kv m => Nat.max (Nat.max (depth (fst kv)) (depth (snd kv))) m) 0%nat l
            <= length (flat_map (fun kv => encode (fst kv) ++ encode (snd kv)) l))%nat by lia.
    clear Hh. induction H as [|x l [Hk Hv] Hl IH]; cbn [fold_right flat_map]; [lia|]. rewrite !app_length. lia.
  - pose proof (head_nonempty 6 t); lia.
  - cbn. lia.
Qed.

Theorem dec_enc c : wf c -> dec (enc c) = Ok c.
Proof.
  intros Hw. unfold dec, enc. pose proof (decode_encode c Hw (S (length (encode c))) []) as H.
  rewrite app_nil_r in H. rewrite H; [reflexivity|]. pose proof (depth_le_len c). lia.
Qed.


(* ================= interpreter fragment ================= *)
Inductive ty := TUint | TBstr | TCbstr (t : ty) | TKVTuple (m : list (Z * ty)) | TSeq (e : ty) | TUnion (alts : list ty) | TRef.
Inductive val := VInt (z : Z) | VBytes (b : list Z) | VKV (i : Z) (v : val) | VList (l : list val) | VUnion (i : nat) (v : val).

Fixpoint lookup (i : Z) (m : list (Z * ty)) : option ty :=
  match m with [] => None | (k, t) :: r => if k =? i then Some t else lookup i r end.
Fixpoint mapM {A B} (f : A -> res B) (l : list A) : res (list B) :=
  match l with [] => Ok [] | x :: r => do y <- f x; do ys <- mapM f r; Ok (y :: ys) end.
Fixpoint first_ok {A} (fs : list (unit -> res A)) (i : nat) : res (nat * A) :=
  match fs with [] => Raise ValueError
  | f :: r => match f tt with Ok a => Ok (i, a) | Raise ValueError => first_ok r (S i) | Raise e => Raise e end end.
Fixpoint chunk2 (l : list cbor) : list cbor :=
  match l with a :: b :: r => CArray [a; b] :: chunk2 r | [a] => [CArray [a]] | [] => [] end.
Definition ensure_cbor (c : cbor) : list Z := match c with CBytes b => b | _ => enc c end.
Definition bytes_okb (b : list Z) : bool := forallb (fun x => (0 <=? x) && (x <? 256)) b.

Section I.
  Variable envt : ty.   (* the one named (cyclic) type *)

  (* what the object serialises to, as an item: to_cbor t v = enc (to_item t v) *)
  Fixpoint to_item (fuel : nat) (t : ty) (v : val) {struct fuel} : res cbor :=
    match fuel with O => Raise RecursionLimit | S f =>
    match t, v with
    | TUint, VInt z => if (0 <=? z) && (z <? 2^64) then Ok (CUint z) else Raise ValueError
    | TBstr, VBytes b => if bytes_okb b && (blen b <? 2^64) then Ok (CBytes b) else Raise ValueError
    | TCbstr t', _ => do c <- to_item f t' v;
                      if blen (enc c) <? 2^64 then Ok (CBytes (enc c)) else Raise ValueError
    | TKVTuple m, VKV i x => match lookup i m with
                             | Some t' => if (0 <=? i) && (i <? 2^64) then do c <- to_item f t' x; Ok (CArray [CUint i; c]) else Raise ValueError
                             | None => Raise ValueError end
    | TSeq e, VList vs => do items <- mapM (fun x => do c <- to_item f e x; match c with CArray l => Ok l | _ => Ok [c] end) vs;
                          if blen (concat items) <? 2^64 then Ok (CArray (concat items)) else Raise ValueError
    | TUnion alts, VUnion i x => match nth_error alts i with Some t' => to_item f t' x | None => Raise ValueError end
    | TRef, _ => to_item f envt v
    | _, _ => Raise ValueError
    end end.

  Fixpoint from_cbor (fuel : nat) (t : ty) (b : list Z) {struct fuel} : res val :=
    match fuel with O => Raise RecursionLimit | S f =>
    match t with
    | TUint => do c <- dec b; match c with CUint z => Ok (VInt z) | _ => Raise ValueError end
    | TBstr => Ok (VBytes b)
    | TCbstr t' => from_cbor f t' b
    | TKVTuple m => do c <- dec b;
        match c with
        | CArray [CUint i; x] => match lookup i m with Some t' => do v <- from_cbor f t' (ensure_cbor x); Ok (VKV i v) | None => Raise ValueError end
        | _ => Raise ValueError end
    | TSeq e => do c <- dec b;
        match c with CArray l => do vs <- mapM (fun x => from_cbor f e (ensure_cbor x)) (chunk2 l); Ok (VList vs) | _ => Raise ValueError end
    | TUnion alts => do r <- first_ok (map (fun a (_ : unit) => from_cbor f a b) alts) 0; Ok (VUnion (fst r) (snd r))
    | TRef => from_cbor f envt b
    end end.
End I.

(* the toy cyclic grammar: seq ::= [ (14, uint) | (32, bstr .cbor seq) | (12, uint) ]* *)
Definition cond : ty := TKVTuple [(14, TUint)].
Definition dirv : ty := TKVTuple [(32, TCbstr TRef); (12, TUint)].
Definition seq : ty := TSeq (TUnion [cond; dirv]).
Definition v0 : val := VList [VUnion 1 (VKV 32 (VList [VUnion 0 (VKV 14 (VInt 0)); VUnion 1 (VKV 12 (VInt 300))])); VUnion 0 (VKV 14 (VInt 7))].
Eval vm_compute in (do c <- to_item seq 20 seq v0; Ok (enc c)).
Eval vm_compute in (do c <- to_item seq 20 seq v0; from_cbor seq 20 seq (ensure_cbor c)).

(* ================= generic round trip, union condition as the only grammar-specific obligation ================= *)
Lemma wf_list_app a b : wf_list (a ++ b) <-> wf_list a /\ wf_list b.
Proof. induction a as [|x a IH]; cbn; [tauto|]. unfold wf_list in *. cbn. rewrite IH. tauto. Qed.

Section RT.
  Variable envt : ty.
  Notation to_item := (to_item envt).
  Notation from_cbor := (from_cbor envt).

  Definition compatible f t c (r : res val) : Prop :=
    match r with Raise ValueError => True | Ok v' => to_item f t v' = Ok c | Raise _ => False end.
  Definition item_level t := forall f v c, to_item f t v = Ok c -> ensure_cbor c = enc c.
  Definition pair_items e := forall f v c, to_item f e v = Ok c -> exists a b, c = CArray [a; b].

  Variable G : ty -> Prop.            (* the types of the grammar *)
  Hypothesis G_env : G envt.
  Hypothesis G_cbstr : forall t, G (TCbstr t) -> G t /\ item_level t.
  Hypothesis G_kv : forall m i t, G (TKVTuple m) -> lookup i m = Some t -> G t.
  Hypothesis G_seq : forall e, G (TSeq e) -> G e /\ pair_items e.
  Hypothesis G_union : forall alts i t, G (TUnion alts) -> nth_error alts i = Some t -> G t.
  Hypothesis G_union_ok : forall alts, G (TUnion alts) ->
    forall f i x ti c, nth_error alts i = Some ti -> to_item f ti x = Ok c ->
    forall j tj, (j < i)%nat -> nth_error alts j = Some tj -> compatible f tj c (from_cbor f tj (ensure_cbor c)).

  Lemma bind_ok {A B} (x : res A) (f : A -> res B) b : bind x f = Ok b -> exists a, x = Ok a /\ f a = Ok b.
  Proof. destruct x; cbn; [eauto | discriminate]. Qed.

  Lemma mapM_ok {A B} (f : A -> res B) l ys : mapM f l = Ok ys -> Forall2 (fun x y => f x = Ok y) l ys.
  Proof.
    revert ys; induction l as [|x l IH]; cbn [mapM]; intros ys H.
    - injection H as <-. constructor.
    - apply bind_ok in H as (y & Hy & H). apply bind_ok in H as (ys' & Hys & H). injection H as <-. constructor; auto.
  Qed.

  Lemma to_item_wf : forall f t v c, to_item f t v = Ok c -> wf c.
  Proof using envt.
    clear G G_env G_cbstr G_kv G_seq G_union G_union_ok.
    induction f as [|f IH]; intros t v c H; [discriminate|]. cbn [Rt.to_item] in H.
    destruct t, v; try discriminate; try (apply IH in H; exact H).
    - destruct (_ && _) eqn:E; [|discriminate]. injection H as <-. cbn. lia.
    - destruct (_ && _) eqn:E; [|discriminate]. injection H as <-. cbn. lia.
    - apply bind_ok in H as (c0 & H0 & H). destruct (_ <? _) eqn:E; [|discriminate]. injection H as <-. cbn. lia.
    - apply bind_ok in H as (c0 & H0 & H). destruct (_ <? _) eqn:E; [|discriminate]. injection H as <-. cbn. lia.
    - apply bind_ok in H as (c0 & H0 & H). destruct (_ <? _) eqn:E; [|discriminate]. injection H as <-. cbn. lia.
    - apply bind_ok in H as (c0 & H0 & H). destruct (_ <? _) eqn:E; [|discriminate]. injection H as <-. cbn. lia.
    - apply bind_ok in H as (c0 & H0 & H). destruct (_ <? _) eqn:E; [|discriminate]. injection H as <-. cbn. lia.
    - destruct (lookup i m) as [t'|]; [|discriminate]. destruct (_ && _) eqn:E; [|discriminate].
      apply bind_ok in H as (c0 & H0 & H). injection H as <-. apply IH in H0. cbn. repeat split; try lia; auto.
    - apply bind_ok in H as (items & Hi & H). destruct (_ <? _) eqn:E; [|discriminate]. injection H as <-.
      change (wf (CArray (concat items))) with (blen (concat items) < 2^64 /\ wf_list (concat items)).
      split; [lia|]. apply mapM_ok in Hi. clear E.
      induction Hi as [|x its l its' Hx Hl IHl]; cbn [concat]; [exact I|].
      apply wf_list_app. split; [|exact IHl].
      apply bind_ok in Hx as (c0 & H0 & Hx). apply IH in H0.
      destruct c0 as [n|n|bb|bb|ll|ll|tt cc|sv]; injection Hx as <-; try (cbn; auto; fail).
      change (wf (CArray ll)) with (blen ll < 2^64 /\ wf_list ll) in H0. tauto.
    - destruct (nth_error alts i); [|discriminate]. apply IH in H. exact H.
  Qed.

  Definition RTat f := forall t v c, G t -> to_item f t v = Ok c ->
    exists v', from_cbor f t (ensure_cbor c) = Ok v' /\ to_item f t v' = Ok c.

  Lemma first_ok_hit {A} (fs : list (unit -> res A)) k i (P : A -> Prop) :
    (i < length fs)%nat ->
    (forall j g, (j < i)%nat -> nth_error fs j = Some g -> match g tt with Raise ValueError => True | Ok a => P a | _ => False end) ->
    (forall g, nth_error fs i = Some g -> exists a, g tt = Ok a /\ P a) ->
    exists j a, first_ok fs k = Ok ((k + j)%nat, a) /\ (j <= i)%nat /\ P a /\ exists g, nth_error fs j = Some g /\ g tt = Ok a.
  Proof.
    revert k i. induction fs as [|g fs IH]; intros k i Hi Hlt Hat; [cbn in Hi; lia|].
    cbn [first_ok]. destruct i as [|i].
    - destruct (Hat g eq_refl) as (a & Ha & HP). rewrite Ha. exists 0%nat, a. rewrite Nat.add_0_r. repeat split; auto. exists g; auto.
    - pose proof (Hlt 0%nat g ltac:(lia) eq_refl) as H0. destruct (g tt) as [a|[]] eqn:Eg; try contradiction.
      + exists 0%nat, a. rewrite Nat.add_0_r. repeat split; auto; try lia. exists g; auto.
      + destruct (IH (S k) i) as (j & a & Hf & Hj & HP & g' & Hg' & Hga).
        * cbn in Hi; lia.
        * intros j g' Hj Hg'. apply (Hlt (S j) g'); [lia | exact Hg'].
        * intros g' Hg'. apply Hat. exact Hg'.
        * exists (S j), a. replace (k + S j)%nat with (S k + j)%nat by lia. repeat split; auto; try lia. exists g'; auto.
  Qed.

  Theorem roundtrip : forall f, RTat f.
  Proof.
    induction f as [|f IH]; intros t v c HG H; [discriminate|]. cbn [Rt.to_item] in H.
    destruct t.
    - (* TUint *) destruct v; try discriminate. destruct (_ && _) eqn:E; [|discriminate]. injection H as <-.
      exists (VInt z). cbn [Rt.from_cbor Rt.to_item ensure_cbor]. rewrite dec_enc by (cbn; lia). cbn [bind]. rewrite E. auto.
    - (* TBstr *) destruct v; try discriminate. destruct (_ && _) eqn:E; [|discriminate]. injection H as <-.
      exists (VBytes b). cbn [Rt.from_cbor Rt.to_item ensure_cbor]. rewrite E. auto.
    - (* TCbstr *) assert (H' : exists c0, to_item f t v = Ok c0 /\ (blen (enc c0) <? 2^64) = true /\ c = CBytes (enc c0)).
      { destruct v; apply bind_ok in H as (c0 & H0 & H); destruct (_ <? _) eqn:E; try discriminate; injection H as <-; eauto. }
      destruct H' as (c0 & H0 & E & ->). destruct (G_cbstr t HG) as [Gt Hil].
      destruct (IH t v c0 Gt H0) as (v' & Hf & Ht). rewrite (Hil f v c0 H0) in Hf.
      exists v'. cbn [Rt.from_cbor ensure_cbor]. split; [exact Hf|].
      cbn [Rt.to_item]. destruct v'; rewrite Ht; cbn [bind]; rewrite E; reflexivity.
    - (* TKVTuple *) destruct v; try discriminate. destruct (lookup i m) as [t'|] eqn:El; [|discriminate].
      destruct (_ && _) eqn:E; [|discriminate]. apply bind_ok in H as (c0 & H0 & H). injection H as <-.
      destruct (IH t' v c0 (G_kv m i t' HG El) H0) as (v' & Hf & Ht).
      exists (VKV i v'). cbn [Rt.from_cbor ensure_cbor].
      rewrite dec_enc by (pose proof (to_item_wf _ _ _ _ H0); cbn; repeat split; auto; lia).
      cbn [bind]. rewrite El, Hf. cbn [bind]. split; [reflexivity|]. cbn [Rt.to_item]. rewrite El, E, Ht. reflexivity.
    - (* TSeq *) destruct v; try discriminate. apply bind_ok in H as (items & Hi & H).
      destruct (_ <? _) eqn:E; [|discriminate]. injection H as <-.
      destruct (G_seq t HG) as [Ge Hp]. apply mapM_ok in Hi.
      assert (Hrec : exists vs', mapM (fun x => from_cbor f t (ensure_cbor x)) (chunk2 (concat items)) = Ok vs' /\
                       mapM (fun x => do c <- to_item f t x; match c with CArray l => Ok l | _ => Ok [c] end) vs' = Ok items).
      { clear E. induction Hi as [|x its l its' Hx Hl IHl]; [exists []; auto|].
        apply bind_ok in Hx as (c0 & H0 & Hx). destruct (Hp f x c0 H0) as (a & b & ->). injection Hx as <-.
        destruct (IH t x _ Ge H0) as (v' & Hf & Ht). destruct IHl as (vs' & Hm & Hm').
        exists (v' :: vs'). cbn [concat app chunk2 mapM]. rewrite Hf. cbn [bind]. rewrite Hm. cbn [bind]. split; [reflexivity|].
        rewrite Ht. cbn [bind]. rewrite Hm'. reflexivity. }
      destruct Hrec as (vs' & Hm & Hm'). exists (VList vs'). cbn [Rt.from_cbor ensure_cbor].
      pose proof (to_item_wf (S f) (TSeq t) (VList l) (CArray (concat items))) as Hw.
      cbn [Rt.to_item] in Hw. rewrite dec_enc.
      2:{ apply Hw. clear Hw.
          match goal with |- bind (mapM ?F l) _ = _ => assert (Hm0 : mapM F l = Ok items) end.
          { clear - Hi. induction Hi as [|x y l l' Hx Hl IHl]; cbn [mapM]; [reflexivity|]. rewrite Hx. cbn [bind]. rewrite IHl. reflexivity. }
          rewrite Hm0. cbn [bind]. rewrite E. reflexivity. }
      cbn [bind]. rewrite Hm. cbn [bind]. split; [reflexivity|]. cbn [Rt.to_item]. rewrite Hm'. cbn [bind]. rewrite E. reflexivity.
    - (* TUnion *) destruct v; try discriminate. destruct (nth_error alts i) as [ti|] eqn:En; [|discriminate].
      pose proof (G_union alts i ti HG En) as Gi. destruct (IH ti v c Gi H) as (v' & Hf & Ht).
      destruct (first_ok_hit (map (fun a (_ : unit) => from_cbor f a (ensure_cbor c)) alts) 0 i
                  (fun r => exists j tj, nth_error alts j = Some tj /\ True) ) as (j & a & Hfo & Hj & _ & g & Hg & Hga).
      + rewrite map_length. apply nth_error_Some. congruence.
      + intros j g Hj Hg. rewrite nth_error_map in Hg. destruct (nth_error alts j) as [tj|] eqn:Ej; [|discriminate].
        injection Hg as <-. pose proof (G_union_ok alts HG f i v ti c En H j tj Hj Ej) as Hc. unfold compatible in Hc.
        destruct (from_cbor f tj (ensure_cbor c)) as [a|[]]; auto. exists j, tj; auto.
      + intros g Hg. rewrite nth_error_map, En in Hg. injection Hg as <-. exists v'. split; [exact Hf|]. exists i, ti; auto.
      + (* the alternative that fired, j <= i, re-encodes to c *)
        rewrite nth_error_map in Hg. destruct (nth_error alts j) as [tj|] eqn:Ej; [|discriminate]. injection Hg as <-.
        exists (VUnion j a). cbn [Rt.from_cbor]. rewrite Hfo. cbn [bind fst snd]. split; [reflexivity|]. cbn [Rt.to_item]. rewrite Ej.
        destruct (Nat.eq_dec j i) as [->|Hne].
        * rewrite En in Ej. injection Ej as <-. rewrite Hf in Hga. injection Hga as <-. exact Ht.
        * pose proof (G_union_ok alts HG f i v ti c En H j tj ltac:(lia) Ej) as Hc. unfold compatible in Hc.
          rewrite Hga in Hc. exact Hc.
    - (* TRef *) destruct (IH envt v c G_env H) as (v' & Hf & Ht). exists v'. cbn [Rt.from_cbor Rt.to_item]. auto.
  Qed.
End RT.


(* ================= the hypotheses are satisfiable: the toy command-sequence grammar ================= *)
Definition Gtoy (t : ty) : Prop :=
  t = seq \/ t = TUnion [cond; dirv] \/ t = cond \/ t = dirv \/ t = TCbstr TRef \/ t = TRef \/ t = TUint.

Lemma kv_item envt f m v c : to_item envt f (TKVTuple m) v = Ok c ->
  exists i t' x c0, v = VKV i x /\ lookup i m = Some t' /\ c = CArray [CUint i; c0] /\ (exists f', to_item envt f' t' x = Ok c0).
Proof.
  destruct f as [|f]; [discriminate|]. cbn [to_item]. destruct v; try discriminate.
  destruct (lookup i m) as [t'|] eqn:El; [|discriminate]. destruct (_ && _); [|discriminate].
  intros H. apply bind_ok in H as (c0 & H0 & H). injection H as <-. exists i, t', v, c0. repeat split; eauto.
Qed.

Theorem toy_roundtrip : forall f v c, to_item seq f seq v = Ok c ->
  exists v', from_cbor seq f seq (enc c) = Ok v' /\ to_item seq f seq v' = Ok c.
Proof.
  intros f v c H.
  assert (Hens : ensure_cbor c = enc c).
  { destruct f as [|f]; [discriminate|]. cbn [to_item seq] in H. destruct v; try discriminate.
    apply bind_ok in H as (items & _ & H). destruct (_ <? _); [|discriminate]. injection H as <-. reflexivity. }
  rewrite <- Hens. pose proof (roundtrip seq Gtoy) as R. unfold RTat in R. apply R with (v := v); clear R; try exact H.
  7:{ left; reflexivity. }
  - left; reflexivity.
  - (* cbstr wraps only the named sequence type, whose item is an array *)
    intros t Ht. unfold Gtoy in Ht. destruct Ht as [Ht|[Ht|[Ht|[Ht|[Ht|[Ht|Ht]]]]]]; try discriminate. injection Ht as ->.
    split; [right; right; right; right; right; left; reflexivity|].
    intros f' v' c' H'. destruct f' as [|f']; [discriminate|]. cbn [to_item] in H'.
    destruct f' as [|f']; [discriminate|]. cbn [to_item seq] in H'. destruct v'; try discriminate.
    apply bind_ok in H' as (items & _ & H'). destruct (_ <? _); [|discriminate]. injection H' as <-. reflexivity.
  - (* key-value children *)
    intros m i t Ht Hl. unfold Gtoy in Ht. destruct Ht as [Ht|[Ht|[Ht|[Ht|[Ht|[Ht|Ht]]]]]]; try discriminate.
    + injection Ht as ->. revert Hl. cbn [lookup]. destruct (14 =? i); intros Hl; [|discriminate]. injection Hl as <-. right; right; right; right; right; right; reflexivity.
    + injection Ht as ->. revert Hl. cbn [lookup]. destruct (32 =? i); [intros Hl; injection Hl as <-; right; right; right; right; left; reflexivity|].
      destruct (12 =? i); intros Hl; [|discriminate]. injection Hl as <-. right; right; right; right; right; right; reflexivity.
  - (* grouped sequence: elements are 2-arrays *)
    intros e Ht. unfold Gtoy in Ht. destruct Ht as [Ht|[Ht|[Ht|[Ht|[Ht|[Ht|Ht]]]]]]; try discriminate. injection Ht as ->.
    split; [right; left; reflexivity|].
    intros f' v' c' H'. destruct f' as [|f']; [discriminate|]. cbn [to_item] in H'. destruct v'; try discriminate.
    destruct i as [|[|i]]; cbn [nth_error] in H'; try discriminate.
    + apply kv_item in H' as (i & t' & x & c0 & _ & _ & -> & _). eauto.
    + apply kv_item in H' as (i & t' & x & c0 & _ & _ & -> & _). eauto.
    + destruct i; discriminate.
  - (* union children *)
    intros alts i t Ht Hn. unfold Gtoy in Ht. destruct Ht as [Ht|[Ht|[Ht|[Ht|[Ht|[Ht|Ht]]]]]]; try discriminate. injection Ht as ->.
    destruct i as [|[|i]]; cbn in Hn; try (injection Hn as <-).
    + right; right; left; reflexivity.
    + right; right; right; left; reflexivity.
    + destruct i; discriminate.
  - (* union compatibility: the code sets of conditions and directives are disjoint *)
    intros alts Ht f' i x ti c' Hn Hi j tj Hj Hnj. unfold Gtoy in Ht.
    destruct Ht as [Ht|[Ht|[Ht|[Ht|[Ht|[Ht|Ht]]]]]]; try discriminate. injection Ht as ->.
    destruct i as [|[|i]]; [lia| |destruct i; discriminate]. destruct j as [|j]; [|lia].
    cbn in Hn, Hnj. injection Hn as <-. injection Hnj as <-.
    pose proof (to_item_wf _ _ _ _ _ Hi) as Hw.
    destruct f' as [|f']; [discriminate|].
    apply kv_item in Hi as (k & t' & y & c0 & _ & Hl & -> & _).
    unfold compatible. cbn [from_cbor cond ensure_cbor]. rewrite dec_enc by exact Hw. cbn [bind].
    revert Hl. cbn [lookup dirv]. destruct (32 =? k) eqn:E32.
    + intros _. replace k with 32 by lia. cbn. exact I.
    + destruct (12 =? k) eqn:E12; intros Hl; [|discriminate]. replace k with 12 by lia. cbn. exact I.
Qed.
Print Assumptions toy_roundtrip.
