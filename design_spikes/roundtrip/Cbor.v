From Coq Require Import ZArith List Bool Lia ZifyBool.
Import ListNotations.
Open Scope Z_scope.
Ltac Zify.zify_post_hook ::= Z.to_euclidean_division_equations.
Notation byte := Z (only parsing).
Definition blen {A} (l : list A) : Z := Z.of_nat (length l).

Inductive cbor :=
| CUint (n : Z)            (* major 0, 0 <= n < 2^64 *)
| CNint (n : Z)            (* major 1, value -1-n, 0 <= n < 2^64 *)
| CBytes (b : list byte)
| CText (b : list byte)
| CArray (l : list cbor)
| CMap (l : list (cbor * cbor))
| CTag (t : Z) (c : cbor)
| CSimple (v : Z).         (* 20 false 21 true 22 null 23 undefined *)

(* big-endian, fixed width *)
Fixpoint be (w : nat) (x : Z) : list byte :=
  match w with O => [] | S w' => be w' (x / 256) ++ [x mod 256] end.
Fixpoint unbe (l : list byte) (acc : Z) : Z :=
  match l with [] => acc | b :: r => unbe r (acc * 256 + b) end.

Definition head (major arg : Z) : list byte :=
  if arg <? 24 then [major * 32 + arg]
  else if arg <? 256 then [major * 32 + 24; arg]
  else if arg <? 65536 then (major * 32 + 25) :: be 2 arg
  else if arg <? 4294967296 then (major * 32 + 26) :: be 4 arg
  else (major * 32 + 27) :: be 8 arg.

Fixpoint encode (c : cbor) : list byte :=
  match c with
  | CUint n => head 0 n
  | CNint n => head 1 n
  | CBytes b => head 2 (blen b) ++ b
  | CText b => head 3 (blen b) ++ b
  | CArray l => head 4 (blen l) ++ flat_map encode l
  | CMap l => head 5 (blen l) ++ flat_map (fun kv => encode (fst kv) ++ encode (snd kv)) l
  | CTag t c => head 6 t ++ encode c
  | CSimple v => [7 * 32 + v]
  end.

Definition take (n : Z) (l : list byte) : option (list byte * list byte) :=
  if n <=? blen l then Some (firstn (Z.to_nat n) l, skipn (Z.to_nat n) l) else None.

(* decode head: returns major, arg, rest; accepts any width (not only shortest) *)
Definition dhead (l : list byte) : option (Z * Z * list byte) :=
  match l with
  | [] => None
  | b :: r =>
    let major := b / 32 in let ai := b mod 32 in
    if ai <? 24 then Some (major, ai, r)
    else if ai =? 24 then match take 1 r with Some (x, r') => Some (major, unbe x 0, r') | None => None end
    else if ai =? 25 then match take 2 r with Some (x, r') => Some (major, unbe x 0, r') | None => None end
    else if ai =? 26 then match take 4 r with Some (x, r') => Some (major, unbe x 0, r') | None => None end
    else if ai =? 27 then match take 8 r with Some (x, r') => Some (major, unbe x 0, r') | None => None end
    else None
  end.

Section Items.
  Variable d : list byte -> option (cbor * list byte).
  Fixpoint dec_items (n : nat) (r : list byte) : option (list cbor * list byte) :=
    match n with O => Some ([], r) | S n' =>
      match d r with None => None | Some (c, r1) =>
        match dec_items n' r1 with None => None | Some (cs, r2) => Some (c :: cs, r2) end end end.
  Fixpoint dec_pairs (n : nat) (r : list byte) : option (list (cbor*cbor) * list byte) :=
    match n with O => Some ([], r) | S n' =>
      match d r with None => None | Some (k, r1) =>
      match d r1 with None => None | Some (v, r2) =>
        match dec_pairs n' r2 with None => None | Some (cs, r3) => Some ((k,v) :: cs, r3) end end end end.
End Items.

Fixpoint decode (fuel : nat) (l : list byte) : option (cbor * list byte) :=
  match fuel with O => None | S f =>
  match dhead l with None => None | Some (major, arg, r) =>
    if major =? 0 then Some (CUint arg, r)
    else if major =? 1 then Some (CNint arg, r)
    else if major =? 2 then match take arg r with Some (b, r') => Some (CBytes b, r') | None => None end
    else if major =? 3 then match take arg r with Some (b, r') => Some (CText b, r') | None => None end
    else if major =? 4 then
      match dec_items (decode f) (Z.to_nat arg) r with Some (cs, r') => Some (CArray cs, r') | None => None end
    else if major =? 5 then
      match dec_pairs (decode f) (Z.to_nat arg) r with Some (cs, r') => Some (CMap cs, r') | None => None end
    else if major =? 6 then match decode f r with Some (c, r') => Some (CTag arg c, r') | None => None end
    else if arg <? 24 then Some (CSimple arg, r) else None
  end end.

(* well-formedness *)
Definition bytes_ok (l : list byte) := Forall (fun b => 0 <= b < 256) l.
Fixpoint wf (c : cbor) : Prop :=
  match c with
  | CUint n | CNint n => 0 <= n < 2^64
  | CBytes b | CText b => blen b < 2^64
  | CArray l => blen l < 2^64 /\ (fix all (l : list cbor) := match l with [] => True | x :: r => wf x /\ all r end) l
  | CMap l => blen l < 2^64 /\ (fix all (l : list (cbor*cbor)) := match l with [] => True | (k,v) :: r => wf k /\ wf v /\ all r end) l
  | CTag t c => 0 <= t < 2^64 /\ wf c
  | CSimple v => 0 <= v < 24
  end.

Fixpoint depth (c : cbor) : nat :=
  match c with
  | CArray l => S (fold_right (fun x m => Nat.max (depth x) m) O l)
  | CMap l => S (fold_right (fun kv m => Nat.max (Nat.max (depth (fst kv)) (depth (snd kv))) m) O l)
  | CTag _ c => S (depth c)
  | _ => 1%nat
  end.

Lemma unbe_be w x acc : 0 <= x < 256 ^ Z.of_nat w -> unbe (be w x) acc = acc * 256 ^ Z.of_nat w + x.
Proof.
  revert x acc. induction w as [|w IH]; intros x acc Hx.
  - cbn. change (256 ^ Z.of_nat 0) with 1 in *. lia.
  - cbn [be]. 
    assert (Hu : forall l a b, unbe (l ++ [b]) a = unbe l a * 256 + b).
    { induction l as [|y l IHl]; intros a b; cbn; [lia| apply IHl]. }
    rewrite Hu. rewrite Nat2Z.inj_succ, Z.pow_succ_r in * by lia.
    rewrite IH by lia. lia.
Qed.

Lemma be_length w x : length (be w x) = w.
Proof. revert x; induction w as [|w IH]; intros; cbn [be]; [reflexivity|]. rewrite app_length, IH. cbn. lia. Qed.
Lemma be_len w x : blen (be w x) = Z.of_nat w.
Proof. unfold blen. rewrite be_length. reflexivity. Qed.

Lemma take_app a r : take (blen a) (a ++ r) = Some (a, r).
Proof.
  unfold take, blen. rewrite app_length. 
  destruct (_ <=? _) eqn:E; [|lia].
  rewrite Nat2Z.id. rewrite firstn_app, skipn_app, Nat.sub_diag, firstn_all, skipn_all. cbn. rewrite app_nil_r. reflexivity.
Qed.

Lemma dhead_head major arg r :
  0 <= major < 8 -> 0 <= arg < 2^64 -> dhead (head major arg ++ r) = Some (major, arg, r).
Proof.
  intros Hm Ha. unfold head.
  destruct (arg <? 24) eqn:E1.
  { cbn. replace ((major*32+arg)/32) with major by lia. replace ((major*32+arg) mod 32) with arg by lia. rewrite E1. reflexivity. }
  destruct (arg <? 256) eqn:E2.
  { cbn [app dhead]. replace ((major*32+24)/32) with major by lia. replace ((major*32+24) mod 32) with 24 by lia.
    change (24 <? 24) with false. change (24 =? 24) with true. cbv iota.
    change (arg :: r) with ([arg] ++ r). pose proof (take_app [arg] r) as T. change (blen [arg]) with 1 in T. rewrite T.
    cbn [unbe]. f_equal. }
  destruct (arg <? 65536) eqn:E3.
  { cbn [app dhead]. replace ((major*32+25)/32) with major by lia. replace ((major*32+25) mod 32) with 25 by lia.
    change (25 <? 24) with false. change (25 =? 24) with false. change (25 =? 25) with true. cbv iota.
    pose proof (take_app (be 2 arg) r) as T. rewrite be_len in T. change (Z.of_nat 2) with 2 in T. rewrite T.
    rewrite unbe_be by (change (256 ^ Z.of_nat 2) with 65536; lia). f_equal. }
  destruct (arg <? 4294967296) eqn:E4.
  { cbn [app dhead]. replace ((major*32+26)/32) with major by lia. replace ((major*32+26) mod 32) with 26 by lia.
    change (26 <? 24) with false. change (26 =? 24) with false. change (26 =? 25) with false. change (26 =? 26) with true. cbv iota.
    pose proof (take_app (be 4 arg) r) as T. rewrite be_len in T. change (Z.of_nat 4) with 4 in T. rewrite T.
    rewrite unbe_be by (change (256 ^ Z.of_nat 4) with 4294967296; lia). f_equal. }
  cbn [app dhead]. replace ((major*32+27)/32) with major by lia. replace ((major*32+27) mod 32) with 27 by lia.
  change (27 <? 24) with false. change (27 =? 24) with false. change (27 =? 25) with false. change (27 =? 26) with false. change (27 =? 27) with true. cbv iota.
  pose proof (take_app (be 8 arg) r) as T. rewrite be_len in T. change (Z.of_nat 8) with 8 in T. rewrite T.
  rewrite unbe_be by (change (256 ^ Z.of_nat 8) with (2^64); lia). f_equal.
Qed.

(* ---- round trip ---- *)
Definition wf_list (l : list cbor) := (fix all (l : list cbor) := match l with [] => True | x :: r => wf x /\ all r end) l.
Definition wf_pairs (l : list (cbor*cbor)) := (fix all (l : list (cbor*cbor)) := match l with [] => True | (k,v) :: r => wf k /\ wf v /\ all r end) l.

Section Ind.
  Variable P : cbor -> Prop.
  Hypothesis Huint : forall n, P (CUint n).
  Hypothesis Hnint : forall n, P (CNint n).
  Hypothesis Hbytes : forall b, P (CBytes b).
  Hypothesis Htext : forall b, P (CText b).
  Hypothesis Harr : forall l, Forall P l -> P (CArray l).
  Hypothesis Hmap : forall l, Forall (fun kv => P (fst kv) /\ P (snd kv)) l -> P (CMap l).
  Hypothesis Htag : forall t c, P c -> P (CTag t c).
  Hypothesis Hsimple : forall v, P (CSimple v).
  Fixpoint cbor_ind' (c : cbor) : P c :=
    match c with
    | CUint n => Huint n | CNint n => Hnint n | CBytes b => Hbytes b | CText b => Htext b
    | CArray l => Harr l ((fix go (l : list cbor) : Forall P l :=
                           match l with [] => Forall_nil _ | x :: r => Forall_cons _ (cbor_ind' x) (go r) end) l)
    | CMap l => Hmap l ((fix go (l : list (cbor*cbor)) : Forall (fun kv => P (fst kv) /\ P (snd kv)) l :=
                           match l with [] => Forall_nil _ | kv :: r => Forall_cons kv (conj (cbor_ind' (fst kv)) (cbor_ind' (snd kv))) (go r) end) l)
    | CTag t c => Htag t c (cbor_ind' c)
    | CSimple v => Hsimple v
    end.
End Ind.

Definition RT (c : cbor) : Prop :=
  wf c -> forall f r, (depth c <= f)%nat -> decode f (encode c ++ r) = Some (c, r).

Lemma dec_items_ok f l r :
  Forall RT l -> wf_list l -> (fold_right (fun x m => Nat.max (depth x) m) O l <= f)%nat ->
  dec_items (decode f) (length l) (flat_map encode l ++ r) = Some (l, r).
Proof.
  induction l as [|x l IH]; intros HF Hw Hd; cbn [length flat_map dec_items].
  - reflexivity.
  - inversion HF as [|? ? Hx Hl]; subst. destruct Hw as [Hwx Hwl]. cbn [fold_right] in Hd.
    rewrite <- app_assoc. rewrite (Hx Hwx) by lia. rewrite IH by (auto; lia). reflexivity.
Qed.

Lemma dec_pairs_ok f l r :
  Forall (fun kv => RT (fst kv) /\ RT (snd kv)) l -> wf_pairs l ->
  (fold_right (fun kv m => Nat.max (Nat.max (depth (fst kv)) (depth (snd kv))) m) O l <= f)%nat ->
  dec_pairs (decode f) (length l) (flat_map (fun kv => encode (fst kv) ++ encode (snd kv)) l ++ r) = Some (l, r).
Proof.
  induction l as [|[k v] l IH]; intros HF Hw Hd; cbn [length flat_map dec_pairs].
  - reflexivity.
  - inversion HF as [|? ? [Hk Hv] Hl]; subst. destruct Hw as (Hwk & Hwv & Hwl). cbn [fold_right fst snd] in *.
    rewrite <- !app_assoc. rewrite (Hk Hwk) by lia. rewrite (Hv Hwv) by lia. rewrite IH by (auto; lia). reflexivity.
Qed.

Theorem decode_encode : forall c, RT c.
Proof.
  induction c using cbor_ind'; unfold RT; intros Hw f r Hd; (destruct f as [|f]; [cbn in Hd; lia|]); cbn [encode decode].
  - rewrite dhead_head by (cbn in Hw; lia). reflexivity.
  - rewrite dhead_head by (cbn in Hw; lia). reflexivity.
  - cbn in Hw. pose proof Hw as Hl. rewrite <- app_assoc, dhead_head by (unfold blen in *; lia).
    change (2 =? 0) with false. change (2 =? 1) with false. change (2 =? 2) with true. cbv iota.
    rewrite take_app. reflexivity.
  - cbn in Hw. pose proof Hw as Hl. rewrite <- app_assoc, dhead_head by (unfold blen in *; lia).
    change (3 =? 0) with false. change (3 =? 1) with false. change (3 =? 2) with false. change (3 =? 3) with true. cbv iota.
    rewrite take_app. reflexivity.
  - cbn [wf] in Hw. destruct Hw as [Hl Hw]. rewrite <- app_assoc, dhead_head by (unfold blen in *; lia).
    change (4 =? 0) with false. change (4 =? 1) with false. change (4 =? 2) with false. change (4 =? 3) with false. change (4 =? 4) with true. cbv iota.
    unfold blen. rewrite Nat2Z.id. cbn [depth] in Hd. rewrite dec_items_ok by (auto; lia). reflexivity.
  - cbn [wf] in Hw. destruct Hw as [Hl Hw]. rewrite <- app_assoc, dhead_head by (unfold blen in *; lia).
    change (5 =? 0) with false. change (5 =? 1) with false. change (5 =? 2) with false. change (5 =? 3) with false. change (5 =? 4) with false. change (5 =? 5) with true. cbv iota.
    unfold blen. rewrite Nat2Z.id. cbn [depth] in Hd. rewrite dec_pairs_ok by (auto; lia). reflexivity.
  - cbn [wf] in Hw. destruct Hw as [Ht Hw]. rewrite <- app_assoc, dhead_head by lia.
    change (6 =? 0) with false. change (6 =? 1) with false. change (6 =? 2) with false. change (6 =? 3) with false. change (6 =? 4) with false. change (6 =? 5) with false. change (6 =? 6) with true. cbv iota.
    cbn [depth] in Hd. rewrite (IHc Hw) by lia. reflexivity.
  - cbn in Hw. cbn [app]. unfold dhead.
    replace ((7*32+v)/32) with 7 by lia. replace ((7*32+v) mod 32) with v by lia.
    destruct (v <? 24) eqn:E; [|lia].
    change (7 =? 0) with false. change (7 =? 1) with false. change (7 =? 2) with false. change (7 =? 3) with false. change (7 =? 4) with false. change (7 =? 5) with false. change (7 =? 6) with false. cbv iota. rewrite ?E. reflexivity.
Qed.

