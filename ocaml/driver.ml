(* driver for the extracted model: one hex-encoded CBOR request per input line, one hex-encoded CBOR reply per
   output line.  All decoding, dispatch and encoding happens in extracted Coq code (Model.serve). *)
open Model

let rec pos_of_int n = if n = 1 then XH else if n land 1 = 0 then XO (pos_of_int (n lsr 1)) else XI (pos_of_int (n lsr 1))
let ztab = Array.init 256 (fun n -> if n = 0 then Z0 else Zpos (pos_of_int n))
let rec int_of_pos = function XH -> 1 | XO p -> 2 * int_of_pos p | XI p -> 2 * int_of_pos p + 1
let int_of_z = function Z0 -> 0 | Zpos p -> int_of_pos p | Zneg p -> - (int_of_pos p)

let hexval c = match c with
  | '0'..'9' -> Char.code c - 48 | 'a'..'f' -> Char.code c - 87 | 'A'..'F' -> Char.code c - 55
  | _ -> failwith "bad hex"

let bytes_of_hex s =
  let n = String.length s / 2 in
  let rec go i acc = if i < 0 then acc else go (i - 1) (ztab.(hexval s.[2*i] * 16 + hexval s.[2*i+1]) :: acc) in
  go (n - 1) []

let hex_of_bytes l =
  let b = Buffer.create 256 in
  List.iter (fun z -> Buffer.add_string b (Printf.sprintf "%02x" ((int_of_z z) land 255))) l;
  Buffer.contents b

let () =
  try
    while true do
      let line = String.trim (input_line stdin) in
      if line <> "" then begin
        (try print_string (hex_of_bytes (serve (bytes_of_hex line)))
         with Stack_overflow -> print_string "STACKOVERFLOW" | Failure m -> print_string ("FAIL " ^ m));
        print_newline ()
      end
    done
  with End_of_file -> ()
