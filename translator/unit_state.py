"""GenState: abstract read/write programs of the stateful helper classes and the module-level state of the tool (C18).

For each class of interest every method becomes a tree of events (R attr | W attr | Call method | If | Loop) in
evaluation order; entry points are the methods a command calls on a fresh or reused object.  Also extracted: every
function body that stores into class-level `_metadata`, declares `global`, or mutates a module-level name.
Fails closed on constructs it does not understand (with/try are treated as non-definite regions, which is sound).
"""
import ast
import os


def s(x):
    return '(s2b "%s")' % x


MUTATORS = ("append", "update", "add", "setdefault", "extend", "pop", "clear", "insert", "remove", "popitem", "sort", "reverse")


class Prog:
    def __init__(self, cls, cls_obj):
        self.methods = {n.name for n in cls.body if isinstance(n, ast.FunctionDef)}
        self.cls_obj = cls_obj

    def class_level(self, attr):
        """The attribute exists on the class itself (a constant table, a method of a base class): reading it reads no
        per-object state.  MUTATING it is flagged (event M)."""
        return attr not in self.methods and hasattr(self.cls_obj, attr)

    def expr(self, e, out):
        """Events of evaluating an expression (reads and calls), in evaluation order."""
        if isinstance(e, ast.Call):
            f = e.func
            if isinstance(f, ast.Attribute) and isinstance(f.value, ast.Name) and f.value.id == "self" and f.attr in self.methods:
                for a in e.args:
                    self.expr(a, out)
                for k in e.keywords:
                    self.expr(k.value, out)
                out.append(("Call", f.attr))
                return
            # self.a.append(x) / self.a.update(...) mutate the object self.a holds
            if isinstance(f, ast.Attribute) and f.attr in MUTATORS and isinstance(f.value, ast.Attribute) \
                    and isinstance(f.value.value, ast.Name) and f.value.value.id == "self":
                for a in e.args:
                    self.expr(a, out)
                out.append(("R", f.value.attr))
                return
        if isinstance(e, ast.Attribute) and isinstance(e.value, ast.Name) and e.value.id == "self":
            if isinstance(e.ctx, ast.Load) and not self.class_level(e.attr):
                out.append(("R", e.attr))
            return
        for c in ast.iter_child_nodes(e):
            if isinstance(c, ast.expr):
                self.expr(c, out)
            elif isinstance(c, (ast.keyword, ast.comprehension)):
                for cc in ast.iter_child_nodes(c):
                    if isinstance(cc, ast.expr):
                        self.expr(cc, out)

    def target(self, t, out):
        if isinstance(t, ast.Attribute) and isinstance(t.value, ast.Name) and t.value.id == "self":
            out.append(("W", t.attr))
        elif isinstance(t, (ast.Tuple, ast.List)):
            for x in t.elts:
                self.target(x, out)
        else:
            # self.a[...] = v / self.a.b = v mutate the object self.a holds
            base = t
            while isinstance(base, (ast.Attribute, ast.Subscript)) and not (
                    isinstance(base, ast.Attribute) and isinstance(base.value, ast.Name) and base.value.id == "self"):
                base = base.value
            if isinstance(base, ast.Attribute):
                out.append(("R", base.attr))
            for c in ast.iter_child_nodes(t):
                if isinstance(c, ast.expr) and c is not getattr(t, "value", None):
                    self.expr(c, out)

    def block(self, stmts):
        out = []
        for st in stmts:
            if isinstance(st, ast.Expr):
                self.expr(st.value, out)
            elif isinstance(st, ast.Assign):
                self.expr(st.value, out)
                for t in st.targets:
                    self.target(t, out)
            elif isinstance(st, ast.AnnAssign):
                if st.value is not None:
                    self.expr(st.value, out)
                    self.target(st.target, out)
            elif isinstance(st, ast.AugAssign):
                self.expr(st.value, out)
                if isinstance(st.target, ast.Attribute) and isinstance(st.target.value, ast.Name) and st.target.value.id == "self":
                    out.append(("R", st.target.attr))
                self.target(st.target, out)
            elif isinstance(st, ast.Return):
                if st.value is not None:
                    self.expr(st.value, out)
            elif isinstance(st, ast.Raise):
                if st.exc is not None:
                    self.expr(st.exc, out)
            elif isinstance(st, ast.If):
                self.expr(st.test, out)
                out.append(("If", self.block(st.body), self.block(st.orelse)))
            elif isinstance(st, (ast.For, ast.While)):
                self.expr(st.iter if isinstance(st, ast.For) else st.test, out)
                out.append(("Loop", self.block(st.body) + self.block(st.orelse)))
            elif isinstance(st, ast.With):
                for it in st.items:
                    self.expr(it.context_expr, out)
                out.append(("Loop", self.block(st.body)))        # non-definite region
            elif isinstance(st, ast.Try):
                inner = self.block(st.body)
                for h in st.handlers:
                    inner += self.block(h.body)
                inner += self.block(st.orelse) + self.block(st.finalbody)
                out.append(("Loop", inner))                       # non-definite region
            elif isinstance(st, (ast.Pass, ast.Break, ast.Continue, ast.Import, ast.ImportFrom, ast.Global, ast.Nonlocal)):
                pass
            elif isinstance(st, (ast.FunctionDef, ast.ClassDef)):
                pass
            elif isinstance(st, ast.Assert):
                self.expr(st.test, out)
            elif isinstance(st, ast.Delete):
                for t in st.targets:
                    self.expr(t, out)
            else:
                raise ValueError(f"line {st.lineno}: statement {type(st).__name__} not understood")
        return out


def render(evs):
    parts = []
    for e in evs:
        if e[0] in ("R", "W"):
            parts.append(f"{e[0]} {s(e[1])}")
        elif e[0] == "Call":
            parts.append(f"Call {s(e[1])}")
        elif e[0] == "If":
            parts.append(f"If [{render(e[1])}] [{render(e[2])}]")
        else:
            parts.append(f"Loop [{render(e[1])}]")
    return "; ".join(parts)


CLASSES = [
    # (file, class, entry programs: list of method sequences executed on one object for one operation)
    ("ncs/sign_script.py", "Signer", [["sign_envelope"]]),
    ("ncs/encrypt_script.py", "Encryptor", [["encrypt_and_generate"], ["generate"]]),
    ("ncs/encrypt_script.py", "DigestGenerator", [["__init__", "generate_digest_size_for_plain_text"]]),
    ("suit_generator/cmd_sign.py", "RecursiveSigner", [["__init__", "recursive_sign"]]),
    ("suit_generator/cmd_cache_create.py", "CachePartition", [["__init__", "add_cache_slot"], ["__init__", "merge_single_cache_file"],
                                                              ["__init__", "close_and_save_cache"]]),
    ("suit_generator/envelope.py", "SuitEnvelope", [["__init__", "load", "dump"], ["__init__", "load", "sever", "dump"]]),
]
MODULES = ["suit_generator/suit/types/common.py", "suit_generator/suit/manifest.py", "suit_generator/suit/security.py",
           "suit_generator/suit/envelope.py", "suit_generator/suit/payloads.py", "suit_generator/input_output.py",
           "suit_generator/envelope.py", "suit_generator/cmd_create.py", "suit_generator/cmd_parse.py", "suit_generator/cmd_sign.py",
           "suit_generator/cmd_image.py", "suit_generator/cmd_mpi.py", "suit_generator/cmd_cache_create.py",
           "suit_generator/cmd_payload_extract.py", "suit_generator/cmd_encrypt.py", "suit_generator/cmd_convert.py",
           "suit_generator/cmd_keys.py", "ncs/sign_script.py", "ncs/encrypt_script.py", "ncs/basic_kms.py"]


def module_state(tree):
    """Names of module-level variables (or class attributes like `_metadata`, `kms`) that a FUNCTION body stores into."""
    top = set()
    for n in tree.body:
        if isinstance(n, ast.Assign):
            for t in n.targets:
                if isinstance(t, ast.Name):
                    top.add(t.id)
    hits = []
    for fn in [n for n in ast.walk(tree) if isinstance(n, (ast.FunctionDef, ast.AsyncFunctionDef))]:
        declared = set()
        for n in ast.walk(fn):
            if isinstance(n, ast.Global):
                declared |= set(n.names)
                hits.append(f"{fn.name}:global {','.join(n.names)}")
        for n in ast.walk(fn):
            tg = []
            if isinstance(n, ast.Assign):
                tg = n.targets
            elif isinstance(n, (ast.AugAssign, ast.AnnAssign)):
                tg = [n.target]
            for t in tg:
                base = t
                while isinstance(base, (ast.Attribute, ast.Subscript)):
                    if isinstance(base, ast.Attribute) and base.attr == "_metadata":
                        hits.append(f"{fn.name}:store into _metadata")
                    base = base.value
                if isinstance(base, ast.Name) and isinstance(t, (ast.Attribute, ast.Subscript)) and base.id in top and base.id not in ("self", "cls"):
                    hits.append(f"{fn.name}:mutates module-level {base.id}")
                if isinstance(base, ast.Name) and base.id == "cls" and isinstance(t, ast.Attribute):
                    hits.append(f"{fn.name}:store into class attribute {t.attr}")
            if isinstance(n, ast.Call) and isinstance(n.func, ast.Attribute) and n.func.attr in ("append", "update", "add", "setdefault", "extend", "pop", "clear", "insert"):
                base = n.func.value
                while isinstance(base, (ast.Attribute, ast.Subscript)):
                    base = base.value
                if isinstance(base, ast.Name) and base.id in top:
                    hits.append(f"{fn.name}:mutates module-level {base.id}")
            for d in getattr(n, "decorator_list", []) if n is not fn else []:
                pass
        for d in fn.decorator_list:
            src = ast.unparse(d)
            if "cache" in src or "lru" in src:
                hits.append(f"{fn.name}:memoised ({src})")
    return hits


def load_class(repo, rel, cname):
    import importlib
    import sys
    if sys.path[0] != repo:
        sys.path.insert(0, repo)
    mod = importlib.import_module(rel[:-3].replace("/", "."))
    if not mod.__file__.startswith(repo):
        for m in [k for k in sys.modules if k.split(".")[0] in ("suit_generator", "ncs")]:
            del sys.modules[m]
        mod = importlib.import_module(rel[:-3].replace("/", "."))
    return getattr(mod, cname)


def gen(repo):
    out = ["(* GENERATED by /verif/translator/unit_state.py — do not edit *)", "Require Import Coq.Strings.String.",
           "From Verif Require Import Base.Prim Base.Str Cmd.StateModel.", ""]
    entries = []
    for rel, cname, progs in CLASSES:
        tree = ast.parse(open(os.path.join(repo, rel)).read())
        cls = [n for n in tree.body if isinstance(n, ast.ClassDef) and n.name == cname]
        if len(cls) != 1:
            raise ValueError(f"class {cname} not found in {rel}")
        pr = Prog(cls[0], load_class(repo, rel, cname))
        rows = []
        for fn in cls[0].body:
            if isinstance(fn, ast.FunctionDef):
                rows.append(f"  ({s(fn.name)}, [{render(pr.block(fn.body))}])")
        # class attributes assigned in the class body are shared state readable before any write: not counted as written
        out.append(f"Definition methods_{cname} : list (bytes * list ev) := [\n" + ";\n".join(rows) + "].\n")
        for seq in progs:
            for m in seq:
                if m not in pr.methods:
                    raise ValueError(f"{cname}.{m} not found")
            entries.append(f"  ({s(cname + ': ' + ' ; '.join(seq))}, methods_{cname}, [{'; '.join('Call ' + s(m) for m in seq)}])")
    out.append("(* one operation on one object: the methods a command calls, in order *)")
    out.append("Definition entry_programs : list (bytes * list (bytes * list ev) * list ev) := [\n" + ";\n".join(entries) + "].\n")
    hits = []
    for rel in MODULES:
        tree = ast.parse(open(os.path.join(repo, rel)).read())
        hits += [f"{rel}:{h}" for h in module_state(tree)]
    sets = []
    for rel in MODULES:
        tree = ast.parse(open(os.path.join(repo, rel)).read())
        for fn in [n for n in ast.walk(tree) if isinstance(n, (ast.FunctionDef, ast.AsyncFunctionDef))]:
            for n in ast.walk(fn):
                if isinstance(n, (ast.Set, ast.SetComp)) or (isinstance(n, ast.Call) and isinstance(n.func, ast.Name) and n.func.id in ("set", "frozenset")):
                    sets.append(f"{rel}:{fn.name}:{ast.unparse(n)[:60]}")
    out.append("(* set objects built inside function bodies: their iteration order depends on the string-hash seed *)")
    out.append("Definition set_constructions : list bytes := [" + "; ".join(s(h.replace('"', "'")) for h in sets) + "].\n")
    out.append("(* function bodies that store into module-level / class-level state or are memoised *)")
    out.append("Definition shared_state_writers : list bytes := [" + "; ".join(s(h.replace('"', "'")) for h in hits) + "].\n")
    return "\n".join(out)


UNITS = {"GenState": gen}
