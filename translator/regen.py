#!/usr/bin/env python3
"""Regenerate coq/gen/*.v from /repo's working tree.

usage: regen.py [--repo /repo] [--out /verif/coq/gen] [--update-snapshot] [unit ...]
Prints a JSON object {unit: {"status": "generated"|"fallback", "changed_vs_snapshot": bool, "reason": str}}.
A unit whose translator fails closed is replaced by the committed snapshot (status "fallback"): the caller must
then tie that unit by correspondence at thorough volume (DESIGN.md section 2.2).
"""
import json
import os
import sys
import traceback

HERE = os.path.dirname(os.path.abspath(__file__))
sys.path.insert(0, HERE)
import units  # noqa: E402


def write_if_changed(path, text):
    try:
        with open(path) as fh:
            if fh.read() == text:
                return False
    except FileNotFoundError:
        pass
    tmp = path + ".tmp"
    with open(tmp, "w") as fh:
        fh.write(text)
    os.replace(tmp, path)
    return True


def main(argv):
    repo, out, update = "/repo", os.path.join(HERE, "..", "coq", "gen"), False
    names = []
    i = 0
    while i < len(argv):
        a = argv[i]
        if a == "--repo":
            repo = argv[i + 1]
            i += 2
        elif a == "--out":
            out = argv[i + 1]
            i += 2
        elif a == "--update-snapshot":
            update = True
            i += 1
        else:
            names.append(a)
            i += 1
    snap = os.path.join(HERE, "..", "coq", "gen_snapshot")
    os.makedirs(out, exist_ok=True)
    status = {}
    for name, fn in units.discover().items():
        if names and name not in names:
            continue
        snap_path = os.path.join(snap, name + ".v")
        try:
            snap_text = open(snap_path).read()
        except FileNotFoundError:
            snap_text = None
        try:
            text = fn(repo)
            st = {"status": "generated", "reason": ""}
        except Exception as exc:  # fail closed
            if snap_text is None:
                raise
            text = snap_text
            st = {"status": "fallback", "reason": f"{type(exc).__name__}: {exc}"[:400]}
            if os.environ.get("VERIF_DEBUG"):
                traceback.print_exc()
        st["changed_vs_snapshot"] = snap_text is not None and text != snap_text
        if update and st["status"] == "generated":
            write_if_changed(snap_path, text)
        write_if_changed(os.path.join(out, name + ".v"), text)
        status[name] = st
    print(json.dumps(status, indent=1))


if __name__ == "__main__":
    main(sys.argv[1:])
