"""Skeleton-with-holes matching (DESIGN.md section 2.2): the expected shape of a function is ordinary Python source
in which
    H_<name>   (an identifier in expression position)  binds any expression sub-tree,
    V_<name>   (an identifier)                          binds a variable name (consistently, injectively),
    S_<name>   (an attribute / keyword name)            binds that name.
Docstrings and logging calls are ignored on the source side.  `match_body` returns the bindings or raises
pyg.Unsupported (fail closed) naming the first statement that does not fit.
"""
import ast

from pyg import Unsupported


def clean(stmts):
    out = []
    for s in stmts:
        if isinstance(s, ast.Expr) and isinstance(s.value, ast.Constant) and isinstance(s.value.value, str):
            continue
        if isinstance(s, ast.Expr) and isinstance(s.value, ast.Call) and ast.unparse(s.value.func).startswith(("log.", "logger.", "logging.")):
            continue
        out.append(s)
    return out


class Mismatch(Exception):
    pass


def _bind(binds, key, val, same):
    if key in binds:
        if not same(binds[key], val):
            raise Mismatch(f"{key} bound twice differently")
    else:
        binds[key] = val


def unify(p, n, binds):
    if isinstance(p, ast.Name) and p.id.startswith("H_"):
        if not isinstance(n, ast.expr):
            raise Mismatch(f"{p.id}: not an expression")
        _bind(binds, p.id, n, lambda a, b: ast.dump(a) == ast.dump(b))
        return
    if isinstance(p, ast.Name) and p.id.startswith("V_"):
        if not isinstance(n, ast.Name):
            raise Mismatch(f"{p.id}: expected a variable, got {ast.unparse(n) if isinstance(n, ast.AST) else n}")
        _bind(binds, p.id, n.id, lambda a, b: a == b)
        return
    if type(p) is not type(n):
        raise Mismatch(f"{type(n).__name__} where {type(p).__name__} expected")
    if isinstance(p, list):
        if isinstance(p and p[0], ast.stmt) or isinstance(n and n[0], ast.stmt):
            n = clean(n)
        if len(p) != len(n):
            raise Mismatch(f"{len(n)} items where {len(p)} expected")
        for a, b in zip(p, n):
            unify(a, b, binds)
        return
    if isinstance(p, ast.AST):
        for f in p._fields:
            if f in ("type_comment", "kind", "type_params"):
                continue
            unify(getattr(p, f, None), getattr(n, f, None), binds)
        return
    if isinstance(p, str) and p.startswith("S_"):
        _bind(binds, p, n, lambda a, b: a == b)
        return
    if isinstance(p, str) and p.startswith("V_"):   # a variable named in a non-Name position (e.g. `except E as V_x`)
        _bind(binds, p, n, lambda a, b: a == b)
        return
    if p != n:
        raise Mismatch(f"{n!r} where {p!r} expected")


def match_body(pattern_src, stmts, where, rebind=()):
    """Match a statement list against the pattern source; returns the bindings.  `rebind`: skeleton variables that
    are freshly assigned at their first occurrence and may therefore reuse the name of another one."""
    pat = ast.parse(pattern_src).body
    stmts = clean(stmts)
    binds = {}
    if len(pat) != len(stmts):
        raise Unsupported(where, f"skeleton: {len(stmts)} statements where {len(pat)} expected")
    for p, s in zip(pat, stmts):
        try:
            unify(p, s, binds)
        except Mismatch as e:
            raise Unsupported(s, f"skeleton mismatch ({e}); expected `{ast.unparse(p)[:70]}`")
    vs = [v for k, v in binds.items() if k.startswith("V_") and k not in rebind]
    if len(set(vs)) != len(vs):
        raise Unsupported(where, f"skeleton: two skeleton variables bound to one name {vs}")
    return binds


def pure_term(tr, node, cx, want=None):
    """Translate an expression hole with PyG; it must be a pure term (no monadic bind) of type `want`."""
    box = {}

    def k(g, t):
        box["g"], box["t"] = g, t
        return g

    out = tr.expr(node, cx, k)
    if out != box.get("g"):
        raise Unsupported(node, "hole is not a pure expression")
    if want is not None and box["t"] != want:
        raise Unsupported(node, f"hole has type {box['t']}, expected {want}")
    return box["g"], box["t"]


def class_const(tree, cls, name):
    """The literal assigned to `name` in the body of class `cls`."""
    c = next((n for n in tree.body if isinstance(n, ast.ClassDef) and n.name == cls), None)
    if c is None:
        raise Unsupported(tree, f"class {cls} not found")
    for s in c.body:
        if isinstance(s, ast.Assign) and len(s.targets) == 1 and isinstance(s.targets[0], ast.Name) and s.targets[0].id == name:
            if isinstance(s.value, ast.Constant):
                return s.value.value
            raise Unsupported(s, "class constant is not a literal")
    raise Unsupported(c, f"{cls}.{name} not found")
