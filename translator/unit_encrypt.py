"""GenEncrypt: the encryption path (C06, C14).

  ncs/encrypt_script.py      Encryptor.{parse_encrypted_assets, generate_encrypted_payload, generate_suit_encryption_info,
                             generate_encryption_info_and_encrypted_payload, _kw_alg_convert, generate_kms_artifacts,
                             encrypt_and_generate, generate}  — PyG (with the extensions below), DigestGenerator — skeleton
  ncs/basic_kms.py           SuitKMS.encrypt — PyG after the key-file prefix has been recognised; os.urandom(k) is one draw
                             `urandom ent k` from the entropy state `ent : nat` (threaded through every caller), AESGCM is the
                             abstract function `aesgcm_encrypt key nonce data aad` (= ciphertext ++ tag, as the library returns it)
  suit_generator/cmd_encrypt.py   the two file writers — skeleton with holes (file names, written expressions, unpacking order)
  suit_generator/suit/security.py SuitEncryptionInfoExt.from_obj — skeleton (shape check; hand template)
  tables: SuitCoseEncryptAlgorithms, SuitIds, SuitDigestAlgorithms, SuitKWAlgorithms, DigestGenerator._hash_func,
          the hard-coded AAD bytes, the protected-header literal.

Everything fails closed (pyg.Unsupported): regen.py then falls back to the committed snapshot.
"""
import ast
import copy

from pyg import BOOL, BYTES, CBOR, INT, LIST, NONE, OPT, STR, TUPLE, Ctx, Translator, Unsupported, find_def, gtype, strlit, zlit
from units import HEADER, parse

ENC = "ncs/encrypt_script.py"
KMS = "ncs/basic_kms.py"
BASE = "suit_generator/suit_encrypt_script_base.py"
CMD = "suit_generator/cmd_encrypt.py"
SEC = "suit_generator/suit/security.py"

ENT = "$ent"
# the abstract functions are explicit leading parameters of every function that (transitively) may use them, so that the
# signatures do not depend on what the current source happens to use
ENV = "aesgcm_encrypt urandom hash key_file"
ENVSIG = ("(aesgcm_encrypt : list Z -> list Z -> list Z -> list Z -> list Z) (urandom : nat -> Z -> list Z) "
          "(hash : list Z -> Z -> list Z -> list Z) (key_file : list Z -> list Z) ")


# ------------------------------------------------------------------------------------------------ AST helpers
class _Norm(ast.NodeTransformer):
    """Drop what is not observable: docstrings, log calls, exception messages."""

    def visit_Raise(self, n):
        exc = n.exc.func if isinstance(n.exc, ast.Call) else n.exc
        return ast.Raise(exc=exc, cause=None)

    def generic_visit(self, n):
        n = super().generic_visit(n)
        if hasattr(n, "body") and isinstance(n.body, list):
            n.body = [s for s in n.body if not _skippable(s)] or [ast.Pass()]
        return n


def _skippable(s):
    if isinstance(s, ast.Expr) and isinstance(s.value, ast.Constant) and isinstance(s.value.value, str):
        return True
    if isinstance(s, ast.Expr) and isinstance(s.value, ast.Call) and ast.unparse(s.value.func).startswith(("log.", "logger.", "logging.")):
        return True
    return False


def norm_body(fn):
    """The statements of fn as normalised source text."""
    f2 = _Norm().visit(copy.deepcopy(fn))
    ast.fix_missing_locations(f2)
    return [ast.unparse(s) for s in f2.body if not isinstance(s, ast.Pass)]


def body_of(fn):
    return [s for s in fn.body if not _skippable(s)]


def expect(fn, want, what):
    got = norm_body(fn)
    if got != want:
        for i, (g, w) in enumerate(zip(got + [None] * len(want), want + [None] * len(got))):
            if g != w:
                raise Unsupported(fn, f"{what}: statement {i} is {g!r}, expected {w!r}")
        raise Unsupported(fn, f"{what}: shape changed")


def enums(tree):
    """{class: [(member, value)]} for the Enum classes of a module (literal values only)."""
    out = {}
    for n in tree.body:
        if isinstance(n, ast.ClassDef) and any(ast.unparse(b) in ("Enum", "enum.Enum") for b in n.bases):
            ms = []
            for s in n.body:
                if isinstance(s, ast.Assign) and len(s.targets) == 1 and isinstance(s.targets[0], ast.Name):
                    try:
                        v = ast.literal_eval(s.value)
                    except Exception:
                        raise Unsupported(s, "enum member is not a literal")
                    if isinstance(v, bool) or not isinstance(v, (int, str)):
                        raise Unsupported(s, "enum member type")
                    ms.append((s.targets[0].id, v))
            out[n.name] = ms
    return out


def enum_consts(es, member_is_value=()):
    c = {}
    for cls, ms in es.items():
        for m, v in ms:
            term = (zlit(v), INT) if isinstance(v, int) else (strlit(v), STR)
            c[f"{cls}.{m}.value"] = term
            if cls in member_is_value:       # a string enum member is identified with its value
                c[f"{cls}.{m}"] = term
    return c


# ------------------------------------------------------------------------------------------------ PyG extensions
class EncTranslator(Translator):
    """PyG plus, for this unit only:
       * heterogeneous list / dict literals are CBOR structures (they only ever reach cbor2.dumps / CBORTag);
       * os.urandom(k): one draw from the entropy state, which is threaded through `draws` functions and returned;
       * AESGCM(key) / .encrypt(nonce, data, aad): the abstract cipher;
       * keyword arguments and None / bytes -> Optional coercion in calls of translated functions;
       * `None + x` raises TypeError (locals initialised to None and never assigned on a path)."""

    def __init__(self, consts):
        super().__init__(consts=consts, funcs={})
        self.f2 = {}     # dotted callee -> dict(g=, names=[..], types=[..], ret=, takes_self=, draws=)

    # -- expressions
    def expr(self, e, cx, k):
        if isinstance(e, (ast.List, ast.Dict)):
            return self.to_cbor(e, cx, lambda a: k(a, CBOR))
        return super().expr(e, cx, k)

    def binop(self, e, a, ta, b, tb, k):
        if isinstance(e.op, ast.Add) and (ta == NONE or tb == NONE):
            return "Raise TypeError"
        return super().binop(e, a, ta, b, tb, k)

    @staticmethod
    def coerce(a, ta, want, node):
        if ta == want:
            return a
        if want[0] == "opt" and ta == NONE:
            return "None"
        if want[0] == "opt" and ta == want[1]:
            return f"(Some {a})"
        raise Unsupported(node, f"argument type {ta}, expected {want}")

    def call(self, e, cx, k):
        name = ast.unparse(e.func)
        if name == "os.urandom" and len(e.args) == 1 and not e.keywords:
            if ENT not in cx.vars:
                raise Unsupported(e, "os.urandom outside an entropy-threaded function")

            def drawn(n, tn):
                self._need(tn, INT, e)
                old = cx.vars[ENT][0]
                v, e2 = self.fresh("rnd"), self.fresh("ent")
                cx.vars[ENT] = (e2, ("ent",))
                return f"let {v} := urandom {old} {n} in\nlet {e2} := S {old} in\n{k(v, BYTES)}"

            return self.expr(e.args[0], cx, drawn)
        if name == "AESGCM" and len(e.args) == 1 and not e.keywords:
            return self.expr(e.args[0], cx, lambda a, ta: self._need(ta, BYTES, e) or k(a, ("aesgcm",)))
        if name == "__key_file" and len(e.args) == 1:
            return self.expr(e.args[0], cx, lambda a, ta: self._need(ta, STR, e) or k(f"(key_file {a})", BYTES))
        if name == "DigestGenerator" and len(e.args) == 1 and not e.keywords:
            return self.expr(e.args[0], cx, lambda a, ta: self._need(ta, STR, e) or self.bindres(f"(digest_generator_init {a})", ("digestgen",), "dg", k))
        if name in ("SuitDigestAlgorithms", "SuitKWAlgorithms") and len(e.args) == 1 and not e.keywords:
            tbl = "digest_algs" if name == "SuitDigestAlgorithms" else "kw_algs"
            return self.expr(e.args[0], cx, lambda a, ta: self._need(ta, STR, e) or self.bindres(f"(enum_of {tbl} {a})", STR, "en", k))
        if isinstance(e.func, ast.Attribute) and isinstance(e.func.value, ast.Name) and e.func.value.id in cx.vars:
            rt = cx.vars[e.func.value.id][1]
            if rt == ("aesgcm",) and e.func.attr == "encrypt" and len(e.args) == 3 and not e.keywords:
                key = cx.vars[e.func.value.id][0]

                def enc(xs):
                    for _, t in xs:
                        self._need(t, BYTES, e)
                    return k(f"(aesgcm_encrypt {key} {xs[0][0]} {xs[1][0]} {xs[2][0]})", BYTES)

                return self.args(e.args, cx, enc)
            if rt == ("digestgen",) and e.func.attr == "generate_digest_size_for_plain_text" and len(e.args) == 1 and not e.keywords:
                dg = cx.vars[e.func.value.id][0]
                return self.expr(e.args[0], cx, lambda a, ta: self._need(ta, BYTES, e) or self.bindres(f"(generate_digest_size_for_plain_text {ENV} {dg} {a})", TUPLE(BYTES, INT), "t", k))
        if name in self.f2:
            d = self.f2[name]
            pos = list(e.args)
            if len(pos) > len(d["names"]):
                raise Unsupported(e, "too many arguments")
            bykw = {x.arg: x.value for x in e.keywords}
            if None in bykw:
                raise Unsupported(e, "**kwargs")
            argv = []
            for i, pn in enumerate(d["names"]):
                if i < len(pos):
                    if pn in bykw:
                        raise Unsupported(e, "argument given twice")
                    argv.append(pos[i])
                elif pn in bykw:
                    argv.append(bykw.pop(pn))
                else:
                    raise Unsupported(e, f"missing argument {pn}")
            if bykw:
                raise Unsupported(e, f"unknown keyword {list(bykw)}")

            def done(xs):
                terms = [self.coerce(a, ta, want, e) for (a, ta), want in zip(xs, d["types"])]
                head = [d["g"]] + ([ENV] if d["env"] else []) + ([cx.selfv] if d["takes_self"] else [])
                if d["draws"]:
                    if ENT not in cx.vars:
                        raise Unsupported(e, "entropy-drawing callee outside an entropy-threaded function")
                    old = cx.vars[ENT][0]
                    v, e2 = self.fresh("t"), self.fresh("ent")
                    cx.vars[ENT] = (e2, ("ent",))
                    return f"match ({' '.join(head + [old] + terms)}) with Raise x => Raise x | Ok ({v}, {e2}) =>\n{k(v, d['ret'])} end"
                return self.bindres("(" + " ".join(head + terms) + ")", d["ret"], "t", k)

            return self.args(argv, cx, done)
        return super().call(e, cx, k)

    def _ret(self, g, t, cx):
        self.last_ret_type = t
        if ENT in cx.vars:
            return f"Ok ({g}, {cx.vars[ENT][0]})"
        return f"Ok {g}"

    def define(self, fn, gname, params, kind, fields, rectype, draws=False, body=None, env=False):
        """Translate fn (optionally with a replaced body); returns the Definition text."""
        import textwrap
        self.last_ret_type = None
        cx = Ctx(self, fields, {p: (p + "_", t) for p, t in params.items()}, rectype)
        if draws:
            cx.vars[ENT] = ("ent", ("ent",))
        txt = self.block(body if body is not None else fn.body, cx, kind)
        sig = " ".join(f"({p}_ : {gtype(t)})" for p, t in params.items())
        selfsig = f"(self : {rectype}) " if fields is not None else ""
        entsig = "(ent : nat) " if draws else ""
        envsig = ENVSIG if env else ""
        return f"Definition {gname} {envsig}{selfsig}{entsig}{sig} :=\n{textwrap.indent(txt, '  ')}."

    def register(self, dotted, gname, params, ret, takes_self, draws, env=False):
        self.f2[dotted] = dict(g=gname, names=list(params), types=list(params.values()), ret=ret, takes_self=takes_self, draws=draws, env=env)


def check_params(fn, names):
    got = [a.arg for a in fn.args.args]
    if got != names or fn.args.vararg or fn.args.kwonlyargs or fn.args.kwarg or fn.args.defaults:
        raise Unsupported(fn, f"parameters {got}, expected {names}")


# ------------------------------------------------------------------------------------------------ the unit
def gen_encrypt(repo):
    enc, kms, base, cmd, sec = (parse(repo, r) for r in (ENC, KMS, BASE, CMD, SEC))
    out = [HEADER.format(src=", ".join((ENC, KMS, BASE, CMD, SEC)))]

    # ---- tables
    e_enc, e_base = enums(enc), enums(base)
    for need, where in (("SuitCoseEncryptAlgorithms", e_enc), ("SuitIds", e_enc), ("SuitDigestAlgorithms", e_base), ("SuitKWAlgorithms", e_base)):
        if need not in where:
            raise Unsupported(need, "enum not found")
    for tree, rel in ((enc, ENC), (cmd, CMD)):
        imp = [n for n in tree.body if isinstance(n, ast.ImportFrom) and n.module == "suit_generator.suit_encrypt_script_base"]
        got = sorted(a.name for n in imp for a in n.names if a.asname is None)
        if got != ["SuitDigestAlgorithms", "SuitEncryptorBase", "SuitKWAlgorithms"]:
            raise Unsupported(rel, f"imports from suit_encrypt_script_base changed: {got}")
    consts = {}
    consts.update(enum_consts({k: e_enc[k] for k in ("SuitCoseEncryptAlgorithms", "SuitIds")}))
    consts.update(enum_consts({k: e_base[k] for k in ("SuitDigestAlgorithms", "SuitKWAlgorithms")}, member_is_value=("SuitDigestAlgorithms", "SuitKWAlgorithms")))
    tr = EncTranslator(consts)

    def table(nm, ms, f):
        return f"Definition {nm} := [" + "; ".join(f(m, v) for m, v in ms) + "]."

    out.append("(* ---- tables extracted from the enum classes (name as ASCII, value) ---- *)")
    out.append(table("cose_encrypt_algs", e_enc["SuitCoseEncryptAlgorithms"], lambda m, v: f"({strlit(m)}, {zlit(v)})"))
    out.append(table("suit_ids", e_enc["SuitIds"], lambda m, v: f"({strlit(m)}, {zlit(v)})"))
    out.append(table("digest_algs", e_base["SuitDigestAlgorithms"], lambda m, v: strlit(v)))
    out.append(table("kw_algs", e_base["SuitKWAlgorithms"], lambda m, v: strlit(v)))
    out.append("(* Enum(value): ValueError when the value is not a member; a member is identified with its value *)")
    out.append("Definition enum_of (tbl : list (list Z)) (v : list Z) : res (list Z) := if str_in v tbl then Ok v else Raise ValueError.\n")

    # DigestGenerator._hash_func : value -> (hash class, output length)
    dg = find_def(enc, "DigestGenerator")
    hf = [s for s in dg.body if isinstance(s, ast.Assign) and ast.unparse(s.targets[0]) == "_hash_func"]
    if len(hf) != 1 or not isinstance(hf[0].value, ast.Dict):
        raise Unsupported(dg, "_hash_func table")
    fixed = {"SHA224": 28, "SHA256": 32, "SHA384": 48, "SHA512": 64, "SHA3_256": 32, "SHA3_384": 48, "SHA3_512": 64}
    rows = []
    for kk, vv in zip(hf[0].value.keys, hf[0].value.values):
        key = ast.unparse(kk)
        if key not in consts or consts[key][1] != STR:
            raise Unsupported(kk, "hash table key")
        if not (isinstance(vv, ast.Call) and isinstance(vv.func, ast.Attribute) and ast.unparse(vv.func.value) == "hashes"):
            raise Unsupported(vv, "hash table value")
        fam = vv.func.attr
        if fam in fixed and not vv.args and not vv.keywords:
            n = fixed[fam]
        elif fam in ("SHAKE128", "SHAKE256") and len(vv.args) == 1 and isinstance(vv.args[0], ast.Constant) and isinstance(vv.args[0].value, int):
            n = vv.args[0].value
        else:
            raise Unsupported(vv, "hash constructor")
        rows.append(f"({consts[key][0]}, ({strlit(fam)}, {zlit(n)}))")
    out.append("(* DigestGenerator._hash_func: algorithm name |-> (hash class of `cryptography`, digest length) *)")
    out.append("Definition hash_table : list (list Z * (list Z * Z)) := [" + ";\n  ".join(rows) + "].\n")

    # ---- holes: the hard-coded AAD and the protected header literal
    gka = find_def(enc, "Encryptor.generate_kms_artifacts")
    lits = [n for n in ast.walk(gka) if isinstance(n, ast.Call) and ast.unparse(n.func) == "bytes" and len(n.args) == 1 and isinstance(n.args[0], ast.List)]
    if len(lits) != 1 or not all(isinstance(x, ast.Constant) and isinstance(x.value, int) and not isinstance(x.value, bool) for x in lits[0].args[0].elts):
        raise Unsupported(gka, "the AAD byte literal")
    aad_assign = [s for s in gka.body if isinstance(s, ast.Assign) and s.value is lits[0] and isinstance(s.targets[0], ast.Name)]
    kcalls = [n for n in ast.walk(gka) if isinstance(n, ast.Call) and ast.unparse(n.func) == "self.kms.encrypt"]
    if len(aad_assign) != 1 or len(kcalls) != 1:
        raise Unsupported(gka, "AAD assignment / KMS call")
    aadkw = [x.value for x in kcalls[0].keywords if x.arg == "aad"] + kcalls[0].args[3:4]
    if len(aadkw) != 1 or ast.unparse(aadkw[0]) != aad_assign[0].targets[0].id:
        raise Unsupported(kcalls[0], "the aad argument is not the hard-coded literal")
    n_assign = [s for s in ast.walk(gka) if isinstance(s, (ast.Assign, ast.AugAssign)) and aad_assign[0].targets[0].id in [getattr(t, "id", None) for t in (s.targets if isinstance(s, ast.Assign) else [s.target])]]
    if len(n_assign) != 1:
        raise Unsupported(gka, "the AAD variable is assigned more than once")
    out.append("(* the hard-coded Enc_structure bytes of Encryptor.generate_kms_artifacts *)")
    out.append("Definition aad_literal : list Z := [" + "; ".join(str(x.value) for x in lits[0].args[0].elts) + "].\n")

    gsei = find_def(enc, "Encryptor.generate_suit_encryption_info")
    ce = [s for s in gsei.body if isinstance(s, ast.Assign) and isinstance(s.value, ast.List)]
    if len(ce) != 1 or not ce[0].value.elts:
        raise Unsupported(gsei, "the COSE_Encrypt list literal")
    first = ce[0].value.elts[0]
    if not (isinstance(first, ast.Call) and ast.unparse(first.func) == "cbor2.dumps" and len(first.args) == 1 and isinstance(first.args[0], ast.Dict)):
        raise Unsupported(first, "protected header is not cbor2.dumps({...})")
    prot = tr.to_cbor(first.args[0], Ctx(tr, None, {}, None), lambda a: a)
    out.append("(* the protected header map that generate_suit_encryption_info serialises as the first element of COSE_Encrypt *)")
    out.append(f"Definition prot_lit : cbor := {prot}.\n")

    out.append("Record encryptor := { cose_kw_alg : Z }.")
    out.append("Definition set_cose_kw_alg (v : Z) (c : encryptor) : encryptor := {| cose_kw_alg := v |}.")
    out.append("Definition encryptor_new : encryptor := {| cose_kw_alg := 0 |}.   (* the attribute does not exist before _kw_alg_convert; every entry point sets it first *)\n")
    fields = {"cose_kw_alg": INT}

    out.append("(* Abstract functions, explicit parameters of the definitions below:")
    out.append("     aesgcm_encrypt key nonce data aad   AESGCM(key).encrypt(nonce, data, aad) of `cryptography`: ciphertext ++ 16-byte tag")
    out.append("     urandom n k                         os.urandom(k) at the n-th draw of the history")
    out.append("     hash class length data              hashes.Hash(<class>(<length>)) applied to the data")
    out.append("     key_file name                       the content of <keys_directory>/<name>.bin *)\n")

    # ---- DigestGenerator (skeleton)
    init = find_def(enc, "DigestGenerator.__init__")
    check_params(init, ["self", "hash_name"])
    expect(init, ["if hash_name not in self._hash_func:\n    raise ValueError", "self._hash_name = hash_name"], "DigestGenerator.__init__")
    gd = find_def(enc, "DigestGenerator.generate_digest_size_for_plain_text")
    check_params(gd, ["self", "plaintext"])
    expect(gd, ["func = hashes.Hash(self._hash_func[self._hash_name], backend=default_backend())", "func.update(plaintext)",
                "digest = func.finalize()", "return (digest, len(plaintext))"], "generate_digest_size_for_plain_text")
    out.append("(* DigestGenerator: skeleton (constructor check; Hash(table[name]).update(plaintext).finalize(), len(plaintext)) *)")
    out.append("Fixpoint hash_lookup (n : list Z) (t : list (list Z * (list Z * Z))) : option (list Z * Z) :=\n"
               "  match t with [] => None | (k, v) :: r => if list_eqb n k then Some v else hash_lookup n r end.")
    out.append("Definition digest_generator_init (hash_name : list Z) : res (list Z) :=\n"
               "  match hash_lookup hash_name hash_table with Some _ => Ok hash_name | None => Raise ValueError end.")
    out.append("Definition generate_digest_size_for_plain_text " + ENVSIG + "(hash_name plaintext : list Z) : res (list Z * Z) :=\n"
               "  match hash_lookup hash_name hash_table with Some (fam, n) => Ok (hash fam n plaintext, blen plaintext) | None => Raise KeyError end.\n")

    # ---- SuitKMS.encrypt
    ke = find_def(kms, "SuitKMS.encrypt")
    check_params(ke, ["self", "plaintext", "key_name", "context", "aad"])
    kb = body_of(ke)
    pre = [ast.unparse(s) for s in kb[:3]]
    want = ["key_file_name = key_name + '.bin'", "key_file = self.keys_directory / key_file_name", "with open(key_file, 'rb') as f:\n    key_data = f.read()"]
    if pre != want:
        raise Unsupported(ke, f"key-file prefix changed: {pre}")
    for s in kb[3:]:
        for n in ast.walk(s):
            if isinstance(n, ast.Name) and n.id in ("key_file_name", "key_file", "f", "self"):
                raise Unsupported(n, "use of the key-file prefix variables / self after the prefix")
    if not any(isinstance(n, ast.ImportFrom) and n.module == "cryptography.hazmat.primitives.ciphers.aead" and [a.name for a in n.names] == ["AESGCM"] and n.names[0].asname is None
               for n in kms.body) or not any(isinstance(n, ast.Import) and [(a.name, a.asname) for a in n.names] == [("os", None)] for n in kms.body):
        raise Unsupported(KMS, "imports of AESGCM / os changed")
    kparams = {"plaintext": BYTES, "key_name": STR, "context": OPT(STR), "aad": BYTES}
    synth = ast.parse("key_data = __key_file(key_name)").body
    out.append("(* SuitKMS.encrypt (PyG; the prefix that reads <key_name>.bin is `key_file key_name`) *)")
    out.append(tr.define(ke, "kms_encrypt", kparams, "pure", None, None, draws=True, body=synth + kb[3:], env=True) + "\n")
    tr.register("self.kms.encrypt", "kms_encrypt", kparams, tr.last_ret_type, False, True, env=True)

    # ---- Encryptor
    def method(qual, gname, params, kind="pure", draws=False, body=None, names=None):
        fn = find_def(enc, qual)
        check_params(fn, ["self"] + (names or list(params)))
        txt = tr.define(fn, gname, params, kind, fields, "encryptor", draws=draws, body=body, env=draws)
        out.append(txt + "\n")
        return fn

    method("Encryptor.parse_encrypted_assets", "parse_encrypted_assets", {"asset_bytes": BYTES})
    tr.register("self.parse_encrypted_assets", "parse_encrypted_assets", {"asset_bytes": BYTES}, tr.last_ret_type, True, False)
    method("Encryptor.generate_encrypted_payload", "generate_encrypted_payload", {"encrypted_content": BYTES, "tag": BYTES})
    p = {"iv": BYTES, "encrypted_cek": OPT(BYTES), "key_id": INT}
    method("Encryptor.generate_suit_encryption_info", "generate_suit_encryption_info", p)
    tr.register("self.generate_suit_encryption_info", "generate_suit_encryption_info", p, tr.last_ret_type, True, False)
    p = {"encrypted_asset": BYTES, "encrypted_cek": OPT(BYTES), "key_id": INT}
    method("Encryptor.generate_encryption_info_and_encrypted_payload", "generate_encryption_info_and_encrypted_payload", p)
    tr.register("self.generate_encryption_info_and_encrypted_payload", "generate_encryption_info_and_encrypted_payload", p, tr.last_ret_type, True, False)
    method("Encryptor._kw_alg_convert", "kw_alg_convert", {"kw_alg": STR}, kind="method")
    tr.funcs["self._kw_alg_convert"] = ("kw_alg_convert", [STR], ("rec",), True, True)
    p = {"asset_plaintext": BYTES, "key_name": STR, "context": OPT(STR)}
    method("Encryptor.generate_kms_artifacts", "generate_kms_artifacts", p, draws=True)
    tr.register("self.generate_kms_artifacts", "generate_kms_artifacts", p, tr.last_ret_type, True, True, env=True)

    eag = find_def(enc, "Encryptor.encrypt_and_generate")
    eb = body_of(eag)
    loader = [s for s in eb if ast.unparse(s) == "self.init_kms_backend(kms_script, context)"]
    if len(loader) != 1:
        raise Unsupported(eag, "the call that loads the KMS backend")
    eb = [s for s in eb if s is not loader[0]]
    ikb = find_def(enc, "Encryptor.init_kms_backend")
    expect(ikb, ["module_name = 'SuitKMS_module'", "kms_module = _import_module_from_path(module_name, kms_script)",
                 "if not hasattr(kms_module, 'suit_kms_factory'):\n    raise ValueError", "self.kms = kms_module.suit_kms_factory()",
                 "if not isinstance(self.kms, SuitKMSBase):\n    raise ValueError", "self.kms.init_kms(context)"], "init_kms_backend")
    p = {"firmware": BYTES, "key_name": STR, "key_id": INT, "context": OPT(STR), "hash_alg": STR, "kw_alg": STR}
    tr.consts["hash_alg.value"] = ("hash_alg_", STR)
    method("Encryptor.encrypt_and_generate", "encrypt_and_generate", p, draws=True, body=eb, names=list(p) + ["kms_script"])
    del tr.consts["hash_alg.value"]
    eag_ret = tr.last_ret_type
    p_gen = {"encrypted_asset": BYTES, "encrypted_cek": OPT(BYTES), "key_id": INT, "kw_alg": STR}
    method("Encryptor.generate", "generate", p_gen)
    gen_ret = tr.last_ret_type
    fac = find_def(enc, "suit_encryptor_factory")
    expect(fac, ["return Encryptor()"], "suit_encryptor_factory")
    kfac = find_def(kms, "suit_kms_factory")
    expect(kfac, ["return SuitKMS()"], "suit_kms_factory")

    # ---- the file writers of cmd_encrypt.py (skeleton with holes)
    def writer(fname, gname, prefix, callee, args_want, ret_type, gcall, draws):
        fn = find_def(cmd, fname)
        b = body_of(fn)
        got = [ast.unparse(s) for s in b[:len(prefix)]]
        if got != prefix:
            raise Unsupported(fn, f"prefix changed: {got}")
        a = b[len(prefix)]
        if not (isinstance(a, ast.Assign) and isinstance(a.targets[0], ast.Tuple) and all(isinstance(x, ast.Name) for x in a.targets[0].elts)
                and isinstance(a.value, ast.Call) and ast.unparse(a.value.func) == callee and not a.value.keywords
                and [ast.unparse(x) for x in a.value.args] == args_want and len(a.targets[0].elts) == len(ret_type) - 1):
            raise Unsupported(a, "the call of the encryptor")
        names = [x.id for x in a.targets[0].elts]
        if len(set(names)) != len(names):
            raise Unsupported(a, "duplicate target")
        cx = Ctx(tr, None, {n: (n + "_", t) for n, t in zip(names, ret_type[1:])}, None)
        files = []
        for w in b[len(prefix) + 1:]:
            ok = (isinstance(w, ast.With) and len(w.items) == 1 and len(w.body) == 1 and isinstance(w.items[0].optional_vars, ast.Name))
            if ok:
                c, st = w.items[0].context_expr, w.body[0]
                ok = (isinstance(c, ast.Call) and ast.unparse(c.func) == "open" and len(c.args) == 2 and not c.keywords
                      and isinstance(c.args[1], ast.Constant) and c.args[1].value in ("wb", "w")
                      and isinstance(c.args[0], ast.Call) and ast.unparse(c.args[0].func) == "os.path.join" and len(c.args[0].args) == 2
                      and ast.unparse(c.args[0].args[0]) == "kwargs['output_dir']" and isinstance(c.args[0].args[1], ast.Constant)
                      and isinstance(c.args[0].args[1].value, str)
                      and isinstance(st, ast.Expr) and isinstance(st.value, ast.Call) and ast.unparse(st.value.func) == w.items[0].optional_vars.id + ".write"
                      and len(st.value.args) == 1 and not st.value.keywords)
            if not ok:
                raise Unsupported(w, "file writer statement")
            wantt = BYTES if c.args[1].value == "wb" else STR

            def kk(g, t, wantt=wantt, w=w):
                if t != wantt:
                    raise Unsupported(w, f"written value has type {t}, mode needs {wantt}")
                return g

            files.append((c.args[0].args[1].value, tr.expr(st.value.args[0], cx, kk)))
        if len(set(f for f, _ in files)) != len(files):
            raise Unsupported(fn, "a file is written twice")
        pat = "(" + ", ".join(n + "_" for n in names) + ")"
        lst = "[" + ";\n      ".join(f"({strlit(f)}, {g})" for f, g in files) + "]"
        if draws:
            return (f"  match {gcall} with Raise x => Raise x | Ok (t_, ent_) =>\n    let '{pat} := t_ in\n    Ok ({lst}, ent_) end")
        return f"  match {gcall} with Raise x => Raise x | Ok t_ =>\n    let '{pat} := t_ in\n    Ok {lst} end"

    mainf = find_def(cmd, "main")
    expect(mainf, ["if kwargs['encrypt_subcommand'] == ENCRYPT_AND_GENERATE_FIRMWARE_CMD:\n    encrypt_and_generate(**kwargs)\n"
                   "elif kwargs['encrypt_subcommand'] == GENERATE_INFO_FIRMWARE_CMD:\n    generate_info(**kwargs)\nelse:\n    raise GeneratorError"], "cmd_encrypt.main")
    imp = find_def(cmd, "_import_encryptor")
    expect(imp, ["module_name = 'SuitEncryptScript_module' + uuid.uuid4().hex", "encryptor_module = _import_module_from_path(module_name, encrypt_script)",
                 "if not hasattr(encryptor_module, 'suit_encryptor_factory'):\n    raise ValueError", "encryptor = encryptor_module.suit_encryptor_factory()",
                 "if not isinstance(encryptor, SuitEncryptorBase):\n    raise ValueError", "return encryptor"], "_import_encryptor")
    body = writer("encrypt_and_generate", "cli_encrypt_and_generate",
                  ["encryptor = _import_encryptor(kwargs['encrypt_script'])", "with open(kwargs['firmware'], 'rb') as file:\n    plaintext = file.read()"],
                  "encryptor.encrypt_and_generate",
                  ["plaintext", "kwargs['key_name']", "kwargs['key_id']", "kwargs['context']", "SuitDigestAlgorithms(kwargs['hash_alg'])",
                   "SuitKWAlgorithms(kwargs['kw_alg'])", "kwargs['kms_script']"], eag_ret,
                  "(encrypt_and_generate " + ENV + " encryptor_new ent plaintext_ key_name_ key_id_ context_ ha_ ka_)", True)
    out.append("(* cmd_encrypt.encrypt_and_generate: the files written into --output-dir, in order (skeleton; names and written expressions extracted) *)")
    out.append("Definition cli_encrypt_and_generate " + ENVSIG + "(ent : nat) (plaintext_ key_name_ : list Z) (key_id_ : Z) (context_ : option (list Z)) (hash_alg_ kw_alg_ : list Z) :=\n"
               "  match enum_of digest_algs hash_alg_ with Raise x => Raise x | Ok ha_ =>\n"
               "  match enum_of kw_algs kw_alg_ with Raise x => Raise x | Ok ka_ =>\n" + body + " end end.\n")
    body = writer("generate_info", "cli_generate_info",
                  ["encryptor = _import_encryptor(kwargs['encrypt_script'])", "with open(kwargs['encrypted_firmware'], 'rb') as file:\n    encrypted_firmware = file.read()",
                   "with open(kwargs['encrypted_key'], 'rb') as file:\n    encrypted_key = file.read()"],
                  "encryptor.generate", ["encrypted_firmware", "encrypted_key", "kwargs['key_id']", "SuitKWAlgorithms(kwargs['kw_alg'])"], gen_ret,
                  "(generate encryptor_new encrypted_firmware_ (Some encrypted_key_) key_id_ ka_)", False)
    out.append("(* cmd_encrypt.generate_info *)")
    out.append("Definition cli_generate_info (encrypted_firmware_ encrypted_key_ : list Z) (key_id_ : Z) (kw_alg_ : list Z) :=\n"
               "  match enum_of kw_algs kw_alg_ with Raise x => Raise x | Ok ka_ =>\n" + body + " end.\n")

    # ---- SuitEncryptionInfoExt.from_obj (skeleton): {"raw": hex} | {"file": path} -> SuitBstr(deserialize_cbor(bytes)); to_cbor = dumps(value)
    fo = find_def(sec, "SuitEncryptionInfoExt.from_obj")
    expect(fo, ["if not isinstance(obj, dict):\n    raise ValueError", "enc_info_bytes = b''",
                "if 'raw' in obj.keys():\n    enc_info_bytes = bytes.fromhex(obj['raw'])\nelif 'file' in obj.keys():\n    with open(obj['file'], 'rb') as fd:\n"
                "        enc_info_bytes = fd.read()\nelse:\n    raise ValueError",
                "return super().from_cbor(super().deserialize_cbor(enc_info_bytes))"], "SuitEncryptionInfoExt.from_obj")
    cls = find_def(sec, "SuitEncryptionInfoExt")
    if [ast.unparse(b) for b in cls.bases] != ["SuitBstr"] or sorted(n.name for n in cls.body if isinstance(n, ast.FunctionDef)) != ["from_cbor", "from_obj", "to_obj"]:
        raise Unsupported(cls, "SuitEncryptionInfoExt base class / overridden methods")
    out.append("(* SuitEncryptionInfoExt.from_obj({raw|file: info}).to_cbor(): cbor2.loads(info) must be a byte string (or None), which SuitBstr re-serialises *)")
    out.append("Definition enc_info_ext_to_cbor (info : list Z) : res (list Z) :=\n"
               "  match loads info with\n  | Some (CBytes b) => Ok (encode (CBytes b))\n  | Some (CSimple 22) => Ok (encode (CSimple 22))\n  | _ => Raise ValueError\n  end.\n")
    return "\n".join(out)


UNITS = {"GenEncrypt": gen_encrypt}
