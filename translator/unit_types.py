"""GenTypes / GenKeys: the SUIT type tables, by introspection of the imported package (literal data, no semantics).

Walks `_metadata` from the root classes and emits one `ty` term per class (coq/Suit/Ty.v).  Every class is a named
entry of `types`; children are referenced by name (TRef), `cbstr(X)` becomes `TCbstr (TRef "X")`.  A class outside
suit/types/common.py that defines one of the interpreter methods itself must be one of the known special classes with
exactly the expected set of overridden methods — anything else fails closed.
"""
import importlib
import sys

GENERIC = {
    "SuitInt": "TInt", "SuitUint": "TUint", "SuitBool": "TBool", "SuitNull": "TNull", "SuitTstr": "TTstr",
    "SuitBstr": "TBstr", "SuitHex": "THex", "SuitEmptyBstr": "TEmptyBstr", "SuitBchar": "TBchar",
}
METHODS = ["__init__", "from_obj", "to_obj", "from_cbor", "to_cbor"]
# special classes (hand-modelled in coq/Suit/Interp.v) and the methods each is expected to define itself
SPECIAL = {
    "SuitUUID": ("TUUID", {"from_cbor", "from_obj", "to_obj"}),
    "SuitImageSize": ("TImageSize", {"to_obj", "from_obj"}),
    "SuitComponentVersion": ("TComponentVersion", {"from_obj"}),
    "SuitComponentIdentifier": None,  # generic list, to_obj override is identical to SuitList.to_obj: handled below
    "SuitIntegratedPayloadMap": ("TPayloadMap", {"from_obj"}),
    "SuitDigestExt": ("TDigestExt", {"from_cbor", "from_obj"}),
    "SuitHeaderMapOptional": None,  # union with from_obj override: TUnionHMO
    "SuitEncryptionInfoExt": ("TEncInfoExt", {"to_obj", "from_obj", "from_cbor"}),
}


def s(x):
    return '(s2b "%s")' % x.replace('"', '""')


def z(n):
    return f"({n})" if n < 0 else str(n)


class Fail(Exception):
    pass


def gen(repo):
    for m in [k for k in sys.modules if k.startswith("suit_generator")]:
        del sys.modules[m]
    if sys.path[0] != repo:
        sys.path.insert(0, repo)
    common = importlib.import_module("suit_generator.suit.types.common")
    env_mod = importlib.import_module("suit_generator.suit.envelope")
    sec = importlib.import_module("suit_generator.suit.security")
    keys = importlib.import_module("suit_generator.suit.types.keys")
    if not common.__file__.startswith(repo):
        raise Fail(f"imported {common.__file__}, not the tree under {repo}")
    roots = [env_mod.SuitEnvelopeTagged, env_mod.SuitEnvelopeTaggedSimplified, sec.CoseSigStructure, sec.CoseEncStructure]
    out, seen, order = {}, set(), []

    def is_cbstr(cls):
        return cls.__qualname__.endswith("Cbstr") and "cbstr.<locals>" in cls.__qualname__ or cls.__name__ == "Cbstr" or (
            "to_cbor" in cls.__dict__ and cls.__dict__["to_cbor"].__qualname__.startswith("cbstr.<locals>"))

    def ref(cls):
        if is_cbstr(cls):
            base = cls.__mro__[1]
            visit(base)
            return f"TCbstr (TRef {s(base.__name__)})"
        visit(cls)
        return f"TRef {s(cls.__name__)}"

    def own_methods(cls):
        return {m for m in METHODS if m in cls.__dict__}

    def generic_base(cls):
        for b in cls.__mro__:
            if b.__module__ == common.__name__ and b.__name__ != "PrettyPrintHelperMixin":
                return b
        return None

    def visit(cls):
        name = cls.__name__
        if name in seen:
            return
        seen.add(name)
        md = cls._metadata if hasattr(cls, "_metadata") else None
        own = set()
        for b in cls.__mro__:
            if b.__module__ == common.__name__ or b is object:
                break
            if b.__name__ == "SuitBasicEnvelopeOperationsMixin" or b.__name__ == "PrettyPrintHelperMixin":
                continue
            own |= own_methods(b)
        gb = generic_base(cls)
        if name in SPECIAL and SPECIAL[name] is not None:
            con, expect = SPECIAL[name]
            if own != expect:
                raise Fail(f"special class {name} defines {sorted(own)}, expected {sorted(expect)}")
            if con == "TPayloadMap":
                (k, v), = md.map.items()
                term = f"TPayloadMap ({ref(k)}) ({ref(v)})"
            elif con == "TComponentVersion":
                term = f"TComponentVersion ({ref(md.children[0])})"
            else:
                term = con
        else:
            allowed = set()
            if name == "SuitComponentIdentifier":
                allowed = {"to_obj"}
            if name == "SuitHeaderMapOptional":
                allowed = {"from_obj"}
            if own != allowed:
                raise Fail(f"class {name} overrides {sorted(own)} (not a known special class)")
            if gb is None:
                raise Fail(f"class {name} has no generic base")
            g = gb.__name__
            if g in GENERIC:
                term = GENERIC[g]
            elif g == "SuitEnum":
                term = "TEnum [" + "; ".join(f"({s(c.name)}, {z(c.id)})" for c in md.children) + "]"
            elif g == "SuitUnion":
                con = "TUnionHMO" if name == "SuitHeaderMapOptional" else "TUnion"
                term = f"{con} [" + "; ".join(ref(c) for c in md.children) + "]"
            elif g == "SuitTupleNamed":
                if any("*" in k for k in list(md.map.keys())[:-1]):
                    raise Fail(f"{name}: a starred field that is not the last one")
                term = "TTuple [" + "; ".join(f"({s(k)}, {ref(c)})" for k, c in md.map.items()) + "]"
            elif g in ("SuitKeyValue", "SuitKeyValueTuple"):
                ents = []
                for k, c in md.map.items():
                    if k.id is None or k.name is None:
                        raise Fail(f"{name}: key without id/name")
                    ents.append(f"({s(k.name)}, {z(k.id)}, {ref(c)})")
                if g == "SuitKeyValue":
                    emb = "None" if md.embedded is None else "Some [" + "; ".join(z(e.id) for e in md.embedded) + "]"
                    term = "TKeyValue [" + "; ".join(ents) + f"] ({emb})"
                else:
                    if md.embedded is not None:
                        raise Fail(f"{name}: embedded on a key/value tuple")
                    term = "TKVTuple [" + "; ".join(ents) + "]"
            elif g == "SuitKeyValueUnnamed":
                term = "TKVUnnamed [" + "; ".join(f"({ref(k)}, {ref(v)})" for k, v in md.map.items()) + "]"
            elif g in ("SuitList", "SuitListUint"):
                ch = md.children if md is not None else None
                grp = cls._group
                if not ch:
                    raise Fail(f"{name}: list node without an element type")
                elem = f"Some ({ref(ch[0])})"
                if ch and len(ch) != 1:
                    raise Fail(f"{name}: list with {len(ch)} children")
                term = f"TList ({elem}) ({'None' if grp is None else 'Some ' + z(grp)})"
            elif g == "SuitBitfield":
                term = f"TBitfield ({ref(cls._bit_class)}) {z(cls._bit_length)}"
            elif g == "SuitTag":
                if len(md.children) != 1:
                    raise Fail(f"{name}: tag with {len(md.children)} children")
                term = f"TTag {z(md.tag.value)} {s(md.tag.name)} ({ref(md.children[0])})"
            elif g == "SuitObject":
                term = "TAny"
            else:
                raise Fail(f"{name}: unknown generic base {g}")
        out[name] = term
        order.append(name)

    for r in roots:
        visit(r)
    # names the interpreter itself refers to
    for need in ["SuitDigestRaw", "SuitEnvelopeTagged", "SuitEnvelopeTaggedSimplified", "SuitEmptyBstr", "SuitHeaderMap",
                 "SuitBstr", "SuitUint", "SuitListUint"]:
        if need not in out:
            cls = getattr(env_mod, need, None) or getattr(sec, need, None) or getattr(common, need)
            visit(cls)
    lines = ["(* GENERATED by /verif/translator/unit_types.py from the imported suit_generator package — do not edit *)",
             "Require Import Coq.Strings.String.", "From Verif Require Import Base.Prim Run.Wire Suit.Ty.", "",
             "Definition types : list (bytes * ty) := ["]
    lines.append(";\n".join(f"  ({s(n)}, {out[n]})" for n in order))
    lines.append("].\n")
    # hash table of SuitHash
    hf = sec.SuitHash._hash_func
    lines.append("(* SuitHash._hash_func: name |-> (primitive, digest size in bytes) *)")
    lines.append("Definition hash_table : list (bytes * (bytes * Z)) := [" + "; ".join(
        f"({s(k)}, ({s(type(v).__name__)}, {v.digest_size}))" for k, v in hf.items()) + "].\n")
    # all key constants of keys.py (class name, id, name)
    ks = []
    for n, o in vars(keys).items():
        if isinstance(o, type) and issubclass(o, keys.suit_key) and o is not keys.suit_key:
            ks.append(f"({s(n)}, {'None' if o.id is None else 'Some ' + z(o.id)}, {'None' if o.name is None else 'Some ' + s(o.name)})")
    lines.append("Definition all_keys : list (bytes * option Z * option bytes) := [\n  " + ";\n  ".join(ks) + "].\n")
    lines += envelope_ops(repo, keys)
    return "\n".join(lines)


def _calls(fn):
    """Names of the `x.<name>()` calls made as statements / returns in a function body, in source order."""
    import ast
    out = []
    for node in ast.walk(fn):
        pass
    class V(ast.NodeVisitor):
        def visit_Call(self, c):
            self.generic_visit(c)
            if isinstance(c.func, ast.Attribute):
                out.append((c.lineno, c.col_offset, c.func.attr))
    V().visit(fn)
    return [n for _, _, n in sorted(out)]


def envelope_ops(repo, keys):
    """Extract severable_elements and the order of the digest updates before serialisation (fail closed)."""
    import ast
    import os
    from pyg import find_def
    step = {"update_severable_digests": 1, "update_digest": 2}
    res = []
    tree = ast.parse(open(os.path.join(repo, "suit_generator/suit/envelope.py")).read())
    usd = find_def(tree, "SuitBasicEnvelopeOperationsMixin.update_severable_digests")
    sev = None
    for st in usd.body:
        if isinstance(st, ast.Assign) and ast.unparse(st.targets[0]) == "severable_elements" and isinstance(st.value, ast.List):
            sev = [getattr(keys, e.id).id for e in st.value.elts]
    loops = [st for st in usd.body if isinstance(st, ast.For)]
    if sev is None or len(loops) != 1 or ast.unparse(loops[0].iter) != "severable_elements":
        raise Fail("update_severable_digests: severable_elements list / loop not recognised")
    res.append("Definition severable_ids : list Z := [" + "; ".join(z(i) for i in sev) + "].")

    def steps_of(fn, first, last, what):
        names = [n for n in _calls(fn) if n in step or n in (first, last)]
        if not names or names[0] != first or names[-1] != last or names.count(first) != 1 or names.count(last) != 1:
            raise Fail(f"{what}: call sequence {names} not recognised")
        return "[" + "; ".join(str(step[n]) for n in names[1:-1]) + "]"

    rp = find_def(tree, "SuitBasicEnvelopeOperationsMixin.return_processed_binary_data")
    # the dict branch: from_obj ... to_cbor
    br = [st for st in rp.body if isinstance(st, ast.If)]
    if len(br) != 1 or ast.unparse(br[0].test) != "isinstance(obj, dict)":
        raise Fail("return_processed_binary_data: shape not recognised")
    dict_branch = ast.Module(body=br[0].body, type_ignores=[])
    res.append("Definition steps_processed : list Z := " + steps_of(dict_branch, "from_obj", "to_cbor", "return_processed_binary_data") + ".")
    io = ast.parse(open(os.path.join(repo, "suit_generator/input_output.py")).read())
    psd = find_def(io, "InputOutputMixin.prepare_suit_data")
    res.append("Definition steps_prepare : list Z := " + steps_of(psd, "from_obj", "to_cbor", "prepare_suit_data") + ".")
    tsf = find_def(io, "InputOutputMixin.to_suit_file")
    if [n for n in _calls(tsf) if n in ("prepare_suit_data", "write", "open")] != ["open", "write", "prepare_suit_data"] and \
            [n for n in _calls(tsf) if n in ("prepare_suit_data", "write")] != ["prepare_suit_data", "write"] and \
            "prepare_suit_data" not in _calls(tsf):
        raise Fail("to_suit_file does not write prepare_suit_data(data)")
    sec = ast.parse(open(os.path.join(repo, "suit_generator/suit/security.py")).read())
    dx = find_def(sec, "SuitDigestExt.from_obj")
    envb = None
    for node in ast.walk(dx):
        if isinstance(node, ast.If) and ast.unparse(node.test) == "'envelope' in digest_dict.keys()":
            envb = ast.Module(body=node.body, type_ignores=[])
    if envb is None:
        raise Fail("SuitDigestExt.from_obj: envelope branch not recognised")
    names = [n for n in _calls(envb) if n in step or n == "get_manifest_digest"]
    if not names or names[-1] != "get_manifest_digest" or names.count("get_manifest_digest") != 1:
        raise Fail(f"SuitDigestExt.from_obj: call sequence {names} not recognised")
    res.append("Definition steps_digest_ext : list Z := [" + "; ".join(str(step[n]) for n in names[:-1]) + "].")
    return res + [""]


UNITS = {"GenTypes": gen}
