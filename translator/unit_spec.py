"""GenSpec: the HAND-WRITTEN registry /verif/spec/registry.json rendered as Gallina data (no information from /repo)."""
import json
import os

HERE = os.path.dirname(os.path.abspath(__file__))


def s(x):
    return '(s2b "%s")' % x.replace('"', '""')


def z(n):
    return f"({n})" if n < 0 else str(n)


def gen(repo):
    reg = json.load(open(os.path.join(HERE, "..", "spec", "registry.json")))
    out = ["(* GENERATED from /verif/spec/registry.json (hand-written specification side) — do not edit *)",
           "Require Import Coq.Strings.String.", "From Verif Require Import Base.Prim Base.Str.", "",
           "(* key space, implementing class, closed?, entries (name, registered integer) *)",
           "Definition registry : list (bytes * bytes * bool * list (bytes * Z)) := ["]
    rows = []
    for sp, d in reg["spaces"].items():
        ents = "; ".join(f"({s(n)}, {z(i)})" for n, i in d["entries"].items())
        rows.append(f"  ({s(sp)}, {s(d['class'])}, {'true' if d['closed'] else 'false'}, [{ents}])")
    out.append(";\n".join(rows) + "].\n")
    out.append("Definition registry_tags : list (bytes * Z) := [" + "; ".join(f"({s(k)}, {z(v)})" for k, v in reg["tags"].items()) + "].\n")
    out.append("Definition registry_hash_len : list (bytes * Z) := [" + "; ".join(
        f"({s(k)}, {z(v)})" for k, v in reg["hash_output_bytes"].items()) + "].\n")
    out.append("Definition registry_hash : list (bytes * (bytes * Z)) := [" + "; ".join(
        f"({s(k)}, ({s(reg['hash_primitive'][k])}, {z(v)}))" for k, v in reg["hash_output_bytes"].items()) + "].\n")
    return "\n".join(out)


UNITS = {"GenSpec": gen}
