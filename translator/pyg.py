#!/usr/bin/env python3
"""PyG — restricted, fail-closed Python -> Gallina translator.

Translates loop-free (plus two loop templates) methods over ints, bools, bytes, ASCII strings, lists and literal
CBOR structures into a `res`-monadic Gallina term.  Statements are translated by continuation duplication, so
Python's mutable locals are exact without phi nodes.  Every partial primitive is bound monadically, so the
exceptions Python would raise are part of the model.  Anything outside the subset raises Unsupported: the
unit then falls back to correspondence with the committed snapshot (see DESIGN.md section 2.2).
"""
import ast
import textwrap

INT, BOOL, BYTES, STR, NONE, CBOR = ("int",), ("bool",), ("bytes",), ("str",), ("none",), ("cbor",)


def LIST(t):
    return ("list", t)


def OPT(t):
    return ("opt", t)


def DICT(k, v):
    return ("dict", k, v)


def TUPLE(*ts):
    return ("tuple",) + tuple(ts)


class Unsupported(Exception):
    def __init__(self, node, why=""):
        txt = ast.unparse(node)[:90] if isinstance(node, ast.AST) else str(node)
        super().__init__(f"line {getattr(node, 'lineno', '?')}: unsupported {type(node).__name__} {why}: {txt}")


def gtype(t):
    k = t[0]
    if k == "int":
        return "Z"
    if k == "bool":
        return "bool"
    if k in ("bytes", "str"):
        return "(list Z)"
    if k == "none":
        return "unit"
    if k == "cbor":
        return "cbor"
    if k == "list":
        return f"(list {gtype(t[1])})"
    if k == "opt":
        return f"(option {gtype(t[1])})"
    if k == "dict":
        return f"(list ({gtype(t[1])} * {gtype(t[2])}))"
    if k == "tuple":
        return "(" + " * ".join(gtype(x) for x in t[1:]) + ")"
    if k == "rec":
        return t[1]
    raise ValueError(t)


def zlit(n):
    return f"({n})"


def byteslit(b):
    return "[" + "; ".join(str(x) for x in b) + "]"


def strlit(s):
    b = s.encode("utf-8")
    return "[" + "; ".join(str(x) for x in b) + "]"


EXN = {"ValueError", "GeneratorError", "SUITError", "OverflowError", "SignerError", "TypeError", "NotImplementedError"}


class Ctx:
    def __init__(self, tr, fields, params, rectype):
        self.tr = tr
        self.fields = fields  # attr -> type (None if the function has no self)
        self.vars = dict(params)  # python name -> (gallina ident, type)
        self.selfv = "self"
        self.rectype = rectype
        self.loopvar = None  # (dict python name, key python name, gallina value ident, vtype)

    def copy(self):
        c = Ctx(self.tr, self.fields, {}, self.rectype)
        c.vars = dict(self.vars)
        c.selfv = self.selfv
        c.loopvar = self.loopvar
        return c


class Translator:
    """One Translator per generated file; `consts` are module/class level constants visible by name."""

    def __init__(self, consts=None, funcs=None):
        self.n = 0
        self.consts = consts or {}  # dotted name -> (gallina term, type)
        self.funcs = funcs or {}  # dotted callee name -> (gallina name, [param types], return type, effectful, takes_self)
        self.out = []
        self.nbinds = 0  # number of monadic binds / raises emitted so far (purity test for comprehensions)

    def fresh(self, base):
        self.n += 1
        base = "".join(ch if ch.isalnum() or ch == "_" else "_" for ch in base)
        return f"{base}_{self.n}"

    # ------------------------------------------------------------------ expressions (CPS)
    def expr(self, e, cx, k):
        """Translate expression e; k(term, type) -> str continues with a *pure* term."""
        if isinstance(e, ast.Constant):
            v = e.value
            if isinstance(v, bool):
                return k("true" if v else "false", BOOL)
            if isinstance(v, int):
                return k(zlit(v), INT)
            if isinstance(v, bytes):
                return k(byteslit(v), BYTES)
            if isinstance(v, str):
                return k(strlit(v), STR)
            if v is None:
                return k("tt", NONE)
            raise Unsupported(e)
        if isinstance(e, ast.Name):
            if e.id in cx.vars:
                g, t = cx.vars[e.id]
                return k(g, t)
            if e.id in self.consts:
                g, t = self.consts[e.id]
                return k(g, t)
            raise Unsupported(e, "unknown name")
        if isinstance(e, ast.Attribute):
            dotted = ast.unparse(e)
            if isinstance(e.value, ast.Name) and e.value.id == "self" and cx.fields is not None and e.attr in cx.fields:
                return k(f"({e.attr} {cx.selfv})", cx.fields[e.attr])
            if dotted in self.consts:
                g, t = self.consts[dotted]
                return k(g, t)
            raise Unsupported(e, "unknown attribute")
        if isinstance(e, ast.JoinedStr):
            return self.fstring(e, cx, k)
        if isinstance(e, ast.UnaryOp) and isinstance(e.op, ast.Not):
            return self.expr(e.operand, cx, lambda a, ta: self._need(ta, BOOL, e) or k(f"(negb {a})", BOOL))
        if isinstance(e, ast.UnaryOp) and isinstance(e.op, ast.USub) and isinstance(e.operand, ast.Constant):
            return k(zlit(-e.operand.value), INT)
        if isinstance(e, ast.BoolOp):
            op = "&&" if isinstance(e.op, ast.And) else "||"

            def go(vals, acc):
                if not vals:
                    return k(acc, BOOL)
                return self.expr(vals[0], cx, lambda a, ta: self._need(ta, BOOL, e) or go(vals[1:], a if acc is None else f"({acc} {op} {a})"))

            # note: operands are pure in the supported subset, so short-circuiting is unobservable
            return go(e.values, None)
        if isinstance(e, ast.BinOp):
            return self.expr(e.left, cx, lambda a, ta: self.expr(e.right, cx, lambda b, tb: self.binop(e, a, ta, b, tb, k)))
        if isinstance(e, ast.Compare) and len(e.ops) == 1:
            return self.expr(
                e.left, cx, lambda a, ta: self.expr(e.comparators[0], cx, lambda b, tb: self.compare(e, a, ta, b, tb, k))
            )
        if isinstance(e, ast.Compare) and len(e.ops) == 2 and len(e.comparators) == 2:
            # a < b < c
            first = ast.Compare(left=e.left, ops=[e.ops[0]], comparators=[e.comparators[0]])
            second = ast.Compare(left=e.comparators[0], ops=[e.ops[1]], comparators=[e.comparators[1]])
            return self.expr(ast.BoolOp(op=ast.And(), values=[first, second]), cx, k)
        if isinstance(e, ast.Subscript):
            return self.subscript(e, cx, k)
        if isinstance(e, ast.List):
            return self.list_lit(e, cx, k)
        if isinstance(e, ast.Tuple):

            def go(elts, acc, ts):
                if not elts:
                    return k("(" + ", ".join(acc) + ")", TUPLE(*ts))
                return self.expr(elts[0], cx, lambda a, ta: go(elts[1:], acc + [a], ts + [ta]))

            return go(e.elts, [], [])
        if isinstance(e, ast.IfExp):
            return self.expr(
                e.test,
                cx,
                lambda c, tc: self._need(tc, BOOL, e)
                or self.expr(e.body, cx, lambda a, ta: self.expr(e.orelse, cx, lambda b, tb: self._same(ta, tb, e) or k(f"(if {c} then {a} else {b})", ta))),
            )
        if isinstance(e, ast.Call):
            return self.call(e, cx, k)
        if isinstance(e, ast.ListComp):
            return self.listcomp(e, cx, k)
        raise Unsupported(e)

    def static_isinstance(self, e, cx):
        """isinstance(<local>, <builtin type>) decided from the static type of the local; None if not of that form."""
        if not (isinstance(e, ast.Call) and isinstance(e.func, ast.Name) and e.func.id == "isinstance" and len(e.args) == 2
                and isinstance(e.args[0], ast.Name) and isinstance(e.args[1], ast.Name) and e.args[0].id in cx.vars):
            return None
        t = cx.vars[e.args[0].id][1]
        py = {"int": "int", "bool": "bool", "bytes": "bytes", "str": "str", "list": "list", "dict": "dict", "none": None}.get(t[0], "?")
        if py == "?" or e.args[1].id not in ("int", "bool", "bytes", "str", "list", "dict", "float", "tuple"):
            return None
        if e.args[1].id == "int" and py == "bool":
            return True  # bool is a subclass of int
        return py == e.args[1].id

    def iter_range(self, it, cx, k):
        """range(a[, b[, s]]) as an iterable: k(term of type list Z)."""
        if not (isinstance(it, ast.Call) and isinstance(it.func, ast.Name) and it.func.id == "range" and 1 <= len(it.args) <= 3 and not it.keywords):
            return None
        a = [ast.Constant(value=0), it.args[0], ast.Constant(value=1)] if len(it.args) == 1 else list(it.args) + [ast.Constant(value=1)] * (3 - len(it.args))

        def done(xs):
            for _, t in xs:
                self._need(t, INT, it)
            return self.bindres("(range_step " + " ".join(x for x, _ in xs) + ")", LIST(INT), "r", k)

        return self.args(a, cx, done)

    def listcomp(self, e, cx, k):
        """[elt for x in xs]  (one generator, no condition): map, or mapM when elt can raise."""
        if len(e.generators) != 1:
            raise Unsupported(e, "comprehension with several generators")
        g = e.generators[0]
        if g.ifs or g.is_async or not isinstance(g.target, ast.Name):
            raise Unsupported(e, "comprehension shape")

        def with_iter(xs, txs):
            if txs == BYTES:
                et = INT
            elif txs[0] == "list":
                et = txs[1]
            else:
                raise Unsupported(e, f"comprehension over {txs}")
            bcx = cx.copy()
            v = self.fresh(g.target.id)
            bcx.vars[g.target.id] = (v, et)
            res = {}
            before = self.nbinds

            def kelt(a, ta):
                res["t"] = ta
                return "\0" + a + "\1"

            body = self.expr(e.elt, bcx, kelt)
            if self.nbinds == before and body.startswith("\0") and body.endswith("\1"):
                return k(f"(map (fun {v} => {body[1:-1]}) {xs})", LIST(res["t"]))
            body = body.replace("\0", "Ok (").replace("\1", ")")
            return self.bindres(f"(mapM (fun {v} =>\n{textwrap.indent(body, '  ')}) {xs})", LIST(res["t"]), g.target.id + "s", k)

        r = self.iter_range(g.iter, cx, with_iter)
        if r is not None:
            return r
        return self.expr(g.iter, cx, with_iter)

    def _need(self, t, want, node):
        if t != want:
            raise Unsupported(node, f"type {t}, expected {want}")
        return None

    def _same(self, a, b, node):
        if a != b:
            raise Unsupported(node, f"types differ {a} {b}")
        return None

    def binop(self, e, a, ta, b, tb, k):
        op = type(e.op)
        if ta == INT and tb == INT:
            sym = {ast.Add: "+", ast.Sub: "-", ast.Mult: "*", ast.FloorDiv: "/", ast.Mod: "mod"}.get(op)
            if sym:
                return k(f"({a} {sym} {b})", INT)
            if op is ast.LShift:
                return k(f"(Z.shiftl {a} {b})", INT)
            if op is ast.RShift:
                return k(f"(Z.shiftr {a} {b})", INT)
            if op is ast.BitAnd:
                return k(f"(Z.land {a} {b})", INT)
            if op is ast.BitOr:
                return k(f"(Z.lor {a} {b})", INT)
            raise Unsupported(e)
        if op is ast.Add and ta == tb and ta[0] in ("bytes", "str", "list"):
            return k(f"({a} ++ {b})", ta)
        if op is ast.Mult and ta[0] in ("bytes", "str", "list") and tb == INT:
            return k(f"(mul_list {a} {b})", ta)
        if op is ast.Mult and tb[0] in ("bytes", "str", "list") and ta == INT:
            return k(f"(mul_list {b} {a})", tb)
        raise Unsupported(e, f"types {ta},{tb}")

    def compare(self, e, a, ta, b, tb, k):
        op = type(e.ops[0])
        if ta == INT and tb == INT:
            sym = {ast.Eq: "=?", ast.LtE: "<=?", ast.Lt: "<?", ast.GtE: ">=?", ast.Gt: ">?"}.get(op)
            if sym:
                return k(f"({a} {sym} {b})", BOOL)
            if op is ast.NotEq:
                return k(f"(negb ({a} =? {b}))", BOOL)
        if ta == tb and ta in (BYTES, STR):
            if op is ast.Eq:
                return k(f"(list_eqb {a} {b})", BOOL)
            if op is ast.NotEq:
                return k(f"(negb (list_eqb {a} {b}))", BOOL)
        if ta == BOOL and tb == BOOL and op is ast.Eq:
            return k(f"(Bool.eqb {a} {b})", BOOL)
        if op is ast.In and tb == LIST(ta) and ta in (STR, BYTES):
            return k(f"(str_in {a} {b})", BOOL)
        if op is ast.NotIn and tb == LIST(ta) and ta in (STR, BYTES):
            return k(f"(negb (str_in {a} {b}))", BOOL)
        if op in (ast.Is, ast.Eq) and tb == NONE and ta[0] == "opt":
            return k(f"(match {a} with None => true | Some _ => false end)", BOOL)
        if op in (ast.IsNot, ast.NotEq) and tb == NONE and ta[0] == "opt":
            return k(f"(match {a} with None => false | Some _ => true end)", BOOL)
        if ta[0] == "opt" and ta[1] == tb and tb in (STR, BYTES) and op is ast.Eq:
            return k(f"(match {a} with None => false | Some o_ => list_eqb o_ {b} end)", BOOL)
        raise Unsupported(e, f"compare types {ta},{tb}")

    def subscript(self, e, cx, k):
        sl = e.slice
        if isinstance(sl, ast.Slice):
            if sl.step is not None:
                raise Unsupported(e, "slice step")

            def with_recv(r, tr):
                if tr[0] not in ("bytes", "str", "list"):
                    raise Unsupported(e, f"slice of {tr}")
                lo, hi = sl.lower, sl.upper
                neg_hi = isinstance(hi, ast.UnaryOp) and isinstance(hi.op, ast.USub) and isinstance(hi.operand, ast.Constant)
                neg_lo = isinstance(lo, ast.UnaryOp) and isinstance(lo.op, ast.USub) and isinstance(lo.operand, ast.Constant)
                if lo is None and neg_hi:
                    return k(f"(drop_last {r} {zlit(hi.operand.value)})", tr)
                if hi is None and neg_lo:
                    return k(f"(take_last {r} {zlit(lo.operand.value)})", tr)
                if neg_hi or neg_lo:
                    raise Unsupported(e, "negative slice bound")
                if lo is None and hi is None:
                    return k(r, tr)
                if lo is None:
                    return self.expr(hi, cx, lambda h, th: self._need(th, INT, e) or k(f"(slice_to {r} {h})", tr))
                if hi is None:
                    return self.expr(lo, cx, lambda l, tl: self._need(tl, INT, e) or k(f"(slice_from {r} {l})", tr))
                return self.expr(
                    lo, cx, lambda l, tl: self.expr(hi, cx, lambda h, th: self._need(tl, INT, e) or self._need(th, INT, e) or k(f"(slice {r} {l} {h})", tr))
                )

            return self.expr(e.value, cx, with_recv)
        # d[k] inside `for k in d.keys()`
        if cx.loopvar and isinstance(e.value, ast.Name) and isinstance(sl, ast.Name) and (e.value.id, sl.id) == cx.loopvar[:2]:
            return k(cx.loopvar[2], cx.loopvar[3])
        raise Unsupported(e, "subscript")

    def list_lit(self, e, cx, k):
        def go(elts, acc, t):
            if not elts:
                if t is None:
                    raise Unsupported(e, "empty list literal needs a type")
                return k(" ++ ".join(acc) if acc else "[]", LIST(t))
            x = elts[0]
            if isinstance(x, ast.Starred):
                return self.expr(x.value, cx, lambda a, ta: (self._same(ta, LIST(t), e) if t else None) or go(elts[1:], acc + [a], ta[1]))
            return self.expr(x, cx, lambda a, ta: (self._same(ta, t, e) if t else None) or go(elts[1:], acc + [f"[{a}]"], ta))

        r = go(e.elts, [], None)
        return r

    def fstring(self, e, cx, k):
        def go(vals, acc):
            if not vals:
                return k("(" + " ++ ".join(acc) + ")" if acc else "[]", STR)
            v = vals[0]
            if isinstance(v, ast.Constant):
                return go(vals[1:], acc + [strlit(v.value)])
            if isinstance(v, ast.FormattedValue):
                spec = ast.unparse(v.format_spec) if v.format_spec else None

                def kk(a, ta):
                    if ta == STR and spec is None and v.conversion == -1:
                        return go(vals[1:], acc + [a])
                    if ta == INT and spec == "f'02x'":
                        return go(vals[1:], acc + [f"(hex_of_bytes [{a}])"])
                    raise Unsupported(e, f"format {ta} {spec}")

                return self.expr(v.value, cx, kk)
            raise Unsupported(e)

        return go(e.values, [])

    # ------------------------------------------------------------------ CBOR literal structures
    def to_cbor(self, e, cx, k):
        """cbor2.dumps(e): build the item term from the static type of e."""
        if isinstance(e, ast.List):

            def go(elts, acc):
                if not elts:
                    return k("(CArray [" + "; ".join(acc) + "])")
                return self.to_cbor(elts[0], cx, lambda a: go(elts[1:], acc + [a]))

            return go(e.elts, [])
        if isinstance(e, ast.Dict):

            def go(items, acc):
                if not items:
                    return k("(CMap [" + "; ".join(acc) + "])")
                (kk, vv) = items[0]
                return self.to_cbor(kk, cx, lambda a: self.to_cbor(vv, cx, lambda b: go(items[1:], acc + [f"({a}, {b})"])))

            return go(list(zip(e.keys, e.values)), [])
        if isinstance(e, ast.Call) and ast.unparse(e.func) in ("cbor2.CBORTag", "CBORTag") and len(e.args) == 2:
            return self.expr(e.args[0], cx, lambda t, tt: self._need(tt, INT, e) or self.to_cbor(e.args[1], cx, lambda a: k(f"(CTag {t} {a})")))
        if isinstance(e, ast.IfExp):
            return self.expr(
                e.test, cx, lambda c, tc: self.to_cbor(e.body, cx, lambda a: self.to_cbor(e.orelse, cx, lambda b: k(f"(if {c} then {a} else {b})")))
            )

        def conv(a, ta):
            return k(self.cbor_of(a, ta, e))

        return self.expr(e, cx, conv)

    def cbor_of(self, a, ta, node):
        if ta == CBOR:
            return a
        if ta == INT:
            return f"(cint {a})"
        if ta == BYTES:
            return f"(CBytes {a})"
        if ta == STR:
            return f"(CText {a})"
        if ta == NONE:
            return "cnull"
        if ta == BOOL:
            return f"(cbool {a})"
        if ta[0] == "opt":
            return f"(match {a} with None => cnull | Some o_ => {self.cbor_of('o_', ta[1], node)} end)"
        if ta[0] == "list":
            return f"(CArray (map (fun x_ => {self.cbor_of('x_', ta[1], node)}) {a}))"
        raise Unsupported(node, f"no CBOR form for {ta}")

    # ------------------------------------------------------------------ calls
    def bindres(self, term, t, base, k):
        self.nbinds += 1
        v = self.fresh(base)
        return f"match {term} with Raise x => Raise x | Ok {v} =>\n{k(v, t)} end"

    def args(self, arglist, cx, k):
        def go(rest, acc):
            if not rest:
                return k(acc)
            return self.expr(rest[0], cx, lambda a, ta: go(rest[1:], acc + [(a, ta)]))

        return go(list(arglist), [])

    def call(self, e, cx, k):
        f = e.func
        name = ast.unparse(f)
        kw = {x.arg: x.value for x in e.keywords}
        if name == "bytes":
            if not e.args:
                return k("[]", BYTES)
            if isinstance(e.args[0], ast.List):
                return self.args(
                    e.args[0].elts,
                    cx,
                    lambda xs: [self._need(t, INT, e) for _, t in xs] and self.bindres("(bytes_of_ints [" + "; ".join(a for a, _ in xs) + "])", BYTES, "t", k),
                )
            raise Unsupported(e)
        if name == "len" and len(e.args) == 1:
            return self.expr(e.args[0], cx, lambda a, ta: k(f"(blen {a})", INT) if ta[0] in ("bytes", "str", "list", "dict") else self._need(ta, BYTES, e))
        if name == "isinstance":
            st = self.static_isinstance(e, cx)
            if st is None:
                raise Unsupported(e, "isinstance not statically decidable")
            return k("true" if st else "false", BOOL)
        if name == "int" and len(e.args) == 1 and not e.keywords:
            return self.expr(e.args[0], cx, lambda a, ta: k(a, INT) if ta == INT else (self._need(ta, STR, e) or self.bindres(f"(int_of_str {a})", INT, "n", k)))
        if name == "str" and len(e.args) == 1:
            return self.expr(e.args[0], cx, lambda a, ta: self._need(ta, INT, e) or k(f"(str_of_nonneg {a})", STR))
        if name == "math.ceil" and isinstance(e.args[0], ast.BinOp) and isinstance(e.args[0].op, ast.Div):
            d = e.args[0]
            return self.expr(d.left, cx, lambda a, ta: self.expr(d.right, cx, lambda b, tb: self._need(ta, INT, e) or self._need(tb, INT, e) or k(f"(ceil_div {a} {b})", INT)))
        if name in ("cbor2.dumps", "cbor_dumps", "dumps") and len(e.args) == 1:
            return self.to_cbor(e.args[0], cx, lambda a: k(f"(encode {a})", BYTES))
        if name in ("cbor2.CBORTag", "CBORTag"):
            return self.to_cbor(e, cx, lambda a: k(a, CBOR))
        if name == "struct.Struct" and len(e.args) == 1:
            return self.expr(e.args[0], cx, lambda a, ta: self._need(ta, STR, e) or k(a, ("structfmt",)))
        if isinstance(f, ast.Attribute):
            recv = f.value
            # calls to other translated functions: self.m(...), Class.m(...)
            if name in self.funcs:
                gname, ptypes, rt, eff, takes_self = self.funcs[name]

                def done(xs):
                    if len(xs) != len(ptypes) or any(t != p for (_, t), p in zip(xs, ptypes)):
                        raise Unsupported(e, f"argument types {[t for _, t in xs]} vs {ptypes}")
                    term = "(" + " ".join([gname] + ([cx.selfv] if takes_self else []) + [a for a, _ in xs]) + ")"
                    return self.bindres(term, rt, "t", k) if eff else k(term, rt)

                return self.args(e.args, cx, done)
            if f.attr == "to_bytes":
                n_e = e.args[0] if e.args else kw.get("length")
                order = e.args[1] if len(e.args) > 1 else kw.get("byteorder")
                if isinstance(order, (ast.Attribute, ast.Name)) and ast.unparse(order) in self.consts:
                    oc = self.consts[ast.unparse(order)]
                    order_v = oc[2] if len(oc) > 2 else None
                elif isinstance(order, ast.Constant):
                    order_v = order.value
                else:
                    order_v = None
                if order_v not in ("big", "little"):
                    raise Unsupported(e, "byteorder")
                return self.expr(recv, cx, lambda r, tr: self.expr(n_e, cx, lambda n, tn: self._need(tr, INT, e) or self._need(tn, INT, e) or self.bindres(f"(to_bytes_{order_v} {n} {r})", BYTES, "t", k)))
            if f.attr == "ljust" and len(e.args) == 2:
                fill = e.args[1]
                if not (isinstance(fill, ast.Constant) and isinstance(fill.value, bytes) and len(fill.value) == 1):
                    raise Unsupported(e, "fill")
                return self.expr(recv, cx, lambda r, tr: self.expr(e.args[0], cx, lambda n, tn: self._need(tr, BYTES, e) or self._need(tn, INT, e) or k(f"(ljust {r} {n} {fill.value[0]})", BYTES)))
            if f.attr == "hex" and not e.args:
                return self.expr(recv, cx, lambda r, tr: self._need(tr, BYTES, e) or k(f"(hex_of_bytes {r})", STR))
            if f.attr == "find" and len(e.args) == 1:
                return self.expr(recv, cx, lambda r, tr: self.expr(e.args[0], cx, lambda p, tp: self._need(tr, BYTES, e) or self._need(tp, BYTES, e) or k(f"(find {r} {p})", INT)))
            if f.attr == "pack":

                def packed(r, tr):
                    if tr != ("structfmt",):
                        raise Unsupported(e, "pack on non-Struct")
                    if len(e.args) == 1 and isinstance(e.args[0], ast.Starred):
                        return self.expr(e.args[0].value, cx, lambda v, tv: self._need(tv, LIST(INT), e) or self.bindres(f"(struct_pack {r} {v})", BYTES, "t", k))
                    return self.args(e.args, cx, lambda xs: self.bindres(f"(struct_pack {r} [" + "; ".join(a for a, _ in xs) + "])", BYTES, "t", k))

                return self.expr(recv, cx, packed)
            if f.attr == "isnumeric" and not e.args and not e.keywords:
                return self.expr(recv, cx, lambda r, tr: self._need(tr, STR, e) or k(f"(isnumeric {r})", BOOL))
            if f.attr == "bit_length" and not e.args and not e.keywords:
                return self.expr(recv, cx, lambda r, tr: self._need(tr, INT, e) or k(f"(bit_length {r})", INT))
            if f.attr in ("replace", "split") and not e.keywords and len(e.args) == (2 if f.attr == "replace" else 1):
                if not all(isinstance(x, ast.Constant) and isinstance(x.value, str) and len(x.value.encode()) == 1 for x in e.args):
                    raise Unsupported(e, "only single ASCII character arguments")
                cs = " ".join(str(x.value.encode()[0]) for x in e.args)
                if f.attr == "replace":
                    return self.expr(recv, cx, lambda r, tr: self._need(tr, STR, e) or k(f"(replace_char {r} {cs})", STR))
                return self.expr(recv, cx, lambda r, tr: self._need(tr, STR, e) or k(f"(split {r} {cs})", LIST(STR)))
            if f.attr == "strip" and not e.args:
                return self.expr(recv, cx, lambda r, tr: self._need(tr, STR, e) or k(f"(str_strip {r})", STR))
        if name in self.funcs:
            gname, ptypes, rt, eff, takes_self = self.funcs[name]

            def done2(xs):
                if len(xs) != len(ptypes) or any(t != p for (_, t), p in zip(xs, ptypes)):
                    raise Unsupported(e, f"argument types {[t for _, t in xs]} vs {ptypes}")
                term = "(" + " ".join([gname] + [a for a, _ in xs]) + ")"
                return self.bindres(term, rt, "t", k) if eff else k(term, rt)

            return self.args(e.args, cx, done2)
        raise Unsupported(e, "call")

    # ------------------------------------------------------------------ statements
    def ret_none(self, cx, kind):
        if kind == "method":
            return f"Ok {cx.selfv}"
        return "Ok tt"

    def block(self, stmts, cx, kind, after=None):
        """kind: 'pure' (returns a value), 'method' (mutates self, returns None -> res self).
        `after(cx)` gives the continuation at the end of the block (used for loop bodies)."""
        if not stmts:
            return after(cx) if after else self.ret_none(cx, kind)
        s, rest = stmts[0], stmts[1:]
        if isinstance(s, ast.Expr) and isinstance(s.value, ast.Constant) and isinstance(s.value.value, str):
            return self.block(rest, cx, kind, after)  # docstring
        if isinstance(s, ast.Pass):
            return self.block(rest, cx, kind, after)
        if isinstance(s, ast.Return):
            if after:
                raise Unsupported(s, "return inside loop body")
            if s.value is None:
                return self.ret_none(cx, kind)
            if kind == "method":
                raise Unsupported(s, "value returned from a state-updating method")
            return self.expr(s.value, cx, lambda g, t: self._ret(g, t, cx))
        if isinstance(s, ast.Continue):
            if not after:
                raise Unsupported(s, "continue outside loop")
            return after(cx)
        if isinstance(s, ast.Raise):
            exc = s.exc.func if isinstance(s.exc, ast.Call) else s.exc
            nm = ast.unparse(exc).split(".")[-1]
            if nm not in EXN:
                raise Unsupported(s, "exception class")
            self.nbinds += 1
            return f"Raise {nm}"
        if isinstance(s, (ast.Assign, ast.AugAssign, ast.AnnAssign)):
            if isinstance(s, ast.Assign):
                if len(s.targets) != 1:
                    raise Unsupported(s)
                tgt, val = s.targets[0], s.value
            elif isinstance(s, ast.AnnAssign):
                tgt, val = s.target, s.value
            else:
                tgt, val = s.target, ast.BinOp(left=s.target, op=s.op, right=s.value)

            def k(g, t):
                if isinstance(tgt, ast.Name):
                    v = self.fresh(tgt.id)
                    cx.vars[tgt.id] = (v, t)
                    return f"let {v} := {g} in\n{self.block(rest, cx, kind, after)}"
                if isinstance(tgt, ast.Attribute) and isinstance(tgt.value, ast.Name) and tgt.value.id == "self" and cx.fields and tgt.attr in cx.fields:
                    if cx.fields[tgt.attr] != t:
                        raise Unsupported(s, f"field type {cx.fields[tgt.attr]} vs {t}")
                    v = self.fresh("self")
                    old = cx.selfv
                    cx.selfv = v
                    return f"let {v} := set_{tgt.attr} {g} {old} in\n{self.block(rest, cx, kind, after)}"
                if isinstance(tgt, ast.Tuple) and t[0] == "tuple" and len(tgt.elts) == len(t) - 1 and all(isinstance(x, ast.Name) for x in tgt.elts):
                    vs = [self.fresh(x.id) for x in tgt.elts]
                    for x, v, tt in zip(tgt.elts, vs, t[1:]):
                        cx.vars[x.id] = (v, tt)
                    pat = "(" + ", ".join(vs) + ")"
                    return f"let '{pat} := {g} in\n{self.block(rest, cx, kind, after)}"
                raise Unsupported(tgt)

            return self.expr(val, cx, k)
        if isinstance(s, ast.If) and self.static_isinstance(s.test, cx) is not None:
            # a test decided by the static types: only the live branch exists in the model
            return self.block((s.body if self.static_isinstance(s.test, cx) else s.orelse) + rest, cx, kind, after)
        if isinstance(s, ast.If):

            def kc(c, tc):
                if tc != BOOL:
                    raise Unsupported(s.test, "condition type")
                ca, cb = cx.copy(), cx.copy()
                a = self.block(s.body + rest, ca, kind, after)
                b = self.block(s.orelse + rest, cb, kind, after)
                return f"if {c} then\n{textwrap.indent(a, '  ')}\nelse\n{textwrap.indent(b, '  ')}"

            return self.expr(s.test, cx, kc)
        if isinstance(s, ast.Expr) and isinstance(s.value, ast.Call):
            c = s.value
            nm = ast.unparse(c.func)
            # self.<list field>.append(x)
            if isinstance(c.func, ast.Attribute) and c.func.attr == "append" and isinstance(c.func.value, ast.Attribute):
                fa = c.func.value
                if isinstance(fa.value, ast.Name) and fa.value.id == "self" and cx.fields and fa.attr in cx.fields and cx.fields[fa.attr][0] == "list":

                    def ka(g, t):
                        if LIST(t) != cx.fields[fa.attr]:
                            raise Unsupported(s, "append type")
                        v = self.fresh("self")
                        old = cx.selfv
                        cx.selfv = v
                        return f"let {v} := set_{fa.attr} ({fa.attr} {old} ++ [{g}]) {old} in\n{self.block(rest, cx, kind, after)}"

                    return self.expr(c.args[0], cx, ka)
            # call of a translated state-updating method: self.m(args)
            if nm in self.funcs and self.funcs[nm][4] and self.funcs[nm][2] == ("rec",):
                gname, ptypes, rt, eff, takes_self = self.funcs[nm]

                def done(xs):
                    if len(xs) != len(ptypes) or any(t != p for (_, t), p in zip(xs, ptypes)):
                        raise Unsupported(s, f"argument types {[t for _, t in xs]} vs {ptypes}")
                    v = self.fresh("self")
                    old = cx.selfv
                    cx.selfv = v
                    term = "(" + " ".join([gname, old] + [a for a, _ in xs]) + ")"
                    return f"match {term} with Raise x => Raise x | Ok {v} =>\n{self.block(rest, cx, kind, after)} end"

                return self.args(c.args, cx, done)
            # logging calls are not observable
            if nm.startswith(("log.", "logger.", "logging.")):
                return self.block(rest, cx, kind, after)
        if isinstance(s, ast.For):
            return self.forloop(s, rest, cx, kind, after)
        if isinstance(s, ast.With):
            return self.with_write(s, rest, cx, kind, after)
        raise Unsupported(s)

    def _ret(self, g, t, cx):
        self.last_ret_type = t
        return f"Ok {g}"

    def forloop(self, s, rest, cx, kind, after):
        """for x in xs: body  — the body may update self, raise, or continue; nothing else survives the loop."""
        if s.orelse:
            raise Unsupported(s, "for-else")
        if kind != "method":
            return self.accloop(s, rest, cx, kind, after)
        it = s.iter
        dict_iter = isinstance(it, ast.Call) and isinstance(it.func, ast.Attribute) and it.func.attr == "keys" and not it.args

        def with_iter(xs, txs):
            body_cx = cx.copy()
            sv = self.fresh("self")
            body_cx.selfv = sv
            if dict_iter:
                if txs[0] != "dict" or not isinstance(s.target, ast.Name) or not isinstance(it.func.value, ast.Name):
                    raise Unsupported(s, "dict iteration")
                kv, vv = self.fresh(s.target.id), self.fresh("v")
                body_cx.vars[s.target.id] = (kv, txs[1])
                body_cx.loopvar = (it.func.value.id, s.target.id, vv, txs[2])
                pat = f"'({kv}, {vv})"
            else:
                if txs[0] != "list" or not isinstance(s.target, ast.Name):
                    raise Unsupported(s, "iteration over non-list")
                kv = self.fresh(s.target.id)
                body_cx.vars[s.target.id] = (kv, txs[1])
                pat = kv
            assigned_before = set(cx.vars)
            body = self.block(s.body, body_cx, "method", after=lambda c: f"Ok {c.selfv}")
            v = self.fresh("self")
            old = cx.selfv
            cx.selfv = v
            return (
                f"match foldM (fun {sv} {pat} =>\n{textwrap.indent(body, '  ')}) {xs} {old} with Raise x => Raise x | Ok {v} =>\n"
                f"{self.block(rest, cx, kind, after)} end"
            )

        return self.expr(it.func.value if dict_iter else it, cx, with_iter)

    def accloop(self, s, rest, cx, kind, after):
        """for x in xs: <updates of locals defined before the loop>  ->  foldM over the tuple of updated locals."""
        if not isinstance(s.target, ast.Name):
            raise Unsupported(s, "loop target")
        accs = []
        for n in ast.walk(ast.Module(body=s.body, type_ignores=[])):
            tg = None
            if isinstance(n, ast.Assign) and len(n.targets) == 1:
                tg = n.targets[0]
            elif isinstance(n, (ast.AugAssign, ast.AnnAssign)):
                tg = n.target
            elif isinstance(n, (ast.Return, ast.Break, ast.For, ast.While, ast.With, ast.Try)):
                raise Unsupported(n, "statement inside an accumulating loop")
            if tg is not None:
                if not isinstance(tg, ast.Name):
                    raise Unsupported(n, "loop body may only update locals")
                if tg.id not in accs:
                    accs.append(tg.id)
        if not accs or any(a not in cx.vars for a in accs) or s.target.id in accs:
            raise Unsupported(s, "loop must update locals that are defined before it")
        types = [cx.vars[a][1] for a in accs]

        def with_iter(xs, txs):
            if txs == BYTES:
                et = INT
            elif txs[0] == "list":
                et = txs[1]
            else:
                raise Unsupported(s, f"iteration over {txs}")
            bcx = cx.copy()
            ins = [self.fresh(a) for a in accs]
            for a, v, t in zip(accs, ins, types):
                bcx.vars[a] = (v, t)
            xv = self.fresh(s.target.id)
            bcx.vars[s.target.id] = (xv, et)

            def end(c):
                for a, t in zip(accs, types):
                    if c.vars[a][1] != t:
                        raise Unsupported(s, f"type of {a} changes inside the loop")
                outs = [c.vars[a][0] for a in accs]
                return "Ok " + (outs[0] if len(outs) == 1 else "(" + ", ".join(outs) + ")")

            body = self.block(s.body, bcx, "pure", after=end)
            pat_in = ins[0] if len(ins) == 1 else "'(" + ", ".join(ins) + ")"
            init = cx.vars[accs[0]][0] if len(accs) == 1 else "(" + ", ".join(cx.vars[a][0] for a in accs) + ")"
            outs = [self.fresh(a) for a in accs]
            for a, v, t in zip(accs, outs, types):
                cx.vars[a] = (v, t)
            pat_out = outs[0] if len(outs) == 1 else "'(" + ", ".join(outs) + ")"
            self.nbinds += 1
            return (f"match foldM (fun {pat_in} {xv} =>\n{textwrap.indent(body, '  ')}) {xs} {init} with Raise x => Raise x | Ok {pat_out} =>\n"
                    f"{self.block(rest, cx, kind, after)} end")

        r = self.iter_range(s.iter, cx, with_iter)
        if r is not None:
            return r
        return self.expr(s.iter, cx, with_iter)

    def with_write(self, s, rest, cx, kind, after):
        """`with open(f, "wb") as fh: fh.write(E)` as the last statement: the function's result is E."""
        if rest or after or len(s.items) != 1 or len(s.body) != 1:
            raise Unsupported(s, "with")
        item = s.items[0]
        c = item.context_expr
        if not (isinstance(c, ast.Call) and ast.unparse(c.func) == "open" and len(c.args) == 2 and isinstance(c.args[1], ast.Constant) and c.args[1].value == "wb"):
            raise Unsupported(s, "with-open shape")
        b = s.body[0]
        if not (isinstance(b, ast.Expr) and isinstance(b.value, ast.Call) and isinstance(b.value.func, ast.Attribute) and b.value.func.attr == "write"
                and isinstance(b.value.func.value, ast.Name) and b.value.func.value.id == item.optional_vars.id and len(b.value.args) == 1):
            raise Unsupported(s, "with body")
        return self.expr(b.value.args[0], cx, lambda g, t: self._need(t, BYTES, s) or f"Ok {g}")

    # ------------------------------------------------------------------ definitions
    def record(self, name, fields):
        fl = "; ".join(f"{f} : {gtype(t)}" for f, t in fields.items())
        out = [f"Record {name} := {{ {fl} }}."]
        for f in fields:
            body = "; ".join(f"{g} := " + ("v" if g == f else f"{g} c") for g in fields)
            out.append(f"Definition set_{f} v c := {{| {body} |}}.")
        return "\n".join(out)

    def function(self, fn, gname, params, kind, fields=None, rectype=None):
        """fn: ast.FunctionDef; params: ordered dict name -> type (without self)."""
        self.last_ret_type = None
        cx = Ctx(self, fields, {p: (p + "_", t) for p, t in params.items()}, rectype)
        body = self.block(fn.body, cx, kind)
        sig = " ".join(f"({p}_ : {gtype(t)})" for p, t in params.items())
        selfsig = f"(self : {rectype}) " if fields is not None else ""
        return f"Definition {gname} {selfsig}{sig} :=\n{textwrap.indent(body, '  ')}."


def find_def(tree, qual):
    """qual: 'Class.method' or 'function'."""
    parts = qual.split(".")
    body = tree.body
    node = None
    for p in parts:
        node = next((n for n in body if isinstance(n, (ast.ClassDef, ast.FunctionDef)) and n.name == p), None)
        if node is None:
            raise KeyError(qual)
        body = node.body
    return node
