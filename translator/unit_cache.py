"""GenCache: CachePartition of suit_generator/cmd_cache_create.py (PyG-direct + the merge loop)."""
import ast

from pyg import BOOL, BYTES, DICT, INT, LIST, STR, Translator, Unsupported, find_def
from units import HEADER, parse, strip_read_prefix


def gen_cache(repo):
    rel = "suit_generator/cmd_cache_create.py"
    tree = parse(repo, rel)
    fields = {"first_slot": BOOL, "cache_data": BYTES, "eb_size": INT, "uris": LIST(STR)}
    tr = Translator(
        funcs={
            "self.add_padding": ("add_padding", [BYTES], BYTES, True, True),
            "self.add_cache_slot": ("add_cache_slot", [STR, BYTES], ("rec",), True, True),
        }
    )
    out = [HEADER.format(src=rel), tr.record("cache", fields), ""]
    # __init__ : the initial state
    init = find_def(tree, "CachePartition.__init__")
    want = ["self.first_slot = True", "self.cache_data = bytes()", "self.eb_size = eb_size", "self.uris = []"]
    got = [ast.unparse(s) for s in init.body if not (isinstance(s, ast.Expr) and isinstance(s.value, ast.Constant))]
    if got != want:
        raise Unsupported(init, f"constructor changed: {got}")
    out.append("Definition cache_init (eb_size_ : Z) : cache := {| first_slot := true; cache_data := []; eb_size := eb_size_; uris := [] |}.\n")
    out.append(tr.function(find_def(tree, "CachePartition.add_padding"), "add_padding", {"data": BYTES}, "pure", fields, "cache") + "\n")
    out.append(tr.function(find_def(tree, "CachePartition.add_cache_slot"), "add_cache_slot", {"uri": STR, "data": BYTES}, "method", fields, "cache") + "\n")
    out.append(tr.function(find_def(tree, "CachePartition.close_and_save_cache"), "close_and_save_cache", {"output_file": STR}, "method", fields, "cache") + "\n")
    m = find_def(tree, "CachePartition.merge_single_cache_file")
    m2 = ast.FunctionDef(name=m.name, args=m.args, body=strip_read_prefix(m, "cache_input_file", "cache_dict"), decorator_list=[], lineno=m.lineno)
    out.append(tr.function(m2, "merge_single_cache_dict", {"cache_dict": DICT(STR, BYTES)}, "method", fields, "cache") + "\n")
    return "\n".join(out)


UNITS = {"GenCache": gen_cache}
