"""Skeleton unification with holes (used by unit_version.py and unit_convert.py).

The skeleton is ordinary Python source in which a name `HOLE_x` stands for an arbitrary expression and an
expression statement `HOLE_x` for an arbitrary single statement.  `unify(skeleton_src, node)` returns {x: subtree}
or raises pyg.Unsupported naming the first place where the source left the skeleton (fail closed).  Docstrings,
decorators, annotations, log calls and the arguments of raised exceptions (message text) are ignored.
"""
import ast

from pyg import Unsupported

IGNORED_FIELDS = {"lineno", "col_offset", "end_lineno", "end_col_offset", "ctx", "type_comment", "decorator_list",
                  "returns", "annotation", "kind", "type_params"}


def _strip(stmts):
    out = []
    for s in stmts:
        if isinstance(s, ast.Expr) and isinstance(s.value, ast.Constant) and isinstance(s.value.value, str):
            continue  # docstring
        if isinstance(s, ast.Expr) and isinstance(s.value, ast.Call) and ast.unparse(s.value.func).startswith(("log.", "logger.", "logging.")):
            continue
        out.append(s)
    return out


def _hole(t):
    if isinstance(t, ast.Name) and t.id.startswith("HOLE_"):
        return t.id[5:]
    if isinstance(t, ast.Expr) and isinstance(t.value, ast.Name) and t.value.id.startswith("HOLE_"):
        return t.value.id[5:]
    return None


def _rename(tid, aid, env, node):
    """Locals of the skeleton may be renamed consistently (a bijection); every other name must be identical."""
    if tid not in env["__locals"]:
        if tid != aid:
            raise Unsupported(node, f"skeleton expects the name {tid}")
        return
    ren = env["__ren"]
    if ren.get(tid, aid) != aid or (tid not in ren and aid in ren.values()):
        raise Unsupported(node, f"inconsistent renaming of the local {tid}")
    ren[tid] = aid


def _uni(t, a, env, where):
    h = _hole(t)
    if h is not None:
        if h in env and ast.dump(env[h]) != ast.dump(a):
            raise Unsupported(a, f"hole {h} bound twice to different code")
        env[h] = a
        return
    if type(t) is not type(a):
        raise Unsupported(a if isinstance(a, ast.AST) else where, f"skeleton expects {type(t).__name__}")
    if isinstance(t, ast.Name):
        return _rename(t.id, a.id, env, a)
    if isinstance(t, ast.arg):
        return _rename(t.arg, a.arg, env, a)
    if isinstance(t, ast.Raise):
        # exception class must agree, the message is free
        tc = t.exc.func if isinstance(t.exc, ast.Call) else t.exc
        ac = a.exc.func if isinstance(a.exc, ast.Call) else a.exc
        if ast.dump(tc) != ast.dump(ac):
            raise Unsupported(a, "skeleton expects another exception class")
        return
    for f in t._fields:
        if f in IGNORED_FIELDS:
            continue
        tv, av = getattr(t, f, None), getattr(a, f, None)
        if isinstance(tv, list):
            if f in ("body", "orelse", "finalbody"):
                tv, av = _strip(tv), _strip(av)
            if not isinstance(av, list) or len(tv) != len(av):
                raise Unsupported(a, f"skeleton expects {len(tv)} element(s) in {f}")
            for x, y in zip(tv, av):
                if isinstance(x, ast.AST):
                    _uni(x, y, env, a)
                elif x != y:
                    raise Unsupported(a, f"skeleton expects {x!r} in {f}")
        elif isinstance(tv, ast.AST):
            if not isinstance(av, ast.AST):
                raise Unsupported(a, f"skeleton expects {f}")
            _uni(tv, av, env, a)
        elif tv != av:
            raise Unsupported(a, f"skeleton expects {f} = {tv!r}, found {av!r}")


def unify(skeleton_src, node):
    t = ast.parse(skeleton_src).body[0]
    local = set()
    for n in ast.walk(t):
        if isinstance(n, ast.Name) and isinstance(n.ctx, ast.Store) and not n.id.startswith("HOLE_"):
            local.add(n.id)
        elif isinstance(n, ast.arg):
            local.add(n.arg)
    env = {"__locals": local, "__ren": {}}
    _uni(t, node, env, node)
    del env["__locals"]
    return env


def actual(env, name):
    """the name the source uses for the skeleton's local `name`"""
    return env["__ren"].get(name, name)


def no_capture(node, names):
    for n in ast.walk(node):
        if isinstance(n, ast.Name) and n.id in names:
            raise Unsupported(n, "name clashes with a parameter of the generated definition")


class SubstSubscript(ast.NodeTransformer):
    """version['KEY'] -> Name(KEY) for the keys in `mapping`; any other use of the dictionary fails closed."""

    def __init__(self, dictname, mapping):
        self.dictname, self.mapping = dictname, mapping

    def visit_Subscript(self, n):
        if isinstance(n.value, ast.Name) and n.value.id == self.dictname:
            if isinstance(n.slice, ast.Constant) and n.slice.value in self.mapping:
                return ast.copy_location(ast.Name(id=self.mapping[n.slice.value], ctx=ast.Load()), n)
            raise Unsupported(n, "unexpected dictionary key")
        return self.generic_visit(n)

    def visit_Name(self, n):
        if n.id == self.dictname:
            raise Unsupported(n, "the dictionary is used other than by a known key")
        return n


class SubstAttr(ast.NodeTransformer):
    """dotted attribute chains (e.g. `public_key_numbers.curve.key_size`) -> Name, per `mapping`."""

    def __init__(self, mapping):
        self.mapping = mapping

    def visit_Attribute(self, n):
        d = ast.unparse(n)
        if d in self.mapping:
            return ast.copy_location(ast.Name(id=self.mapping[d], ctx=ast.Load()), n)
        return self.generic_visit(n)


def fn(name, params, body):
    """A synthetic FunctionDef for PyG."""
    f = ast.FunctionDef(name=name, args=ast.arguments(posonlyargs=[], args=[ast.arg(arg=p) for p in params], kwonlyargs=[], kw_defaults=[], defaults=[]),
                        body=body, decorator_list=[], lineno=getattr(body[0], "lineno", 0))
    return ast.fix_missing_locations(f)


def const_str(node, what):
    if not (isinstance(node, ast.Constant) and isinstance(node.value, str)):
        raise Unsupported(node, f"{what} must be a string literal")
    return node.value
