#!/usr/bin/env python3
"""Audit of the Coq development: no Admitted/admit/Axiom/Parameter/Conjecture, no checker flags switched off, every
Variable/Hypothesis/Context inside a Section, and (from the evidence files) every Print Assumptions closed."""
import glob
import json
import os
import re
import sys

ROOT = os.path.join(os.path.dirname(os.path.abspath(__file__)), "..")
bad = []
for p in sorted(glob.glob(os.path.join(ROOT, "coq", "**", "*.v"), recursive=True)):
    if "/gen_snapshot/" in p:
        continue
    txt = re.sub(r"\(\*.*?\*\)", "", open(p).read(), flags=re.S)
    for pat in (r"\bAdmitted\b", r"\badmit\b", r"^\s*Axiom\b", r"^\s*Parameter\b", r"^\s*Conjecture\b", r"Unset Guard", r"bypass_check",
                r"native_compute", r"Admit Obligations", r"type-in-type", r"impredicative-set", r"Unset Positivity", r"Unset Universe"):
        for m in re.finditer(pat, txt, re.M):
            bad.append(f"{os.path.relpath(p, ROOT)}: {m.group(0).strip()}")
    depth = 0
    for ln in txt.split("\n"):
        if re.match(r"\s*Section\s+\w+", ln):
            depth += 1
        elif re.match(r"\s*End\s+\w+\s*\.", ln) and depth > 0:
            depth -= 1
        elif re.match(r"\s*(Variable|Variables|Hypothesis|Hypotheses|Context)\b", ln) and depth == 0:
            bad.append(f"{os.path.relpath(p, ROOT)}: {ln.strip()[:60]} outside a section")
open_assumptions = []
for p in sorted(glob.glob(os.path.join(ROOT, "evidence", "*.json"))):
    ev = json.load(open(p))
    for t in ev["coverage"].get("trusted_base", []):
        if t.startswith("Print Assumptions:") and "Closed under the global context" not in t:
            open_assumptions.append(f"{os.path.basename(p)}: {t}")
print("forbidden constructs:", len(bad))
for b in bad:
    print("  ", b)
print("Print Assumptions not closed:", len(open_assumptions))
for b in open_assumptions:
    print("  ", b)
sys.exit(1 if bad else 0)
