#!/bin/bash
# usage: tools/run_seeded.sh <seeded dir> [tier]   e.g. tools/run_seeded.sh seeded/C01-a
# Confirms a seeded change (demo fails with it / passes without it), then runs the property's check against a scratch
# copy of /repo with the change applied.  Prints one summary line; exit 0 iff the check reported a VIOLATION.
set -u
D="$(cd "$1" && pwd)"; TIER="${2:-quick}"
PROP=$(python3 -c "import json;print(json.load(open('$D/meta.json'))['property'])")
S=$(mktemp -d /tmp/seedrun-XXXXXX)
(cd /repo && git archive HEAD | tar -x -C "$S")
if ! (cd "$S" && git init -q . 2>/dev/null; patch -p1 -s < "$D/patch.diff"); then echo "SEEDED $D: patch does not apply"; rm -rf "$S"; exit 2; fi
DEMO=$(ls "$D"/demo.* | head -1)
run_demo() { case "$DEMO" in *.py) PYTHONPATH="$1" /venv/bin/python "$DEMO" "$1" >/dev/null 2>&1;; *) bash "$DEMO" "$1" >/dev/null 2>&1;; esac; echo $?; }
R_MUT=$(cd /tmp && run_demo "$S"); R_ORIG=$(cd /tmp && run_demo /repo)
OUT=$(cd /verif && VERIF_REPO="$S" timeout 3000 ./check "$PROP" --tier "$TIER" 2>&1)
RC=$?
NV=$(echo "$OUT" | grep -c "^VIOLATION property=$PROP")
NF=$(echo "$OUT" | grep "^VIOLATION" | grep -c "no-failing-input-found")
echo "SEEDED $(basename $D) prop=$PROP demo(mutated)=$R_MUT demo(original)=$R_ORIG check_exit=$RC violations=$NV without_input=$NF"
echo "$OUT" | grep -E "^VIOLATION|obligations" | head -3
find /verif/replays -name "$PROP-*.json" -newer "$D/meta.json" -mmin -30 2>/dev/null | head -2 | while read f; do python3 -c "
import json;r=json.load(open('$f'));print('   replay:',r['kind'],'|',str(r['observed'])[:200],'|',[b[:2] for b in r['broken_obligations']])"; done
find /verif/replays -name "$PROP-*.json" -mmin -30 -delete 2>/dev/null
rm -rf "$S" /verif/_build/alt/$(python3 -c "import hashlib,os;print(hashlib.md5(os.path.realpath('$S').encode()).hexdigest()[:8])")
[ "$NV" -gt 0 ]
