#!/usr/bin/env python3
"""Regenerate the table of DESIGN.md section 0.4 from seeded/*/meta.json."""
import glob, json, os, re
root = os.path.dirname(os.path.dirname(os.path.abspath(__file__)))
rows = ["| seeded | property | change | needs | result of the quick check |", "|---|---|---|---|---|"]
def cell(s, n):
    s = " ".join(str(s).split()).replace("|", "/")
    return s if len(s) <= n else s[:n - 1] + "…"
for d in sorted(glob.glob(os.path.join(root, "seeded", "*"))):
    m = json.load(open(os.path.join(d, "meta.json")))
    rows.append(f"| {os.path.basename(d)} | {m['property']} | {cell(m.get('summary', ''), 300)} | {cell(m.get('needs', ''), 220)} | {cell(m.get('check_result', 'not run'), 320)} |")
p = os.path.join(root, "DESIGN.md")
s = open(p).read()
table = "\n".join(rows) + "\n"
new = re.sub(r"\| seeded \| property \|.*?\n(?=\nChecks strengthened)", lambda _m: table, s, flags=re.S)
assert table in new
open(p, "w").write(new)
print(len(rows) - 2, "rows")
