#!/bin/bash
# Build the framework from files on disk only (offline): regenerate the model from /repo, build all Coq theories.
set -e
cd "$(dirname "$0")"
export PYTHONPATH="${VERIF_REPO:-/repo}" PYTHONHASHSEED=0
mkdir -p _build/ocaml evidence replays coq/gen
/venv/bin/python translator/regen.py --repo "${VERIF_REPO:-/repo}" > _build/regen.json
/venv/bin/python vlib/project.py
(cd coq && coq_makefile -f _CoqProject -o Makefile > /dev/null && timeout 3000 make -j16 2>&1 | tail -5)
echo setup done
