(* Base/Str.v — ASCII string literals as byte lists.  Import Coq.Strings.String BEFORE the Verif modules in a file
   that writes literals, so that List's names win. *)
Require Import Coq.Strings.String Coq.Strings.Ascii.
From Verif Require Import Base.Prim.

Definition s2b (s : String.string) : bytes := map (fun a => Z.of_N (Ascii.N_of_ascii a)) (String.list_ascii_of_string s).
Definition is (name : bytes) (s : String.string) : bool := list_eqb name (s2b s).
Arguments s2b s%string.
Arguments is name s%string.
