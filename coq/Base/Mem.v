(* Base/Mem.v — executable model of the part of intelhex.IntelHex the tool uses: a sparse memory image over Z
   addresses.  Representation: a list of segments (start address, bytes), newest first; a later write to an address
   shadows an earlier one (Python: `self._buf[addr] = byte`).  Definitions only; lemmas are in Base/MemFacts.v.

     IntelHex()                      mem_empty
     ih.frombytes(data, addr)        frombytes ih data addr
     ih[a] if a in ih._buf           get ih a            (option: None = address not present)
     ih.minaddr() / ih.maxaddr()     minaddr / maxaddr   (option: None = no data, as in Python)
     ih.merge(other)  (overlap=error) merge ih other     (None = AddressOverlapError)
     ih.tobinstr(start=s, end=e)     tobinstr ih s e ih.padding   (both bounds given; start > end swaps them,
                                                          as IntelHex._get_start_end does)
   The HEX *writer* is not modelled: checks read the written files back with the independent reader vlib/ihex.py. *)
From Verif Require Import Base.Prim.

Definition seg := (Z * bytes)%type.
Definition mem := list seg.

Definition mem_empty : mem := [].

Definition seg_in (s : seg) (a : Z) : bool := (fst s <=? a) && (a <? fst s + blen (snd s)).
Definition seg_get (s : seg) (a : Z) : option Z :=
  if seg_in s a then nth_error (snd s) (Z.to_nat (a - fst s)) else None.

Fixpoint get (m : mem) (a : Z) : option Z :=
  match m with
  | [] => None
  | s :: r => match seg_get s a with Some b => Some b | None => get r a end
  end.
Definition has (m : mem) (a : Z) : bool := match get m a with Some _ => true | None => false end.

Definition frombytes (m : mem) (data : bytes) (addr : Z) : mem := (addr, data) :: m.

(* segments that hold no byte do not contribute an address *)
Definition seg_nonempty (s : seg) : bool := match snd s with [] => false | _ => true end.
Definition seg_lo (s : seg) : Z := fst s.
Definition seg_hi (s : seg) : Z := fst s + blen (snd s) - 1.

Definition opt_min (x : Z) (o : option Z) : option Z := match o with None => Some x | Some y => Some (Z.min x y) end.
Definition opt_max (x : Z) (o : option Z) : option Z := match o with None => Some x | Some y => Some (Z.max x y) end.

Fixpoint minaddr (m : mem) : option Z :=
  match m with
  | [] => None
  | s :: r => if seg_nonempty s then opt_min (seg_lo s) (minaddr r) else minaddr r
  end.
Fixpoint maxaddr (m : mem) : option Z :=
  match m with
  | [] => None
  | s :: r => if seg_nonempty s then opt_max (seg_hi s) (maxaddr r) else maxaddr r
  end.

(* two segments share an address *)
Definition seg_overlap (s t : seg) : bool :=
  seg_nonempty s && seg_nonempty t && (seg_lo s <=? seg_hi t) && (seg_lo t <=? seg_hi s).
Definition overlaps (m o : mem) : bool := existsb (fun s => existsb (seg_overlap s) m) o.

(* IntelHex.merge(other, overlap='error'): AddressOverlapError (None) when some address is in both images,
   otherwise every byte of `other` is added.  (Start-address records are not used by the tool.) *)
Definition merge (m o : mem) : option mem := if overlaps m o then None else Some (o ++ m).

(* start, start+1, ..., start+n-1 *)
Definition zrange (start : Z) (n : nat) : list Z := map (fun i => start + Z.of_nat i) (seq 0 n).

Definition get_pad (m : mem) (pad : Z) (a : Z) : Z := match get m a with Some b => b | None => pad end.

(* IntelHex.tobinstr(start=, end=) with padding `pad` for the addresses that are not present *)
Definition tobinstr (m : mem) (start end_ pad : Z) : bytes :=
  let s := if start >? end_ then end_ else start in
  let e := if start >? end_ then start else end_ in
  map (get_pad m pad) (zrange s (Z.to_nat (e + 1 - s))).

(* Outcome of an operation that may write an image: written, rejected with a Python exception of the tool's
   vocabulary (Prim.exn), or rejected by the library's AddressOverlapError. *)
Inductive mres (A : Type) := MOk (a : A) | MRaise (e : exn) | MOverlap.
Arguments MOk {A}. Arguments MRaise {A}. Arguments MOverlap {A}.
Definition mres_of_res {A} (r : res A) : mres A := match r with Ok a => MOk a | Raise e => MRaise e end.

(* all (address, byte) pairs of an image in segment order, newest segment first (for the wire / for tests) *)
Definition seg_pairs (s : seg) : list (Z * Z) := combine (zrange (fst s) (length (snd s))) (snd s).
