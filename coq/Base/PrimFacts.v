(* Base/PrimFacts.v — lemmas about the primitives of Prim.v and the `blen` rewrite database. *)
From Verif Require Import Base.Prim.

Lemma blen_app {A} (a b : list A) : blen (a ++ b) = blen a + blen b.
Proof. unfold blen. rewrite app_length. lia. Qed.
Lemma blen_cons {A} (x : A) l : blen (x :: l) = 1 + blen l.
Proof. unfold blen. cbn [length]. lia. Qed.
Lemma blen_nil {A} : blen (@nil A) = 0. Proof. reflexivity. Qed.
Lemma blen_nonneg {A} (l : list A) : 0 <= blen l. Proof. unfold blen; lia. Qed.
Lemma blen_repeat {A} (x : A) n : blen (repeat x n) = Z.of_nat n.
Proof. unfold blen. rewrite repeat_length. reflexivity. Qed.
Lemma blen_ljust l n f : blen l <= n -> blen (ljust l n f) = n.
Proof. unfold ljust. intros. rewrite blen_app, blen_repeat. lia. Qed.
Lemma blen_ljust_short l n f : n <= blen l -> ljust l n f = l.
Proof. unfold ljust. intros. replace (Z.to_nat (n - blen l)) with O by lia. cbn. apply app_nil_r. Qed.
Lemma blen_map {A B} (f : A -> B) l : blen (map f l) = blen l.
Proof. unfold blen. rewrite map_length. reflexivity. Qed.

Lemma be_length w x : length (be w x) = w.
Proof. revert x; induction w as [|w IH]; intros; cbn [be]; [reflexivity|]. rewrite app_length, IH. cbn. lia. Qed.
Lemma le_length w x : length (le w x) = w.
Proof. revert x; induction w as [|w IH]; intros; cbn [le length]; [reflexivity|]. rewrite IH. reflexivity. Qed.
Lemma be_len w x : blen (be w x) = Z.of_nat w.
Proof. unfold blen. rewrite be_length. reflexivity. Qed.
Lemma le_len w x : blen (le w x) = Z.of_nat w.
Proof. unfold blen. rewrite le_length. reflexivity. Qed.

Lemma boi_ok l l' : bytes_of_ints l = Ok l' -> l' = l /\ forallb byte_ok l = true.
Proof. unfold bytes_of_ints. destruct (forallb byte_ok l) eqn:E; [|discriminate]. intros [= <-]. auto. Qed.
Lemma boi_len l l' : bytes_of_ints l = Ok l' -> l' = l.
Proof. intros H. apply boi_ok in H. tauto. Qed.

Lemma tbb_ok n x l : to_bytes_big n x = Ok l -> l = be (Z.to_nat n) x /\ 0 <= n /\ 0 <= x < 256 ^ n.
Proof.
  unfold to_bytes_big. destruct (_ && _) eqn:E; [|discriminate]. intros [= <-].
  apply andb_prop in E. destruct E as [E E3]. apply andb_prop in E. destruct E as [E1 E2].
  apply Z.leb_le in E1, E2. apply Z.ltb_lt in E3. auto.
Qed.
Lemma tbb_len n x l : to_bytes_big n x = Ok l -> blen l = n.
Proof. intros H. apply tbb_ok in H. destruct H as (-> & Hn & _). rewrite be_len. lia. Qed.
Lemma tbl_ok n x l : to_bytes_little n x = Ok l -> l = le (Z.to_nat n) x /\ 0 <= n /\ 0 <= x < 256 ^ n.
Proof.
  unfold to_bytes_little. destruct (_ && _) eqn:E; [|discriminate]. intros [= <-].
  apply andb_prop in E. destruct E as [E E3]. apply andb_prop in E. destruct E as [E1 E2].
  apply Z.leb_le in E1, E2. apply Z.ltb_lt in E3. auto.
Qed.
Lemma tbl_len n x l : to_bytes_little n x = Ok l -> blen l = n.
Proof. intros H. apply tbl_ok in H. destruct H as (-> & Hn & _). rewrite le_len. lia. Qed.

#[global] Hint Rewrite @blen_app @blen_cons @blen_nil @blen_repeat @blen_map be_len le_len : blen.

Lemma ceil_bounds a b : 0 < b -> 0 <= a -> a <= ceil_div a b * b < a + b.
Proof. intros. unfold ceil_div. lia. Qed.

Lemma unbe_app l b a : unbe (l ++ [b]) a = unbe l a * 256 + b.
Proof. revert a. induction l as [|y l IHl]; intros a; cbn; [lia| apply IHl]. Qed.

Lemma unbe_be w x acc : 0 <= x < 256 ^ Z.of_nat w -> unbe (be w x) acc = acc * 256 ^ Z.of_nat w + x.
Proof.
  revert x acc. induction w as [|w IH]; intros x acc Hx.
  - cbn. change (256 ^ Z.of_nat 0) with 1 in *. lia.
  - cbn [be]. rewrite unbe_app. rewrite Nat2Z.inj_succ, Z.pow_succ_r in * by lia.
    rewrite IH by lia. lia.
Qed.

Lemma unle_le w x : 0 <= x < 256 ^ Z.of_nat w -> unle (le w x) = x.
Proof.
  revert x. induction w as [|w IH]; intros x Hx.
  - cbn. change (256 ^ Z.of_nat 0) with 1 in *. lia.
  - cbn [le unle]. rewrite Nat2Z.inj_succ, Z.pow_succ_r in * by lia. rewrite IH by lia. lia.
Qed.

Lemma be_bytes_ok w x : Forall (fun b => 0 <= b < 256) (be w x).
Proof.
  revert x. induction w as [|w IH]; intros x; cbn [be]; [constructor|].
  apply Forall_app. split; [apply IH|]. constructor; [lia|constructor].
Qed.
Lemma le_bytes_ok w x : Forall (fun b => 0 <= b < 256) (le w x).
Proof. revert x. induction w as [|w IH]; intros x; cbn [le]; constructor; [lia|apply IH]. Qed.

Lemma list_eqb_eq a b : list_eqb a b = true <-> a = b.
Proof.
  revert b. induction a as [|x a IH]; intros [|y b]; cbn; split; intros H; try reflexivity; try discriminate.
  - apply andb_prop in H. destruct H as [H1 H2]. apply IH in H2. f_equal; [lia|assumption].
  - injection H as -> ->. rewrite Z.eqb_refl. cbn. apply IH. reflexivity.
Qed.
Lemma list_eqb_refl a : list_eqb a a = true.
Proof. apply list_eqb_eq. reflexivity. Qed.

Lemma is_prefix_app p l : is_prefix p l = true <-> exists r, l = p ++ r.
Proof.
  revert l. induction p as [|x p IH]; intros l; cbn.
  - split; [intros _; exists l; reflexivity | reflexivity].
  - destruct l as [|y l]; [split; [discriminate | intros [r Hr]; discriminate]|].
    rewrite andb_true_iff, IH. split.
    + intros [Hx [r ->]]. exists r. f_equal. lia.
    + intros [r Hr]. injection Hr as -> ->. split; [lia | eexists; reflexivity].
Qed.

(* find returns a position at which the pattern really occurs *)
Lemma find_from_spec pat l i k :
  find_from pat l i = k -> k <> -1 -> 0 <= i ->
  exists pre post, l = pre ++ pat ++ post /\ k = i + blen pre.
Proof.
  revert i. induction l as [|x l IH]; intros i Hf Hk Hi; cbn [find_from] in Hf.
  - destruct (is_prefix pat []) eqn:E; [|congruence].
    apply is_prefix_app in E. destruct E as [r Hr]. exists [], r. cbn. split; [assumption| unfold blen; cbn [length]; lia].
  - destruct (is_prefix pat (x :: l)) eqn:E.
    + apply is_prefix_app in E. destruct E as [r Hr]. exists [], r. cbn. split; [assumption| unfold blen; cbn [length]; lia].
    + apply IH in Hf; [|assumption|lia]. destruct Hf as (pre & post & -> & ->).
      exists (x :: pre), post. split; [reflexivity| rewrite blen_cons; lia].
Qed.
Lemma find_spec l pat k :
  find l pat = k -> k <> -1 -> exists pre post, l = pre ++ pat ++ post /\ k = blen pre.
Proof. unfold find. intros H Hk. apply find_from_spec in H; [|assumption|lia]. destruct H as (p & q & ? & ?). exists p, q. split; [assumption|lia]. Qed.

Lemma slice_app_mid {A} (pre mid post : list A) :
  slice (pre ++ mid ++ post) (blen pre) (blen pre + blen mid) = mid.
Proof.
  unfold slice, blen. rewrite Nat2Z.id. rewrite skipn_app, skipn_all, Nat.sub_diag. cbn [skipn app].
  replace (Z.to_nat (Z.of_nat (length pre) + Z.of_nat (length mid) - Z.of_nat (length pre))) with (length mid) by lia.
  rewrite firstn_app, Nat.sub_diag, firstn_all. cbn. apply app_nil_r.
Qed.

Lemma mapM_length {A B} (f : A -> res B) l l' : mapM f l = Ok l' -> length l' = length l.
Proof.
  revert l'. induction l as [|x l IH]; intros l'; cbn [mapM].
  - intros [= <-]. reflexivity.
  - destruct (f x); cbn [bind]; [|discriminate]. destruct (mapM f l); cbn [bind]; [|discriminate].
    intros [= <-]. cbn. f_equal. apply IH. reflexivity.
Qed.

(* ---- decimal rendering ---- *)
Lemma dec_digits_value f : forall n acc, 0 <= n < 10 ^ Z.of_nat f ->
  exists k, 0 <= k /\ forall a, fold_left (fun a c => a * 10 + (c - 48)) (dec_digits f n acc) a
                               = fold_left (fun a c => a * 10 + (c - 48)) acc (a * 10 ^ k + n).
Proof.
  induction f as [|f IH]; intros n acc Hn.
  - exists 0. split; [lia|]. intros a. cbn [dec_digits]. change (10 ^ Z.of_nat 0) with 1 in Hn. f_equal. rewrite Z.pow_0_r. lia.
  - cbn [dec_digits]. destruct (n <? 10) eqn:E.
    + exists 1. split; [lia|]. intros a. cbn [fold_left]. f_equal. rewrite Z.pow_1_r. lia.
    + rewrite Nat2Z.inj_succ, Z.pow_succ_r in Hn by lia.
      destruct (IH (n / 10) ((48 + n mod 10) :: acc)) as (k & Hk & Hv); [lia|].
      exists (k + 1). split; [lia|]. intros a. rewrite Hv. cbn [fold_left]. f_equal.
      rewrite Z.pow_add_r, Z.pow_1_r by lia. lia.
Qed.
Lemma int_of_str_of_nonneg n : 0 <= n -> int_of_digits (str_of_nonneg n) = n.
Proof.
  intros Hn. unfold int_of_digits, str_of_nonneg.
  destruct (dec_digits_value (S (Z.to_nat (Z.log2 (n + 1)))) n []) as (k & Hk & Hv).
  - split; [assumption|]. pose proof (Z.log2_nonneg (n + 1)) as Hl. pose proof (Z.log2_spec (n + 1) ltac:(lia)) as [_ Hs].
    rewrite Nat2Z.inj_succ, Z2Nat.id by assumption.
    assert (2 ^ Z.succ (Z.log2 (n + 1)) <= 10 ^ Z.succ (Z.log2 (n + 1))) by (apply Z.pow_le_mono_l; lia). lia.
  - rewrite Hv. cbn [fold_left]. lia.
Qed.
Lemma str_of_nonneg_eqb ks lit n :
  0 <= ks -> 0 <= n -> str_of_nonneg n = lit -> list_eqb (str_of_nonneg ks) lit = (ks =? n).
Proof.
  intros Hk Hn Hl. destruct (ks =? n) eqn:E.
  - assert (ks = n) as -> by lia. rewrite Hl. apply list_eqb_refl.
  - destruct (list_eqb (str_of_nonneg ks) lit) eqn:F; [|reflexivity]. apply list_eqb_eq in F. rewrite <- Hl in F.
    apply (f_equal int_of_digits) in F. rewrite !int_of_str_of_nonneg in F by assumption. lia.
Qed.
Lemma list_eqb_app_same p x y : list_eqb (p ++ x) (p ++ y) = list_eqb x y.
Proof. induction p as [|c p IH]; [reflexivity|]. cbn [app list_eqb]. rewrite Z.eqb_refl. exact IH. Qed.

