(* Base/Prim.v — primitives shared by every model: the exception monad, byte strings, fixed-width packing,
   Python-style slicing and searching.  Definitions only; lemmas are in Base/PrimFacts.v. *)
From Coq Require Export ZArith List Bool Lia ZifyBool.
Export ListNotations.
Open Scope Z_scope.
Ltac Zify.zify_post_hook ::= Z.to_euclidean_division_equations.

Notation byte := Z (only parsing).
Notation bytes := (list Z) (only parsing).
Notation pystr := (list Z) (only parsing).     (* UTF-8 bytes; character-level operations assume ASCII *)

(* Python exceptions that the models distinguish.  Anything that is not one of the tool's input errors is
   an "internal" error (IndexError, TypeError, KeyError, AttributeError) or an exhausted recursion budget. *)
Inductive exn :=
| ValueError | SUITError | GeneratorError | OverflowError | SignerError
| IndexError | TypeError | KeyError | AttributeError | StructError | NotImplementedError
| RecursionLimit
| OSErr                 (* FileNotFoundError and other OSError *)
| OtherError            (* a bare Exception(...) raised by the tool *)
| Unsupported           (* the model declines: input outside the modelled fragment (never an answer about the code) *)
| Need (kind : list Z) (args : list (list Z)).   (* an external function (hash, uuid5, json) whose value the harness must supply *)

Definition exn_eqb (a b : exn) : bool :=
  match a, b with
  | ValueError, ValueError | SUITError, SUITError | GeneratorError, GeneratorError
  | OverflowError, OverflowError | SignerError, SignerError | IndexError, IndexError
  | TypeError, TypeError | KeyError, KeyError | AttributeError, AttributeError
  | StructError, StructError | NotImplementedError, NotImplementedError
  | RecursionLimit, RecursionLimit | OSErr, OSErr | OtherError, OtherError | Unsupported, Unsupported => true
  | Need k a, Need k' a' =>
      (fix leq (x y : list Z) : bool := match x, y with [], [] => true | p :: x', q :: y' => (p =? q) && leq x' y' | _, _ => false end) k k'
      && (fix lleq (x y : list (list Z)) : bool :=
            match x, y with
            | [], [] => true
            | p :: x', q :: y' =>
                (fix leq (x y : list Z) : bool := match x, y with [], [] => true | p :: x', q :: y' => (p =? q) && leq x' y' | _, _ => false end) p q
                && lleq x' y'
            | _, _ => false
            end) a a'
  | _, _ => false
  end.

Inductive res (A : Type) := Ok (a : A) | Raise (e : exn).
Arguments Ok {A}. Arguments Raise {A}.

Definition bind {A B} (m : res A) (f : A -> res B) : res B :=
  match m with Ok a => f a | Raise e => Raise e end.
Notation "'let*' x ':=' m 'in' k" := (bind m (fun x => k)) (at level 200, x pattern, right associativity).

Fixpoint mapM {A B} (f : A -> res B) (l : list A) : res (list B) :=
  match l with
  | [] => Ok []
  | x :: r => let* y := f x in let* ys := mapM f r in Ok (y :: ys)
  end.

Fixpoint foldM {S A} (f : S -> A -> res S) (l : list A) (s : S) : res S :=
  match l with
  | [] => Ok s
  | x :: r => let* s' := f s x in foldM f r s'
  end.

Definition blen {A} (l : list A) : Z := Z.of_nat (length l).
Definition ceil_div (a b : Z) : Z := (a + b - 1) / b.

(* bytes.ljust(n, fill) *)
Definition ljust (l : bytes) (n : Z) (fill : byte) : bytes := l ++ repeat fill (Z.to_nat (n - blen l)).
(* b"\xNN" * n  (also list repetition) *)
Fixpoint concat_rep {A} (n : nat) (l : list A) : list A :=
  match n with O => [] | S n' => l ++ concat_rep n' l end.
Definition mul_list {A} (l : list A) (n : Z) : list A := concat_rep (Z.to_nat n) l.

Definition byte_ok (b : Z) : bool := (0 <=? b) && (b <? 256).
(* bytes([..]) raises ValueError outside 0..255 *)
Definition bytes_of_ints (l : list Z) : res bytes :=
  if forallb byte_ok l then Ok l else Raise ValueError.

(* fixed-width big/little endian *)
Fixpoint be (w : nat) (x : Z) : bytes :=
  match w with O => [] | S w' => be w' (x / 256) ++ [x mod 256] end.
Fixpoint le (w : nat) (x : Z) : bytes :=
  match w with O => [] | S w' => (x mod 256) :: le w' (x / 256) end.
Fixpoint unbe (l : bytes) (acc : Z) : Z :=
  match l with [] => acc | b :: r => unbe r (acc * 256 + b) end.
Fixpoint unle (l : bytes) : Z :=
  match l with [] => 0 | b :: r => b + 256 * unle r end.

(* int.to_bytes(n, order): OverflowError when negative or too large *)
Definition to_bytes_big (n x : Z) : res bytes :=
  if (0 <=? n) && (0 <=? x) && (x <? 256 ^ n) then Ok (be (Z.to_nat n) x) else Raise OverflowError.
Definition to_bytes_little (n x : Z) : res bytes :=
  if (0 <=? n) && (0 <=? x) && (x <? 256 ^ n) then Ok (le (Z.to_nat n) x) else Raise OverflowError.

(* struct.Struct(fmt).pack of the values, for the formats the tool uses: byte-order mark, then B H I L Q *)
Definition fmt_width (c : Z) : option nat :=
  if c =? 66 then Some 1%nat          (* B *)
  else if c =? 72 then Some 2%nat     (* H *)
  else if (c =? 73) || (c =? 76) then Some 4%nat  (* I L *)
  else if c =? 81 then Some 8%nat     (* Q *)
  else None.
Fixpoint struct_pack_go (little : bool) (fmt : list Z) (vals : list Z) : res bytes :=
  match fmt, vals with
  | [], [] => Ok []
  | c :: fmt', v :: vals' =>
      match fmt_width c with
      | None => Raise StructError
      | Some w =>
          if (0 <=? v) && (v <? 256 ^ Z.of_nat w) then
            let* r := struct_pack_go little fmt' vals' in
            Ok ((if little then le w v else be w v) ++ r)
          else Raise StructError
      end
  | _, _ => Raise StructError
  end.
Definition struct_pack (fmt : pystr) (vals : list Z) : res bytes :=
  match fmt with
  | 60 :: f => struct_pack_go true f vals       (* '<' *)
  | 62 :: f => struct_pack_go false f vals      (* '>' *)
  | _ => Raise StructError
  end.

(* Python slicing b[i:j] for 0 <= i, j (negative indices are not used by the translated code) *)
Definition slice {A} (l : list A) (i j : Z) : list A :=
  firstn (Z.to_nat (j - i)) (skipn (Z.to_nat i) l).
Definition slice_from {A} (l : list A) (i : Z) : list A := skipn (Z.to_nat i) l.
Definition slice_to {A} (l : list A) (j : Z) : list A := firstn (Z.to_nat j) l.
(* b[:-k] and b[-k:] for k >= 0 *)
Definition drop_last {A} (l : list A) (k : Z) : list A := firstn (length l - Z.to_nat k) l.
Definition take_last {A} (l : list A) (k : Z) : list A := skipn (length l - Z.to_nat k) l.

Fixpoint list_eqb (a b : list Z) : bool :=
  match a, b with
  | [], [] => true
  | x :: a', y :: b' => (x =? y) && list_eqb a' b'
  | _, _ => false
  end.
Definition str_eqb := list_eqb.
Definition str_in (s : pystr) (l : list pystr) : bool := existsb (str_eqb s) l.

Fixpoint is_prefix (p l : list Z) : bool :=
  match p, l with
  | [], _ => true
  | x :: p', y :: l' => (x =? y) && is_prefix p' l'
  | _ :: _, [] => false
  end.
(* bytes.find(pat): index of the first occurrence, -1 if none *)
Fixpoint find_from (pat l : list Z) (i : Z) : Z :=
  if is_prefix pat l then i else
  match l with [] => -1 | _ :: r => find_from pat r (i + 1) end.
Definition find (l pat : list Z) : Z := find_from pat l 0.

(* lower-case hex of a byte string, as ASCII codes *)
Definition hexdigit (n : Z) : Z := if n <? 10 then 48 + n else 87 + n.
Definition hex_of_bytes (l : bytes) : pystr := flat_map (fun b => [hexdigit (b / 16); hexdigit (b mod 16)]) l.

(* decimal rendering of a non-negative integer (str(n)), on fuel = number of digits bound *)
Fixpoint dec_digits (fuel : nat) (n : Z) (acc : pystr) : pystr :=
  match fuel with
  | O => acc
  | S f => if n <? 10 then (48 + n) :: acc else dec_digits f (n / 10) ((48 + n mod 10) :: acc)
  end.
Definition str_of_nonneg (n : Z) : pystr := dec_digits (S (Z.to_nat (Z.log2 (n + 1)))) n [].

(* str.isnumeric() / int(str) on ASCII digits *)
Definition is_digit (c : Z) : bool := (48 <=? c) && (c <=? 57).
Definition isnumeric (s : pystr) : bool := match s with [] => false | _ => forallb is_digit s end.
Definition int_of_digits (s : pystr) : Z := fold_left (fun acc c => acc * 10 + (c - 48)) s 0.

(* str.split(sep) for a single-character separator *)
Fixpoint split_go (sep : Z) (s : pystr) (cur : pystr) : list pystr :=
  match s with
  | [] => [rev cur]
  | c :: r => if c =? sep then rev cur :: split_go sep r [] else split_go sep r (c :: cur)
  end.
Definition split (s : pystr) (sep : Z) : list pystr := split_go sep s [].
(* str.replace(a, b) for single characters *)
Definition replace_char (s : pystr) (a b : Z) : pystr := map (fun c => if c =? a then b else c) s.
(* sep.join(parts) *)
Fixpoint join (sep : pystr) (parts : list pystr) : pystr :=
  match parts with
  | [] => []
  | [p] => p
  | p :: r => p ++ sep ++ join sep r
  end.

(* --- additions for C20 / C15 (version strings, C array formatting) --- *)
(* str.strip() on ASCII strings: Python's whitespace below 128 is \t \n \v \f \r, \x1c..\x1f and the space *)
Definition is_space (c : Z) : bool := ((9 <=? c) && (c <=? 13)) || ((28 <=? c) && (c <=? 32)).
Fixpoint lstrip (s : pystr) : pystr :=
  match s with
  | [] => []
  | c :: r => if is_space c then lstrip r else s
  end.
Definition str_strip (s : pystr) : pystr := rev (lstrip (rev (lstrip s))).

(* list(range(a, b, s)); range() raises ValueError for a zero step *)
Definition range_step (a b s : Z) : res (list Z) :=
  if s =? 0 then Raise ValueError
  else if 0 <? s then Ok (map (fun k => a + Z.of_nat k * s) (seq 0 (Z.to_nat (ceil_div (b - a) s))))
  else Ok (map (fun k => a + Z.of_nat k * s) (seq 0 (Z.to_nat (ceil_div (a - b) (- s))))).

(* int.bit_length() *)
Definition bit_length (x : Z) : Z := if x =? 0 then 0 else Z.log2 (Z.abs x) + 1.

(* first entry of an association list keyed by strings (dict / Enum member lookup by name) *)
Fixpoint str_lookup {A} (k : pystr) (tbl : list (pystr * A)) : option A :=
  match tbl with
  | [] => None
  | (k', v) :: r => if str_eqb k k' then Some v else str_lookup k r
  end.

(* int(str) on ASCII: surrounding whitespace, an optional sign, decimal digits with single underscores between
   digits; anything else raises ValueError.  (The 4300-digit limit of CPython is not modelled.) *)
Fixpoint digits_us (s : pystr) (prev_digit : bool) (acc : Z) : option Z :=
  match s with
  | [] => if prev_digit then Some acc else None
  | c :: r => if is_digit c then digits_us r true (acc * 10 + (c - 48))
              else if (c =? 95) && prev_digit then digits_us r false acc
              else None
  end.
Definition int_of_str (s : pystr) : res Z :=
  let t := str_strip s in
  let r := match t with
           | [] => None
           | c :: r => if c =? 43 then digits_us r false 0
                       else if c =? 45 then option_map Z.opp (digits_us r false 0)
                       else digits_us t false 0
           end in
  match r with Some z => Ok z | None => Raise ValueError end.
