(* Base/MemFacts.v — lemmas about the memory-image model of Base/Mem.v. *)
From Verif Require Import Base.Prim Base.PrimFacts Base.Mem.

Lemma nth_error_ext {A} (l l' : list A) : (forall i, nth_error l i = nth_error l' i) -> l = l'.
Proof.
  revert l'. induction l as [|x l IH]; intros [|y l'] H.
  - reflexivity.
  - specialize (H O). discriminate.
  - specialize (H O). discriminate.
  - pose proof (H O) as H0. cbn in H0. injection H0 as ->. f_equal. apply IH. intros i. apply (H (S i)).
Qed.

(* ---- zrange ---- *)
Lemma zrange_length s n : length (zrange s n) = n.
Proof. unfold zrange. rewrite map_length, seq_length. reflexivity. Qed.
Lemma zrange_nth s n i : (i < n)%nat -> nth_error (zrange s n) i = Some (s + Z.of_nat i).
Proof.
  intros Hi. unfold zrange. apply (map_nth_error (fun k : nat => s + Z.of_nat k)).
  rewrite (nth_error_nth' _ O) by (rewrite seq_length; exact Hi). rewrite seq_nth by exact Hi. reflexivity.
Qed.
Lemma zrange_In s n a : In a (zrange s n) <-> s <= a < s + Z.of_nat n.
Proof.
  unfold zrange. rewrite in_map_iff. split.
  - intros (i & <- & Hi). apply in_seq in Hi. lia.
  - intros Ha. exists (Z.to_nat (a - s)). split; [lia|]. apply in_seq. lia.
Qed.

(* ---- get ---- *)
Lemma seg_get_some s a b : seg_get s a = Some b -> seg_in s a = true.
Proof. unfold seg_get. destruct (seg_in s a); [reflexivity|discriminate]. Qed.
Lemma seg_in_get s a : seg_in s a = true -> exists b, seg_get s a = Some b.
Proof.
  unfold seg_get. intros H. rewrite H. unfold seg_in, blen in H.
  destruct (nth_error (snd s) (Z.to_nat (a - fst s))) eqn:E; [eexists; reflexivity|].
  apply nth_error_None in E. lia.
Qed.
Lemma seg_get_none s a : seg_get s a = None <-> seg_in s a = false.
Proof.
  split.
  - intros H. destruct (seg_in s a) eqn:E; [|reflexivity]. apply seg_in_get in E. destruct E as [b E]. congruence.
  - intros H. unfold seg_get. rewrite H. reflexivity.
Qed.
Lemma seg_in_range s a : seg_in s a = true <-> seg_lo s <= a <= seg_hi s.
Proof. unfold seg_in, seg_lo, seg_hi. lia. Qed.
Lemma seg_in_nonempty s a : seg_in s a = true -> seg_nonempty s = true.
Proof.
  unfold seg_in, seg_nonempty, blen. destruct (snd s); [cbn [length]; lia|reflexivity].
Qed.
Lemma seg_nonempty_lo s : seg_nonempty s = true -> seg_in s (seg_lo s) = true /\ seg_in s (seg_hi s) = true.
Proof.
  unfold seg_in, seg_nonempty, seg_lo, seg_hi, blen. destruct (snd s); [discriminate|cbn [length]; lia].
Qed.

Lemma get_nil a : get mem_empty a = None. Proof. reflexivity. Qed.
Lemma get_cons s m a : get (s :: m) a = match seg_get s a with Some b => Some b | None => get m a end.
Proof. reflexivity. Qed.
Lemma get_app m1 m2 a : get (m1 ++ m2) a = match get m1 a with Some b => Some b | None => get m2 a end.
Proof.
  induction m1 as [|s m1 IH]; [reflexivity|]. cbn [app]. rewrite !get_cons. destruct (seg_get s a); [reflexivity|exact IH].
Qed.

Lemma has_exists m a : has m a = true <-> exists s, In s m /\ seg_in s a = true.
Proof.
  unfold has. induction m as [|s m IH].
  - cbn. split; [discriminate|intros (s & [] & _)].
  - rewrite get_cons. destruct (seg_get s a) eqn:E.
    + split; [|reflexivity]. intros _. exists s. split; [left; reflexivity|]. eapply seg_get_some; eassumption.
    + apply seg_get_none in E. rewrite IH. split.
      * intros (t & Ht & Hin). exists t. split; [right; assumption|assumption].
      * intros (t & [->|Ht] & Hin); [congruence|]. exists t. split; assumption.
Qed.
Lemma has_get m a : has m a = true <-> exists b, get m a = Some b.
Proof. unfold has. destruct (get m a); split; intros H; try reflexivity; try discriminate; [eexists; reflexivity|destruct H; discriminate]. Qed.
Lemma has_false m a : has m a = false <-> get m a = None.
Proof. unfold has. destruct (get m a); split; intros H; try reflexivity; discriminate. Qed.

(* frombytes into an empty image: exactly the data at addr.. *)
Lemma get_frombytes d s a :
  get (frombytes mem_empty d s) a = if (s <=? a) && (a <? s + blen d) then nth_error d (Z.to_nat (a - s)) else None.
Proof.
  unfold frombytes, mem_empty. rewrite get_cons. unfold seg_get, seg_in. cbn [fst snd get].
  destruct ((s <=? a) && (a <? s + blen d)); [|reflexivity]. destruct (nth_error d _); reflexivity.
Qed.
Lemma get_frombytes_at d s i b : nth_error d i = Some b -> get (frombytes mem_empty d s) (s + Z.of_nat i) = Some b.
Proof.
  intros H. rewrite get_frombytes. assert (i < length d)%nat by (apply nth_error_Some; congruence).
  unfold blen. replace ((s <=? s + Z.of_nat i) && (s + Z.of_nat i <? s + Z.of_nat (length d))) with true by lia.
  replace (Z.to_nat (s + Z.of_nat i - s)) with i by lia. exact H.
Qed.
Lemma get_frombytes_outside d s a : a < s \/ s + blen d <= a -> get (frombytes mem_empty d s) a = None.
Proof. intros H. rewrite get_frombytes. replace ((s <=? a) && (a <? s + blen d)) with false by lia. reflexivity. Qed.

(* ---- minaddr / maxaddr ---- *)
Lemma minaddr_none m : minaddr m = None -> forall a, get m a = None.
Proof.
  induction m as [|s m IH]; intros H a; [reflexivity|]. cbn [minaddr] in H. rewrite get_cons.
  destruct (seg_nonempty s) eqn:E.
  - destruct (minaddr m); discriminate.
  - destruct (seg_get s a) eqn:G; [|apply IH; exact H].
    apply seg_get_some, seg_in_nonempty in G. congruence.
Qed.
Lemma maxaddr_none m : maxaddr m = None -> forall a, get m a = None.
Proof.
  induction m as [|s m IH]; intros H a; [reflexivity|]. cbn [maxaddr] in H. rewrite get_cons.
  destruct (seg_nonempty s) eqn:E.
  - destruct (maxaddr m); discriminate.
  - destruct (seg_get s a) eqn:G; [|apply IH; exact H].
    apply seg_get_some, seg_in_nonempty in G. congruence.
Qed.
Lemma minaddr_le m lo a b : minaddr m = Some lo -> get m a = Some b -> lo <= a.
Proof.
  revert lo. induction m as [|s m IH]; intros lo H G; [discriminate|]. cbn [minaddr] in H. rewrite get_cons in G.
  destruct (seg_get s a) eqn:Gs.
  - pose proof (seg_get_some _ _ _ Gs) as Hin. rewrite (seg_in_nonempty _ _ Hin) in H. apply seg_in_range in Hin.
    destruct (minaddr m); cbn [opt_min] in H; injection H as <-; lia.
  - destruct (seg_nonempty s).
    + destruct (minaddr m) as [y|] eqn:My; cbn [opt_min] in H; injection H as <-.
      * specialize (IH y eq_refl G). lia.
      * rewrite (minaddr_none m My a) in G. discriminate.
    + apply IH; assumption.
Qed.
Lemma maxaddr_ge m hi a b : maxaddr m = Some hi -> get m a = Some b -> a <= hi.
Proof.
  revert hi. induction m as [|s m IH]; intros hi H G; [discriminate|]. cbn [maxaddr] in H. rewrite get_cons in G.
  destruct (seg_get s a) eqn:Gs.
  - pose proof (seg_get_some _ _ _ Gs) as Hin. rewrite (seg_in_nonempty _ _ Hin) in H. apply seg_in_range in Hin.
    destruct (maxaddr m); cbn [opt_max] in H; injection H as <-; lia.
  - destruct (seg_nonempty s).
    + destruct (maxaddr m) as [y|] eqn:My; cbn [opt_max] in H; injection H as <-.
      * specialize (IH y eq_refl G). lia.
      * rewrite (maxaddr_none m My a) in G. discriminate.
    + apply IH; assumption.
Qed.
(* the bounds are attained *)
Lemma minaddr_has m lo : minaddr m = Some lo -> has m lo = true.
Proof.
  revert lo. induction m as [|s m IH]; intros lo H; [discriminate|]. cbn [minaddr] in H. apply has_exists.
  destruct (seg_nonempty s) eqn:E.
  - destruct (minaddr m) as [y|] eqn:My; cbn [opt_min] in H; injection H as <-.
    + destruct (Z.min_spec (seg_lo s) y) as [[_ ->]|[_ ->]].
      * exists s. split; [left; reflexivity| apply seg_nonempty_lo; exact E].
      * specialize (IH y eq_refl). apply has_exists in IH. destruct IH as (t & Ht & Hin). exists t. split; [right; exact Ht|exact Hin].
    + exists s. split; [left; reflexivity| apply seg_nonempty_lo; exact E].
  - specialize (IH lo H). apply has_exists in IH. destruct IH as (t & Ht & Hin). exists t. split; [right; exact Ht|exact Hin].
Qed.
Lemma maxaddr_has m hi : maxaddr m = Some hi -> has m hi = true.
Proof.
  revert hi. induction m as [|s m IH]; intros hi H; [discriminate|]. cbn [maxaddr] in H. apply has_exists.
  destruct (seg_nonempty s) eqn:E.
  - destruct (maxaddr m) as [y|] eqn:My; cbn [opt_max] in H; injection H as <-.
    + destruct (Z.max_spec (seg_hi s) y) as [[_ ->]|[_ ->]].
      * specialize (IH y eq_refl). apply has_exists in IH. destruct IH as (t & Ht & Hin). exists t. split; [right; exact Ht|exact Hin].
      * exists s. split; [left; reflexivity| apply seg_nonempty_lo; exact E].
    + exists s. split; [left; reflexivity| apply seg_nonempty_lo; exact E].
  - specialize (IH hi H). apply has_exists in IH. destruct IH as (t & Ht & Hin). exists t. split; [right; exact Ht|exact Hin].
Qed.
Lemma minaddr_some_iff m : (exists lo, minaddr m = Some lo) <-> exists a, has m a = true.
Proof.
  split.
  - intros [lo H]. exists lo. apply minaddr_has. exact H.
  - intros [a H]. destruct (minaddr m) as [lo|] eqn:E; [eexists; reflexivity|].
    apply has_get in H. destruct H as [b H]. rewrite (minaddr_none m E a) in H. discriminate.
Qed.
Lemma minaddr_maxaddr_none m : minaddr m = None <-> maxaddr m = None.
Proof.
  split; intros H.
  - destruct (maxaddr m) as [hi|] eqn:E; [|reflexivity]. apply maxaddr_has, has_get in E. destruct E as [b E].
    rewrite (minaddr_none m H hi) in E. discriminate.
  - destruct (minaddr m) as [lo|] eqn:E; [|reflexivity]. apply minaddr_has, has_get in E. destruct E as [b E].
    rewrite (maxaddr_none m H lo) in E. discriminate.
Qed.
Lemma minaddr_frombytes d s : d <> [] -> minaddr (frombytes mem_empty d s) = Some s.
Proof. intros H. unfold frombytes, mem_empty. cbn [minaddr]. unfold seg_nonempty. cbn [snd]. destruct d; [congruence|reflexivity]. Qed.
Lemma maxaddr_frombytes d s : d <> [] -> maxaddr (frombytes mem_empty d s) = Some (s + blen d - 1).
Proof. intros H. unfold frombytes, mem_empty. cbn [maxaddr]. unfold seg_nonempty. cbn [snd]. destruct d; [congruence|reflexivity]. Qed.

(* ---- merge ---- *)
Lemma seg_overlap_spec s t : seg_overlap s t = true <-> exists a, seg_in s a = true /\ seg_in t a = true.
Proof.
  unfold seg_overlap. split.
  - intros H. apply andb_prop in H. destruct H as [H H4]. apply andb_prop in H. destruct H as [H H3].
    apply andb_prop in H. destruct H as [H1 H2].
    apply seg_nonempty_lo in H1, H2. destruct H1 as [H1 H1']. destruct H2 as [H2 H2'].
    apply seg_in_range in H1, H1', H2, H2'.
    exists (Z.max (seg_lo s) (seg_lo t)). rewrite !seg_in_range. lia.
  - intros (a & Hs & Ht). rewrite (seg_in_nonempty _ _ Hs), (seg_in_nonempty _ _ Ht).
    apply seg_in_range in Hs, Ht. cbn [andb]. lia.
Qed.
Lemma overlaps_spec m o : overlaps m o = true <-> exists a, has m a = true /\ has o a = true.
Proof.
  unfold overlaps. rewrite existsb_exists. split.
  - intros (s & Hs & H). apply existsb_exists in H. destruct H as (t & Ht & H). apply seg_overlap_spec in H.
    destruct H as (a & Ha & Hb). exists a. split; apply has_exists; eauto.
  - intros (a & Hm & Ho). apply has_exists in Hm, Ho. destruct Hm as (t & Ht & Hta). destruct Ho as (s & Hs & Hsa).
    exists s. split; [exact Hs|]. apply existsb_exists. exists t. split; [exact Ht|]. apply seg_overlap_spec. eauto.
Qed.
Lemma merge_none m o : merge m o = None <-> exists a, has m a = true /\ has o a = true.
Proof.
  unfold merge. rewrite <- overlaps_spec. destruct (overlaps m o); split; intros H; try reflexivity; discriminate.
Qed.
Lemma merge_some m o m' : merge m o = Some m' ->
  (forall a, has m a = true -> has o a = true -> False) /\
  (forall a, get m' a = match get o a with Some b => Some b | None => get m a end).
Proof.
  unfold merge. destruct (overlaps m o) eqn:E; [discriminate|]. intros [= <-]. split.
  - intros a Hm Ho. assert (overlaps m o = true) by (apply overlaps_spec; eauto). congruence.
  - intros a. apply get_app.
Qed.
(* reading a merged image of disjoint images reads either *)
Lemma merge_get_either m o m' a : merge m o = Some m' ->
  get m' a = match get m a with Some b => Some b | None => get o a end.
Proof.
  intros H. apply merge_some in H. destruct H as [Hd ->].
  destruct (get o a) eqn:Go, (get m a) eqn:Gm; try reflexivity.
  exfalso. apply (Hd a); apply has_get; eauto.
Qed.
Lemma merge_empty_l o : merge mem_empty o = Some (o ++ []).
Proof. unfold merge, overlaps. replace (existsb _ o) with false; [reflexivity|]. induction o; [reflexivity|cbn; auto]. Qed.

(* ---- tobinstr ---- *)
Lemma tobinstr_ordered m s e pad : s <= e ->
  tobinstr m s e pad = map (get_pad m pad) (zrange s (Z.to_nat (e + 1 - s))).
Proof. intros H. unfold tobinstr. replace (s >? e) with false by lia. reflexivity. Qed.
Lemma tobinstr_length m s e pad : s <= e -> blen (tobinstr m s e pad) = e - s + 1.
Proof. intros H. rewrite tobinstr_ordered by exact H. unfold blen. rewrite map_length, zrange_length. lia. Qed.
Lemma tobinstr_nth m s e pad a : s <= a <= e ->
  nth_error (tobinstr m s e pad) (Z.to_nat (a - s)) = Some (get_pad m pad a).
Proof.
  intros H. rewrite tobinstr_ordered by lia. apply map_nth_error. rewrite zrange_nth by lia. f_equal. lia.
Qed.
Lemma tobinstr_nth_present m s e pad a b : s <= a <= e -> get m a = Some b ->
  nth_error (tobinstr m s e pad) (Z.to_nat (a - s)) = Some b.
Proof. intros H G. rewrite (tobinstr_nth m s e pad a H). unfold get_pad. rewrite G. reflexivity. Qed.
Lemma tobinstr_nth_absent m s e pad a : s <= a <= e -> get m a = None ->
  nth_error (tobinstr m s e pad) (Z.to_nat (a - s)) = Some pad.
Proof. intros H G. rewrite (tobinstr_nth m s e pad a H). unfold get_pad. rewrite G. reflexivity. Qed.
(* a swapped pair of bounds is put in order (IntelHex._get_start_end) *)
Lemma tobinstr_swap m s e pad : e < s -> tobinstr m s e pad = tobinstr m e s pad.
Proof. intros H. unfold tobinstr. replace (s >? e) with true by lia. replace (e >? s) with false by lia. reflexivity. Qed.

Lemma tobinstr_frombytes d s pad : d <> [] -> tobinstr (frombytes mem_empty d s) s (s + blen d - 1) pad = d.
Proof.
  intros Hd. assert (0 < blen d) by (unfold blen; destruct d; [congruence|cbn [length]; lia]).
  rewrite tobinstr_ordered by lia. replace (Z.to_nat (s + blen d - 1 + 1 - s)) with (length d) by (unfold blen; lia).
  apply nth_error_ext. intros i. destruct (nth_error d i) as [b|] eqn:E.
  - assert (i < length d)%nat by (apply nth_error_Some; congruence).
    apply map_nth_error with (f := get_pad (frombytes mem_empty d s) pad) in E as E'.
    erewrite map_nth_error; [|apply zrange_nth; assumption].
    unfold get_pad. rewrite (get_frombytes_at d s i b E). reflexivity.
  - apply nth_error_None in E. apply nth_error_None. rewrite map_length, zrange_length. exact E.
Qed.
