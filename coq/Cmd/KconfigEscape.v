(* Cmd/KconfigEscape.v — F17: what the configuration reader does to a string value undoes what Kconfig does when it writes one.
   kc_escape models the writer (a backslash in front of every backslash and double quote); bc_unescape is the regenerated model of the
   reader's re.sub(r"\\(.)", r"\1", ...) (gen/GenUuidSites.v). *)
From Verif Require Import Base.Prim gen.GenUuidSites.
From Coq Require Import Lia.

Fixpoint kc_escape (l : bytes) : bytes :=
  match l with
  | [] => []
  | c :: r => if (c =? 92) || (c =? 34) then 92 :: c :: kc_escape r else c :: kc_escape r
  end.

Lemma bc_unescape_other c r : c <> 92 -> bc_unescape (c :: r) = c :: bc_unescape r.
Proof.
  intros H. destruct c as [|p|p]; try reflexivity.
  do 7 (destruct p as [p|p|]; try reflexivity). all: try (exfalso; apply H; reflexivity).
Qed.

Lemma bc_unescape_esc c r : bc_unescape (92 :: c :: r) = c :: bc_unescape r.
Proof. reflexivity. Qed.

Theorem unescape_escape : forall s, bc_unescape (kc_escape s) = s.
Proof.
  induction s as [|c r IH]; [reflexivity|]. cbn [kc_escape].
  destruct ((c =? 92) || (c =? 34)) eqn:E.
  - rewrite bc_unescape_esc, IH. reflexivity.
  - apply Bool.orb_false_iff in E. destruct E as [E1 _]. apply Z.eqb_neq in E1.
    rewrite (bc_unescape_other c _ E1), IH. reflexivity.
Qed.
