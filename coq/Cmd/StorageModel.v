(* Cmd/StorageModel.v — hand-written part of the C07 model (definitions only, no proofs): the data types the regenerated
   skeletons (gen/GenStorage.v) and the pinned ABI (gen/GenStorageAbi.v) are written over, dictionary helpers, and the
   specification-side functions (what a slot must contain, where).  Lemmas: Cmd/Storage.v; statements: Props/C07.v. *)
From Verif Require Import Base.Prim Cbor.Codec Base.Mem.

(* one entry of EnvelopeStorage._LAYOUT: role, offset, size, domain (enum values) *)
Record slot_entry := mk_slot { e_role : Z; e_offset : Z; e_size : Z; e_domain : Z }.

(* EnvelopeStorage: _assignments as class id -> role (the vendor id / class id bookkeeping of assign_role is C13's),
   _base_address, _envelopes as an insertion-ordered dict role -> slot bytes *)
Record storage := mk_storage { assignments : list (bytes * Z); base_address : Z; envelopes : list (Z * bytes) }.
Definition set_envelopes (st : storage) (v : list (Z * bytes)) : storage :=
  {| assignments := assignments st; base_address := base_address st; envelopes := v |}.

Fixpoint blookup {V} (k : bytes) (l : list (bytes * V)) : option V :=
  match l with [] => None | (k', v) :: r => if list_eqb k k' then Some v else blookup k r end.
Fixpoint zlookup {V} (k : Z) (l : list (Z * V)) : option V :=
  match l with [] => None | (k', v) :: r => if k =? k' then Some v else zlookup k r end.
Definition zmember {V} (k : Z) (l : list (Z * V)) : bool := match zlookup k l with Some _ => true | None => false end.

(* ---------------------------------------------------------------- specification side *)
(* the content of a slot: {0: 1, 1: class-id offset, 2: envelope}, padded with 0xFF to the slot size *)
Definition spec_slot_item (class_id_offset : Z) (env : bytes) : cbor :=
  CMap [(CUint 0, CUint 1); (CUint 1, CUint class_id_offset); (CUint 2, CBytes env)].
Definition spec_slot (class_id_offset : Z) (env : bytes) (size : Z) : bytes :=
  encode (spec_slot_item class_id_offset env) ++ repeat 255 (Z.to_nat (size - blen (encode (spec_slot_item class_id_offset env)))).

(* the manifest component id of an installed manifest: [bstr .cbor "INSTLD_MFST", bstr class-uuid], and the one-entry manifest
   {5: that} whose encoding (first byte cut) the tool searches for *)
Definition component_id (first uuid : bytes) : cbor := CArray [CBytes first; CBytes uuid].
Definition component_id_manifest (first uuid : bytes) : bytes := encode (CMap [(CUint 5, component_id first uuid)]).

Definition lookup_slot (role : Z) (layout : list slot_entry) : option slot_entry :=
  List.find (fun e => e_role e =? role) layout.

(* boolean checks evaluated on the extracted tables *)
Definition slot_eqb (a b : slot_entry) : bool :=
  (e_role a =? e_role b) && (e_offset a =? e_offset b) && (e_size a =? e_size b) && (e_domain a =? e_domain b).
Definition opt_slot_eqb (a b : option slot_entry) : bool :=
  match a, b with Some x, Some y => slot_eqb x y | None, None => true | _, _ => false end.
Fixpoint nodup_z (l : list Z) : bool :=
  match l with [] => true | x :: r => negb (existsb (Z.eqb x) r) && nodup_z r end.
(* the two tables are the same map role -> (offset, size, domain) *)
Definition same_layout (a b : list slot_entry) : bool :=
  nodup_z (map e_role a) && nodup_z (map e_role b) && (length a =? length b)%nat &&
  forallb (fun e => opt_slot_eqb (lookup_slot (e_role e) b) (Some e)) a.
(* slots pairwise disjoint (as offsets) *)
Definition apart (a b : slot_entry) : bool := (e_offset a + e_size a <=? e_offset b) || (e_offset b + e_size b <=? e_offset a).
Fixpoint pairwise_apart (l : list slot_entry) : bool :=
  match l with [] => true | x :: r => forallb (apart x) r && pairwise_apart r end.
(* each slot non-empty and inside the area of its domain *)
Definition in_area (areas : list (Z * (Z * Z))) (e : slot_entry) : bool :=
  match zlookup (e_domain e) areas with
  | Some (lo, hi) => (lo <=? e_offset e) && (e_offset e + e_size e <=? hi) && (0 <? e_size e)
  | None => false
  end.
Fixpoint areas_apart (l : list (Z * (Z * Z))) : bool :=
  match l with
  | [] => true
  | (_, (lo, hi)) :: r => forallb (fun x => (hi <=? fst (snd x)) || (snd (snd x) <=? lo)) r && areas_apart r
  end.
Definition same_names (a b : list bytes) : bool := forallb (fun x => str_in x b) a && forallb (fun x => str_in x a) b.
