(* Cmd/Cache.v — lemmas about the DFU cache model.  The model itself (gen/GenCache.v) is regenerated from
   suit_generator/cmd_cache_create.py on every run; the proofs below never mention generated names. *)
From Verif Require Import Base.Prim Base.PrimFacts Cbor.Codec Cbor.CodecFacts gen.GenCache.

#[local] Arguments Z.add : simpl never.
#[local] Arguments Z.sub : simpl never.
#[local] Arguments Z.mul : simpl never.
#[local] Arguments Z.opp : simpl never.

(* ---- heads the cache writer emits by hand ---- *)
Lemma dhead_small major k r : 0 <= major < 8 -> 0 <= k < 24 -> dhead ((major * 32 + k) :: r) = Some (major, k, r).
Proof.
  intros Hm Hk. unfold dhead. replace ((major * 32 + k) / 32) with major by lia. replace ((major * 32 + k) mod 32) with k by lia.
  destruct (k <? 24) eqn:E; [reflexivity|lia].
Qed.
Lemma dhead_w2 major k r : 0 <= major < 8 -> 0 <= k < 65536 -> dhead ((major * 32 + 25) :: be 2 k ++ r) = Some (major, k, r).
Proof.
  intros Hm Hk. unfold dhead. replace ((major * 32 + 25) / 32) with major by lia. replace ((major * 32 + 25) mod 32) with 25 by lia.
  change (25 <? 24) with false. change (25 =? 24) with false. change (25 =? 25) with true. cbv iota.
  pose proof (take_app (be 2 k) r) as T. rewrite be_len in T. change (Z.of_nat 2) with 2 in T. rewrite T.
  rewrite unbe_be by (change (256 ^ Z.of_nat 2) with 65536; lia). f_equal.
Qed.
Lemma dhead_w4 major k r : 0 <= major < 8 -> 0 <= k < 4294967296 -> dhead ((major * 32 + 26) :: be 4 k ++ r) = Some (major, k, r).
Proof.
  intros Hm Hk. unfold dhead. replace ((major * 32 + 26) / 32) with major by lia. replace ((major * 32 + 26) mod 32) with 26 by lia.
  change (26 <? 24) with false. change (26 =? 24) with false. change (26 =? 25) with false. change (26 =? 26) with true. cbv iota.
  pose proof (take_app (be 4 k) r) as T. rewrite be_len in T. change (Z.of_nat 4) with 4 in T. rewrite T.
  rewrite unbe_be by (change (256 ^ Z.of_nat 4) with 4294967296; lia). f_equal.
Qed.

(* A padding entry: the empty text key 0x60 followed by a byte string of k zero bytes whose head `hd` is *some*
   valid byte-string head for k (the decoder accepts every width). *)
Definition bstr_head (hd : bytes) (k : Z) : Prop :=
  0 <= k /\ hd <> [] /\ (forall r, dhead (hd ++ r) = Some (2, k, r)) /\ (forall r, is_indef_map (hd ++ r) = false).
Definition pad_entry (pad : bytes) : Prop :=
  exists hd k, pad = 96 :: hd ++ repeat 0 (Z.to_nat k) /\ bstr_head hd k.

(* generic destructor for translator output *)
Ltac step :=
  match goal with
  | |- context [if ?c then _ else _] => destruct c eqn:?
  | |- context [match ?x with Ok _ => _ | Raise _ => _ end] =>
      let E := fresh "E" in destruct x eqn:E; [| try discriminate]
  | H : bytes_of_ints _ = Ok _ |- _ => apply boi_len in H; subst
  | H : to_bytes_big _ _ = Ok _ |- _ => apply tbb_ok in H; destruct H as (-> & ? & ?)
  end.

Lemma bstr_head_small k : 0 <= k < 24 -> bstr_head [64 + k] k.
Proof.
  intros Hk. split; [lia|]. split; [discriminate|]. split; intros r; cbn [app].
  - apply (dhead_small 2 k r); lia.
  - cbn [is_indef_map]. lia.
Qed.
Lemma bstr_head_w2 k : 0 <= k < 65536 -> bstr_head (89 :: be 2 k) k.
Proof.
  intros Hk. split; [lia|]. split; [discriminate|]. split; intros r; cbn [app].
  - apply (dhead_w2 2 k r); lia.
  - reflexivity.
Qed.

Lemma pad_small k n : 0 <= k < 24 -> n = k -> pad_entry ([96] ++ [64 + k] ++ repeat 0 (Z.to_nat n)).
Proof. intros Hk ->. exists [64 + k], k. split; [reflexivity | apply bstr_head_small; lia]. Qed.
Lemma pad_w2 k n w : 0 <= k < 65536 -> n = k -> w = 2%nat -> pad_entry ([96] ++ ([89] ++ be w k) ++ repeat 0 (Z.to_nat n)).
Proof. intros Hk -> ->. exists (89 :: be 2 k), k. split; [reflexivity | apply bstr_head_w2; lia]. Qed.

Lemma pad_w2' k n : 0 <= k < 65536 -> n = k -> pad_entry ([96] ++ [89; (k / 256) mod 256; k mod 256] ++ repeat 0 (Z.to_nat n)).
Proof. intros Hk Hn. apply (pad_w2 k n 2%nat Hk Hn eq_refl). Qed.

Theorem add_padding_shape self data out :
  0 < eb_size self -> add_padding self data = Ok out ->
  exists pad, out = data ++ pad /\ blen out mod eb_size self = 0 /\ (pad = [] \/ pad_entry pad).
Proof.
  intros Heb. unfold add_padding.
  pose proof (blen_nonneg data) as Hl.
  pose proof (ceil_bounds (blen data) (eb_size self) Heb Hl) as Hb.
  pose proof (Z_mod_mult (ceil_div (blen data) (eb_size self)) (eb_size self)) as Hm0.
  pose proof (Z_mod_mult (ceil_div (blen data) (eb_size self) + 1) (eb_size self)) as Hm1.
  replace ((ceil_div (blen data) (eb_size self) + 1) * eb_size self) with
    (ceil_div (blen data) (eb_size self) * eb_size self + eb_size self) in Hm1 by ring.
  set (r := ceil_div (blen data) (eb_size self) * eb_size self) in *.
  cbv zeta.
  repeat step; intros [= <-]; try lia.
  (* no padding needed *)
  all: try (exists []; rewrite app_nil_r; split; [reflexivity|]; split; [replace (blen data) with r by lia; assumption | left; reflexivity]).
  (* a padding entry *)
  all: eexists; (split; [unfold ljust; rewrite <- ?app_assoc; reflexivity|]).
  all: split; [ rewrite blen_ljust; [assumption | autorewrite with blen; lia] | right ].
  all: autorewrite with blen.
  all: first [ apply pad_small; lia | apply pad_w2; lia | apply pad_w2'; lia ].
Qed.

(* the padding is never a single byte, and at least two bytes when present *)
Corollary add_padding_not_one self data out :
  0 < eb_size self -> add_padding self data = Ok out -> blen out - blen data <> 1.
Proof.
  intros Heb H. destruct (add_padding_shape self data out Heb H) as (pad & -> & _ & [-> | (hd & k & -> & Hk & Hne & _)]).
  - rewrite app_nil_r. lia.
  - autorewrite with blen. destruct hd; [congruence|]. autorewrite with blen. pose proof (blen_nonneg hd). lia.
Qed.

(* ---- one slot ---- *)
Definition slot_bytes (uri data : bytes) : bytes := encode (CText uri) ++ 90 :: be 4 (blen data) ++ data.
Definition opener (c : cache) : bytes := if first_slot c then [191] else [].

Ltac unset := unfold set_uris, set_first_slot, set_cache_data, set_eb_size in *; cbn [eb_size uris first_slot cache_data] in *.

Theorem add_cache_slot_spec c uri data c' :
  0 < eb_size c -> add_cache_slot c uri data = Ok c' ->
  exists pad,
    cache_data c' = cache_data c ++ opener c ++ slot_bytes uri data ++ pad
    /\ (pad = [] \/ pad_entry pad)
    /\ blen (opener c ++ slot_bytes uri data ++ pad) mod eb_size c = 0
    /\ first_slot c' = false /\ eb_size c' = eb_size c /\ uris c' = uris c ++ [uri]
    /\ str_in uri (uris c) = false /\ 0 <= blen data < 2 ^ 32.
Proof.
  intros Heb. unfold add_cache_slot, opener, slot_bytes. cbv zeta.
  repeat step; unset; intros [= <-]; unset.
  all: match goal with H : add_padding _ _ = Ok _ |- _ =>
         apply add_padding_shape in H; [| unset; assumption]; destruct H as (pad & -> & Hal & Hpad); unset end.
  all: exists pad; rewrite <- ?app_assoc in *; cbn [app] in *.
  all: repeat split; try assumption; try reflexivity; try lia.
  all: try (change (2 ^ 32) with (256 ^ 4); lia).
Qed.

Theorem empty_uri_rejected c data : add_cache_slot c [] data = Raise ValueError.
Proof. unfold add_cache_slot. cbv zeta. repeat step; try reflexivity; try discriminate; unset; cbn in *; try lia. Qed.

Theorem duplicate_rejected c uri data : In uri (uris c) -> uri <> [] -> add_cache_slot c uri data = Raise ValueError.
Proof.
  intros Hin Hne. assert (Hs : str_in uri (uris c) = true).
  { unfold str_in. apply existsb_exists. exists uri. split; [assumption | apply list_eqb_refl]. }
  unfold add_cache_slot. cbv zeta. repeat step; unset; try reflexivity; try congruence.
Qed.

(* ---- the whole file ---- *)
Inductive entry := Slot (uri data : bytes) | Pad (hd : bytes) (k : Z).
Definition entry_bytes (e : entry) : bytes :=
  match e with Slot u d => slot_bytes u d | Pad hd k => 96 :: hd ++ repeat 0 (Z.to_nat k) end.
Definition entry_pair (e : entry) : cbor * cbor :=
  match e with Slot u d => (CText u, CBytes d) | Pad _ k => (CText [], CBytes (repeat 0 (Z.to_nat k))) end.
Definition entry_ok (e : entry) : Prop :=
  match e with Slot u d => blen u < 2 ^ 64 /\ blen d < 2 ^ 32 | Pad hd k => bstr_head hd k end.
Definition slots_of (es : list entry) : list (bytes * bytes) :=
  flat_map (fun e => match e with Slot u d => [(u, d)] | Pad _ _ => [] end) es.

Lemma decode_text f u r : blen u < 2 ^ 64 -> decode (S f) (encode (CText u) ++ r) = Some (CText u, r).
Proof. intros H. apply decode_encode; [exact H | cbn; lia]. Qed.

Lemma decode_bstr_hd f hd k d r :
  bstr_head hd k -> blen d = k -> decode (S f) (hd ++ d ++ r) = Some (CBytes d, r).
Proof.
  intros (Hk & Hne & Hd & Hi) Hl. cbn [decode]. rewrite Hi, Hd.
  change (2 =? 0) with false. change (2 =? 1) with false. change (2 =? 2) with true. cbv iota.
  rewrite <- Hl, take_app. reflexivity.
Qed.

Lemma bstr_head_w4 k : 0 <= k < 2 ^ 32 -> bstr_head (90 :: be 4 k) k.
Proof.
  intros Hk. split; [lia|]. split; [discriminate|]. split; intros r; cbn [app].
  - apply (dhead_w4 2 k r); [lia| change 4294967296 with (2 ^ 32); lia].
  - reflexivity.
Qed.

Lemma dec_entries f es r n :
  Forall entry_ok es -> (length es <= n)%nat ->
  dec_ipairs (decode (S f)) n (flat_map entry_bytes es ++ 255 :: r) = Some (map entry_pair es, r).
Proof.
  revert n. induction es as [|e es IH]; intros n Hok Hn; cbn [flat_map map].
  - cbn [app]. destruct n; reflexivity.
  - inversion Hok as [|? ? He Hes]; subst. cbn [length] in Hn. destruct n as [|n]; [lia|].
    destruct e as [u d | hd k]; cbn [entry_bytes entry_pair entry_ok] in *.
    + destruct He as [Hu Hd]. unfold slot_bytes. rewrite <- !app_assoc.
      destruct (encode_first (CText u)) as (b & rk & Ek & Hb & Hb255 & _); [exact Hu|].
      rewrite (dec_ipairs_step _ _ _ b (rk ++ (90 :: be 4 (blen d) ++ d) ++ flat_map entry_bytes es ++ 255 :: r))
        by (rewrite ?Ek; auto).
      rewrite decode_text by assumption.
      change ((90 :: be 4 (blen d) ++ d) ++ flat_map entry_bytes es ++ 255 :: r)
        with ((90 :: be 4 (blen d)) ++ d ++ flat_map entry_bytes es ++ 255 :: r).
      rewrite (decode_bstr_hd f _ (blen d)); [|apply bstr_head_w4; pose proof (blen_nonneg d); lia|reflexivity].
      rewrite IH by (auto; lia). reflexivity.
    + rewrite <- !app_assoc. cbn [app]. rewrite <- !app_assoc.
      rewrite (dec_ipairs_step _ _ _ 96 (hd ++ repeat 0 (Z.to_nat k) ++ flat_map entry_bytes es ++ 255 :: r))
        by (auto; lia).
      change (96 :: hd ++ repeat 0 (Z.to_nat k) ++ flat_map entry_bytes es ++ 255 :: r)
        with (encode (CText []) ++ hd ++ repeat 0 (Z.to_nat k) ++ flat_map entry_bytes es ++ 255 :: r).
      rewrite decode_text by (cbn; lia).
      rewrite (decode_bstr_hd f hd k); [|assumption| rewrite blen_repeat; destruct He; lia].
      rewrite IH by (auto; lia). reflexivity.
Qed.

Lemma entry_bytes_len e : entry_ok e -> (1 <= length (entry_bytes e))%nat.
Proof. destruct e as [u d|hd k]; intros H; cbn [entry_bytes]; [unfold slot_bytes; rewrite app_length; cbn [length]; lia | cbn [length]; lia]. Qed.
Lemma entries_len es : Forall entry_ok es -> (length es <= length (flat_map entry_bytes es))%nat.
Proof.
  induction es as [|e es IH]; intros H; cbn [flat_map length]; [lia|]. inversion H; subst. rewrite app_length.
  pose proof (entry_bytes_len e). specialize (IH ltac:(assumption)). lia.
Qed.

Lemma decode_indef f l : decode (S f) (191 :: l) =
  match dec_ipairs (decode f) (length (191 :: l)) l with Some (cs, r') => Some (CMapI cs, r') | None => None end.
Proof. reflexivity. Qed.

(* a closed cache file made of entries decodes, as a whole, to one indefinite-length map with exactly those entries *)
Theorem file_decodes es :
  Forall entry_ok es ->
  loads_exact (191 :: flat_map entry_bytes es ++ [255]) = Some (CMapI (map entry_pair es)).
Proof.
  intros Hok. unfold loads_exact. rewrite decode_indef. cbn [length].
  rewrite dec_entries; [reflexivity|assumption|]. pose proof (entries_len es Hok). rewrite app_length. cbn [length]. lia.
Qed.

Definition add_all (slots : list (bytes * bytes)) (c : cache) : res cache :=
  foldM (fun c ud => add_cache_slot c (fst ud) (snd ud)) slots c.

(* state invariant: the data written so far is an opened map made of well-formed entries, whose slots are
   exactly the accepted (uri, payload) pairs, and it ends on an erase-block boundary *)
Definition Inv (c : cache) (done : list (bytes * bytes)) : Prop :=
  (first_slot c = true /\ cache_data c = [] /\ done = []) \/
  (first_slot c = false /\ exists es, cache_data c = 191 :: flat_map entry_bytes es /\ Forall entry_ok es /\ slots_of es = done
     /\ blen (cache_data c) mod eb_size c = 0).

Lemma pad_entries pad : pad = [] \/ pad_entry pad -> exists ps, pad = flat_map entry_bytes ps /\ Forall entry_ok ps /\ slots_of ps = [].
Proof.
  intros [-> | (hd & k & -> & Hh)]; [exists []; repeat split; constructor|].
  exists [Pad hd k]. cbn [flat_map entry_bytes slots_of]. rewrite app_nil_r. repeat split. constructor; [exact Hh|constructor].
Qed.

Lemma slots_of_app a b : slots_of (a ++ b) = slots_of a ++ slots_of b.
Proof. unfold slots_of. apply flat_map_app. Qed.

Lemma add_preserves_inv c done u d c' :
  0 < eb_size c -> blen u < 2 ^ 64 -> Inv c done -> add_cache_slot c u d = Ok c' -> Inv c' (done ++ [(u, d)]) /\ eb_size c' = eb_size c.
Proof.
  intros Heb Hu HI Hadd. apply add_cache_slot_spec in Hadd; [|assumption].
  destruct Hadd as (pad & Hcd & Hpad & Hal & Hfs & Heb' & _ & _ & Hd).
  split; [|assumption]. right. split; [assumption|].
  destruct (pad_entries pad Hpad) as (ps & -> & Hps & Hsl).
  destruct HI as [(Hf & Hc & ->) | (Hf & es & Hc & Hes & Hso & Hmod)]; unfold opener in *; rewrite Hf in *.
  - exists (Slot u d :: ps). rewrite Hcd, Hc. cbn [app flat_map entry_bytes]. split; [reflexivity|].
    split; [constructor; [cbn; lia|assumption]|]. split; [cbn [slots_of flat_map app]; fold (slots_of ps); rewrite Hsl; reflexivity|].
    rewrite Heb'. cbn [app] in Hal. exact Hal.
  - exists (es ++ Slot u d :: ps). rewrite Hcd, Hc. cbn [app]. rewrite flat_map_app. cbn [flat_map entry_bytes].
    split; [repeat rewrite <- app_assoc; reflexivity|]. split; [apply Forall_app; split; [assumption|constructor; [cbn; lia|assumption]]|].
    split; [rewrite slots_of_app, Hso; cbn [slots_of flat_map app]; fold (slots_of ps); rewrite Hsl; reflexivity|].
    rewrite Heb'. cbn [app] in Hal.
    change (191 :: flat_map entry_bytes es ++ slot_bytes u d ++ flat_map entry_bytes ps)
      with ((191 :: flat_map entry_bytes es) ++ slot_bytes u d ++ flat_map entry_bytes ps).
    rewrite <- Hc, blen_app, Z.add_mod by lia. rewrite Hmod, Hal. reflexivity.
Qed.

Lemma add_all_inv slots : forall c done c',
  0 < eb_size c -> Forall (fun ud => blen (fst ud) < 2 ^ 64) slots -> Inv c done -> add_all slots c = Ok c' ->
  Inv c' (done ++ slots) /\ eb_size c' = eb_size c.
Proof.
  induction slots as [|[u d] slots IH]; intros c done c' Heb Hu HI H; cbn [add_all foldM] in H.
  - injection H as <-. rewrite app_nil_r. auto.
  - destruct (add_cache_slot c (fst (u, d)) (snd (u, d))) as [c1|] eqn:E; cbn [bind] in H; [|discriminate].
    inversion Hu as [|? ? Hu1 Hu2]; subst. cbn [fst snd] in *.
    destruct (add_preserves_inv c done u d c1 Heb Hu1 HI E) as [HI1 Heb1].
    destruct (IH c1 (done ++ [(u, d)]) c') as [HI2 Heb2]; try assumption; [lia|].
    rewrite <- app_assoc in HI2. cbn [app] in HI2. split; [assumption|lia].
Qed.

(* C10, main statement: a cache made of at least one slot is a single indefinite-length map whose entries with a
   slot are exactly the supplied pairs, in order, every other entry being "" |-> zero bytes; the file length
   minus the closing byte is a multiple of the erase-block size *)
Theorem cache_decodes eb slots c f out :
  0 < eb -> slots <> [] -> Forall (fun ud => blen (fst ud) < 2 ^ 64) slots ->
  add_all slots (cache_init eb) = Ok c -> close_and_save_cache c f = Ok out ->
  exists es, loads_exact out = Some (CMapI (map entry_pair es)) /\ slots_of es = slots /\ Forall entry_ok es
             /\ (blen out - 1) mod eb = 0.
Proof.
  intros Heb Hne Hu Hadd Hclose.
  destruct (add_all_inv slots (cache_init eb) [] c) as [HI Hebc]; try assumption.
  { left. repeat split. }
  cbn [app] in HI. destruct HI as [(_ & _ & Hs0) | (Hf & es & Hc & Hes & Hso & Hmod)]; [congruence|].
  unfold close_and_save_cache in Hclose. cbv zeta in Hclose. repeat step. unset. injection Hclose as <-.
  exists es. rewrite Hc. cbn [app]. split; [apply file_decodes; assumption|]. split; [assumption|]. split; [assumption|].
  change (191 :: flat_map entry_bytes es ++ [255]) with ((191 :: flat_map entry_bytes es) ++ [255]).
  rewrite <- Hc. rewrite blen_app. cbn [eb_size cache_init] in Hebc. rewrite Hebc in Hmod.
  change (blen [255]) with 1. replace (blen (cache_data c) + 1 - 1) with (blen (cache_data c)) by lia. exact Hmod.
Qed.

(* every slot after the first begins on an erase-block boundary: the state before each later add is aligned, and
   the new slot's bytes start right there (add_cache_slot_spec: cache_data c' = cache_data c ++ slot ++ pad) *)
Theorem slots_aligned c done u d c' :
  0 < eb_size c -> blen u < 2 ^ 64 -> Inv c done -> first_slot c = false -> add_cache_slot c u d = Ok c' ->
  blen (cache_data c) mod eb_size c = 0 /\ exists pad, cache_data c' = cache_data c ++ slot_bytes u d ++ pad.
Proof.
  intros Heb Hu HI Hf Hadd. destruct HI as [(Hf' & _) | (_ & es & _ & _ & _ & Hmod)]; [congruence|].
  split; [assumption|]. apply add_cache_slot_spec in Hadd; [|assumption]. destruct Hadd as (pad & Hcd & _).
  unfold opener in Hcd. rewrite Hf in Hcd. exists pad. exact Hcd.
Qed.

(* merging: adding the decoded dictionary of a cache file adds exactly its non-padding pairs, in order *)
Theorem merge_is_add_all c dict :
  merge_single_cache_dict c dict = add_all (filter (fun kv => negb (blen (fst kv) =? 0)) dict) c.
Proof.
  unfold merge_single_cache_dict, add_all. revert c. induction dict as [|[k v] dict IH]; intros c; cbn [foldM filter fst snd].
  - reflexivity.
  - destruct (blen k =? 0) eqn:E; cbn [negb bind foldM fst snd].
    + rewrite <- IH. destruct (foldM _ dict c); reflexivity.
    + destruct (add_cache_slot c k v) as [c1|]; cbn [bind]; [|reflexivity].
      rewrite <- IH. destruct (foldM _ dict c1); reflexivity.
Qed.

(* ---- merging several cache files, duplicates ---- *)
Lemma add_all_app a b c : add_all (a ++ b) c = let* c1 := add_all a c in add_all b c1.
Proof.
  unfold add_all. revert c. induction a as [|x a IH]; intros c; cbn [app foldM bind]; [reflexivity|].
  destruct (add_cache_slot c (fst x) (snd x)) as [c1|]; cbn [bind]; [apply IH|reflexivity].
Qed.

Definition nonpad (kv : bytes * bytes) : bool := negb (blen (fst kv) =? 0).

Lemma merge_many dicts : forall c,
  foldM merge_single_cache_dict dicts c = add_all (flat_map (filter nonpad) dicts) c.
Proof.
  induction dicts as [|d dicts IH]; intros c; cbn [foldM flat_map]; [reflexivity|].
  rewrite add_all_app, merge_is_add_all. fold nonpad. destruct (add_all (filter nonpad d) c) as [c1|]; cbn [bind]; [apply IH|reflexivity].
Qed.

(* merged output = one well-formed cache holding every non-padding pair of every input, in order *)
Theorem merge_preserves eb dicts c f out :
  0 < eb -> flat_map (filter nonpad) dicts <> [] ->
  Forall (fun ud => blen (fst ud) < 2 ^ 64) (flat_map (filter nonpad) dicts) ->
  foldM merge_single_cache_dict dicts (cache_init eb) = Ok c -> close_and_save_cache c f = Ok out ->
  exists es, loads_exact out = Some (CMapI (map entry_pair es)) /\ slots_of es = flat_map (filter nonpad) dicts
             /\ Forall entry_ok es /\ (blen out - 1) mod eb = 0.
Proof. intros Heb Hne Hu Hm Hc. rewrite merge_many in Hm. eapply cache_decodes; eassumption. Qed.

Lemma str_in_false u l : str_in u l = false -> ~ In u l.
Proof.
  unfold str_in. intros H Hin. assert (existsb (str_eqb u) l = true); [|congruence].
  apply existsb_exists. exists u. split; [assumption|apply list_eqb_refl].
Qed.

Lemma NoDup_snoc {A} (l : list A) x : NoDup l -> ~ In x l -> NoDup (l ++ [x]).
Proof.
  induction l as [|a l IH]; intros Hn Hx; cbn [app]; [repeat constructor; intros []|].
  inversion Hn as [|? ? Ha Hl]; subst. constructor.
  - intros Hin. apply in_app_or in Hin. destruct Hin as [H|[<-|[]]]; [contradiction|]. apply Hx. left; reflexivity.
  - apply IH; [assumption|]. intros H; apply Hx; right; assumption.
Qed.

(* every accepted sequence of slots has pairwise distinct, non-empty URIs: a duplicate (or empty) URI anywhere in
   the inputs makes the whole build / merge fail instead of overwriting *)
Theorem accepted_uris_distinct slots : forall c c',
  0 < eb_size c -> NoDup (uris c) -> add_all slots c = Ok c' ->
  uris c' = uris c ++ map fst slots /\ NoDup (uris c') /\ Forall (fun ud => fst ud <> []) slots.
Proof.
  induction slots as [|[u d] slots IH]; intros c c' Heb Hnd H; cbn [add_all foldM map] in *.
  - injection H as <-. rewrite app_nil_r. repeat split; [assumption|constructor].
  - destruct (add_cache_slot c (fst (u, d)) (snd (u, d))) as [c1|] eqn:E; cbn [bind fst snd] in *; [|discriminate].
    assert (Hne : u <> []). { intros ->. rewrite empty_uri_rejected in E. discriminate. }
    apply add_cache_slot_spec in E; [|assumption]. destruct E as (pad & _ & _ & _ & _ & Heb1 & Hu1 & Hni & _).
    assert (Hnd1 : NoDup (uris c1)).
    { rewrite Hu1. apply NoDup_snoc; [assumption|]. exact (str_in_false _ _ Hni). }
    destruct (IH c1 c') as (Hu2 & Hnd2 & Hall); [lia|assumption|exact H|].
    split; [rewrite Hu2, Hu1, <- app_assoc; reflexivity|]. split; [assumption|]. constructor; assumption.
Qed.
