(* Cmd/ExtractModel.v — hand-written part of the C11 model (definitions only, no proofs):
     * the Python-object helpers the regenerated skeleton (gen/GenExtract.v) is written over: cbor2.loads as the proved
       decoder followed by the Python-object normalisation of Suit/Py.v, dict.pop / dict[...] / list.remove;
     * the SPECIFICATION side: an envelope hierarchy as a tree (`env`), its encoding, and the three functions the
       property speaks about — what is extracted to the cache, what the stripped hierarchy is, and which text-keyed
       members a hierarchy holds.  Lemmas are in Cmd/Extract.v, statements in Props/C11.v. *)
From Verif Require Import Base.Prim Cbor.Codec Suit.Py gen.GenCache.

(* ---------------------------------------------------------------- Python-object helpers *)
(* cbor2.loads(data): one item, trailing bytes ignored; the value as a Python object (dicts with Python-distinct keys) *)
Definition py_loads (data : bytes) : res cbor :=
  match loads data with
  | Some c => pyn c
  | None => Raise ValueError
  end.

(* [k for k in d.keys() if isinstance(k, str)] *)
Fixpoint text_keys (d : list (cbor * cbor)) : list bytes :=
  match d with
  | [] => []
  | (CText n, _) :: r => n :: text_keys r
  | _ :: r => text_keys r
  end.

(* list.remove(x): the first occurrence (ValueError when absent is not reachable from the skeleton) *)
Fixpoint remove_first (x : bytes) (l : list bytes) : list bytes :=
  match l with
  | [] => []
  | y :: r => if list_eqb x y then r else y :: remove_first x r
  end.

(* d.pop(k): value and the remaining dict; None = KeyError *)
Fixpoint dict_pop (d : list (cbor * cbor)) (k : cbor) : option (cbor * list (cbor * cbor)) :=
  match d with
  | [] => None
  | (k', v) :: r =>
      if py_eqb k k' then Some (v, r)
      else match dict_pop r k with
           | Some (x, r') => Some (x, (k', v) :: r')
           | None => None
           end
  end.
Definition dict_pop_req (d : list (cbor * cbor)) (k : cbor) : res (cbor * list (cbor * cbor)) :=
  match dict_pop d k with Some r => Ok r | None => Raise KeyError end.
(* d[k] used as an expression where the skeleton expects d.pop(k): the value, the dict unchanged *)
Definition dict_peek_req (d : list (cbor * cbor)) (k : cbor) : res (cbor * list (cbor * cbor)) :=
  match dict_get d k with Some v => Ok (v, d) | None => Raise KeyError end.
Definition dict_get_req (d : list (cbor * cbor)) (k : cbor) : res cbor :=
  match dict_get d k with Some v => Ok v | None => Raise KeyError end.

(* cache.add_cache_slot(uri, data) with `data` a Python object: only bytes pass `len(data).to_bytes(4) + data`;
   the URI checks (empty, duplicate -> ValueError) come first *)
Definition add_payload (c : cache) (uri : bytes) (v : cbor) : res cache :=
  match v with
  | CBytes b => add_cache_slot c uri b
  | _ => match add_cache_slot c uri [] with Raise e => Raise e | Ok _ => Raise TypeError end
  end.

(* `except GeneratorError: raise X` around the recursive call *)
Definition reraise_generator {A} (r : res A) (x : exn) : res A :=
  match r with
  | Raise e => if exn_eqb e GeneratorError then Raise x else Raise e
  | Ok a => Ok a
  end.

(* ---------------------------------------------------------------- specification side *)
(* An envelope hierarchy: a tagged map whose members are either leaves (any key, any value: manifest, authentication
   wrapper, severed members under integer keys; integrated payloads under text keys) or, under a text key, a nested
   envelope that the tool descends into. *)
Inductive env := Env (tag : Z) (ms : members)
with members :=
| MNil
| MLeaf (k v : cbor) (r : members)
| MDep (name : bytes) (e : env) (r : members).

Fixpoint enc_env (e : env) : bytes :=
  match e with Env t ms => encode (CTag t (CMap (pairs ms))) end
with pairs (ms : members) : list (cbor * cbor) :=
  match ms with
  | MNil => []
  | MLeaf k v r => (k, v) :: pairs r
  | MDep n e r => (CText n, CBytes (enc_env e)) :: pairs r
  end.

Definition env_members (e : env) : members := match e with Env _ ms => ms end.
Definition env_tag (e : env) : Z := match e with Env t _ => t end.

Section Spec.
  Variables dep_p omit_p : bytes -> bool.    (* the two fullmatch predicates (constant false when the option is absent) *)

  (* the payloads of one level that go to the cache, in map order: text key, not a dependency name, not omitted *)
  Definition goes (n : bytes) : bool := negb (dep_p n) && negb (omit_p n).
  Fixpoint level_payloads (ms : members) : list (bytes * cbor) :=
    match ms with
    | MNil => []
    | MLeaf (CText n) v r => if goes n then (n, v) :: level_payloads r else level_payloads r
    | MLeaf _ _ r => level_payloads r
    | MDep _ _ r => level_payloads r
    end.
  (* one level with those payloads removed *)
  Fixpoint strip_leaves (ms : members) : members :=
    match ms with
    | MNil => MNil
    | MLeaf (CText n) v r => if goes n then strip_leaves r else MLeaf (CText n) v (strip_leaves r)
    | MLeaf k v r => MLeaf k v (strip_leaves r)
    | MDep n e r => MDep n e (strip_leaves r)
    end.

  (* the output hierarchy *)
  Fixpoint strip (e : env) : env :=
    match e with Env t ms => Env t (strip_ms ms) end
  with strip_ms (ms : members) : members :=
    match ms with
    | MNil => MNil
    | MLeaf (CText n) v r => if goes n then strip_ms r else MLeaf (CText n) v (strip_ms r)
    | MLeaf k v r => MLeaf k v (strip_ms r)
    | MDep n e r => MDep n (strip e) (strip_ms r)
    end.

  (* everything that goes to the cache, in the order of the add_cache_slot calls: this level first, then each
     dependency in map order *)
  Fixpoint extracted (e : env) : list (bytes * cbor) :=
    match e with Env _ ms => level_payloads ms ++ dep_extracted ms end
  with dep_extracted (ms : members) : list (bytes * cbor) :=
    match ms with
    | MNil => []
    | MLeaf _ _ r => dep_extracted r
    | MDep _ e r => extracted e ++ dep_extracted r
    end.
End Spec.

(* every text-keyed leaf of the hierarchy, with the path of dependency names that leads to its level *)
Fixpoint all_payloads (path : list bytes) (e : env) : list (list bytes * bytes * cbor) :=
  match e with Env _ ms => ms_payloads path ms end
with ms_payloads (path : list bytes) (ms : members) : list (list bytes * bytes * cbor) :=
  match ms with
  | MNil => []
  | MLeaf (CText n) v r => (path, n, v) :: ms_payloads path r
  | MLeaf _ _ r => ms_payloads path r
  | MDep n e r => all_payloads (path ++ [n]) e ++ ms_payloads path r
  end.

(* the hierarchy without its text-keyed leaves: tags, every member under a non-text key (key and value, in order)
   and the nesting structure.  Two hierarchies with the same skeleton have byte-identical manifests, authentication
   wrappers and severed members at every level. *)
Fixpoint skeleton (e : env) : env :=
  match e with Env t ms => Env t (skeleton_ms ms) end
with skeleton_ms (ms : members) : members :=
  match ms with
  | MNil => MNil
  | MLeaf (CText _) _ r => skeleton_ms r
  | MLeaf k v r => MLeaf k v (skeleton_ms r)
  | MDep n e r => MDep n (skeleton e) (skeleton_ms r)
  end.

(* the slots as add_all takes them; a payload that is not a byte string has no slot *)
Definition as_slot (nv : bytes * cbor) : option (bytes * bytes) :=
  match snd nv with CBytes b => Some (fst nv, b) | _ => None end.
Definition slot_item (ud : bytes * bytes) : bytes * cbor := (fst ud, CBytes (snd ud)).

(* ---------------------------------------------------------------- single extraction: specification *)
(* the map with the entry of text key `name` removed *)
Fixpoint without (name : bytes) (d : list (cbor * cbor)) : list (cbor * cbor) :=
  match d with
  | [] => []
  | (CText n, v) :: r => if list_eqb name n then r else (CText n, v) :: without name r
  | kv :: r => kv :: without name r
  end.
