(* Cmd/Storage.v — lemmas about the C07 model.  gen/GenStorage.v is regenerated from suit_generator/cmd_image.py and
   envelope.py on every run (tables + skeletons with PyG-translated holes); gen/GenStorageAbi.v renders the pinned ABI
   /verif/spec/storage_abi.json.  The proofs unfold the hole definitions (ae_*, ih_*, find_role, find_slot, the exception
   holes) and the skeletons, nothing else. *)
From Verif Require Import Base.Prim Base.PrimFacts Cbor.Codec Cbor.CodecFacts Base.Mem Base.MemFacts.
From Verif Require Import Cmd.StorageModel gen.GenStorage gen.GenStorageAbi.

#[local] Arguments Z.add : simpl never.
#[local] Arguments Z.sub : simpl never.
#[local] Arguments Z.mul : simpl never.

(* ================================================================ tables *)
Lemma slot_eqb_eq a b : slot_eqb a b = true -> a = b.
Proof.
  destruct a, b. unfold slot_eqb. simpl. intros H.
  repeat (apply andb_prop in H; destruct H as [H ?]). f_equal; lia.
Qed.
Lemma nodup_z_spec l : nodup_z l = true -> NoDup l.
Proof.
  induction l as [|x l IH]; cbn [nodup_z]; intros H; [constructor|]. apply andb_prop in H. destruct H as [H1 H2].
  constructor; [|exact (IH H2)]. intros Hi. apply negb_true_iff in H1.
  assert (existsb (Z.eqb x) l = true) by (apply existsb_exists; exists x; split; [exact Hi|lia]). congruence.
Qed.
Lemma lookup_slot_some r l e : lookup_slot r l = Some e -> In e l /\ e_role e = r.
Proof. unfold lookup_slot. intros H. apply find_some in H. destruct H as [H1 H2]. split; [exact H1|lia]. Qed.
Lemma lookup_slot_none r l : lookup_slot r l = None -> ~ In r (map e_role l).
Proof.
  unfold lookup_slot. intros H Hi. apply in_map_iff in Hi. destruct Hi as (e & He & Hin).
  pose proof (find_none _ _ H e Hin) as Hn. cbn in Hn. lia.
Qed.
Lemma lookup_slot_in r l : In r (map e_role l) -> exists e, lookup_slot r l = Some e.
Proof.
  intros Hi. destruct (lookup_slot r l) as [e|] eqn:E; [eauto|]. exfalso. exact (lookup_slot_none _ _ E Hi).
Qed.

(* same_layout, lifted: the two tables are the same map from roles to slots *)
Lemma same_layout_lookup a b : same_layout a b = true -> forall r, lookup_slot r a = lookup_slot r b.
Proof.
  unfold same_layout. intros H r.
  apply andb_prop in H. destruct H as [H Hall]. apply andb_prop in H. destruct H as [H Hlen].
  apply andb_prop in H. destruct H as [Ha Hb]. apply nodup_z_spec in Ha, Hb. apply Nat.eqb_eq in Hlen.
  rewrite forallb_forall in Hall.
  assert (Hsub : incl (map e_role a) (map e_role b)).
  { intros x Hx. apply in_map_iff in Hx. destruct Hx as (e & <- & Hin). specialize (Hall e Hin).
    destruct (lookup_slot (e_role e) b) as [e'|] eqn:E; [|discriminate]. apply lookup_slot_some in E. destruct E as [E1 E2].
    rewrite <- E2. apply in_map. exact E1. }
  assert (Hsup : incl (map e_role b) (map e_role a)).
  { apply NoDup_length_incl; [exact Ha|rewrite !map_length; lia|exact Hsub]. }
  destruct (lookup_slot r a) as [e|] eqn:E.
  - apply lookup_slot_some in E. destruct E as [Hin <-]. specialize (Hall e Hin).
    destruct (lookup_slot (e_role e) b) as [e'|]; [|discriminate]. cbn [opt_slot_eqb] in Hall. apply slot_eqb_eq in Hall. congruence.
  - destruct (lookup_slot r b) as [e'|] eqn:E'; [|reflexivity]. exfalso. apply lookup_slot_some in E'. destruct E' as [Hin <-].
    apply (lookup_slot_none _ _ E). apply Hsup. apply in_map. exact Hin.
Qed.

Theorem layout_is_abi_nrf54h20 : forall r, lookup_slot r layout_nrf54h20 = lookup_slot r abi_layout_nrf54h20.
Proof. apply same_layout_lookup. vm_compute. reflexivity. Qed.
Theorem layout_is_abi_nrf9280 : forall r, lookup_slot r layout_nrf9280 = lookup_slot r abi_layout_nrf9280.
Proof. apply same_layout_lookup. vm_compute. reflexivity. Qed.

Definition pair_eqb (x y : bytes * Z) : bool := list_eqb (fst x) (fst y) && (snd x =? snd y).
Definition same_assoc (a b : list (bytes * Z)) : bool :=
  forallb (fun x => existsb (pair_eqb x) b) a && forallb (fun x => existsb (pair_eqb x) a) b.
Lemma same_assoc_spec a b : same_assoc a b = true -> forall x, In x a <-> In x b.
Proof.
  unfold same_assoc. intros H. apply andb_prop in H. destruct H as [H1 H2]. rewrite forallb_forall in H1, H2.
  assert (E : forall p q : bytes * Z, pair_eqb p q = true -> p = q).
  { intros [p1 p2] [q1 q2]. unfold pair_eqb. cbn [fst snd]. intros H. apply andb_prop in H. destruct H as [Ha Hb].
    apply list_eqb_eq in Ha. f_equal; [exact Ha|lia]. }
  intros x. split; intros Hx.
  - specialize (H1 x Hx). apply existsb_exists in H1. destruct H1 as (y & Hy & Hxy). apply E in Hxy. subst. exact Hy.
  - specialize (H2 x Hx). apply existsb_exists in H2. destruct H2 as (y & Hy & Hxy). apply E in Hxy. subst. exact Hy.
Qed.
(* the enums, the slot constants, the file names and the severed members are the pinned ones *)
Theorem enums_are_abi :
  (forall x, In x manifest_roles <-> In x abi_roles) /\ (forall x, In x manifest_domains <-> In x abi_domains).
Proof. split; apply same_assoc_spec; vm_compute; reflexivity. Qed.
Theorem slot_constants_are_abi :
  envelope_slot_version = abi_slot_version /\
  (envelope_slot_version_key, envelope_slot_class_id_offset_key, envelope_slot_envelope_bstr_key) = abi_slot_keys /\
  ih_fill = abi_fill /\ domain_files = abi_files /\ same_names sever_names abi_stripped_members = true /\
  soc_layouts = [(default_soc, layout_nrf54h20); ([110; 114; 102; 57; 50; 56; 48], layout_nrf9280)].
Proof. repeat split; vm_compute; reflexivity. Qed.

(* ================================================================ layout_disjoint *)
Definition range (base : Z) (e : slot_entry) (a : Z) : Prop := base + e_offset e <= a < base + e_offset e + e_size e.
Definition apart_at (base : Z) (x y : slot_entry) : Prop := forall a, ~ (range base x a /\ range base y a).

Lemma apart_spec x y base : apart x y = true -> apart_at base x y.
Proof. unfold apart, apart_at, range. intros H a. lia. Qed.
Lemma pairwise_apart_spec l base : pairwise_apart l = true -> ForallOrdPairs (apart_at base) l.
Proof.
  induction l as [|x l IH]; cbn [pairwise_apart]; intros H; [constructor|]. apply andb_prop in H. destruct H as [H1 H2].
  constructor; [|exact (IH H2)]. rewrite forallb_forall in H1. apply Forall_forall. intros y Hy. apply apart_spec. exact (H1 y Hy).
Qed.
Lemma FOP_In {A} (R : A -> A -> Prop) l x y :
  ForallOrdPairs R l -> (forall u v, R u v -> R v u) -> In x l -> In y l -> x = y \/ R x y.
Proof.
  intros H Hsym. induction H as [|z l HF _ IH]; intros Hx Hy; [destruct Hx|]. rewrite Forall_forall in HF.
  destruct Hx as [<-|Hx], Hy as [<-|Hy]; auto.
Qed.
(* for every storage address: two different slots of a layout never share an address *)
Theorem slots_disjoint l base e1 e2 a :
  pairwise_apart l = true -> In e1 l -> In e2 l -> e1 <> e2 -> range base e1 a -> range base e2 a -> False.
Proof.
  intros H H1 H2 Hne R1 R2. destruct (FOP_In _ _ e1 e2 (pairwise_apart_spec l base H)) as [E|E]; try assumption.
  - intros u v Huv b [Hv Hu]. exact (Huv b (conj Hu Hv)).
  - exact (Hne E).
  - exact (E a (conj R1 R2)).
Qed.
Theorem slot_in_area areas l base e a :
  forallb (in_area areas) l = true -> In e l -> range base e a ->
  exists lo hi, zlookup (e_domain e) areas = Some (lo, hi) /\ base + lo <= a < base + hi.
Proof.
  intros H Hin R. rewrite forallb_forall in H. specialize (H e Hin). unfold in_area in H.
  destruct (zlookup (e_domain e) areas) as [[lo hi]|]; [|discriminate]. exists lo, hi. split; [reflexivity|]. unfold range in R. lia.
Qed.
Lemma zlookup_in {V} k (l : list (Z * V)) v : zlookup k l = Some v -> In (k, v) l.
Proof.
  induction l as [|[k' v'] l IH]; cbn [zlookup]; [discriminate|]. destruct (k =? k') eqn:E.
  - intros [= <-]. left. f_equal. lia.
  - intros H. right. exact (IH H).
Qed.
Theorem areas_disjoint areas d1 d2 lo1 hi1 lo2 hi2 base a :
  areas_apart areas = true -> nodup_z (map fst areas) = true ->
  zlookup d1 areas = Some (lo1, hi1) -> zlookup d2 areas = Some (lo2, hi2) -> d1 <> d2 ->
  base + lo1 <= a < base + hi1 -> base + lo2 <= a < base + hi2 -> False.
Proof.
  intros H _ L1 L2 Hne R1 R2. apply zlookup_in in L1, L2.
  induction areas as [|[d [lo hi]] r IH]; [destruct L1|]. cbn [areas_apart] in H. apply andb_prop in H. destruct H as [Hh Ht].
  rewrite forallb_forall in Hh. destruct L1 as [E1|L1], L2 as [E2|L2].
  - congruence.
  - injection E1 as -> -> ->. specialize (Hh _ L2). cbn [fst snd] in Hh. lia.
  - injection E2 as -> -> ->. specialize (Hh _ L1). cbn [fst snd] in Hh. lia.
  - exact (IH Ht L1 L2).
Qed.

Theorem layouts_checked :
  pairwise_apart layout_nrf54h20 = true /\ forallb (in_area abi_areas_nrf54h20) layout_nrf54h20 = true /\ areas_apart abi_areas_nrf54h20 = true /\
  nodup_z (map e_role layout_nrf54h20) = true /\
  pairwise_apart layout_nrf9280 = true /\ forallb (in_area abi_areas_nrf9280) layout_nrf9280 = true /\ areas_apart abi_areas_nrf9280 = true /\
  nodup_z (map e_role layout_nrf9280) = true.
Proof. repeat split; vm_compute; reflexivity. Qed.

(* ================================================================ add_envelope *)
Lemma find_from_ge pat l i : 0 <= i -> -1 <= find_from pat l i.
Proof.
  revert i. induction l as [|x l IH]; intros i Hi; cbn [find_from]; destruct (is_prefix pat _); try lia.
  specialize (IH (i + 1)). lia.
Qed.
Lemma find_ge l pat : -1 <= find l pat.
Proof. apply find_from_ge. lia. Qed.
Lemma find_from_eq pat l i :
  find_from pat l i = if is_prefix pat l then i else match l with [] => -1 | _ :: r => find_from pat r (i + 1) end.
Proof. destruct l; reflexivity. Qed.
Lemma find_from_occurs pat pre post i : 0 <= i -> find_from pat (pre ++ pat ++ post) i <> -1.
Proof.
  revert i. induction pre as [|x pre IH]; intros i Hi; cbn [app]; rewrite find_from_eq.
  - assert (E : is_prefix pat (pat ++ post) = true) by (apply is_prefix_app; eexists; reflexivity). rewrite E. lia.
  - destruct (is_prefix pat (x :: pre ++ pat ++ post)); [lia|]. apply IH. lia.
Qed.
Lemma find_occurs pat pre post : find (pre ++ pat ++ post) pat <> -1.
Proof. apply find_from_occurs. lia. Qed.

Lemma class_offset_value i : ae_class_offset i = i + 16.
Proof. unfold ae_class_offset. f_equal. Qed.

(* slot_framing, part 1: what add_envelope stores is the CBOR map {0: 1, 1: offset, 2: envelope} *)
Lemma slot_bytes_spec off env : 0 <= off -> ae_slot_bytes off env = encode (spec_slot_item off env).
Proof.
  intros H. unfold ae_slot_bytes, spec_slot_item, envelope_slot_version_key, envelope_slot_version,
    envelope_slot_class_id_offset_key, envelope_slot_envelope_bstr_key, cint.
  replace (0 <=? off) with true by lia. reflexivity.
Qed.

Record added (layout : list slot_entry) (st st' : storage) (env mc : bytes) (role : Z) (e : slot_entry) : Prop := {
  ad_off : 0 <= ae_class_offset (ae_find env mc);
  ad_role : find_role st (ae_class_id env (ae_class_offset (ae_find env mc))) = Some role;
  ad_slot : lookup_slot role layout = Some e;
  ad_new : zlookup role (envelopes st) = None;
  ad_fits : blen (encode (spec_slot_item (ae_class_offset (ae_find env mc)) env)) <= e_size e;
  ad_envs : envelopes st' = envelopes st ++ [(role, encode (spec_slot_item (ae_class_offset (ae_find env mc)) env))];
  ad_assign : assignments st' = assignments st;
  ad_base : base_address st' = base_address st }.

Theorem add_envelope_spec layout st env mc st' :
  add_envelope layout st env (Some mc) = Ok st' -> exists role e, added layout st st' env mc role e.
Proof.
  unfold add_envelope. intros H.
  assert (Hoff : 0 <= ae_class_offset (ae_find env mc)).
  { rewrite class_offset_value. unfold ae_find. pose proof (find_ge env (slice_from mc 1)). lia. }
  cbv zeta in H. destruct (find_role st _) as [role|] eqn:R; [|discriminate].
  unfold find_slot in H. rewrite R in H.
  change (List.find (fun entry => e_role entry =? role) layout) with (lookup_slot role layout) in H.
  destruct (lookup_slot role layout) as [e|] eqn:L; [|discriminate].
  destruct (ae_too_big _ _ _) eqn:T; [discriminate|]. destruct (zmember role (envelopes st)) eqn:M; [discriminate|].
  injection H as <-. exists role, e. rewrite (slot_bytes_spec _ env Hoff) in *.
  constructor; try assumption; try reflexivity.
  - unfold zmember in M. destruct (zlookup role (envelopes st)); [discriminate|reflexivity].
  - unfold ae_too_big in T. lia.
Qed.

(* rejections of the add phase *)
Theorem missing_component_id_rejected layout st env : add_envelope layout st env None = Raise GeneratorError.
Proof. reflexivity. Qed.
Theorem unknown_class_rejected layout st env mc :
  find_role st (ae_class_id env (ae_class_offset (ae_find env mc))) = None -> add_envelope layout st env (Some mc) = Raise GeneratorError.
Proof. intros H. unfold add_envelope. cbv zeta. rewrite H. reflexivity. Qed.
Theorem no_slot_rejected layout st env mc role :
  find_role st (ae_class_id env (ae_class_offset (ae_find env mc))) = Some role -> lookup_slot role layout = None ->
  add_envelope layout st env (Some mc) = Raise GeneratorError.
Proof.
  intros H L. unfold add_envelope. cbv zeta. rewrite H. unfold find_slot. rewrite H.
  change (List.find (fun entry => e_role entry =? role) layout) with (lookup_slot role layout). rewrite L. reflexivity.
Qed.
Theorem duplicate_role_rejected layout st env mc role :
  find_role st (ae_class_id env (ae_class_offset (ae_find env mc))) = Some role -> zmember role (envelopes st) = true ->
  add_envelope layout st env (Some mc) = Raise GeneratorError.
Proof.
  intros H M. unfold add_envelope. cbv zeta. rewrite H. destruct (find_slot _ _ _) as [[s0 s1]|]; [|reflexivity].
  destruct (ae_too_big _ _ _); [reflexivity|]. rewrite M. reflexivity.
Qed.
Theorem oversize_rejected layout st env mc role e :
  find_role st (ae_class_id env (ae_class_offset (ae_find env mc))) = Some role -> lookup_slot role layout = Some e ->
  e_size e < blen (encode (spec_slot_item (ae_class_offset (ae_find env mc)) env)) ->
  add_envelope layout st env (Some mc) = Raise GeneratorError.
Proof.
  intros H L Hs. unfold add_envelope. cbv zeta. rewrite H. unfold find_slot. rewrite H.
  change (List.find (fun entry => e_role entry =? role) layout) with (lookup_slot role layout). rewrite L.
  assert (Hoff : 0 <= ae_class_offset (ae_find env mc)).
  { rewrite class_offset_value. unfold ae_find. pose proof (find_ge env (slice_from mc 1)). lia. }
  rewrite (slot_bytes_spec _ env Hoff). destruct (ae_too_big _ _ _) eqn:T; [reflexivity|]. exfalso. unfold ae_too_big in T. lia.
Qed.
(* ... and an envelope that exactly fills its slot is accepted *)
Theorem fitting_accepted layout st env mc role e :
  find_role st (ae_class_id env (ae_class_offset (ae_find env mc))) = Some role -> lookup_slot role layout = Some e ->
  zmember role (envelopes st) = false ->
  blen (encode (spec_slot_item (ae_class_offset (ae_find env mc)) env)) <= e_size e ->
  exists st', add_envelope layout st env (Some mc) = Ok st'.
Proof.
  intros H L M Hs. unfold add_envelope. cbv zeta. rewrite H. unfold find_slot. rewrite H.
  change (List.find (fun entry => e_role entry =? role) layout) with (lookup_slot role layout). rewrite L.
  assert (Hoff : 0 <= ae_class_offset (ae_find env mc)).
  { rewrite class_offset_value. unfold ae_find. pose proof (find_ge env (slice_from mc 1)). lia. }
  rewrite (slot_bytes_spec _ env Hoff). destruct (ae_too_big _ _ _) eqn:T; [exfalso; unfold ae_too_big in T; lia|]. rewrite M. eexists. reflexivity.
Qed.

(* class_offset: the searched pattern contains the class UUID at the constant distance, so at ANY position where the
   pattern is found the 16 bytes at the recorded offset are the UUID *)
Definition first_part : bytes := encode (CText abi_component_prefix).
Theorem class_offset env uuid i :
  blen uuid = 16 -> ae_find env (component_id_manifest first_part uuid) = i -> i <> -1 ->
  ae_class_id env (ae_class_offset i) = uuid.
Proof.
  intros Hu Hf Hi. unfold ae_find in Hf.
  assert (Epat : slice_from (component_id_manifest first_part uuid) 1 = ([5; 130; 76] ++ first_part ++ [80]) ++ uuid).
  { unfold component_id_manifest, component_id. cbn [encode flat_map fst snd]. rewrite Hu.
    change (blen [(CUint 5, CArray [CBytes first_part; CBytes uuid])]) with 1.
    change (blen [CBytes first_part; CBytes uuid]) with 2. change (blen first_part) with 12.
    change (head 5 1) with [161]. change (head 0 5) with [5]. change (head 4 2) with [130].
    change (head 2 12) with [76]. change (head 2 16) with [80]. rewrite !app_nil_r.
    unfold slice_from. change (Z.to_nat 1) with 1%nat. cbn [app skipn]. rewrite <- !app_assoc. reflexivity. }
  rewrite Epat in Hf. apply find_spec in Hf; [|exact Hi]. destruct Hf as (pre & post & -> & ->).
  set (A := [5; 130; 76] ++ first_part ++ [80]). assert (HA : blen A = 16) by reflexivity.
  rewrite class_offset_value. unfold ae_class_id.
  replace (pre ++ (A ++ uuid) ++ post) with ((pre ++ A) ++ uuid ++ post) by (rewrite <- !app_assoc; reflexivity).
  replace (blen pre + 16) with (blen (pre ++ A)) by (rewrite blen_app; lia).
  replace (blen (pre ++ A) + 16) with (blen (pre ++ A) + blen uuid) by lia.
  apply slice_app_mid.
Qed.
(* the pattern does occur in an envelope that contains the encoded component-id entry *)
Theorem component_id_found pre post uuid :
  ae_find (pre ++ slice_from (component_id_manifest first_part uuid) 1 ++ post) (component_id_manifest first_part uuid) <> -1.
Proof. unfold ae_find. apply find_occurs. Qed.

(* ================================================================ as_intelhex: placement *)
Definition selected (storage_domain : option Z) (e : slot_entry) : bool :=
  match storage_domain with Some d => d =? e_domain e | None => true end.
(* the slots a storage holds for a domain (None = all), in layout order: (address, bytes) *)
Fixpoint placed (base : Z) (envs : list (Z * bytes)) (dom : option Z) (layout : list slot_entry) : list (Z * bytes) :=
  match layout with
  | [] => []
  | e :: r =>
      if selected dom e then
        match zlookup (e_role e) envs with
        | Some stored => (base + e_offset e, stored ++ repeat 255 (Z.to_nat (e_size e - blen stored))) :: placed base envs dom r
        | None => placed base envs dom r
        end
      else placed base envs dom r
  end.
(* what a device reads at address a from a list of (address, bytes) *)
Fixpoint read_slots (segs : list (Z * bytes)) (a : Z) : option Z :=
  match segs with
  | [] => None
  | (s, d) :: r => if (s <=? a) && (a <? s + blen d) then nth_error d (Z.to_nat (a - s)) else read_slots r a
  end.
Definition fits (layout : list slot_entry) (envs : list (Z * bytes)) : Prop :=
  forall e stored, In e layout -> zlookup (e_role e) envs = Some stored -> blen stored <= e_size e.

Lemma read_placed_range base envs dom layout a b :
  fits layout envs -> read_slots (placed base envs dom layout) a = Some b ->
  exists e, In e layout /\ selected dom e = true /\ range base e a.
Proof.
  intros Hf. induction layout as [|e r IH]; cbn [placed read_slots]; [discriminate|].
  assert (Hf' : fits r envs) by (intros x s Hx; apply Hf; right; exact Hx).
  destruct (selected dom e) eqn:S; [|intros H; destruct (IH Hf' H) as (x & Hx & ?); exists x; split; [right; exact Hx|assumption]].
  destruct (zlookup (e_role e) envs) as [stored|] eqn:L; [|intros H; destruct (IH Hf' H) as (x & Hx & ?); exists x; split; [right; exact Hx|assumption]].
  cbn [read_slots]. pose proof (Hf e stored (or_introl eq_refl) L) as Hfit.
  assert (Hlen : blen (stored ++ repeat 255 (Z.to_nat (e_size e - blen stored))) = e_size e) by (autorewrite with blen; lia).
  rewrite Hlen. destruct ((base + e_offset e <=? a) && (a <? base + e_offset e + e_size e)) eqn:C.
  - intros _. exists e. split; [left; reflexivity|]. split; [exact S|]. unfold range. lia.
  - intros H. destruct (IH Hf' H) as (x & Hx & ?). exists x. split; [right; exact Hx|assumption].
Qed.

Lemma ljust_fill stored size : ljust stored size ih_fill = stored ++ repeat 255 (Z.to_nat (size - blen stored)).
Proof. reflexivity. Qed.

Lemma loop_spec st dom : forall layout done comb cnt,
  fits layout (envelopes st) ->
  ForallOrdPairs (apart_at (base_address st)) layout ->
  (forall e' e, In e' done -> In e layout -> apart_at (base_address st) e' e) ->
  (forall a, has comb a = true -> exists e', In e' done /\ range (base_address st) e' a) ->
  exists comb',
    as_intelhex_loop st dom layout comb cnt = MOk (comb', cnt + Z.of_nat (length (placed (base_address st) (envelopes st) dom layout))) /\
    forall a, get comb' a = match read_slots (placed (base_address st) (envelopes st) dom layout) a with
                            | Some b => Some b
                            | None => get comb a
                            end.
Proof.
  induction layout as [|e r IH]; intros done comb cnt Hf HP HD HC.
  - cbn [as_intelhex_loop placed length read_slots]. exists comb. split; [f_equal; f_equal; lia|reflexivity].
  - assert (Hf' : fits r (envelopes st)) by (intros x s Hx; apply Hf; right; exact Hx).
    inversion HP as [|? ? HFe HP']; subst. rewrite Forall_forall in HFe.
    assert (HD' : forall e' x, In e' done -> In x r -> apart_at (base_address st) e' x) by (intros e' x H1 H2; apply HD; [exact H1|right; exact H2]).
    cbn [as_intelhex_loop placed]. cbv zeta.
    assert (Hsel : (match dom with Some d => negb (d =? e_domain e) | None => false end) = negb (selected dom e)).
    { unfold selected. destruct dom; reflexivity. }
    rewrite Hsel. destruct (selected dom e) eqn:S; cbn [negb]; [|apply (IH done); assumption].
    destruct (zlookup (e_role e) (envelopes st)) as [stored|] eqn:L; [|apply (IH done); assumption].
    pose proof (Hf e stored (or_introl eq_refl) L) as Hfit.
    destruct (ih_too_big stored (e_size e)) eqn:T; [exfalso; unfold ih_too_big in T; lia|]. rewrite ljust_fill.
    set (d := stored ++ repeat 255 (Z.to_nat (e_size e - blen stored))).
    assert (Hlen : blen d = e_size e) by (subst d; autorewrite with blen; lia).
    assert (Haddr : ih_address st e = base_address st + e_offset e) by reflexivity. rewrite Haddr.
    set (o := frombytes mem_empty d (base_address st + e_offset e)).
    assert (Ho : forall a, has o a = true -> range (base_address st) e a).
    { intros a Ha. apply has_get in Ha. destruct Ha as [b Hb]. subst o. rewrite get_frombytes in Hb.
      destruct ((_ <=? a) && (a <? _)) eqn:C; [|discriminate]. unfold range. lia. }
    destruct (merge comb o) as [comb1|] eqn:M.
    2:{ exfalso. apply merge_none in M. destruct M as (a & Ha & Hb). destruct (HC a Ha) as (e' & He' & R').
        exact (HD e' e He' (or_introl eq_refl) a (conj R' (Ho a Hb))). }
    destruct (IH (e :: done) comb1 (cnt + 1) Hf' HP') as (comb' & E & G).
    + intros e' x [<-|H1] H2; [apply HFe; exact H2|apply HD'; assumption].
    + intros a Ha. apply has_get in Ha. destruct Ha as [b Hb]. rewrite (merge_get_either _ _ _ a M) in Hb.
      destruct (get comb a) eqn:Gc.
      * destruct (HC a) as (e' & He' & R'); [apply has_get; eauto|]. exists e'. split; [right; exact He'|exact R'].
      * exists e. split; [left; reflexivity|]. apply Ho. apply has_get. eauto.
    + exists comb'. split.
      * rewrite E. cbn [length]. f_equal. f_equal. lia.
      * intros a. rewrite G. cbn [read_slots]. rewrite Hlen. rewrite (merge_get_either _ _ _ a M).
        destruct ((base_address st + e_offset e <=? a) && (a <? base_address st + e_offset e + e_size e)) eqn:C.
        -- (* a is inside this slot: no later slot and no earlier image holds it *)
           assert (Ra : range (base_address st) e a) by (unfold range; lia).
           destruct (read_slots (placed (base_address st) (envelopes st) dom r) a) eqn:Rr.
           { exfalso. destruct (read_placed_range _ _ _ _ _ _ Hf' Rr) as (x & Hx & _ & Rx). exact (HFe x Hx a (conj Ra Rx)). }
           destruct (get comb a) eqn:Gc.
           { exfalso. destruct (HC a) as (e' & He' & R'); [apply has_get; eauto|]. exact (HD e' e He' (or_introl eq_refl) a (conj R' Ra)). }
           subst o. rewrite get_frombytes, Hlen, C.
           destruct (nth_error d (Z.to_nat (a - (base_address st + e_offset e)))) eqn:N; [reflexivity|].
           exfalso. apply nth_error_None in N. unfold blen in Hlen. lia.
        -- assert (Go : get o a = None) by (subst o; apply get_frombytes_outside; rewrite Hlen; lia).
           rewrite Go. destruct (get comb a); reflexivity.
Qed.

(* placement: for every domain (or all), whenever the precondition of the write phase holds, as_intelhex succeeds and the
   image is exactly the slots of that domain's envelopes: None when there is none; nothing else is written *)
Theorem placement layout st dom :
  pairwise_apart layout = true -> fits layout (envelopes st) ->
  let segs := placed (base_address st) (envelopes st) dom layout in
  exists o, as_intelhex layout st dom = MOk o /\
            match o with
            | None => segs = []
            | Some img => segs <> [] /\ forall a, get img a = read_slots segs a
            end.
Proof.
  intros HA Hf segs. destruct (loop_spec st dom layout [] mem_empty 0 Hf (pairwise_apart_spec _ _ HA)) as (comb & E & G).
  - intros e' e [].
  - intros a Ha. cbn in Ha. discriminate.
  - unfold as_intelhex. rewrite E. fold segs. fold segs in G. destruct segs as [|s0 r0] eqn:Es.
    + cbn [length]. exists None. split; reflexivity.
    + cbn [length]. replace (0 + Z.of_nat (S (length r0)) <=? 0) with false by lia. exists (Some comb). split; [reflexivity|].
      split; [discriminate|]. intros a. rewrite G. cbn [get mem_empty]. destruct (read_slots (s0 :: r0) a); reflexivity.
Qed.

(* the storage built by the add phase satisfies the precondition of the write phase *)
Lemma zlookup_app_new {V} k (l : list (Z * V)) k' v :
  zlookup k (l ++ [(k', v)]) = match zlookup k l with Some x => Some x | None => if k =? k' then Some v else None end.
Proof. induction l as [|[a b] l IH]; cbn [app zlookup]; [reflexivity|]. destruct (k =? a); [reflexivity|exact IH]. Qed.
Lemma lookup_slot_nodup layout e : NoDup (map e_role layout) -> In e layout -> lookup_slot (e_role e) layout = Some e.
Proof.
  induction layout as [|x l IH]; intros Hn Hin; [destruct Hin|]. cbn [map] in Hn. inversion Hn as [|? ? Hx Hn']; subst.
  unfold lookup_slot. cbn [List.find]. destruct Hin as [<-|Hin]; [rewrite Z.eqb_refl; reflexivity|].
  destruct (e_role x =? e_role e) eqn:E; [|exact (IH Hn' Hin)]. exfalso. apply Hx. replace (e_role x) with (e_role e) by lia. apply in_map. exact Hin.
Qed.
Lemma add_keeps_fits layout st env mc st' :
  NoDup (map e_role layout) -> fits layout (envelopes st) -> add_envelope layout st env mc = Ok st' ->
  fits layout (envelopes st') /\ base_address st' = base_address st /\ assignments st' = assignments st.
Proof.
  intros Hn Hf H. destruct mc as [mc|]; [|discriminate]. apply add_envelope_spec in H. destruct H as (role & e & A).
  destruct A. split; [|split; assumption]. intros x stored Hx. rewrite ad_envs0, zlookup_app_new.
  destruct (zlookup (e_role x) (envelopes st)) as [s|] eqn:L; [intros [= <-]; exact (Hf x s Hx L)|].
  destruct (e_role x =? role) eqn:E; [|discriminate]. intros [= <-].
  assert (x = e). { pose proof (lookup_slot_nodup layout x Hn Hx) as Lx. replace (e_role x) with role in Lx by lia. congruence. }
  subst x. exact ad_fits0.
Qed.
Lemma add_all_fits layout inputs : forall st st',
  NoDup (map e_role layout) -> fits layout (envelopes st) -> add_all layout st inputs = Ok st' ->
  fits layout (envelopes st') /\ base_address st' = base_address st.
Proof.
  induction inputs as [|[env mc] r IH]; intros st st' Hn Hf H; cbn [add_all foldM] in H.
  - injection H as <-. auto.
  - cbn [fst snd] in H. destruct (add_envelope layout st env mc) as [st1|] eqn:A; cbn [bind] in H; [|discriminate].
    destruct (add_keeps_fits _ _ _ _ _ Hn Hf A) as (Hf1 & Hb1 & _). destruct (IH st1 st' Hn Hf1 H) as [H1 H2]. split; [exact H1|congruence].
Qed.

(* rejections, for the whole command: an envelope rejected anywhere in the list => no file at all; once every envelope
   is added, the write phase cannot fail (neither the second size test nor an overlap can fire) *)
Theorem rejected_writes_nothing soc base assign pre env mc post layout st1 e :
  str_lookup soc soc_layouts = Some layout ->
  add_all layout (mk_storage assign base []) pre = Ok st1 -> add_envelope layout st1 env mc = Raise e ->
  boot_files soc base assign (pre ++ (env, mc) :: post) = MRaise e.
Proof.
  intros HL Hpre Hrej. unfold boot_files. rewrite HL.
  assert (E : add_all layout (mk_storage assign base []) (pre ++ (env, mc) :: post) = Raise e).
  { revert Hpre. generalize (mk_storage assign base []). induction pre as [|[x y] pre IH]; intros st0 Hpre; cbn [app add_all foldM fst snd] in *.
    - injection Hpre as ->. rewrite Hrej. reflexivity.
    - destruct (add_envelope layout st0 x y) as [s|]; cbn [bind] in *; [|discriminate]. apply IH. exact Hpre. }
  rewrite E. reflexivity.
Qed.
Theorem unknown_soc_rejected soc base assign inputs :
  str_lookup soc soc_layouts = None -> boot_files soc base assign inputs = MRaise GeneratorError.
Proof. intros H. unfold boot_files. rewrite H. reflexivity. Qed.

Lemma write_domains_total layout st : pairwise_apart layout = true -> fits layout (envelopes st) ->
  forall doms, (forall n d, In (n, d) doms -> exists f, zlookup d domain_files = Some f) ->
  exists files, write_domains layout st doms = MOk files /\
    forall name img, In (name, img) files ->
      exists n d, In (n, d) doms /\ zlookup d domain_files = Some name /\
                  placed (base_address st) (envelopes st) (Some d) layout <> [] /\
                  forall a, get img a = read_slots (placed (base_address st) (envelopes st) (Some d) layout) a.
Proof.
  intros HA Hf. induction doms as [|[n d] r IH]; intros Hd; cbn [write_domains].
  - exists []. split; [reflexivity|intros ? ? []].
  - destruct (placement layout st (Some d) HA Hf) as (o & E & P). cbv zeta in P. rewrite E.
    destruct IH as (files & Ew & Pw); [intros n' d' H; apply (Hd n' d'); right; exact H|]. rewrite Ew.
    destruct (Hd n d (or_introl eq_refl)) as [f Lf]. rewrite Lf. destruct o as [img|].
    + exists ((f, img) :: files). split; [reflexivity|]. intros name im [[= <- <-]|Hin].
      * exists n, d. split; [left; reflexivity|]. split; [exact Lf|exact P].
      * destruct (Pw _ _ Hin) as (n' & d' & H1 & H2). exists n', d'. split; [right; exact H1|exact H2].
    + exists files. split; [reflexivity|]. intros name im Hin. destruct (Pw _ _ Hin) as (n' & d' & H1 & H2).
      exists n', d'. split; [right; exact H1|exact H2].
Qed.

(* the whole command on a known SoC: either the add phase raises (nothing is written) or exactly one file per domain
   that has at least one envelope is written, holding exactly that domain's slots *)
Theorem boot_spec soc layout base assign inputs :
  str_lookup soc soc_layouts = Some layout -> pairwise_apart layout = true -> nodup_z (map e_role layout) = true ->
  (exists e, add_all layout (mk_storage assign base []) inputs = Raise e /\ boot_files soc base assign inputs = MRaise e) \/
  (exists st files, add_all layout (mk_storage assign base []) inputs = Ok st /\ boot_files soc base assign inputs = MOk files /\
     forall name img, In (name, img) files ->
       exists n d, In (n, d) manifest_domains /\ zlookup d domain_files = Some name /\
                   placed base (envelopes st) (Some d) layout <> [] /\
                   forall a, get img a = read_slots (placed base (envelopes st) (Some d) layout) a).
Proof.
  intros HL HA Hn. unfold boot_files. rewrite HL. destruct (add_all layout _ inputs) as [st|e] eqn:A.
  - right. apply nodup_z_spec in Hn.
    assert (Hf0 : fits layout (envelopes (mk_storage assign base []))) by (intros x s _ L; cbn in L; discriminate).
    destruct (add_all_fits layout inputs (mk_storage assign base []) st Hn Hf0 A) as [Hf Hb].
    cbn [base_address] in Hb. destruct (write_domains_total layout st HA Hf manifest_domains) as (files & E & P).
    { intros n d Hin. vm_compute in Hin. repeat (destruct Hin as [[= <- <-]|Hin]; [eexists; vm_compute; reflexivity|]). destruct Hin. }
    exists st, files. split; [reflexivity|]. split; [exact E|]. rewrite <- Hb. exact P.
  - left. exists e. split; reflexivity.
Qed.

(* domain_separation: a byte of the file written for domain d lies in a slot whose entry belongs to d *)
Theorem image_within_domain layout st d a b :
  fits layout (envelopes st) -> read_slots (placed (base_address st) (envelopes st) (Some d) layout) a = Some b ->
  exists e, In e layout /\ e_domain e = d /\ range (base_address st) e a.
Proof.
  intros Hf H. destruct (read_placed_range _ _ _ _ _ _ Hf H) as (e & Hin & S & R). exists e. split; [exact Hin|].
  split; [cbn in S; lia|exact R].
Qed.

(* slot_framing, part 2: what is read inside a placed slot is the stored bytes followed by 0xFF up to the slot size *)
Theorem slot_read base envs dom layout e stored :
  pairwise_apart layout = true -> fits layout envs -> In e layout -> selected dom e = true -> zlookup (e_role e) envs = Some stored ->
  forall i, 0 <= i < e_size e ->
    read_slots (placed base envs dom layout) (base + e_offset e + i) =
      if i <? blen stored then nth_error stored (Z.to_nat i) else Some 255.
Proof.
  intros HA Hf Hin S L i Hi. pose proof (pairwise_apart_spec _ base HA) as HP. clear HA.
  induction layout as [|x r IH]; [destruct Hin|]. inversion HP as [|? ? HFx HP']; subst. rewrite Forall_forall in HFx.
  assert (Hf' : fits r envs) by (intros y s Hy; apply Hf; right; exact Hy).
  assert (Re : range base e (base + e_offset e + i)) by (unfold range; lia).
  cbn [placed]. destruct Hin as [->|Hin].
  - rewrite S, L. cbn [read_slots]. pose proof (Hf e stored (or_introl eq_refl) L) as Hfit.
    assert (Hlen : blen (stored ++ repeat 255 (Z.to_nat (e_size e - blen stored))) = e_size e) by (autorewrite with blen; lia).
    rewrite Hlen. replace ((base + e_offset e <=? base + e_offset e + i) && (base + e_offset e + i <? base + e_offset e + e_size e)) with true by lia.
    replace (base + e_offset e + i - (base + e_offset e)) with i by lia. destruct (i <? blen stored) eqn:C.
    + apply nth_error_app1. unfold blen in C. lia.
    + rewrite nth_error_app2 by (unfold blen in C; lia). rewrite (nth_error_nth' _ 255) by (rewrite repeat_length; unfold blen in *; lia).
      f_equal. apply nth_repeat.
  - assert (Hskip : forall s d, s = base + e_offset x -> blen d = e_size x ->
                      read_slots ((s, d) :: placed base envs dom r) (base + e_offset e + i) = read_slots (placed base envs dom r) (base + e_offset e + i)).
    { intros s d -> Hd. cbn [read_slots]. rewrite Hd.
      destruct ((base + e_offset x <=? base + e_offset e + i) && (base + e_offset e + i <? base + e_offset x + e_size x)) eqn:C; [|reflexivity].
      exfalso. apply (HFx e Hin (base + e_offset e + i)). split; [unfold range; lia|exact Re]. }
    destruct (selected dom x); [|exact (IH Hf' Hin HP')]. destruct (zlookup (e_role x) envs) as [sx|] eqn:Lx; [|exact (IH Hf' Hin HP')].
    rewrite Hskip; [exact (IH Hf' Hin HP')|reflexivity|]. pose proof (Hf x sx (or_introl eq_refl) Lx). autorewrite with blen. lia.
Qed.

(* ================================================================ sever *)
Theorem sever_removes_exactly {A} (top : list (bytes * A)) :
  sever top = filter (fun kv => negb (str_in (fst kv) sever_names)) top /\
  (forall kv, In kv (sever top) <-> In kv top /\ str_in (fst kv) sever_names = false).
Proof.
  split; [reflexivity|]. intros kv. unfold sever. rewrite filter_In. rewrite negb_true_iff. reflexivity.
Qed.
