(* Cmd/Sign.v — lemmas about the signing path (C04, C09).  The model (gen/GenSign.v) is regenerated from ncs/sign_script.py,
   ncs/basic_kms.py and suit_generator/cmd_sign.py on every run; the proofs below never mention generated local names.  The
   specification side (Sig_structure, COSE_Sign1, algorithm registry, inheritance of configuration attributes) is Cmd/SignModel.v. *)
Require Import Coq.Strings.String.
From Verif Require Import Base.Prim Base.PrimFacts Base.Str Cbor.Codec Cbor.CodecFacts Suit.Py Cmd.SignPrim gen.GenSign gen.GenSpec.
From Verif Require Export Cmd.SignModel.

#[local] Arguments Z.add : simpl never.
#[local] Arguments Z.sub : simpl never.
#[local] Arguments Z.mul : simpl never.
#[local] Arguments Z.opp : simpl never.
#[local] Arguments Z.pow : simpl never.

(* destructors for translator output: the scrutinee of the first monadic match / if in the hypothesis *)
Ltac hstep H :=
  match type of H with
  | context [match ?x with Ok _ => _ | Raise _ => _ end] => let E := fresh "E" in destruct x eqn:E; [|discriminate H]
  | context [if ?c then _ else _] => let E := fresh "C" in destruct c eqn:E; try discriminate H
  end.

(* ------------------------------------------------------------------------------------------------------------------
   Python dictionaries
   ------------------------------------------------------------------------------------------------------------------ *)
Lemma cint_nonneg z : 0 <= z -> cint z = CUint z.
Proof. unfold cint. intros H. destruct (0 <=? z) eqn:E; [reflexivity|lia]. Qed.
Lemma cint_2 : cint 2 = CUint 2. Proof. reflexivity. Qed.

(* a key that compares equal to the integer n is an integer (or bool) of that value *)
Lemma py_eqb_uint n k : py_eqb (CUint n) k = true -> as_pyint k = Some n.
Proof.
  unfold py_eqb. cbn [as_pyint]. destruct (as_pyint k) as [y|]; [|discriminate]. intros H. f_equal. lia.
Qed.
Lemma py_eqb_other_int n k k' : py_eqb (CUint n) k = true -> py_eqb k' (CUint n) = false -> py_eqb k' k = false.
Proof.
  intros H. apply py_eqb_uint in H. unfold py_eqb. cbn [as_pyint]. rewrite H.
  destruct (as_pyint k') as [x|]; [|reflexivity]. intros; lia.
Qed.
Lemma py_eqb_uint_sym n k : py_eqb (CUint n) k = py_eqb k (CUint n).
Proof. unfold py_eqb. cbn [as_pyint]. destruct (as_pyint k); [apply Z.eqb_sym|reflexivity]. Qed.

(* a key that compares equal to the text s is that text *)
Lemma py_eqb_text s k : py_eqb (CText s) k = true -> k = CText s.
Proof.
  unfold py_eqb. cbn [as_pyint].
  destruct k as [n|n|b|b|l|l|l|t c|v]; cbn [as_pyint cbor_eqb]; try discriminate.
  - intros H. apply list_eqb_eq in H. congruence.
  - destruct v as [|p|p]; try discriminate. repeat (destruct p as [p|p|]; try discriminate).
Qed.
Lemma py_eqb_text_refl s : py_eqb (CText s) (CText s) = true.
Proof. unfold py_eqb. cbn. apply list_eqb_refl. Qed.
Lemma py_eqb_text_uint s n : py_eqb (CText s) (CUint n) = false. Proof. reflexivity. Qed.
Lemma py_eqb_uint_text s n : py_eqb (CUint n) (CText s) = false. Proof. reflexivity. Qed.
Lemma py_eqb_text_text s s' : py_eqb (CText s) (CText s') = list_eqb s s'. Proof. reflexivity. Qed.

Lemma dict_set_keys d k v v0 : dict_get d k = Some v0 -> map fst (dict_set d k v) = map fst d.
Proof.
  induction d as [|[k' v'] d IH]; cbn [dict_get dict_set]; [discriminate|].
  destruct (py_eqb k k'); intros H; cbn [map fst]; [reflexivity|]. f_equal. auto.
Qed.
Lemma dict_get_set_same d k v : dict_get (dict_set d k v) k = Some v.
Proof.
  induction d as [|[k' v'] d IH]; cbn [dict_get dict_set].
  - assert (py_eqb k k = true) as ->; [|reflexivity].
    unfold py_eqb. destruct (as_pyint k); [apply Z.eqb_refl|].
    (* structural equality is reflexive *)
    induction k as [n|n|b|b|l IHl|l IHl|l IHl|t c IHc|s] using cbor_ind'; cbn [cbor_eqb];
      try apply Z.eqb_refl; try apply list_eqb_refl.
    + induction IHl as [|x l Hx Hl IHl']; [reflexivity|]. rewrite Hx. exact IHl'.
    + induction IHl as [|[a b] l [Ha Hb] Hl IHl']; [reflexivity|]. cbn [fst snd] in *. rewrite Ha, Hb. exact IHl'.
    + induction IHl as [|[a b] l [Ha Hb] Hl IHl']; [reflexivity|]. cbn [fst snd] in *. rewrite Ha, Hb. exact IHl'.
    + rewrite Z.eqb_refl, IHc. reflexivity.
  - destruct (py_eqb k k') eqn:E; cbn [dict_get]; rewrite E; [reflexivity|exact IH].
Qed.

(* replacing the value of an integer key leaves every entry under a different key alone *)
Lemma dict_get_set_uint d n v k' :
  py_eqb k' (CUint n) = false -> dict_get (dict_set d (CUint n) v) k' = dict_get d k'.
Proof.
  intros Hk. induction d as [|[k0 v0] d IH]; cbn [dict_get dict_set].
  - rewrite Hk. reflexivity.
  - destruct (py_eqb (CUint n) k0) eqn:E; cbn [dict_get].
    + rewrite (py_eqb_other_int n k0 k' E Hk). reflexivity.
    + destruct (py_eqb k' k0); [reflexivity|exact IH].
Qed.
Lemma dict_get_set_text d s v k' :
  py_eqb k' (CText s) = false -> dict_get (dict_set d (CText s) v) k' = dict_get d k'.
Proof.
  intros Hk. induction d as [|[k0 v0] d IH]; cbn [dict_get dict_set].
  - rewrite Hk. reflexivity.
  - destruct (py_eqb (CText s) k0) eqn:E; cbn [dict_get].
    + apply py_eqb_text in E. subst k0. rewrite Hk. reflexivity.
    + destruct (py_eqb k' k0); [reflexivity|exact IH].
Qed.

(* the entry found under a key splits the dictionary; setting the key replaces exactly that entry *)
Lemma dict_set_split d k v v0 :
  dict_get d k = Some v0 ->
  exists pre k' post, d = pre ++ (k', v0) :: post /\ py_eqb k k' = true /\ Forall (fun kv => py_eqb k (fst kv) = false) pre
                      /\ dict_set d k v = pre ++ (k', v) :: post.
Proof.
  induction d as [|[k0 w0] d IH]; cbn [dict_get dict_set]; [discriminate|].
  destruct (py_eqb k k0) eqn:E.
  - intros [= ->]. exists [], k0, d. repeat split; auto.
  - intros H. destruct (IH H) as (pre & k' & post & -> & Hk & Hpre & Hs).
    exists ((k0, w0) :: pre), k', post. rewrite Hs. repeat split; auto.
Qed.

(* ------------------------------------------------------------------------------------------------------------------
   cbor2.dumps / cbor2.loads on the shapes that occur
   ------------------------------------------------------------------------------------------------------------------ *)
Lemma bstr_list_all l : bstr_list l -> all_bstr l.
Proof. induction 1 as [|x l Hx Hl IH]; constructor; [destruct x; try contradiction; exact I|exact IH]. Qed.
Lemma unpyn_all_bstr l : all_bstr l -> map unpyn l = l.
Proof.
  induction 1 as [|x l Hx Hl IH]; [reflexivity|]. cbn [map]. rewrite IH. destruct x; try contradiction. reflexivity.
Qed.
Lemma ser_all_bstr l : all_bstr l -> ser (CArray l) = encode (CArray l).
Proof. intros H. unfold ser. cbn [unpyn]. rewrite unpyn_all_bstr by assumption. reflexivity. Qed.
Lemma ser_bstr_list l : bstr_list l -> ser (CArray l) = encode (CArray l).
Proof. intros H. apply ser_all_bstr, bstr_list_all, H. Qed.
Lemma wf_bstr_list l : bstr_list l -> blen l < 2 ^ 64 -> wf (CArray l).
Proof.
  intros H Hl. cbn [wf]. split; [assumption|]. induction H as [|x l Hx _ IH]; [exact I|]. split; [|apply IH; rewrite blen_cons in Hl; lia].
  destruct x; try contradiction. exact Hx.
Qed.
Lemma mapR_pyn_bstr_list l : bstr_list l -> mapR pyn l = Ok l.
Proof.
  induction 1 as [|x l Hx Hl IH]; [reflexivity|]. cbn [mapR]. destruct x; try contradiction. cbn [pyn]. rewrite IH. reflexivity.
Qed.
(* the wrapper written by the tool is read back as the same list *)
Lemma loads_ser_bstr_list l : bstr_list l -> blen l < 2 ^ 64 -> py_loads (CBytes (ser (CArray l))) = Ok (CArray l).
Proof.
  intros H Hl. unfold py_loads. rewrite ser_bstr_list by assumption. rewrite <- (app_nil_r (encode (CArray l))).
  rewrite loads_encode by (apply wf_bstr_list; assumption). cbn [pyn]. rewrite mapR_pyn_bstr_list by assumption. reflexivity.
Qed.
Lemma bstr_list_app a b : bstr_list a -> bstr_list b -> bstr_list (a ++ b).
Proof. apply Forall_app_intro || (intros; apply Forall_app; split; assumption). Qed.

Lemma unpyn_cint z : - 2 ^ 64 <= z < 2 ^ 64 -> unpyn (cint z) = cint z.
Proof.
  intros H. unfold cint. destruct (0 <=? z) eqn:E; cbn [unpyn].
  - destruct (z <? 2 ^ 64) eqn:F; [reflexivity|lia].
  - destruct (-1 - z <? 2 ^ 64) eqn:F; [reflexivity|lia].
Qed.
Lemma ser_uint z : 0 <= z < 2 ^ 64 -> ser (cint z) = encode (CUint z).
Proof. intros H. unfold ser. rewrite unpyn_cint by lia. rewrite cint_nonneg by lia. reflexivity. Qed.

(* ------------------------------------------------------------------------------------------------------------------
   The Signer methods, for an envelope #6.t({.., 2: bstr w, ..}) whose wrapper w decodes to the list `old`
   ------------------------------------------------------------------------------------------------------------------ *)
Lemma py_index0_cons x r : py_index (CArray (x :: r)) 0 = Ok x.
Proof.
  unfold py_index. assert ((0 <=? 0) && (0 <? blen (x :: r)) = true) as ->; [|reflexivity].
  rewrite blen_cons. pose proof (blen_nonneg r). lia.
Qed.
Lemma py_index0_nil : py_index (CArray []) 0 = Raise IndexError.
Proof. reflexivity. Qed.

Section Wrapper.
  Variables (t : Z) (kvs : list (cbor * cbor)) (w : bytes) (old : list cbor).
  Hypothesis Hw : dict_get kvs (CUint 2) = Some (CBytes w).
  Hypothesis Hold : py_loads (CBytes w) = Ok (CArray old).

  Lemma env_get_wrapper : env_get (CTag t (CMap kvs)) (CUint 2) = Ok (CBytes w).
  Proof. unfold env_get, env_map. rewrite Hw. reflexivity. Qed.

  Lemma get_digest_spec self :
    envelope self = CTag t (CMap kvs) ->
    get_digest self = match old with d0 :: _ => py_loads d0 | [] => Raise IndexError end.
  Proof.
    intros He. unfold get_digest. rewrite He, cint_2, env_get_wrapper, Hold. cbv beta iota zeta.
    destruct old as [|d0 r]; [rewrite py_index0_nil; reflexivity|]. rewrite py_index0_cons.
    destruct (py_loads d0); reflexivity.
  Qed.

  (* the message handed to the KMS *)
  Lemma create_cose_structure_spec self prot cose :
    envelope self = CTag t (CMap kvs) -> create_cose_structure self prot = Ok cose ->
    exists d0 rest dg, old = d0 :: rest /\ py_loads d0 = Ok dg /\ cose = encode (sig_structure (ser prot) (ser dg)).
  Proof.
    intros He. unfold create_cose_structure. rewrite (get_digest_spec self He).
    destruct old as [|d0 rest]; [discriminate|]. destruct (py_loads d0) as [dg|e] eqn:Ed; [|discriminate].
    cbv beta iota zeta. intros [= <-]. exists d0, rest, dg. split; [reflexivity|]. split; [exact Ed|reflexivity].
  Qed.

  (* the new block is appended to the decoded wrapper and the wrapper is written back under key 2 *)
  Lemma add_signature_spec self sig prot :
    envelope self = CTag t (CMap kvs) ->
    add_signature self sig prot None =
    Ok (set_envelope (CTag t (CMap (dict_set kvs (CUint 2)
          (CBytes (ser (CArray (old ++ [CBytes (encode (cose_sign1 (ser prot) sig))]))))))) self).
  Proof.
    intros He. unfold add_signature, create_authentication_block. cbv beta iota zeta.
    rewrite He, cint_2, env_get_wrapper, Hold. cbv beta iota zeta. unfold py_append, env_set. reflexivity.
  Qed.
End Wrapper.

(* ------------------------------------------------------------------------------------------------------------------
   Detection of an existing signature; list.remove
   ------------------------------------------------------------------------------------------------------------------ *)
Lemma py_eqb_bytes_r x b : py_eqb x (CBytes b) = true -> x = CBytes b.
Proof.
  unfold py_eqb. cbn [as_pyint]. destruct (as_pyint x); [discriminate|].
  destruct x; cbn [cbor_eqb]; try discriminate. intros H. apply list_eqb_eq in H. congruence.
Qed.
Lemma py_eqb_bytes_refl b : py_eqb (CBytes b) (CBytes b) = true.
Proof. unfold py_eqb. cbn. apply list_eqb_refl. Qed.
Lemma py_loads_is_bytes a c : py_loads a = Ok c -> exists b, a = CBytes b.
Proof. destruct a; cbn [py_loads]; try discriminate. eauto. Qed.

(* the first block found splits the wrapper; list.remove drops exactly that element *)
Lemma first_tagged_split tag l a :
  first_tagged tag l = Ok (Some a) ->
  exists pre post x, l = pre ++ a :: post /\ first_tagged tag pre = Ok None /\ py_loads a = Ok (CTag tag x)
                     /\ remove_first a l = Some (pre ++ post).
Proof.
  induction l as [|y r IH]; cbn [first_tagged]; [discriminate|].
  assert (Hskip : first_tagged tag r = Ok (Some a) ->
                  (forall x, py_loads y <> Ok (CTag tag x)) ->
                  first_tagged tag [y] = Ok None ->
                  exists pre post x, y :: r = pre ++ a :: post /\ first_tagged tag pre = Ok None /\ py_loads a = Ok (CTag tag x)
                                     /\ remove_first a (y :: r) = Some (pre ++ post)).
  { intros H Hy Hy1. destruct (IH H) as (pre & post & x & -> & Hp & Ha & Hr).
    exists (y :: pre), post, x. split; [reflexivity|]. split.
    - revert Hy1. cbn [first_tagged]. destruct y; try (intros _; exact Hp).
      destruct (py_loads (CBytes b)) as [c|e]; [|discriminate]. destruct c; try (intros _; exact Hp).
      destruct (t =? tag); [discriminate|intros _; exact Hp].
    - split; [exact Ha|]. cbn [remove_first]. destruct (py_eqb y a) eqn:P.
      + destruct (py_loads_is_bytes _ _ Ha) as [b ->]. apply py_eqb_bytes_r in P. subst y. exfalso. exact (Hy x Ha).
      + rewrite Hr. reflexivity. }
  destruct y as [n|n|b|b|l0|l0|l0|t0 c0|v]; try (intros H; apply Hskip; [exact H | intros x; cbn [py_loads]; discriminate | reflexivity]).
  destruct (py_loads (CBytes b)) as [c|e] eqn:E; [|discriminate].
  destruct c as [n|n|b1|b1|l0|l0|l0|t0 c0|v];
    try (intros H; apply Hskip; [exact H | intros x; try rewrite E; discriminate | cbn [first_tagged]; rewrite E; reflexivity]).
  destruct (t0 =? tag) eqn:T.
  - intros [= <-]. exists [], r, c0. assert (t0 = tag) as -> by lia. repeat split; auto.
    cbn [remove_first]. rewrite py_eqb_bytes_refl. reflexivity.
  - intros H. apply Hskip; [exact H | intros x; try rewrite E; intros [= -> _]; lia | cbn [first_tagged]; rewrite E, T; reflexivity].
Qed.

Lemma first_tagged_app_none tag a b : first_tagged tag a = Ok None -> first_tagged tag (a ++ b) = first_tagged tag b.
Proof.
  induction a as [|y r IH]; cbn [first_tagged app]; [reflexivity|].
  destruct y; try exact IH. destruct (py_loads (CBytes b0)) as [c|e]; [|discriminate]. destruct c; try exact IH.
  destruct (t =? tag); [discriminate|exact IH].
Qed.

(* ------------------------------------------------------------------------------------------------------------------
   already_signed_action: the three actions (the action |-> effect table is extracted from the source)
   ------------------------------------------------------------------------------------------------------------------ *)
Definition act_error : bytes := s2b "error".
Definition act_skip : bytes := s2b "skip".
Definition act_remove_old : bytes := s2b "remove-old".

Section Actions.
  Variables (t : Z) (kvs : list (cbor * cbor)) (w : bytes) (old : list cbor).
  Hypothesis Hw : dict_get kvs (CUint 2) = Some (CBytes w).
  Hypothesis Hold : py_loads (CBytes w) = Ok (CArray old).

  Lemma asa_unsigned self a :
    envelope self = CTag t (CMap kvs) -> first_tagged 18 old = Ok None -> already_signed_action self a = Ok self.
  Proof.
    intros He Hn. unfold already_signed_action, wrapper_key, sign1_tag. rewrite He, cint_2, (env_get_wrapper t kvs w Hw), Hold.
    cbn [as_pylist]. rewrite Hn. reflexivity.
  Qed.
  Lemma asa_error self a0 :
    envelope self = CTag t (CMap kvs) -> first_tagged 18 old = Ok (Some a0) -> already_signed_action self act_error = Raise SignerError.
  Proof.
    intros He Hn. unfold already_signed_action, wrapper_key, sign1_tag. rewrite He, cint_2, (env_get_wrapper t kvs w Hw), Hold.
    cbn [as_pylist]. rewrite Hn. reflexivity.
  Qed.
  Lemma asa_skip self a0 :
    envelope self = CTag t (CMap kvs) -> first_tagged 18 old = Ok (Some a0) ->
    already_signed_action self act_skip = Ok (set__skip_signing true self).
  Proof.
    intros He Hn. unfold already_signed_action, wrapper_key, sign1_tag. rewrite He, cint_2, (env_get_wrapper t kvs w Hw), Hold.
    cbn [as_pylist]. rewrite Hn. reflexivity.
  Qed.
  Lemma asa_remove self a0 l' :
    envelope self = CTag t (CMap kvs) -> first_tagged 18 old = Ok (Some a0) -> remove_first a0 old = Some l' ->
    already_signed_action self act_remove_old =
    Ok (set_envelope (CTag t (CMap (dict_set kvs (CUint 2) (CBytes (ser (CArray l')))))) self).
  Proof.
    intros He Hn Hr. unfold already_signed_action, wrapper_key, sign1_tag. rewrite He, cint_2, (env_get_wrapper t kvs w Hw), Hold.
    cbn [as_pylist]. rewrite Hn. change (str_lookup act_remove_old asa_branches) with (Some EfRemove). cbv beta iota.
    rewrite Hr. unfold env_set. reflexivity.
  Qed.
End Actions.

(* ------------------------------------------------------------------------------------------------------------------
   Tables: the tool's enums against the specification side
   ------------------------------------------------------------------------------------------------------------------ *)
(* for the five algorithms the tool's two enum tables lead to the registered COSE identifier *)
Lemma cose_alg_table alg id :
  spec_cose_alg alg = Some id ->
  exists name, enum_name list_eqb sign_algs alg = Some name /\ enum_by_name cose_sign_algs (s2b "COSE_ALG_" ++ name) = Ok id.
Proof.
  unfold spec_cose_alg.
  repeat (destruct (list_eqb alg _) eqn:E;
          [apply list_eqb_eq in E; subst alg; intros [= <-]; eexists; split; vm_compute; reflexivity|clear E]).
  discriminate.
Qed.
Lemma spec_cose_alg_range alg id : spec_cose_alg alg = Some id -> - 2 ^ 64 <= id < 2 ^ 64.
Proof.
  unfold spec_cose_alg. repeat (destruct (list_eqb alg _); [intros [= <-]; split; vm_compute; congruence|]). discriminate.
Qed.
Lemma spec_cose_alg_five alg id : spec_cose_alg alg = Some id -> In alg five_algs.
Proof.
  unfold spec_cose_alg, five_algs.
  repeat (destruct (list_eqb alg _) eqn:E; [apply list_eqb_eq in E; subst alg; intros _; cbn [In]; tauto|clear E]). discriminate.
Qed.
(* ... and the specification-side identifiers are those of the hand-written registry (spec/registry.json -> gen/GenSpec.v) *)
Definition registry_lookup (space name : bytes) : option Z :=
  match filter (fun r => list_eqb (fst (fst (fst r))) space) registry with
  | r :: _ => str_lookup name (snd r)
  | [] => None
  end.
Lemma spec_cose_alg_registry : forallb (fun alg => match spec_cose_alg alg, registry_lookup (s2b "cose-algorithms") (registry_name alg) with
                                                   | Some a, Some b => a =? b | _, _ => false end) five_algs = true.
Proof. vm_compute. reflexivity. Qed.
Lemma registry_constants :
  registry_lookup (s2b "envelope") (s2b "suit-authentication-wrapper") = Some wrapper_key
  /\ registry_lookup (s2b "cose-header") (s2b "suit-cose-algorithm-id") = Some 1
  /\ registry_lookup (s2b "cose-header") (s2b "suit-cose-key-id") = Some 4
  /\ str_lookup (s2b "CoseSign1Tagged") registry_tags = Some sign1_tag.
Proof. vm_compute. repeat split; reflexivity. Qed.

Lemma es_hash_is_spec ks : z_lookup ks es_hash_map = z_lookup ks spec_es_hash.
Proof.
  cbv [es_hash_map spec_es_hash z_lookup].
  repeat match goal with |- context [ks =? ?k] => destruct (ks =? k) eqn:? end; try reflexivity; lia.
Qed.

(* ---- str(int): the decimal rendering determines the number ---- *)
(* SuitKMS._verify_signing_key_type against the specification, for every key size *)
Lemma key_type_spec kind alg :
  In alg five_algs -> match kind with KEc ks => 0 <= ks | _ => True end ->
  verify_signing_key_type kind alg = match kind with KOther => Raise ValueError | _ => Ok (spec_key_matches kind alg) end.
Proof.
  intros Ha Hk. destruct kind as [ks| | |]; unfold verify_signing_key_type, spec_key_matches; [|f_equal..|reflexivity].
  - f_equal. cbn [five_algs In] in Ha.
    assert (E : forall d n, 0 <= n -> str_of_nonneg n = d -> list_eqb (s2b "es-" ++ str_of_nonneg ks) (s2b "es-" ++ d) = (ks =? n))
      by (intros d n Hn Hd; rewrite list_eqb_app_same; apply str_of_nonneg_eqb; assumption).
    destruct Ha as [<-|[<-|[<-|[<-|[<-|[]]]]]].
    + change a_es256 with (s2b "es-" ++ s2b "256"). rewrite (E _ 256) by (try lia; reflexivity).
      change (s2b "es-" ++ s2b "256") with a_es256. vm_compute (list_eqb a_es256 _). vm_compute (list_eqb a_es256 _). vm_compute (list_eqb a_es256 _).
      cbn [andb orb]. rewrite ?Bool.orb_false_r. reflexivity.
    + change a_es384 with (s2b "es-" ++ s2b "384"). rewrite (E _ 384) by (try lia; reflexivity).
      change (s2b "es-" ++ s2b "384") with a_es384. vm_compute (list_eqb a_es384 _). vm_compute (list_eqb a_es384 _). vm_compute (list_eqb a_es384 _).
      cbn [andb orb]. rewrite ?Bool.orb_false_r. reflexivity.
    + change a_es521 with (s2b "es-" ++ s2b "521"). rewrite (E _ 521) by (try lia; reflexivity).
      change (s2b "es-" ++ s2b "521") with a_es521. vm_compute (list_eqb a_es521 _). vm_compute (list_eqb a_es521 _). vm_compute (list_eqb a_es521 _).
      cbn [andb orb]. rewrite ?Bool.orb_false_r. reflexivity.
    + reflexivity.
    + reflexivity.
  - cbn [five_algs In] in Ha. destruct Ha as [<-|[<-|[<-|[<-|[<-|[]]]]]]; reflexivity.
  - cbn [five_algs In] in Ha. destruct Ha as [<-|[<-|[<-|[<-|[<-|[]]]]]]; reflexivity.
Qed.

(* ------------------------------------------------------------------------------------------------------------------
   ECDSA: fixed-width r || s
   ------------------------------------------------------------------------------------------------------------------ *)
Lemma to_bytes_big_ok n x : 0 <= n -> 0 <= x < 256 ^ n -> to_bytes_big n x = Ok (be (Z.to_nat n) x).
Proof.
  intros Hn Hx. unfold to_bytes_big.
  assert ((0 <=? n) && (0 <=? x) && (x <? 256 ^ n) = true) as -> by lia. reflexivity.
Qed.
Lemma firstn_app_exact {A} (a b : list A) : firstn (length a) (a ++ b) = a.
Proof. rewrite firstn_app, Nat.sub_diag, firstn_all. cbn. apply app_nil_r. Qed.
Lemma skipn_app_exact {A} (a b : list A) : skipn (length a) (a ++ b) = b.
Proof. rewrite skipn_app, skipn_all, Nat.sub_diag. reflexivity. Qed.
Lemma pow_ceil_width ks : 0 <= ks -> 2 ^ ks <= 256 ^ ceil_div ks 8.
Proof.
  intros H. change 256 with (2 ^ 8). unfold ceil_div. rewrite <- Z.pow_mul_r by lia. apply Z.pow_le_mono_r; lia.
Qed.

(* whatever es_signature_bytes emits is r || s on exactly ceil(ks / 8) bytes each, and splits back into (r, s) *)
Lemma es_bytes_split ks r s out :
  es_signature_bytes ks r s = Ok out ->
  let w := ceil_div ks 8 in
  0 <= w /\ 0 <= r < 256 ^ w /\ 0 <= s < 256 ^ w /\ blen out = 2 * w
  /\ unbe (firstn (Z.to_nat w) out) 0 = r /\ unbe (skipn (Z.to_nat w) out) 0 = s.
Proof.
  unfold es_signature_bytes. intros H. hstep H. hstep H. injection H as <-.
  (* whatever expression the source uses for the width, it equals ceil(ks / 8) *)
  repeat match goal with E : to_bytes_big ?n _ = Ok _ |- _ =>
    replace n with (ceil_div ks 8) in E by (unfold ceil_div; lia); apply tbb_ok in E; destruct E as (-> & ? & ?) end.
  cbv zeta. set (w := ceil_div ks 8) in *.
  assert (Hpw : 256 ^ Z.of_nat (Z.to_nat w) = 256 ^ w) by (rewrite Z2Nat.id by lia; reflexivity).
  split; [lia|]. split; [lia|]. split; [lia|]. split; [autorewrite with blen; lia|]. split.
  - rewrite <- (be_length (Z.to_nat w) r) at 1. rewrite firstn_app_exact, unbe_be by lia. lia.
  - rewrite <- (be_length (Z.to_nat w) r) at 1. rewrite skipn_app_exact, unbe_be by lia. lia.
Qed.
(* ... and it emits such a string for every r, s below 2^(8 * ceil(ks / 8)), in particular for every r, s below 2^ks *)
Lemma es_fixed_width ks r s :
  0 <= ks -> 0 <= r < 2 ^ (8 * ceil_div ks 8) -> 0 <= s < 2 ^ (8 * ceil_div ks 8) ->
  exists out, es_signature_bytes ks r s = Ok out /\ blen out = 2 * ceil_div ks 8
              /\ unbe (firstn (Z.to_nat (ceil_div ks 8)) out) 0 = r /\ unbe (skipn (Z.to_nat (ceil_div ks 8)) out) 0 = s.
Proof.
  intros Hk Hr Hs. assert (Hw : 0 <= ceil_div ks 8) by (unfold ceil_div; lia).
  assert (Hp : 2 ^ (8 * ceil_div ks 8) = 256 ^ ceil_div ks 8) by (change 256 with (2 ^ 8); rewrite <- Z.pow_mul_r by lia; reflexivity).
  destruct (es_signature_bytes ks r s) as [out|e] eqn:E.
  - exists out. split; [reflexivity|]. apply es_bytes_split in E. cbv zeta in E. tauto.
  - exfalso. unfold es_signature_bytes in E.
    repeat match type of E with context [to_bytes_big ?n _] => progress replace n with (ceil_div ks 8) in E by (unfold ceil_div; lia) end.
    rewrite !to_bytes_big_ok in E by lia. discriminate E.
Qed.

(* ------------------------------------------------------------------------------------------------------------------
   The KMS and the whole signing step; the signature primitives and the key store are abstract
   ------------------------------------------------------------------------------------------------------------------ *)
Section Crypto.
  Variable keystore : option bytes -> bytes -> option (keykind * bytes).
  Variable ecdsa : bytes -> bytes -> bytes -> nat -> Z * Z.
  Variable eddsa eddsa_ph : bytes -> bytes -> bytes.
  Local Notation KMS := (kms_sign keystore ecdsa eddsa eddsa_ph).
  Local Notation SIGN := (sign_envelope keystore ecdsa eddsa eddsa_ph).
  Local Notation CLI := (cli_sign_single keystore ecdsa eddsa eddsa_ph).

  (* what a successful KMS call has done *)
  Definition kms_result (kind : keykind) (key : bytes) (ent : nat) (msg alg sig : bytes) (ent' : nat) : Prop :=
    match kind with
    | KEc ks => exists h, z_lookup ks spec_es_hash = Some h /\ es_signature_bytes ks (fst (ecdsa key h msg ent)) (snd (ecdsa key h msg ent)) = Ok sig
                          /\ ent' = S ent
    | KEd25519 | KEd448 => sig = (if list_eqb alg a_hash_eddsa then eddsa_ph key msg else eddsa key msg) /\ ent' = ent
    | KOther => False
    end.

  Lemma kms_sign_spec ent msg kn alg ctx sig ent' :
    KMS ent msg kn alg ctx = Ok (sig, ent') ->
    exists kind key, keystore ctx kn = Some (kind, key) /\ verify_signing_key_type kind alg = Ok true /\ kms_result kind key ent msg alg sig ent'.
  Proof.
    unfold kms_sign. destruct (keystore ctx kn) as [[kind key]|]; [|discriminate]. intros H. hstep H.
    match goal with b : bool |- _ => destruct b; [|discriminate H] end. cbn [negb] in H.
    exists kind, key. split; [reflexivity|]. split; [assumption|].
    destruct kind as [ks| | |]; cbn [kms_result]; try discriminate H.
    - unfold create_cose_es_signature in H. rewrite es_hash_is_spec in H.
      destruct (z_lookup ks spec_es_hash) as [h|]; [|discriminate H]. exists h. split; [reflexivity|].
      destruct (ecdsa key h msg ent) as [r s]. cbn [fst snd]. cbv beta iota in H. hstep H. injection H as <- <-. auto.
    - match type of H with context [list_eqb alg ?l] => change l with a_hash_eddsa in H end.
      destruct (list_eqb alg a_hash_eddsa); injection H as <- <-; auto.
    - match type of H with context [list_eqb alg ?l] => change l with a_hash_eddsa in H end.
      destruct (list_eqb alg a_hash_eddsa); injection H as <- <-; auto.
  Qed.

  (* a key whose class does not match the algorithm is refused *)
  Lemma kms_mismatch ent msg kn alg ctx kind key :
    In alg five_algs -> keystore ctx kn = Some (kind, key) -> match kind with KEc ks => 0 <= ks | _ => True end ->
    spec_key_matches kind alg = false -> KMS ent msg kn alg ctx = Raise ValueError.
  Proof.
    intros Ha Hk Hs Hm. unfold kms_sign. rewrite Hk, (key_type_spec kind alg Ha Hs).
    destruct kind; [rewrite Hm; reflexivity..|reflexivity].
  Qed.
  Lemma kms_unknown_key ent msg kn alg ctx : keystore ctx kn = None -> KMS ent msg kn alg ctx = Raise ValueError.
  Proof. intros Hk. unfold kms_sign. rewrite Hk. reflexivity. Qed.

  (* under the laws of the primitives the emitted signature verifies with the COSE verifier of the specification side *)
  Section Laws.
    Variable pub : bytes -> bytes.
    Variable ecdsa_verify : bytes -> bytes -> bytes -> Z * Z -> bool.
    Variable eddsa_verify eddsa_ph_verify : bytes -> bytes -> bytes -> bool.
    Hypothesis ecdsa_law : forall k h m n, ecdsa_verify (pub k) h m (ecdsa k h m n) = true.
    Hypothesis eddsa_law : forall k m, eddsa_verify (pub k) m (eddsa k m) = true.
    Hypothesis eddsa_ph_law : forall k m, eddsa_ph_verify (pub k) m (eddsa_ph k m) = true.

    Lemma kms_result_verifies kind key ent msg alg sig ent' :
      kms_result kind key ent msg alg sig ent' ->
      cose_verify ecdsa_verify eddsa_verify eddsa_ph_verify kind (pub key) alg msg sig = true.
    Proof.
      destruct kind as [ks| | |]; cbn [kms_result cose_verify]; [| | |contradiction].
      - intros (h & Hh & Hb & _). rewrite Hh. apply es_bytes_split in Hb. cbv zeta in Hb.
        destruct Hb as (_ & _ & _ & Hl & -> & ->). rewrite Hl, Z.eqb_refl. cbn [andb].
        rewrite <- surjective_pairing. apply ecdsa_law.
      - intros [-> _]. destruct (list_eqb alg a_hash_eddsa); [apply eddsa_ph_law|apply eddsa_law].
      - intros [-> _]. destruct (list_eqb alg a_hash_eddsa); [apply eddsa_ph_law|apply eddsa_law].
    Qed.
  End Laws.

  Lemma ser_protected id kid : - 2 ^ 64 <= id < 2 ^ 64 -> ser (spec_protected id kid) = encode (spec_protected id kid).
  Proof. intros H. unfold ser, spec_protected. cbn [unpyn map]. rewrite unpyn_cint by assumption. reflexivity. Qed.

  (* the signing step proper, once already_signed_action has left a signer (not skipping) whose wrapper decodes to `cur` *)
  Lemma sign_after_asa ent env kn kid alg ctx action self1 t kvs1 w1 cur id env' ent' :
    already_signed_action {| envelope := env; _skip_signing := false |} action = Ok self1 ->
    _skip_signing self1 = false -> envelope self1 = CTag t (CMap kvs1) ->
    dict_get kvs1 (CUint 2) = Some (CBytes w1) -> py_loads (CBytes w1) = Ok (CArray cur) ->
    spec_cose_alg alg = Some id -> 0 <= kid < 2 ^ 64 ->
    SIGN ent env kn kid alg ctx action = Ok (env', ent') ->
    exists d0 rest dg sig,
      cur = d0 :: rest /\ py_loads d0 = Ok dg
      /\ KMS ent (encode (sig_structure (encode (spec_protected id kid)) (ser dg))) kn alg ctx = Ok (sig, ent')
      /\ env' = CTag t (CMap (dict_set kvs1 (CUint 2)
                  (CBytes (ser (CArray (cur ++ [CBytes (encode (cose_sign1 (encode (spec_protected id kid)) sig))])))))).
  Proof.
    intros Hasa Hskip He Hw Hcur Hid Hkid. unfold sign_envelope. cbv zeta. rewrite Hasa. cbv beta iota. rewrite Hskip.
    destruct (cose_alg_table alg id Hid) as (name & Hn & Ht). rewrite Hn. cbv beta iota.
    change (s2b "COSE_ALG_") with [67; 79; 83; 69; 95; 65; 76; 71; 95] in Ht. rewrite Ht. cbv beta iota zeta.
    assert (Hp : CMap (dict_of_pairs [(cint 1, cint id); (cint 4, CBytes (ser (cint kid)))]) = spec_protected id kid)
      by (rewrite ser_uint by assumption; reflexivity).
    rewrite Hp. intros H.
    destruct (create_cose_structure self1 (spec_protected id kid)) as [cose|e] eqn:Ec; [|discriminate H].
    apply (create_cose_structure_spec t kvs1 w1 cur Hw Hcur self1 _ _ He) in Ec. destruct Ec as (d0 & rest & dg & -> & Hd & ->).
    rewrite (ser_protected id kid (spec_cose_alg_range alg id Hid)) in H.
    destruct (KMS ent _ kn alg ctx) as [[sig e1]|e] eqn:Ek; [|discriminate H].
    rewrite (add_signature_spec t kvs1 w1 (d0 :: rest) Hw Hcur self1 sig _ He) in H. cbv beta iota in H.
    rewrite (ser_protected id kid (spec_cose_alg_range alg id Hid)) in H. injection H as <- <-.
    exists d0, rest, dg, sig. repeat split; auto.
  Qed.
End Crypto.

(* ------------------------------------------------------------------------------------------------------------------
   Items whose re-encoding is the item itself (the image of create: deterministic encoding, distinct keys)
   ------------------------------------------------------------------------------------------------------------------ *)
Lemma pynormal_list l : (fix all (l : list cbor) := match l with [] => True | x :: r => pynormal x /\ all r end) l <-> Forall pynormal l.
Proof. induction l as [|x l IH]; cbn; split; intros H; auto. - destruct H; constructor; tauto. - inversion H; subst; tauto. Qed.
Lemma pynormal_pairs l :
  (fix all (l : list (cbor * cbor)) := match l with [] => True | (k, v) :: r => pynormal k /\ pynormal v /\ all r end) l
  <-> Forall (fun kv => pynormal (fst kv) /\ pynormal (snd kv)) l.
Proof.
  induction l as [|[k v] l IH]; cbn; split; intros H; auto.
  - destruct H as (?&?&?); constructor; cbn; tauto.
  - inversion H as [|? ? [? ?] ?]; subst; cbn in *; tauto.
Qed.

Lemma pynormal_fix c : pynormal c -> pyn c = Ok c /\ unpyn c = c.
Proof.
  induction c as [n|n|b|b|l IHl|l IHl|l IHl|t c IHc|s] using cbor_ind'; intros Hn.
  - cbn in *. split; [reflexivity|]. destruct (n <? 2 ^ 64) eqn:E; [reflexivity|lia].
  - cbn in *. split; [reflexivity|]. destruct (n <? 2 ^ 64) eqn:E; [reflexivity|lia].
  - split; reflexivity.
  - split; reflexivity.
  - cbn [pynormal] in Hn. apply pynormal_list in Hn.
    assert (mapR pyn l = Ok l /\ map unpyn l = l) as [H1 H2].
    { induction IHl as [|x l Hx Hl IH]; [split; reflexivity|]. inversion Hn as [|? ? Hnx Hnl]; subst.
      destruct (Hx Hnx) as [P1 P2]. destruct (IH Hnl) as [Q1 Q2]. cbn [mapR map]. rewrite P1, P2, Q1, Q2. split; reflexivity. }
    cbn [pyn unpyn]. rewrite H1, H2. split; reflexivity.
  - cbn [pynormal] in Hn. destruct Hn as [Hn Hd]. apply pynormal_pairs in Hn.
    assert (mapR (fun kv : cbor * cbor => let (k0, v0) := kv in
                    match pyn k0 with Raise e => Raise e | Ok k => match pyn v0 with Raise e => Raise e | Ok v => Ok (k, v) end end) l = Ok l
            /\ map (fun kv : cbor * cbor => let (k, v) := kv in (unpyn k, unpyn v)) l = l) as [H1 H2].
    { clear Hd. induction IHl as [|[k v] l [Hk Hv] Hl IH]; [split; reflexivity|]. inversion Hn as [|? ? [Hnk Hnv] Hnl]; subst.
      cbn [fst snd] in *. destruct (Hk Hnk) as [P1 P2]. destruct (Hv Hnv) as [P3 P4]. destruct (IH Hnl) as [Q1 Q2].
      cbn [mapR map]. rewrite P1, P2, P3, P4, Q1, Q2. split; reflexivity. }
    cbn [pyn unpyn]. rewrite H1, H2, Hd. split; reflexivity.
  - contradiction.
  - cbn [pynormal] in Hn. destruct Hn as (H2 & H3 & Hc). destruct (IHc Hc) as [P1 P2].
    cbn [pyn unpyn]. rewrite H2, H3, P1, P2. split; reflexivity.
  - split; reflexivity.
Qed.
(* cbor2.loads(cbor2.dumps(c)) == c and cbor2.dumps(c) = its encoding *)
Lemma pynormal_roundtrip c r : wf c -> pynormal c -> py_loads (CBytes (encode c ++ r)) = Ok c /\ ser c = encode c.
Proof.
  intros Hw Hn. destruct (pynormal_fix c Hn) as [P1 P2]. unfold py_loads, ser. rewrite loads_encode by assumption. rewrite P1, P2. auto.
Qed.

(* the output file differs from the input file only inside the wrapper value: both are A ++ encode (bstr wrapper) ++ B *)
Lemma file_frame env env' w w' :
  same_but_wrapper env env' w w' -> exists A B, ser env = A ++ encode (CBytes w) ++ B /\ ser env' = A ++ encode (CBytes w') ++ B.
Proof.
  intros (t & pre & k2 & post & -> & -> & _ & _). unfold ser. cbn [unpyn]. rewrite !map_app. cbn [map unpyn].
  set (f := fun kv : cbor * cbor => let (k, v) := kv in (unpyn k, unpyn v)).
  cbn [encode]. rewrite !flat_map_app. cbn [flat_map fst snd].
  exists (head 6 t ++ head 5 (blen (map f pre ++ (unpyn k2, CBytes w) :: map f post))
          ++ flat_map (fun kv => encode (fst kv) ++ encode (snd kv)) (map f pre) ++ encode (unpyn k2)),
         (flat_map (fun kv => encode (fst kv) ++ encode (snd kv)) (map f post)).
  split.
  - cbn [encode]. rewrite <- !app_assoc. reflexivity.
  - replace (blen (map f pre ++ (unpyn k2, CBytes w') :: map f post)) with (blen (map f pre ++ (unpyn k2, CBytes w) :: map f post))
      by (autorewrite with blen; reflexivity).
    cbn [encode]. rewrite <- !app_assoc. reflexivity.
Qed.

Lemma same_but_wrapper_of_set t kvs w v :
  dict_get kvs (CUint 2) = Some (CBytes w) ->
  same_but_wrapper (CTag t (CMap kvs)) (CTag t (CMap (dict_set kvs (CUint 2) (CBytes v)))) w v.
Proof.
  intros H. destruct (dict_set_split kvs (CUint 2) (CBytes v) _ H) as (pre & k' & post & -> & Hk & Hp & ->).
  exists t, pre, k', post. repeat split; assumption.
Qed.
Lemma dict_set_twice d k v1 v2 : dict_set (dict_set d k v1) k v2 = dict_set d k v2.
Proof.
  induction d as [|[k0 v0] d IH]; cbn [dict_set].
  - assert (py_eqb k k = true) as ->; [|reflexivity]. pose proof (dict_get_set_same [] k v1) as H. cbn [dict_set dict_get] in H.
    destruct (py_eqb k k); [reflexivity|discriminate].
  - destruct (py_eqb k k0) eqn:E; cbn [dict_set]; rewrite E; [reflexivity|]. rewrite IH. reflexivity.
Qed.

(* ------------------------------------------------------------------------------------------------------------------
   Single-level signing: C04 (unsigned input) and the three already-signed actions of C09
   ------------------------------------------------------------------------------------------------------------------ *)
Section Single.
  Variable keystore : option bytes -> bytes -> option (keykind * bytes).
  Variable ecdsa : bytes -> bytes -> bytes -> nat -> Z * Z.
  Variable eddsa eddsa_ph : bytes -> bytes -> bytes.
  Local Notation KMS := (kms_sign keystore ecdsa eddsa eddsa_ph).
  Local Notation SIGN := (sign_envelope keystore ecdsa eddsa eddsa_ph).
  Local Notation CLI := (cli_sign_single keystore ecdsa eddsa eddsa_ph).

  (* everything one signing step does to an envelope whose wrapper (value w under key 2) holds the list `cur` of byte strings:
     exactly one COSE_Sign1 block is appended to `cur`, nothing else changes; the block's protected header, the message signed, the
     key used and what the KMS did with it *)
  Definition signed_with (ent : nat) (env env' : cbor) (ent' : nat) (w : bytes) (cur : list cbor) (kn : bytes) (kid : Z) (alg : bytes) (ctx : option bytes) (id : Z) : Prop :=
    exists d0 rest dg sig kind key,
      let prot := encode (spec_protected id kid) in
      let msg := encode (sig_structure prot (ser dg)) in
      cur = CBytes d0 :: rest /\ py_loads (CBytes d0) = Ok dg
      /\ keystore ctx kn = Some (kind, key) /\ verify_signing_key_type kind alg = Ok true
      /\ kms_result ecdsa eddsa eddsa_ph kind key ent msg alg sig ent'
      /\ same_but_wrapper env env' w (encode (CArray (cur ++ [CBytes (encode (cose_sign1 prot sig))]))).

  Lemma all_bstr_new cur blk : all_bstr cur -> all_bstr (cur ++ [CBytes blk]).
  Proof. intros H. apply Forall_app. split; [assumption|]. constructor; [exact I|constructor]. Qed.

  Lemma sign_unsigned ent t kvs w old kn kid alg ctx action id env' ent' :
    dict_get kvs (CUint 2) = Some (CBytes w) -> py_loads (CBytes w) = Ok (CArray old) -> all_bstr old ->
    first_tagged 18 old = Ok None -> spec_cose_alg alg = Some id -> 0 <= kid < 2 ^ 64 ->
    SIGN ent (CTag t (CMap kvs)) kn kid alg ctx action = Ok (env', ent') ->
    signed_with ent (CTag t (CMap kvs)) env' ent' w old kn kid alg ctx id.
  Proof.
    intros Hw Hold Hb Hn Hid Hkid H.
    pose proof (asa_unsigned t kvs w old Hw Hold {| envelope := CTag t (CMap kvs); _skip_signing := false |} action eq_refl Hn) as Hasa.
    destruct (sign_after_asa keystore ecdsa eddsa eddsa_ph ent _ kn kid alg ctx action _ t kvs w old id env' ent' Hasa eq_refl eq_refl Hw Hold Hid Hkid H)
      as (d0 & rest & dg & sig & -> & Hd & Hk & ->).
    destruct (py_loads_is_bytes _ _ Hd) as [b0 ->].
    destruct (kms_sign_spec keystore ecdsa eddsa eddsa_ph _ _ _ _ _ _ _ Hk) as (kind & key & Hks & Hv & Hr).
    exists b0, rest, dg, sig, kind, key. cbv zeta. repeat split; auto.
    rewrite <- ser_all_bstr by (apply all_bstr_new; exact Hb). apply same_but_wrapper_of_set. exact Hw.
  Qed.

  (* ---- the input already bears a signature (first block found: a0) ---- *)
  Lemma sign_error ent t kvs w old a0 kn kid alg ctx :
    dict_get kvs (CUint 2) = Some (CBytes w) -> py_loads (CBytes w) = Ok (CArray old) -> first_tagged 18 old = Ok (Some a0) ->
    SIGN ent (CTag t (CMap kvs)) kn kid alg ctx act_error = Raise SignerError.
  Proof.
    intros Hw Hold Hf. unfold sign_envelope. cbv zeta.
    rewrite (asa_error t kvs w old Hw Hold {| envelope := CTag t (CMap kvs); _skip_signing := false |} a0 eq_refl Hf). reflexivity.
  Qed.
  Lemma sign_skip ent t kvs w old a0 kn kid alg ctx :
    dict_get kvs (CUint 2) = Some (CBytes w) -> py_loads (CBytes w) = Ok (CArray old) -> first_tagged 18 old = Ok (Some a0) ->
    SIGN ent (CTag t (CMap kvs)) kn kid alg ctx act_skip = Ok (CTag t (CMap kvs), ent).
  Proof.
    intros Hw Hold Hf. unfold sign_envelope. cbv zeta.
    rewrite (asa_skip t kvs w old Hw Hold {| envelope := CTag t (CMap kvs); _skip_signing := false |} a0 eq_refl Hf). reflexivity.
  Qed.
  (* remove-old: the first old block is dropped, the others keep their order, the new block comes last *)
  Lemma sign_remove_old ent t kvs w old a0 kn kid alg ctx id env' ent' :
    dict_get kvs (CUint 2) = Some (CBytes w) -> py_loads (CBytes w) = Ok (CArray old) -> bstr_list old -> blen old < 2 ^ 64 ->
    first_tagged 18 old = Ok (Some a0) -> spec_cose_alg alg = Some id -> 0 <= kid < 2 ^ 64 ->
    SIGN ent (CTag t (CMap kvs)) kn kid alg ctx act_remove_old = Ok (env', ent') ->
    exists pre post x d0 rest dg sig kind key,
      let prot := encode (spec_protected id kid) in
      let msg := encode (sig_structure prot (ser dg)) in
      old = pre ++ a0 :: post /\ first_tagged 18 pre = Ok None /\ py_loads a0 = Ok (CTag 18 x)
      /\ pre ++ post = CBytes d0 :: rest /\ py_loads (CBytes d0) = Ok dg
      /\ keystore ctx kn = Some (kind, key) /\ verify_signing_key_type kind alg = Ok true
      /\ kms_result ecdsa eddsa eddsa_ph kind key ent msg alg sig ent'
      /\ same_but_wrapper (CTag t (CMap kvs)) env' w (encode (CArray ((pre ++ post) ++ [CBytes (encode (cose_sign1 prot sig))]))).
  Proof.
    intros Hw Hold Hb Hl Hf Hid Hkid H.
    destruct (first_tagged_split 18 old a0 Hf) as (pre & post & x & -> & Hpre & Ha & Hrem).
    assert (Hb' : bstr_list (pre ++ post)).
    { apply Forall_app in Hb. destruct Hb as [Hb1 Hb2]. inversion Hb2; subst. apply Forall_app. split; assumption. }
    assert (Hl' : blen (pre ++ post) < 2 ^ 64) by (revert Hl; autorewrite with blen; lia).
    pose proof (asa_remove t kvs w _ Hw Hold {| envelope := CTag t (CMap kvs); _skip_signing := false |} a0 _ eq_refl Hf Hrem) as Hasa.
    set (kvs1 := dict_set kvs (CUint 2) (CBytes (ser (CArray (pre ++ post))))) in *.
    assert (Hw1 : dict_get kvs1 (CUint 2) = Some (CBytes (ser (CArray (pre ++ post))))) by apply dict_get_set_same.
    pose proof (loads_ser_bstr_list _ Hb' Hl') as Hcur.
    destruct (sign_after_asa keystore ecdsa eddsa eddsa_ph ent _ kn kid alg ctx act_remove_old _ t kvs1 _ (pre ++ post) id env' ent'
                Hasa eq_refl eq_refl Hw1 Hcur Hid Hkid H) as (d0 & rest & dg & sig & Hc & Hd & Hk & ->).
    destruct (py_loads_is_bytes _ _ Hd) as [b0 ->].
    destruct (kms_sign_spec keystore ecdsa eddsa eddsa_ph _ _ _ _ _ _ _ Hk) as (kind & key & Hks & Hv & Hr).
    exists pre, post, x, b0, rest, dg, sig, kind, key. cbv zeta. repeat split; auto.
    unfold kvs1. rewrite dict_set_twice. rewrite (ser_all_bstr ((pre ++ post) ++ _)) by (apply all_bstr_new, bstr_list_all, Hb').
    apply same_but_wrapper_of_set. exact Hw.
  Qed.

  (* a key of the wrong class: nothing is signed (for an unsigned, well-formed input the error is exactly the KMS's ValueError) *)
  Lemma sign_mismatch ent t kvs w old d0 rest dg kn kid alg ctx action id kind key :
    dict_get kvs (CUint 2) = Some (CBytes w) -> py_loads (CBytes w) = Ok (CArray old) -> first_tagged 18 old = Ok None ->
    old = d0 :: rest -> py_loads d0 = Ok dg -> spec_cose_alg alg = Some id ->
    keystore ctx kn = Some (kind, key) -> match kind with KEc ks => 0 <= ks | _ => True end -> spec_key_matches kind alg = false ->
    SIGN ent (CTag t (CMap kvs)) kn kid alg ctx action = Raise ValueError.
  Proof.
    intros Hw Hold Hn -> Hd Hid Hk Hks Hm. unfold sign_envelope. cbv zeta.
    rewrite (asa_unsigned t kvs w _ Hw Hold {| envelope := CTag t (CMap kvs); _skip_signing := false |} action eq_refl Hn). cbv beta iota. cbn [_skip_signing].
    destruct (cose_alg_table alg id Hid) as (name & Hnm & Ht). rewrite Hnm. cbv beta iota.
    change (s2b "COSE_ALG_") with [67; 79; 83; 69; 95; 65; 76; 71; 95] in Ht. rewrite Ht. cbv beta iota zeta.
    unfold create_cose_structure. rewrite (get_digest_spec t kvs w _ Hw Hold {| envelope := CTag t (CMap kvs); _skip_signing := false |} eq_refl), Hd. cbv beta iota zeta.
    rewrite (kms_mismatch keystore ecdsa eddsa eddsa_ph ent _ kn alg ctx kind key (spec_cose_alg_five alg id Hid) Hk Hks Hm). reflexivity.
  Qed.

  (* ---- the command: load, sign, save; an exception means that save_envelope was never reached ---- *)
  Lemma cli_single_unfold ent infile env kn kid alg ctx action :
    load_envelope infile = Ok env ->
    CLI ent infile kn kid alg ctx action = match SIGN ent env kn kid alg ctx action with Ok (e', n) => Ok (ser e', n) | Raise x => Raise x end.
  Proof. intros H. unfold cli_sign_single. rewrite H. destruct (SIGN ent env kn kid alg ctx action) as [[e' n]|x]; reflexivity. Qed.
End Single.

(* ------------------------------------------------------------------------------------------------------------------
   C04: the statements of Props/C04.v
   ------------------------------------------------------------------------------------------------------------------ *)
Section C04.
  Variable keystore : option bytes -> bytes -> option (keykind * bytes).
  Variable ecdsa : bytes -> bytes -> bytes -> nat -> Z * Z.
  Variable eddsa eddsa_ph : bytes -> bytes -> bytes.
  Local Notation SIGN := (sign_envelope keystore ecdsa eddsa eddsa_ph).
  Local Notation CLI := (cli_sign_single keystore ecdsa eddsa eddsa_ph).
  Local Notation SW := (signed_with keystore ecdsa eddsa eddsa_ph).

  (* the premises shared by the C04 theorems: an envelope #6.t(map) whose value under key 2 is a byte string holding a list of byte
     strings none of which is a COSE_Sign1 (unsigned), one of the five algorithms, a key identifier that fits a CBOR integer *)
  Definition unsigned_input (kvs : list (cbor * cbor)) (w : bytes) (old : list cbor) : Prop :=
    dict_get kvs (CUint 2) = Some (CBytes w) /\ py_loads (CBytes w) = Ok (CArray old) /\ all_bstr old /\ first_tagged 18 old = Ok None.

  Lemma c04_signed_with ent t kvs w old kn kid alg ctx action id env' ent' :
    unsigned_input kvs w old -> spec_cose_alg alg = Some id -> 0 <= kid < 2 ^ 64 ->
    SIGN ent (CTag t (CMap kvs)) kn kid alg ctx action = Ok (env', ent') ->
    SW ent (CTag t (CMap kvs)) env' ent' w old kn kid alg ctx id.
  Proof. intros (Hw & Hold & Hb & Hn). apply sign_unsigned; assumption. Qed.

  Lemma c04_appends_one ent t kvs w old kn kid alg ctx action id env' ent' :
    unsigned_input kvs w old -> spec_cose_alg alg = Some id -> 0 <= kid < 2 ^ 64 ->
    SIGN ent (CTag t (CMap kvs)) kn kid alg ctx action = Ok (env', ent') ->
    exists sig, same_but_wrapper (CTag t (CMap kvs)) env' w
                  (encode (CArray (old ++ [CBytes (encode (cose_sign1 (encode (spec_protected id kid)) sig))]))).
  Proof.
    intros Hu Hid Hk H. destruct (c04_signed_with _ _ _ _ _ _ _ _ _ _ _ _ _ Hu Hid Hk H) as (d0 & rest & dg & sig & kind & key & Hs).
    cbv zeta in Hs. exists sig. tauto.
  Qed.

  (* file level: for a deterministically encoded input file the output file is the input file with only the wrapper value replaced *)
  Lemma c04_file_frame ent c t kvs w old kn kid alg ctx action id outfile ent' :
    wf c -> pynormal c -> c = CTag t (CMap kvs) ->
    unsigned_input kvs w old -> spec_cose_alg alg = Some id -> 0 <= kid < 2 ^ 64 ->
    CLI ent (encode c) kn kid alg ctx action = Ok (outfile, ent') ->
    exists A B sig, encode c = A ++ encode (CBytes w) ++ B
                    /\ outfile = A ++ encode (CBytes (encode (CArray (old ++ [CBytes (encode (cose_sign1 (encode (spec_protected id kid)) sig))])))) ++ B.
  Proof.
    intros Hwf Hn -> Hu Hid Hk H.
    destruct (pynormal_roundtrip _ [] Hwf Hn) as [Hl Hs]. rewrite app_nil_r in Hl.
    rewrite (cli_single_unfold keystore ecdsa eddsa eddsa_ph ent _ _ kn kid alg ctx action Hl) in H.
    destruct (SIGN ent (CTag t (CMap kvs)) kn kid alg ctx action) as [[e' n]|x] eqn:E; [|discriminate H]. injection H as <- <-.
    destruct (c04_appends_one _ _ _ _ _ _ _ _ _ _ _ _ _ Hu Hid Hk E) as (sig & Hf).
    destruct (file_frame _ _ _ _ Hf) as (A & B & HA & HB). exists A, B, sig. rewrite <- Hs. split; assumption.
  Qed.

  (* the message handed to the KMS is the Sig_structure of the block's protected header and the digest element; the key found under the
     key name has a class that matches the algorithm; and under the laws of the primitives the signature in the appended block verifies *)
  Lemma c04_sig_structure (pub : bytes -> bytes) ecdsa_verify eddsa_verify eddsa_ph_verify ent t kvs w old kn kid alg ctx action id env' ent' :
    (forall k h m n, ecdsa_verify (pub k) h m (ecdsa k h m n) = true) ->
    (forall k m, eddsa_verify (pub k) m (eddsa k m) = true) ->
    (forall k m, eddsa_ph_verify (pub k) m (eddsa_ph k m) = true) ->
    unsigned_input kvs w old -> spec_cose_alg alg = Some id -> 0 <= kid < 2 ^ 64 ->
    SIGN ent (CTag t (CMap kvs)) kn kid alg ctx action = Ok (env', ent') ->
    exists d0 rest dg sig kind key,
      old = CBytes d0 :: rest /\ py_loads (CBytes d0) = Ok dg /\ keystore ctx kn = Some (kind, key)
      /\ (match kind with KEc ks => 0 <= ks | _ => True end -> spec_key_matches kind alg = true)
      /\ same_but_wrapper (CTag t (CMap kvs)) env' w (encode (CArray (old ++ [CBytes (encode (cose_sign1 (encode (spec_protected id kid)) sig))])))
      /\ cose_verify ecdsa_verify eddsa_verify eddsa_ph_verify kind (pub key) alg
           (encode (sig_structure (encode (spec_protected id kid)) (ser dg))) sig = true.
  Proof.
    intros L1 L2 L3 Hu Hid Hk H.
    destruct (c04_signed_with _ _ _ _ _ _ _ _ _ _ _ _ _ Hu Hid Hk H) as (d0 & rest & dg & sig & kind & key & Hs). cbv zeta in Hs.
    destruct Hs as (Ho & Hd & Hks & Hv & Hr & Hf). exists d0, rest, dg, sig, kind, key. repeat split; auto.
    - intros Hpos. rewrite (key_type_spec kind alg (spec_cose_alg_five alg id Hid) Hpos) in Hv. destruct kind; congruence.
    - apply (kms_result_verifies ecdsa eddsa eddsa_ph pub ecdsa_verify eddsa_verify eddsa_ph_verify L1 L2 L3 kind key ent _ alg sig ent' Hr).
  Qed.
End C04.

(* a digest element that is a deterministically encoded item is itself the payload of the Sig_structure *)
Lemma digest_is_payload c : wf c -> pynormal c -> py_loads (CBytes (encode c)) = Ok c /\ ser c = encode c.
Proof. intros Hw Hn. pose proof (pynormal_roundtrip c [] Hw Hn) as H. rewrite app_nil_r in H. exact H. Qed.
(* SUIT_Digest = [ algorithm id, digest bytes ] is such an item *)
Lemma suit_digest_normal a h : - 2 ^ 64 <= a < 2 ^ 64 -> blen h < 2 ^ 64 -> wf (CArray [cint a; CBytes h]) /\ pynormal (CArray [cint a; CBytes h]).
Proof.
  intros Ha Hh. unfold cint. destruct (0 <=? a) eqn:E; cbn [wf pynormal]; repeat split; try lia; try exact I; unfold blen; cbn [length]; lia.
Qed.

(* toy primitives satisfy the laws *)
Lemma toy_ecdsa_law k h m n : toy_ecdsa_verify k h m (toy_ecdsa k h m n) = true.
Proof. unfold toy_ecdsa_verify, toy_ecdsa. cbn [fst snd]. rewrite !Z.eqb_refl. reflexivity. Qed.
Lemma toy_ed_law k m : toy_ed_verify k m (toy_ed k m) = true.
Proof. unfold toy_ed_verify, toy_ed. apply list_eqb_refl. Qed.

(* ------------------------------------------------------------------------------------------------------------------
   Recursive signing (C09): trees of configurations and of signers
   ------------------------------------------------------------------------------------------------------------------ *)
Section RnodeInd.
  Variable P : rnode -> Prop.
  Hypothesis H : forall f env ds, Forall P ds -> P (RNode f env ds).
  Fixpoint rnode_ind' (n : rnode) : P n :=
    match n with
    | RNode f env ds => H f env ds ((fix go (ds : list rnode) : Forall P ds :=
                                       match ds with [] => Forall_nil _ | d :: r => Forall_cons d (rnode_ind' d) (go r) end) ds)
    end.
End RnodeInd.
Section CfgInd.
  Variable P : cfg -> Prop.
  Hypothesis H : forall o kn kid s k a x act b deps, Forall (fun nc => P (snd nc)) (match deps with Some l => l | None => [] end) ->
                                                     P (Cfg o kn kid s k a x act b deps).
  Fixpoint cfg_ind' (c : cfg) : P c :=
    match c with
    | Cfg o kn kid s k a x act b deps =>
        H o kn kid s k a x act b deps
          (match deps as d return Forall (fun nc => P (snd nc)) (match d with Some l => l | None => [] end) with
           | None => Forall_nil _
           | Some l => (fix go (l : list (pystr * cfg)) : Forall (fun nc => P (snd nc)) l :=
                          match l with [] => Forall_nil _ | nc :: r => Forall_cons nc (cfg_ind' (snd nc)) (go r) end) l
           end)
    end.
End CfgInd.

(* the loops of the model as stand-alone functions (convertible with the in-line loops of the generated definitions) *)
Section Loops.
  Variable rec_sign : rnode -> nat -> res (cbor * nat * list (rfields * cbor)).
  Fixpoint sign_deps (ds : list rnode) (env : cbor) (ent : nat) (tr : list (rfields * cbor)) : res (cbor * nat * list (rfields * cbor)) :=
    match ds with
    | [] => Ok (env, ent, tr)
    | d :: r =>
        match rec_sign d ent with Raise x => Raise x | Ok (denv, ent1, tr1) =>
        match env_set env (CText (r_name (rn_fields d))) (CBytes (ser denv)) with Raise x => Raise x | Ok env1 =>
        sign_deps r env1 ent1 (tr ++ tr1) end end
    end.
  Variable rec_init : cfg -> cbor -> pystr -> res rnode.
  Variable envelope : cbor.
  Fixpoint init_deps (l : list (pystr * cfg)) : res (list rnode) :=
    match l with
    | [] => Ok []
    | (dep, dc) :: r =>
        match load_dependency envelope dep with Raise x => Raise x | Ok denv =>
        match rec_init dc denv dep with Raise x => Raise x | Ok d =>
        match init_deps r with Raise x => Raise x | Ok ds => Ok (d :: ds) end end end
    end.
End Loops.

Lemma rs_sign_unfold sc f env ds ent :
  rs_sign sc (RNode f env ds) ent =
  match sign_deps (rs_sign sc) ds env ent [] with
  | Raise x => Raise x
  | Ok (env1, ent1, tr1) =>
      if r_omit f then Ok (env1, ent1, tr1) else
      match sc f env1 ent1 with Raise x => Raise x | Ok (env2, ent2) => Ok (env2, ent2, tr1 ++ [(f, env1)]) end
  end.
Proof. reflexivity. Qed.

Lemma calls_of_unfold f env ds : calls_of (RNode f env ds) = flat_map calls_of ds ++ (if r_omit f then [] else [f]).
Proof.
  reflexivity.
Qed.

(* the trace of sign_envelope calls is determined by the tree of signers: dependencies first, then the node unless omitted *)
Lemma rs_sign_trace sc n : forall ent env' ent' tr, rs_sign sc n ent = Ok (env', ent', tr) -> map fst tr = calls_of n.
Proof.
  induction n as [f env ds IH] using rnode_ind'. intros ent env' ent' tr. rewrite rs_sign_unfold, calls_of_unfold.
  assert (Hd : forall ds, Forall (fun d => forall ent env' ent' tr, rs_sign sc d ent = Ok (env', ent', tr) -> map fst tr = calls_of d) ds ->
               forall e n0 tr0 e1 n1 tr1, sign_deps (rs_sign sc) ds e n0 tr0 = Ok (e1, n1, tr1) -> map fst tr1 = map fst tr0 ++ flat_map calls_of ds).
  { clear. induction 1 as [|d r Hd Hr IHr]; intros e n0 tr0 e1 n1 tr1; cbn [sign_deps flat_map].
    - intros [= <- <- <-]. rewrite app_nil_r. reflexivity.
    - destruct (rs_sign sc d n0) as [[[denv m] t1]|x] eqn:E; [|discriminate]. destruct (env_set e _ _) as [e2|x]; [|discriminate].
      intros H. apply IHr in H. rewrite H, map_app, (Hd _ _ _ _ E), app_assoc. reflexivity. }
  destruct (sign_deps (rs_sign sc) ds env ent []) as [[[e1 n1] t1]|x] eqn:E; [|discriminate]. apply (Hd ds IH) in E. cbn [map app] in E.
  destruct (r_omit f).
  - intros [= <- <- <-]. rewrite app_nil_r. exact E.
  - destruct (sc f e1 n1) as [[e2 n2]|x]; [|discriminate]. intros [= <- <- <-]. rewrite map_app, E. reflexivity.
Qed.

Lemma rs_init_unfold envvar o kn kid cs ck ca cx cact b deps env name ss ks alg ctx :
  rs_init envvar (Cfg o kn kid cs ck ca cx cact b deps) env name ss ks alg ctx =
  let omit_signing := match o with Some b => b | None => false end in
  if (match kn with None => true | Some _ => false end) && negb omit_signing then Raise ValueError else
  if (match kid with None => true | Some _ => false end) && negb omit_signing then Raise ValueError else
  match resolve_script envvar cs ss (s2b "NCS_SUIT_SIGN_SCRIPT") sign_suffix with Raise x => Raise x | Ok ss' =>
  match resolve_script envvar ck ks (s2b "NCS_SUIT_KMS_SCRIPT") kms_suffix with Raise x => Raise x | Ok ks' =>
  match (match ca with Some a => enum_of_value sign_algs a | None => Ok alg end) with Raise x => Raise x | Ok alg' =>
  let ctx' := match cx with Some x => Some x | None => ctx end in
  match (match cact with Some a => enum_of_value signed_actions a | None => Ok default_action end) with Raise x => Raise x | Ok act' =>
  if b then Raise ValueError else
  match (match deps with
         | None => Ok []
         | Some l => init_deps (fun dc denv dep => rs_init envvar dc denv dep (Some ss') (Some ks') alg' ctx') env l
         end) with Raise x => Raise x | Ok ds =>
  Ok (RNode {| r_name := name; r_omit := omit_signing; r_key_name := kn; r_key_id := kid; r_sign_script := ss'; r_kms_script := ks';
               r_alg := alg'; r_ctx := ctx'; r_action := act' |} env ds)
  end end end end end.
Proof. reflexivity. Qed.

Lemma spec_calls_unfold envvar path c name :
  spec_calls envvar path c name =
  flat_map (fun nc => spec_calls envvar (path ++ [c]) (snd nc) (fst nc)) (cfg_deps c) ++ (if cfg_omit c then [] else [spec_call envvar path c name]).
Proof.
  destruct c as [o kn kid cs ck ca cx cact b deps]. cbn [spec_calls cfg_deps]. f_equal.
  destruct deps as [l|]; [|reflexivity]. generalize (path ++ [Cfg o kn kid cs ck ca cx cact b (Some l)]). intros p.
  induction l as [|[dn dc] r IH]; [reflexivity|]. cbn [flat_map fst snd]. rewrite <- IH. reflexivity.
Qed.

Lemma enum_of_value_ok tbl v v' : enum_of_value tbl v = Ok v' -> v' = v.
Proof. unfold enum_of_value. destruct (enum_name list_eqb tbl v); [intros [= <-]; reflexivity|discriminate]. Qed.
Lemma default_alg_is_eddsa : default_alg = s2b "eddsa". Proof. reflexivity. Qed.
Lemma default_action_is_error : default_action = s2b "error". Proof. reflexivity. Qed.

(* what the constructor hands down a path: scripts resolved (Some) below the root, algorithm / context as inherited so far *)
Definition script_inv (envvar : pystr -> option pystr) (path : list cfg) (so : option pystr) (field : cfg -> option pystr) (var suf : pystr) : Prop :=
  match path with [] => so = None | _ => exists s, so = Some s /\ spec_script envvar (map field path) var suf = Some s end.
Definition path_inv envvar (path : list cfg) (ss ks : option pystr) (alg : pystr) (ctx : option pystr) : Prop :=
  script_inv envvar path ss cfg_sign (s2b "NCS_SUIT_SIGN_SCRIPT") sign_suffix
  /\ script_inv envvar path ks cfg_kms (s2b "NCS_SUIT_KMS_SCRIPT") kms_suffix
  /\ alg = inherit (map cfg_alg path) (s2b "eddsa") /\ ctx = inherit_opt (map cfg_ctx path).

Lemma resolve_script_spec envvar path c so field var suf s' :
  script_inv envvar path so field var suf -> resolve_script envvar (field c) so var suf = Ok s' ->
  spec_script envvar (map field (path ++ [c])) var suf = Some s'.
Proof.
  intros Hi. unfold spec_script. rewrite map_app, fold_left_app. cbn [map fold_left]. unfold resolve_script.
  destruct (field c) as [v|]; [intros [= <-]; reflexivity|].
  destruct path as [|c0 p]; cbn [script_inv] in Hi.
  - subst so. cbn [map fold_left]. unfold env_script.
    destruct (env_truthy envvar var) as [s|]; [intros [= <-]; reflexivity|].
    change (s2b "ZEPHYR_BASE") with [90; 69; 80; 72; 89; 82; 95; 66; 65; 83; 69].
    destruct (env_truthy envvar _) as [z|]; [intros [= <-]; reflexivity|discriminate].
  - destruct Hi as (s & -> & Hs). intros [= <-]. exact Hs.
Qed.
Lemma script_inv_step envvar path c field var suf s' :
  spec_script envvar (map field (path ++ [c])) var suf = Some s' -> script_inv envvar (path ++ [c]) (Some s') field var suf.
Proof. intros H. unfold script_inv. destruct (path ++ [c]) eqn:E; [destruct path; discriminate E|]. eauto. Qed.

(* the tree of signers built by the constructor makes exactly the calls the specification lists for the configuration *)
Lemma rs_init_calls envvar c : forall path env name ss ks alg ctx n,
  path_inv envvar path ss ks alg ctx -> rs_init envvar c env name ss ks alg ctx = Ok n ->
  calls_of n = spec_calls envvar path c name.
Proof.
  induction c as [o kn kid cs ck ca cx cact b deps IH] using cfg_ind'. intros path env name ss ks alg ctx n (Hs & Hk & Ha & Hx).
  rewrite rs_init_unfold. cbv zeta. intros H.
  destruct (_ && _) in H; [discriminate H|]. destruct (_ && _) in H; [discriminate H|].
  destruct (resolve_script envvar cs ss _ _) as [ss'|] eqn:Es; [|discriminate H].
  destruct (resolve_script envvar ck ks _ _) as [ks'|] eqn:Ek; [|discriminate H].
  set (c := Cfg o kn kid cs ck ca cx cact b deps) in *.
  apply (resolve_script_spec envvar path c ss cfg_sign _ _ ss' Hs) in Es.
  apply (resolve_script_spec envvar path c ks cfg_kms _ _ ks' Hk) in Ek.
  destruct (match ca with Some a => enum_of_value sign_algs a | None => Ok alg end) as [alg'|] eqn:Ea; [|discriminate H].
  assert (Ha' : alg' = inherit (map cfg_alg (path ++ [c])) (s2b "eddsa")).
  { unfold inherit. rewrite map_app, fold_left_app. cbn [map fold_left cfg_alg c]. destruct ca as [a|].
    - apply enum_of_value_ok in Ea. exact Ea.
    - injection Ea as <-. exact Ha. }
  assert (Hx' : match cx with Some x => Some x | None => ctx end = inherit_opt (map cfg_ctx (path ++ [c]))).
  { unfold inherit_opt. rewrite map_app, fold_left_app. cbn [map fold_left cfg_ctx c]. destruct cx; [reflexivity|exact Hx]. }
  destruct (match cact with Some a => enum_of_value signed_actions a | None => Ok default_action end) as [act'|] eqn:Eact; [|discriminate H].
  assert (Hact : act' = match cact with Some a => a | None => s2b "error" end).
  { destruct cact as [a|]; [apply enum_of_value_ok in Eact; exact Eact|injection Eact as <-; reflexivity]. }
  destruct b; [discriminate H|].
  assert (Hinv : path_inv envvar (path ++ [c]) (Some ss') (Some ks') alg' (match cx with Some x => Some x | None => ctx end)).
  { split; [apply script_inv_step; exact Es|]. split; [apply script_inv_step; exact Ek|]. split; assumption. }
  match type of H with match ?d with Ok _ => _ | Raise _ => _ end = _ => destruct d as [ds|] eqn:Ed; [|discriminate H] end.
  injection H as <-. rewrite calls_of_unfold, spec_calls_unfold. cbn [r_omit].
  assert (Hl : cfg_deps c = match deps with Some l => l | None => [] end) by reflexivity. rewrite Hl. clear Hl.
  set (p := path ++ [c]) in *. f_equal.
  - (* dependencies *)
    clearbody p. clear - IH Ed Hinv. destruct deps as [l|]; [|injection Ed as <-; reflexivity].
    revert ds Ed. induction l as [|[dn dc] r IHr]; intros ds; cbn [init_deps flat_map fst snd].
    + intros [= <-]. reflexivity.
    + inversion IH as [|? ? Hdc Hr]; subst. cbn [snd] in Hdc.
      destruct (load_dependency env dn) as [denv|]; [|discriminate].
      destruct (rs_init envvar dc denv dn _ _ _ _) as [d|] eqn:Ei; [|discriminate].
      destruct (init_deps _ env r) as [ds'|] eqn:Er; [|discriminate]. intros [= <-]. cbn [flat_map].
      rewrite (Hdc _ _ _ _ _ _ _ _ Hinv Ei), (IHr Hr ds' eq_refl). reflexivity.
  - (* the node itself *)
    unfold cfg_omit, c. destruct o as [[|]|]; try reflexivity; f_equal; unfold spec_call; cbn [cfg_key_name cfg_key_id cfg_action];
      fold c; fold p; rewrite Es, Ek, <- Ha', <- Hx', Hact; reflexivity.
Qed.

(* the whole command: the calls of sign_envelope, in order, are those the specification lists for the configuration *)
Lemma recursive_calls sc envvar ent infile c nm out ent' tr :
  cli_sign_recursive sc envvar ent infile c nm = Ok (out, ent', tr) -> map fst tr = spec_calls envvar [] c nm.
Proof.
  unfold cli_sign_recursive. intros H. hstep H. hstep H.
  match goal with E : rs_init _ _ _ _ _ _ _ _ = Ok ?n |- _ => rename E into Ei; rename n into sn end.
  destruct (rs_sign sc sn ent) as [[[e1 n1] t1]|] eqn:Er; [|discriminate H]. injection H as <- <- <-.
  rewrite (rs_sign_trace sc sn _ _ _ _ Er). refine (rs_init_calls envvar c [] _ _ None None default_alg None sn _ Ei).
  repeat split; reflexivity.
Qed.

(* nearest ancestor-or-self: the last element of the path that sets the attribute wins; if none does, the default *)
Lemma inherit_nearest {A} (pre post : list (option A)) v d : Forall (fun o => o = None) post -> inherit (pre ++ Some v :: post) d = v.
Proof.
  intros Hp. unfold inherit. rewrite fold_left_app. cbn [fold_left]. generalize (fold_left (fun cur o => match o with Some v0 => v0 | None => cur end) pre d). intros _.
  induction Hp as [|o post -> _ IH]; [reflexivity|exact IH].
Qed.
Lemma inherit_default {A} (path : list (option A)) d : Forall (fun o => o = None) path -> inherit path d = d.
Proof. intros Hp. unfold inherit. induction Hp as [|o post -> _ IH]; [reflexivity|exact IH]. Qed.
Lemma inherit_opt_nearest {A} (pre post : list (option A)) v : Forall (fun o => o = None) post -> inherit_opt (pre ++ Some v :: post) = Some v.
Proof.
  intros Hp. unfold inherit_opt. rewrite fold_left_app. cbn [fold_left].
  generalize (fold_left (fun cur o => match o with Some v0 => Some v0 | None => cur end) pre (@None A)). intros _.
  induction Hp as [|o post -> _ IH]; [reflexivity|exact IH].
Qed.
Lemma spec_script_nearest envvar (pre post : list (option pystr)) v var suf :
  Forall (fun o => o = None) post -> spec_script envvar (pre ++ Some v :: post) var suf = Some v.
Proof.
  intros Hp. unfold spec_script. rewrite fold_left_app. cbn [fold_left].
  generalize (fold_left (fun cur o => match o with Some v0 => Some v0 | None => cur end) pre (env_script envvar var suf)). intros _.
  induction Hp as [|o post -> _ IH]; [reflexivity|exact IH].
Qed.

(* ---- what recursive signing leaves untouched ---- *)
Lemma load_dependency_get env dn denv :
  load_dependency env dn = Ok denv -> exists t kvs b, env = CTag t (CMap kvs) /\ dict_get kvs (CText dn) = Some (CBytes b).
Proof.
  unfold load_dependency, env_map. destruct env as [| | | | | | |t c|]; try discriminate. destruct c as [| | | | |kvs| | |]; try discriminate.
  destruct (dict_get kvs (CText dn)) as [v|] eqn:G; [|discriminate]. destruct v; try discriminate. intros _. eauto.
Qed.
Lemma list_eqb_neq a b : a <> b -> list_eqb a b = false.
Proof. intros H. destruct (list_eqb a b) eqn:E; [apply list_eqb_eq in E; contradiction|reflexivity]. Qed.

Section Frame.
  Variable sc : rfields -> cbor -> nat -> res (cbor * nat).
  Hypothesis sc_frame : forall f env ent env' ent', sc f env ent = Ok (env', ent') -> only_wrapper env env'.
  Local Notation nm d := (r_name (rn_fields d)).
  Local Notation EL := (every_level frame_level).

  Lemma sign_deps_frame t : forall todo kvsc entc trc env1 ent1 tr1,
    Forall (fun d => forall ent env' ent' tr, rs_sign sc d ent = Ok (env', ent', tr) -> EL d env') todo ->
    NoDup (map (fun d => nm d) todo) ->
    (forall d, In d todo -> exists v0, dict_get kvsc (CText (nm d)) = Some v0) ->
    sign_deps (rs_sign sc) todo (CTag t (CMap kvsc)) entc trc = Ok (env1, ent1, tr1) ->
    exists kvs1, env1 = CTag t (CMap kvs1) /\ map fst kvs1 = map fst kvsc
      /\ (forall k, (forall d, In d todo -> py_eqb k (CText (nm d)) = false) -> dict_get kvs1 k = dict_get kvsc k)
      /\ (forall d, In d todo -> exists denv', dict_get kvs1 (CText (nm d)) = Some (CBytes (ser denv')) /\ EL d denv').
  Proof.
    induction todo as [|d r IHr]; intros kvsc entc trc env1 ent1 tr1 HIH Hnd Hpres; cbn [sign_deps].
    - intros [= <- <- <-]. exists kvsc. repeat split; auto. intros d [].
    - inversion HIH as [|? ? Hd Hr]; subst. cbn [map] in Hnd. inversion Hnd as [|? ? Hnotin Hnd']; subst.
      destruct (rs_sign sc d entc) as [[[denv' m] t1]|] eqn:Ed; [|discriminate]. cbn [env_set].
      set (v := CBytes (ser denv')). set (kvsc' := dict_set kvsc (CText (nm d)) v).
      assert (Hne : forall d', In d' r -> list_eqb (nm d') (nm d) = false).
      { intros d' Hin. apply list_eqb_neq. intros E. apply Hnotin. rewrite <- E. apply (in_map (fun d => nm d)). exact Hin. }
      intros H. destruct (IHr kvsc' m (trc ++ t1) env1 ent1 tr1 Hr Hnd') as (kvs1 & -> & Hkeys & Hsame & Hdeps); [|exact H|].
      { intros d' Hin. destruct (Hpres d' (or_intror Hin)) as [v0 Hv0]. exists v0. unfold kvsc'.
        rewrite dict_get_set_text; [exact Hv0|]. rewrite py_eqb_text_text. apply Hne, Hin. }
      exists kvs1. split; [reflexivity|]. split; [|split].
      + rewrite Hkeys. unfold kvsc'. destruct (Hpres d (or_introl eq_refl)) as [v0 Hv0]. apply (dict_set_keys _ _ _ _ Hv0).
      + intros k Hk. rewrite Hsame by (intros d' Hin; apply Hk; right; exact Hin). unfold kvsc'.
        apply dict_get_set_text. apply Hk. left. reflexivity.
      + intros d' [<-|Hin].
        * exists denv'. split; [|apply (Hd _ _ _ _ Ed)]. rewrite Hsame.
          -- unfold kvsc'. apply dict_get_set_same.
          -- intros d' Hin. rewrite py_eqb_text_text. rewrite list_eqb_neq; [reflexivity|].
             intros E. apply Hnotin. rewrite E. apply (in_map (fun d => nm d)). exact Hin.
        * apply Hdeps, Hin.
  Qed.

  Lemma rs_sign_frame n : rnode_ok n -> forall ent env' ent' tr, rs_sign sc n ent = Ok (env', ent', tr) -> EL n env'.
  Proof.
    induction n as [f env ds IH] using rnode_ind'. intros Hok ent env' ent' tr. rewrite rs_sign_unfold.
    inversion Hok as [? ? ? Hnd Hdeps]; subst.
    assert (IH' : Forall (fun d => forall ent env' ent' tr, rs_sign sc d ent = Ok (env', ent', tr) -> EL d env') ds).
    { apply Forall_forall. intros d Hin. rewrite Forall_forall in IH. apply (IH d Hin). apply (Hdeps d Hin). }
    destruct ds as [|d0 r].
    - (* no dependency signers *)
      cbn [sign_deps]. destruct (r_omit f).
      + intros [= <- <- <-]. constructor; [left; reflexivity|intros d []].
      + destruct (sc f env ent) as [[e2 n2]|] eqn:Es; [|discriminate]. intros [= <- <- <-].
        destruct (sc_frame _ _ _ _ _ Es) as (t & kvs & kvs' & -> & -> & Hk & Hs).
        constructor; [|intros d []]. right. exists t, kvs, kvs'. repeat split; auto.
    - destruct (load_dependency_get _ _ _ (proj1 (Hdeps d0 (or_introl eq_refl)))) as (t & kvs & b0 & -> & _).
      destruct (sign_deps (rs_sign sc) (d0 :: r) (CTag t (CMap kvs)) ent []) as [[[e1 n1] t1]|] eqn:E; [|discriminate].
      destruct (sign_deps_frame t (d0 :: r) kvs ent [] e1 n1 t1 IH' Hnd) as (kvs1 & -> & Hkeys & Hsame & Hd); [|exact E|].
      { intros d Hin. destruct (load_dependency_get _ _ _ (proj1 (Hdeps d Hin))) as (t' & kvs' & b & [= <- <-] & Hg). eauto. }
      destruct (r_omit f).
      + intros [= <- <- <-]. constructor.
        * right. exists t, kvs, kvs1. repeat split; auto. intros k _ Hk. apply Hsame. intros d Hin. apply Hk.
          unfold dep_names. cbn [rn_deps]. apply (in_map (fun d => nm d)). exact Hin.
        * cbn [rn_deps]. intros d Hin. destruct (Hd d Hin) as (denv' & Hg & Hel). exists denv'. split; [|exact Hel].
          unfold env_get, env_map. rewrite Hg. reflexivity.
      + destruct (sc f (CTag t (CMap kvs1)) n1) as [[e2 n2]|] eqn:Es; [|discriminate]. intros [= <- <- <-].
        destruct (sc_frame _ _ _ _ _ Es) as (t' & kvs1' & kvs2 & [= <- <-] & -> & Hk2 & Hs2). constructor.
        * right. exists t, kvs, kvs2. split; [reflexivity|]. split; [reflexivity|]. split; [congruence|].
          intros k Hk2' Hk. rewrite Hs2 by exact Hk2'. apply Hsame. intros d Hin. apply Hk.
          unfold dep_names. cbn [rn_deps]. apply (in_map (fun d => nm d)). exact Hin.
        * cbn [rn_deps]. intros d Hin. destruct (Hd d Hin) as (denv' & Hg & Hel). exists denv'. split; [|exact Hel].
          unfold env_get, env_map. rewrite Hs2 by reflexivity. rewrite Hg. reflexivity.
  Qed.
End Frame.

(* ---- the NCS sign script changes nothing but the entry under key 2 ---- *)
Lemma only_wrapper_set t kvs v w :
  dict_get kvs (CUint 2) = Some w -> only_wrapper (CTag t (CMap kvs)) (CTag t (CMap (dict_set kvs (CUint 2) v))).
Proof.
  intros H. exists t, kvs, (dict_set kvs (CUint 2) v). split; [reflexivity|]. split; [reflexivity|]. split.
  - apply (dict_set_keys _ _ _ _ H).
  - intros k Hk. apply dict_get_set_uint. exact Hk.
Qed.
Lemma only_wrapper_refl t kvs : only_wrapper (CTag t (CMap kvs)) (CTag t (CMap kvs)).
Proof. exists t, kvs, kvs. repeat split; reflexivity. Qed.
Lemma only_wrapper_trans a b c : only_wrapper a b -> only_wrapper b c -> only_wrapper a c.
Proof.
  intros (t & k1 & k2 & -> & -> & H1 & H2) (t' & k2' & k3 & [= <- <-] & -> & H3 & H4).
  exists t, k1, k3. split; [reflexivity|]. split; [reflexivity|]. split; [congruence|]. intros k Hk. rewrite H4, H2 by exact Hk. reflexivity.
Qed.
Lemma env_get_inv e k v : env_get e k = Ok v -> exists t kvs, e = CTag t (CMap kvs) /\ dict_get kvs k = Some v.
Proof.
  unfold env_get, env_map. destruct e as [| | | | | | |t c|]; try discriminate. destruct c as [| | | | |kvs| | |]; try discriminate.
  destruct (dict_get kvs k) as [v0|] eqn:G; [|discriminate]. intros [= <-]. eauto.
Qed.

Lemma asa_frame self a self' : already_signed_action self a = Ok self' -> only_wrapper (envelope self) (envelope self').
Proof.
  unfold already_signed_action, wrapper_key. rewrite cint_2. intros H.
  destruct (env_get (envelope self) (CUint 2)) as [w|] eqn:Eg; [|discriminate H].
  destruct (env_get_inv _ _ _ Eg) as (t & kvs & He & Hg). rewrite He in *.
  hstep H. hstep H.
  match type of H with match ?x with Ok _ => _ | Raise _ => _ end = _ => destruct x as [[blk|]|]; try discriminate H end.
  - destruct (str_lookup a asa_branches) as [[e| |]|].
    + discriminate H.
    + destruct (remove_first blk _); [|discriminate H]. unfold env_set in H. injection H as <-. cbn [envelope set_envelope].
      apply (only_wrapper_set _ _ _ _ Hg).
    + injection H as <-. cbn [envelope set__skip_signing]. rewrite He. apply only_wrapper_refl.
    + injection H as <-. rewrite He. apply only_wrapper_refl.
  - injection H as <-. rewrite He. apply only_wrapper_refl.
Qed.
Lemma add_signature_frame self sig prot self' : add_signature self sig prot None = Ok self' -> only_wrapper (envelope self) (envelope self').
Proof.
  unfold add_signature, create_authentication_block. cbv beta iota zeta. rewrite cint_2. intros H.
  destruct (env_get (envelope self) (CUint 2)) as [w|] eqn:Eg; [|discriminate H].
  destruct (env_get_inv _ _ _ Eg) as (t & kvs & He & Hg). rewrite He in *.
  hstep H. hstep H. unfold env_set in H. cbv beta iota zeta in H. injection H as <-. cbn [envelope set_envelope].
  apply (only_wrapper_set _ _ _ _ Hg).
Qed.

Lemma sign_envelope_frame keystore ecdsa eddsa eddsa_ph ent env kn kid alg ctx action env' ent' :
  sign_envelope keystore ecdsa eddsa eddsa_ph ent env kn kid alg ctx action = Ok (env', ent') -> only_wrapper env env'.
Proof.
  unfold sign_envelope. cbv zeta. intros H.
  destruct (already_signed_action _ action) as [self1|] eqn:Ea; [|discriminate H]. apply asa_frame in Ea. cbn [envelope] in Ea.
  destruct (_skip_signing self1); [injection H as <- _; exact Ea|].
  destruct (enum_name list_eqb sign_algs alg); [|discriminate H]. hstep H. cbv zeta in H. hstep H.
  match type of H with match ?x with Ok _ => _ | Raise _ => _ end = _ => destruct x as [[sg e1]|]; [|discriminate H] end.
  match type of H with match ?x with Ok _ => _ | Raise _ => _ end = _ => destruct x as [self2|] eqn:E2; [|discriminate H] end.
  injection H as <- _. apply add_signature_frame in E2. exact (only_wrapper_trans _ _ _ Ea E2).
Qed.
Lemma ncs_call_frame keystore ecdsa eddsa eddsa_ph f env ent env' ent' :
  ncs_call keystore ecdsa eddsa eddsa_ph f env ent = Ok (env', ent') -> only_wrapper env env'.
Proof.
  unfold ncs_call. destruct (r_key_name f); [|discriminate]. destruct (r_key_id f); [|discriminate]. apply sign_envelope_frame.
Qed.

(* ---- the constructor phase builds a consistent tree ---- *)
Inductive cfg_ok : cfg -> Prop :=
| CfgOk c : NoDup (map fst (cfg_deps c)) -> (forall dn dc, In (dn, dc) (cfg_deps c) -> cfg_ok dc) -> cfg_ok c.

Lemma rs_init_ok envvar c : forall env name ss ks alg ctx n,
  cfg_ok c -> rs_init envvar c env name ss ks alg ctx = Ok n -> rnode_ok n /\ rn_env n = env /\ r_name (rn_fields n) = name.
Proof.
  induction c as [o kn kid cs ck ca cx cact b deps IH] using cfg_ind'. intros env name ss ks alg ctx n Hok.
  rewrite rs_init_unfold. cbv zeta. intros H.
  destruct (_ && _) in H; [discriminate H|]. destruct (_ && _) in H; [discriminate H|].
  hstep H. hstep H. hstep H. hstep H. destruct b; [discriminate H|].
  match type of H with match ?d with Ok _ => _ | Raise _ => _ end = _ => destruct d as [ds|] eqn:Ed; [|discriminate H] end.
  injection H as <-. cbn [rn_env rn_fields r_name]. split; [|split; reflexivity].
  inversion Hok as [? Hnd Hch]; subst. cbn [cfg_deps] in *.
  destruct deps as [l|]; [|injection Ed as <-; constructor; [constructor|intros d []]].
  assert (Hl : map (fun d => r_name (rn_fields d)) ds = map fst l
               /\ forall d, In d ds -> load_dependency env (r_name (rn_fields d)) = Ok (rn_env d) /\ rnode_ok d).
  { clear Hnd Hok. revert ds Ed IH Hch. induction l as [|[dn dc] r IHr]; intros ds Ed IH Hch; cbn [init_deps] in Ed.
    - injection Ed as <-. split; [reflexivity|intros d []].
    - inversion IH as [|? ? Hdc Hr]; subst. cbn [snd] in Hdc.
      destruct (load_dependency env dn) as [denv|] eqn:El; [|discriminate].
      destruct (rs_init envvar dc denv dn _ _ _ _) as [d|] eqn:Ei; [|discriminate].
      destruct (init_deps _ env r) as [ds'|] eqn:Er; [|discriminate]. injection Ed as <-.
      destruct (Hdc _ _ _ _ _ _ _ (Hch dn dc (or_introl eq_refl)) Ei) as (Hdok & Hdenv & Hdn).
      destruct (IHr ds' eq_refl Hr (fun a b Hin => Hch a b (or_intror Hin))) as [Hn Hd].
      split; [cbn [map fst]; rewrite Hdn, Hn; reflexivity|].
      intros d' [<-|Hin]; [rewrite Hdn, Hdenv; split; assumption|apply Hd, Hin]. }
  destruct Hl as [Hn Hd]. constructor; [rewrite Hn; exact Hnd|exact Hd].
Qed.

(* ---- monotonicity of "at every level"; the manifest is among the untouched entries ---- *)
Lemma every_level_mono (P Q : rnode -> cbor -> Prop) :
  (forall n e, P n e -> Q n e) -> forall n e, every_level P n e -> every_level Q n e.
Proof.
  intros HPQ. fix IH 3. intros n e [n' e' Hp Hd]. constructor; [apply HPQ, Hp|].
  intros d Hin. destruct (Hd d Hin) as (denv' & Hg & Hel). exists denv'. split; [exact Hg|apply IH, Hel].
Qed.
Lemma frame_keeps_manifest n e : frame_level n e -> manifest_level n e.
Proof.
  unfold manifest_level. intros [->|(t & kvs & kvs' & -> & -> & _ & Hs)]; [reflexivity|].
  unfold env_get, env_map. rewrite Hs; [reflexivity|reflexivity|]. intros dn _. reflexivity.
Qed.

(* ---- omit-signing: the key attributes of such a node are never looked at ---- *)
Lemma node_omit_no_key sc envvar c kn kid env name ss ks alg ctx ent :
  cfg_omit c = true ->
  match rs_init envvar (with_keys c kn kid) env name ss ks alg ctx with Ok n => rs_sign sc n ent | Raise x => Raise x end =
  match rs_init envvar (with_keys c None None) env name ss ks alg ctx with Ok n => rs_sign sc n ent | Raise x => Raise x end.
Proof.
  destruct c as [o kn0 kid0 cs ck ca cx cact b deps]. cbn [cfg_omit with_keys]. destruct o as [[|]|]; try discriminate. intros _.
  rewrite !rs_init_unfold. cbv zeta. cbn [negb]. rewrite !Bool.andb_false_r.
  destruct (resolve_script envvar cs ss _ _); [|reflexivity]. destruct (resolve_script envvar ck ks _ _); [|reflexivity].
  destruct (match ca with Some a => enum_of_value sign_algs a | None => Ok alg end); [|reflexivity].
  destruct (match cact with Some a => enum_of_value signed_actions a | None => Ok default_action end); [|reflexivity].
  destruct b; [reflexivity|].
  match goal with |- match match ?d with Ok _ => _ | Raise _ => _ end with Ok _ => _ | Raise _ => _ end = _ => destruct d; [|reflexivity] end.
  rewrite !rs_sign_unfold. cbn [r_omit]. reflexivity.
Qed.

(* ---- a bad dependency anywhere in the configuration stops the constructor phase: nothing has been signed yet ---- *)
Lemma init_deps_raises rec env l :
  (exists dn dc, In (dn, dc) l /\ ((exists e, load_dependency env dn = Raise e)
                                   \/ exists denv e, load_dependency env dn = Ok denv /\ rec dc denv dn = Raise e)) ->
  exists e, init_deps rec env l = Raise e.
Proof.
  induction l as [|[dn0 dc0] r IH]; intros (dn & dc & Hin & Hbad); [destruct Hin|]. cbn [init_deps].
  destruct (load_dependency env dn0) as [denv0|e0] eqn:El; [|eauto].
  destruct (rec dc0 denv0 dn0) as [d0|e0] eqn:Er; [|eauto].
  destruct Hin as [[= -> ->]|Hin].
  - destruct Hbad as [[e He]|(denv & e & Hl & Hr)]; [congruence|]. rewrite El in Hl. injection Hl as <-. congruence.
  - destruct (IH (ex_intro _ dn (ex_intro _ dc (conj Hin Hbad)))) as [e He]. rewrite He. eauto.
Qed.
Lemma bad_dependency_raises envvar c env :
  bad_dependency c env -> forall name ss ks alg ctx, exists e, rs_init envvar c env name ss ks alg ctx = Raise e.
Proof.
  induction 1 as [c env dn dc e Hin Hl|c env dn dc denv Hin Hl Hbad IH]; intros name ss ks alg ctx;
    destruct c as [o kn kid cs ck ca cx cact b deps]; rewrite rs_init_unfold; cbv zeta; cbn [cfg_deps] in Hin;
    (destruct (_ && _); [eauto|]); (destruct (_ && _); [eauto|]);
    (destruct (resolve_script envvar cs ss _ _) as [ss'|]; [|eauto]); (destruct (resolve_script envvar ck ks _ _) as [ks'|]; [|eauto]);
    (destruct (match ca with Some a => enum_of_value sign_algs a | None => Ok alg end) as [alg'|]; [|eauto]);
    (destruct (match cact with Some a => enum_of_value signed_actions a | None => Ok default_action end); [|eauto]);
    (destruct b; [eauto|]); (destruct deps as [l|]; [|destruct Hin]).
  - destruct (init_deps_raises (fun dc denv dep => rs_init envvar dc denv dep (Some ss') (Some ks') alg' (match cx with Some x => Some x | None => ctx end)) env l) as [e' He'].
    + exists dn, dc. split; [exact Hin|]. left. eauto.
    + rewrite He'. eauto.
  - destruct (init_deps_raises (fun dc denv dep => rs_init envvar dc denv dep (Some ss') (Some ks') alg' (match cx with Some x => Some x | None => ctx end)) env l) as [e' He'].
    + exists dn, dc. split; [exact Hin|]. right. destruct (IH dn (Some ss') (Some ks') alg' (match cx with Some x => Some x | None => ctx end)) as [e He]. eauto.
    + rewrite He'. eauto.
Qed.

(* ------------------------------------------------------------------------------------------------------------------
   C09: the statements of Props/C09.v
   ------------------------------------------------------------------------------------------------------------------ *)
Section C09.
  Variable keystore : option bytes -> bytes -> option (keykind * bytes).
  Variable ecdsa : bytes -> bytes -> bytes -> nat -> Z * Z.
  Variable eddsa eddsa_ph : bytes -> bytes -> bytes.
  Local Notation SIGN := (sign_envelope keystore ecdsa eddsa eddsa_ph).
  Local Notation CLI := (cli_sign_single keystore ecdsa eddsa eddsa_ph).
  Local Notation NCS := (ncs_call keystore ecdsa eddsa eddsa_ph).

  (* the input already bears a signature: its wrapper holds a list in which a0 is the first COSE_Sign1 block *)
  Definition signed_input (kvs : list (cbor * cbor)) (w : bytes) (old : list cbor) (a0 : cbor) : Prop :=
    dict_get kvs (CUint 2) = Some (CBytes w) /\ py_loads (CBytes w) = Ok (CArray old) /\ first_tagged 18 old = Ok (Some a0).

  Lemma c09_error_refuses ent infile t kvs w old a0 kn kid alg ctx :
    load_envelope infile = Ok (CTag t (CMap kvs)) -> signed_input kvs w old a0 ->
    SIGN ent (CTag t (CMap kvs)) kn kid alg ctx act_error = Raise SignerError
    /\ CLI ent infile kn kid alg ctx act_error = Raise SignerError.
  Proof.
    intros Hl (Hw & Hold & Hf). pose proof (sign_error keystore ecdsa eddsa eddsa_ph ent t kvs w old a0 kn kid alg ctx Hw Hold Hf) as H.
    split; [exact H|]. rewrite (cli_single_unfold keystore ecdsa eddsa eddsa_ph ent infile _ kn kid alg ctx act_error Hl), H. reflexivity.
  Qed.

  Lemma c09_skip_identity ent infile t kvs w old a0 kn kid alg ctx :
    load_envelope infile = Ok (CTag t (CMap kvs)) -> signed_input kvs w old a0 ->
    SIGN ent (CTag t (CMap kvs)) kn kid alg ctx act_skip = Ok (CTag t (CMap kvs), ent)
    /\ CLI ent infile kn kid alg ctx act_skip = Ok (ser (CTag t (CMap kvs)), ent).
  Proof.
    intros Hl (Hw & Hold & Hf). pose proof (sign_skip keystore ecdsa eddsa eddsa_ph ent t kvs w old a0 kn kid alg ctx Hw Hold Hf) as H.
    split; [exact H|]. rewrite (cli_single_unfold keystore ecdsa eddsa eddsa_ph ent infile _ kn kid alg ctx act_skip Hl), H. reflexivity.
  Qed.
  (* ... for a deterministically encoded input file the output file is the input file *)
  Lemma c09_skip_file ent c t kvs w old a0 kn kid alg ctx :
    wf c -> pynormal c -> c = CTag t (CMap kvs) -> signed_input kvs w old a0 ->
    CLI ent (encode c) kn kid alg ctx act_skip = Ok (encode c, ent).
  Proof.
    intros Hwf Hn -> Hs. destruct (pynormal_roundtrip _ [] Hwf Hn) as [Hl Hser]. rewrite app_nil_r in Hl.
    destruct (c09_skip_identity ent _ t kvs w old a0 kn kid alg ctx Hl Hs) as [_ H]. rewrite H, Hser. reflexivity.
  Qed.

  (* remove-old: the first old block goes, everything else keeps its place, the new block comes last and verifies *)
  Lemma c09_remove_old (pub : bytes -> bytes) ecdsa_verify eddsa_verify eddsa_ph_verify ent t kvs w old a0 kn kid alg ctx id env' ent' :
    (forall k h m n, ecdsa_verify (pub k) h m (ecdsa k h m n) = true) ->
    (forall k m, eddsa_verify (pub k) m (eddsa k m) = true) ->
    (forall k m, eddsa_ph_verify (pub k) m (eddsa_ph k m) = true) ->
    signed_input kvs w old a0 -> bstr_list old -> blen old < 2 ^ 64 -> spec_cose_alg alg = Some id -> 0 <= kid < 2 ^ 64 ->
    SIGN ent (CTag t (CMap kvs)) kn kid alg ctx act_remove_old = Ok (env', ent') ->
    exists pre post x d0 rest dg sig kind key,
      old = pre ++ a0 :: post /\ first_tagged 18 pre = Ok None /\ py_loads a0 = Ok (CTag 18 x)
      /\ pre ++ post = CBytes d0 :: rest /\ py_loads (CBytes d0) = Ok dg /\ keystore ctx kn = Some (kind, key)
      /\ same_but_wrapper (CTag t (CMap kvs)) env' w
           (encode (CArray ((pre ++ post) ++ [CBytes (encode (cose_sign1 (encode (spec_protected id kid)) sig))])))
      /\ cose_verify ecdsa_verify eddsa_verify eddsa_ph_verify kind (pub key) alg
           (encode (sig_structure (encode (spec_protected id kid)) (ser dg))) sig = true.
  Proof.
    intros L1 L2 L3 (Hw & Hold & Hf) Hb Hl Hid Hk H.
    destruct (sign_remove_old keystore ecdsa eddsa eddsa_ph ent t kvs w old a0 kn kid alg ctx id env' ent' Hw Hold Hb Hl Hf Hid Hk H)
      as (pre & post & x & d0 & rest & dg & sig & kind & key & Hs). cbv zeta in Hs.
    destruct Hs as (Ho & Hpre & Ha & Hc & Hd & Hks & Hv & Hr & Hfr).
    exists pre, post, x, d0, rest, dg, sig, kind, key. repeat split; auto.
    apply (kms_result_verifies ecdsa eddsa eddsa_ph pub ecdsa_verify eddsa_verify eddsa_ph_verify L1 L2 L3 kind key ent _ alg sig ent' Hr).
  Qed.

  (* a key of the wrong class is refused: by the KMS with ValueError, hence by the command, which then writes nothing *)
  Lemma c09_key_mismatch ent infile t kvs w old d0 rest dg kn kid alg ctx action id kind key :
    load_envelope infile = Ok (CTag t (CMap kvs)) ->
    dict_get kvs (CUint 2) = Some (CBytes w) -> py_loads (CBytes w) = Ok (CArray old) -> first_tagged 18 old = Ok None ->
    old = d0 :: rest -> py_loads d0 = Ok dg -> spec_cose_alg alg = Some id ->
    keystore ctx kn = Some (kind, key) -> match kind with KEc ks => 0 <= ks | _ => True end -> spec_key_matches kind alg = false ->
    (forall msg, kms_sign keystore ecdsa eddsa eddsa_ph ent msg kn alg ctx = Raise ValueError)
    /\ CLI ent infile kn kid alg ctx action = Raise ValueError.
  Proof.
    intros Hl Hw Hold Hn Ho Hd Hid Hk Hks Hm. split.
    - intros msg. apply (kms_mismatch keystore ecdsa eddsa eddsa_ph ent msg kn alg ctx kind key (spec_cose_alg_five alg id Hid) Hk Hks Hm).
    - rewrite (cli_single_unfold keystore ecdsa eddsa eddsa_ph ent infile _ kn kid alg ctx action Hl).
      rewrite (sign_mismatch keystore ecdsa eddsa eddsa_ph ent t kvs w old d0 rest dg kn kid alg ctx action id kind key Hw Hold Hn Ho Hd Hid Hk Hks Hm).
      reflexivity.
  Qed.

  (* recursive signing with the NCS script: what is left untouched, at every level *)
  Lemma c09_recursive_frame envvar ent infile c nm out ent' tr :
    cfg_ok c -> cli_sign_recursive NCS envvar ent infile c nm = Ok (out, ent', tr) ->
    exists env n env', load_envelope infile = Ok env /\ rs_init envvar c env nm None None default_alg None = Ok n /\ rn_env n = env
                       /\ out = ser env' /\ every_level frame_level n env' /\ every_level manifest_level n env'.
  Proof.
    intros Hok. unfold cli_sign_recursive. intros H. hstep H. hstep H.
    match goal with E : rs_init _ _ _ _ _ _ _ _ = Ok ?n |- _ => rename E into Ei; rename n into sn end.
    destruct (rs_sign NCS sn ent) as [[[e1 n1] t1]|] eqn:Er; [|discriminate H]. injection H as <- <- <-.
    destruct (rs_init_ok envvar c _ _ _ _ _ _ _ Hok Ei) as (Hrok & Henv & _).
    pose proof (rs_sign_frame NCS (ncs_call_frame keystore ecdsa eddsa eddsa_ph) sn Hrok _ _ _ _ Er) as Hf.
    exists a, sn, e1. split; [reflexivity|]. split; [exact Ei|]. split; [exact Henv|]. split; [reflexivity|]. split; [exact Hf|].
    apply (every_level_mono _ _ frame_keeps_manifest _ _ Hf).
  Qed.
End C09.

Lemma c09_omit_cli sc envvar ent infile c nm kn kid :
  cfg_omit c = true ->
  cli_sign_recursive sc envvar ent infile (with_keys c kn kid) nm = cli_sign_recursive sc envvar ent infile (with_keys c None None) nm.
Proof.
  intros Ho. unfold cli_sign_recursive. destruct (load_envelope infile) as [env|]; [|reflexivity].
  pose proof (node_omit_no_key sc envvar c kn kid env nm None None default_alg None ent Ho) as H.
  destruct (rs_init envvar (with_keys c kn kid) env nm None None default_alg None) as [n1|x1];
    destruct (rs_init envvar (with_keys c None None) env nm None None default_alg None) as [n2|x2].
  - rewrite H. reflexivity.
  - rewrite H. reflexivity.
  - rewrite <- H. reflexivity.
  - injection H as ->. reflexivity.
Qed.

Lemma c09_bad_dependency envvar infile env c nm :
  load_envelope infile = Ok env -> bad_dependency c env ->
  exists e, forall sc ent, cli_sign_recursive sc envvar ent infile c nm = Raise e.
Proof.
  intros Hl Hb. destruct (bad_dependency_raises envvar c env Hb nm None None default_alg None) as [e He].
  exists e. intros sc ent. unfold cli_sign_recursive. rewrite Hl, He. reflexivity.
Qed.
