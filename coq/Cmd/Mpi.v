(* Cmd/Mpi.v — lemmas about the MPI model.  The model (gen/GenMpi.v) is regenerated from suit_generator/cmd_mpi.py on
   every run; the proofs never mention generated names.  uuid5 and sha256 are Section variables. *)
From Verif Require Import Base.Prim Base.PrimFacts Base.Mem Base.MemFacts gen.GenMpi.

#[local] Arguments Z.add : simpl never.
#[local] Arguments Z.sub : simpl never.
#[local] Arguments Z.mul : simpl never.

(* ---------------------------------------------------------------- specification side (written by hand) *)
(* policy bytes: 1 = off / none, 2 = on / update, 3 = update-and-boot *)
Definition on_off (b : bool) : Z := if b then 2 else 1.
Definition s_update : pystr := [117; 112; 100; 97; 116; 101].                                                   (* "update" *)
Definition s_update_and_boot : pystr := [117; 112; 100; 97; 116; 101; 45; 97; 110; 100; 45; 98; 111; 111; 116].  (* "update-and-boot" *)
Definition sv_policy (sv : option pystr) : option Z :=
  match sv with
  | None => Some 1
  | Some s => if list_eqb s s_update then Some 2 else if list_eqb s s_update_and_boot then Some 3 else None
  end.
(* the 48-byte record: version 1, three policy bytes, twelve reserved 0xFF, vendor UUID, class UUID *)
Definition mpi_bytes (dp iu sv : Z) (vid cid : bytes) : bytes := [1; dp; iu; sv] ++ repeat 255 12 ++ vid ++ cid.

Definition inside (address size : Z) (f : mem) : Prop := forall a b, get f a = Some b -> address <= a < address + size.
Definition nonempty (f : mem) : Prop := exists a, has f a = true.
Definition disjoint (f g : mem) : Prop := forall a, has f a = true -> has g a = true -> False.
(* the byte the first of the images holds at a *)
Fixpoint getl (fl : list mem) (a : Z) : option Z :=
  match fl with
  | [] => None
  | f :: r => match get f a with Some b => Some b | None => getl r a end
  end.

Lemma mpi_bytes_len dp iu sv vid cid : blen vid = 16 -> blen cid = 16 -> blen (mpi_bytes dp iu sv vid cid) = 48.
Proof. intros Hv Hc. unfold mpi_bytes. autorewrite with blen. cbn [Z.of_nat]. lia. Qed.

Lemma getl_in fl f a b : ForallOrdPairs disjoint fl -> In f fl -> get f a = Some b -> getl fl a = Some b.
Proof.
  intros HP. induction HP as [|g r Hg HP IH]; intros Hin G; [destruct Hin|]. cbn [getl].
  destruct Hin as [->|Hin]; [rewrite G; reflexivity|].
  destruct (get g a) as [c|] eqn:Gg; [|apply IH; assumption].
  exfalso. rewrite Forall_forall in Hg. apply (Hg f Hin a); apply has_get; eauto.
Qed.
Lemma getl_none fl a : (forall f, In f fl -> get f a = None) -> getl fl a = None.
Proof.
  induction fl as [|g r IH]; intros H; [reflexivity|]. cbn [getl]. rewrite (H g (or_introl eq_refl)).
  apply IH. intros f Hf. apply H. right. exact Hf.
Qed.
Lemma FOP_split {A} (R : A -> A -> Prop) l1 f l2 g l3 : ForallOrdPairs R (l1 ++ f :: l2 ++ g :: l3) -> R f g.
Proof.
  induction l1 as [|x l1 IH]; cbn [app]; intros H; inversion H as [|? ? HF HP]; subst.
  - rewrite Forall_forall in HF. apply HF. apply in_elt.
  - apply IH. exact HP.
Qed.

Section GenerateFacts.
Variable uuid5 : bytes -> bytes -> bytes.

(* ---------------------------------------------------------------- generate *)
Ltac eval_to_bytes :=
  repeat match goal with
  | |- context [to_bytes_little ?n ?x] => let v := eval vm_compute in (to_bytes_little n x) in change (to_bytes_little n x) with v
  | |- context [to_bytes_big ?n ?x] => let v := eval vm_compute in (to_bytes_big n x) in change (to_bytes_big n x) with v
  end.

Lemma record_ok outf vendor class address size dp iu sv k :
  sv_policy sv = Some k ->
  mpi_record uuid5 outf vendor class address size dp iu sv =
    Ok (ljust (mpi_bytes (on_off dp) (on_off iu) k (uuid5 ns_dns vendor) (uuid5 (uuid5 ns_dns vendor) class)) size 255, address).
Proof.
  unfold sv_policy, s_update, s_update_and_boot, mpi_record. intros Hk.
  destruct dp, iu; destruct sv as [s|];
    repeat match type of Hk with context [list_eqb ?a ?b] => destruct (list_eqb a b) end;
    try discriminate; injection Hk as <-; eval_to_bytes; cbv beta iota zeta; reflexivity.
Qed.

Lemma record_bad_policy outf vendor class address size dp iu sv :
  sv_policy sv = None -> mpi_record uuid5 outf vendor class address size dp iu sv = Raise GeneratorError.
Proof.
  unfold sv_policy, s_update, s_update_and_boot, mpi_record. intros Hk.
  destruct dp, iu; destruct sv as [s|];
    repeat match type of Hk with context [list_eqb ?a ?b] => destruct (list_eqb a b) end;
    try discriminate; reflexivity.
Qed.

Hypothesis uuid5_len : forall ns name, blen (uuid5 ns name) = 16.

Theorem record_layout outf vendor class address size dp iu sv k :
  sv_policy sv = Some k -> 48 <= size ->
  let rec := mpi_bytes (on_off dp) (on_off iu) k (uuid5 ns_dns vendor) (uuid5 (uuid5 ns_dns vendor) class) in
  mpi_generate uuid5 outf vendor class address size dp iu sv
    = Ok (frombytes mem_empty (rec ++ repeat 255 (Z.to_nat (size - 48))) address)
  /\ blen rec = 48 /\ blen (rec ++ repeat 255 (Z.to_nat (size - 48))) = size.
Proof.
  intros Hk Hs rec. assert (Hl : blen rec = 48) by (apply mpi_bytes_len; apply uuid5_len).
  split; [|split; [exact Hl|rewrite blen_app, blen_repeat; lia]].
  unfold mpi_generate. rewrite (record_ok _ _ _ _ _ _ _ _ k Hk). fold rec. unfold ljust. rewrite Hl. reflexivity.
Qed.

(* what a device reads: the record byte at offset i, 0xFF up to the reserved size, nothing elsewhere *)
Theorem record_read outf vendor class address size dp iu sv k img :
  sv_policy sv = Some k -> 48 <= size ->
  mpi_generate uuid5 outf vendor class address size dp iu sv = Ok img ->
  let rec := mpi_bytes (on_off dp) (on_off iu) k (uuid5 ns_dns vendor) (uuid5 (uuid5 ns_dns vendor) class) in
  (forall i, 0 <= i < 48 -> get img (address + i) = nth_error rec (Z.to_nat i)) /\
  (forall i, 48 <= i < size -> get img (address + i) = Some 255) /\
  (forall a, a < address \/ address + size <= a -> get img a = None).
Proof.
  intros Hk Hs Hg rec. destruct (record_layout outf vendor class address size dp iu sv k Hk Hs) as (E & Hl & Hl2).
  fold rec in E, Hl, Hl2. set (d := rec ++ repeat 255 (Z.to_nat (size - 48))) in *.
  assert (Himg : img = frombytes mem_empty d address) by congruence. rewrite Himg. clear Himg Hg E. repeat split.
  - intros i Hi. rewrite get_frombytes, Hl2. replace ((address <=? address + i) && (address + i <? address + size)) with true by lia.
    replace (address + i - address) with i by lia. unfold d. apply nth_error_app1. unfold blen in Hl. lia.
  - intros i Hi. rewrite get_frombytes, Hl2. replace ((address <=? address + i) && (address + i <? address + size)) with true by lia.
    replace (address + i - address) with i by lia. unfold d. rewrite nth_error_app2 by (unfold blen in Hl; lia).
    rewrite (nth_error_nth' _ 255) by (rewrite repeat_length; unfold blen in Hl; lia). f_equal. apply nth_repeat.
  - intros a Ha. apply get_frombytes_outside. rewrite Hl2. exact Ha.
Qed.

Theorem bad_policy_rejected outf vendor class address size dp iu sv :
  sv_policy sv = None -> mpi_generate uuid5 outf vendor class address size dp iu sv = Raise GeneratorError.
Proof. intros Hk. unfold mpi_generate. rewrite (record_bad_policy _ _ _ _ _ _ _ _ Hk). reflexivity. Qed.

End GenerateFacts.

(* ---------------------------------------------------------------- merge *)
Section MergeFacts.
Variable sha256 : bytes -> bytes.
Ltac step :=
  match goal with
  | |- context [if ?c then _ else _] => destruct c eqn:?
  end.

Lemma merge_check_ok A S f : merge_check A S f = Ok tt -> nonempty f /\ inside A S f.
Proof.
  unfold merge_check. destruct (minaddr f) as [lo|] eqn:Elo; [|discriminate]. destruct (maxaddr f) as [hi|] eqn:Ehi; [|discriminate].
  step; [discriminate|]. intros _. split.
  - exists lo. apply minaddr_has. exact Elo.
  - intros a b G. pose proof (minaddr_le f lo a b Elo G). pose proof (maxaddr_ge f hi a b Ehi G). lia.
Qed.
Lemma merge_check_inside A S f : nonempty f -> inside A S f -> merge_check A S f = Ok tt.
Proof.
  intros Hn Hi. unfold merge_check. apply minaddr_some_iff in Hn. destruct Hn as [lo Elo]. rewrite Elo.
  destruct (maxaddr f) as [hi|] eqn:Ehi; [|apply minaddr_maxaddr_none in Ehi; congruence].
  pose proof (minaddr_has f lo Elo) as H1. pose proof (maxaddr_has f hi Ehi) as H2. apply has_get in H1, H2.
  destruct H1 as [b1 H1]. destruct H2 as [b2 H2]. apply Hi in H1, H2.
  step; [lia|reflexivity].
Qed.
Lemma merge_check_outside A S f a b : get f a = Some b -> a < A \/ A + S <= a -> merge_check A S f = Raise GeneratorError.
Proof.
  intros G Ha. unfold merge_check.
  destruct (minaddr f) as [lo|] eqn:Elo; [|rewrite (minaddr_none f Elo a) in G; discriminate].
  destruct (maxaddr f) as [hi|] eqn:Ehi; [|rewrite (maxaddr_none f Ehi a) in G; discriminate].
  pose proof (minaddr_le f lo a b Elo G). pose proof (maxaddr_ge f hi a b Ehi G).
  step; [reflexivity|lia].
Qed.
Lemma merge_check_empty A S f : (forall a, get f a = None) -> merge_check A S f = Raise TypeError.
Proof.
  intros H. unfold merge_check. destruct (minaddr f) as [lo|] eqn:Elo; [|reflexivity].
  apply minaddr_has, has_get in Elo. destruct Elo as [b Elo]. rewrite H in Elo. discriminate.
Qed.

Lemma loop_spec A S fl : forall acc m, merge_loop A S fl acc = MOk m ->
  Forall (fun f => nonempty f /\ inside A S f) fl /\ (forall f, In f fl -> disjoint acc f) /\ ForallOrdPairs disjoint fl /\
  (forall a, get m a = match get acc a with Some b => Some b | None => getl fl a end).
Proof.
  induction fl as [|f r IH]; intros acc m H; cbn [merge_loop] in H.
  - injection H as <-. repeat split; [constructor|intros f []|constructor|]. intros a. cbn [getl]. destruct (get acc a); reflexivity.
  - destruct (merge_check A S f) as [[]|e] eqn:C; [|discriminate].
    destruct (merge acc f) as [acc'|] eqn:M; [|discriminate].
    apply IH in H. destruct H as (HF & HD & HP & HG).
    pose proof (merge_some _ _ _ M) as [Hdis _]. pose proof (fun a => merge_get_either _ _ _ a M) as Hget.
    assert (Hhas : forall a, has acc a = true \/ has f a = true -> has acc' a = true).
    { intros a Ha. apply has_get. rewrite Hget. destruct Ha as [Ha|Ha]; apply has_get in Ha; destruct Ha as [b Ha].
      - rewrite Ha. eauto.
      - destruct (get acc a); eauto. }
    repeat split.
    + constructor; [apply merge_check_ok; exact C|exact HF].
    + intros g [<-|Hg]; [exact Hdis|]. intros a Ha Hb. apply (HD g Hg a); [apply Hhas; left; exact Ha|exact Hb].
    + constructor; [|exact HP]. apply Forall_forall. intros g Hg a Ha Hb. apply (HD g Hg a); [apply Hhas; right; exact Ha|exact Hb].
    + intros a. rewrite HG, Hget. cbn [getl]. destruct (get acc a); reflexivity.
Qed.

Lemma loop_complete A S fl : forall acc,
  Forall (fun f => nonempty f /\ inside A S f) fl -> (forall f, In f fl -> disjoint acc f) -> ForallOrdPairs disjoint fl ->
  exists m, merge_loop A S fl acc = MOk m.
Proof.
  induction fl as [|f r IH]; intros acc HF HD HP; cbn [merge_loop]; [eexists; reflexivity|].
  inversion HF as [|? ? [Hn Hi] HF']; subst. inversion HP as [|? ? Hfr HP']; subst.
  rewrite (merge_check_inside A S f Hn Hi).
  destruct (merge acc f) as [acc'|] eqn:M.
  - apply IH; [exact HF'| |exact HP'].
    intros g Hg a Ha Hb. apply has_get in Ha. destruct Ha as [b Ha]. rewrite (merge_get_either _ _ _ _ M) in Ha.
    destruct (get acc a) as [c|] eqn:Ga.
    + apply (HD g (or_intror Hg) a); [apply has_get; eauto|exact Hb].
    + rewrite Forall_forall in Hfr. apply (Hfr g Hg a); [apply has_get; eauto|exact Hb].
  - exfalso. apply merge_none in M. destruct M as (a & Ha & Hb). apply (HD f (or_introl eq_refl) a Ha Hb).
Qed.

Definition files_of (files : option (list mem)) : list mem := match files with None => [] | Some l => l end.

Lemma mpi_merge_inv A S files img : mpi_merge sha256 A S files = MOk img ->
  exists m, merge_loop A S (files_of files) mem_empty = MOk m.
Proof.
  unfold mpi_merge, files_of. destruct (merge_loop A S _ mem_empty) as [m|e|]; try discriminate. intros _. eexists; reflexivity.
Qed.

Theorem merge_image A S files img :
  0 < S -> mpi_merge sha256 A S files = MOk img ->
  let fl := files_of files in
  exists area,
    img = frombytes mem_empty (area ++ sha256 area) A /\ blen area = S /\
    Forall (fun f => nonempty f /\ inside A S f) fl /\ ForallOrdPairs disjoint fl /\
    (forall f a b, In f fl -> get f a = Some b -> nth_error area (Z.to_nat (a - A)) = Some b) /\
    (forall a, A <= a < A + S -> (forall f, In f fl -> get f a = None) -> nth_error area (Z.to_nat (a - A)) = Some 255).
Proof.
  intros HS H fl. unfold mpi_merge in H. fold (files_of files) in H. fold fl in H.
  destruct (merge_loop A S fl mem_empty) as [m|e|] eqn:L; try discriminate.
  apply loop_spec in L. destruct L as (HF & _ & HP & HG).
  cbv zeta in H. injection H as <-.
  match goal with |- context [tobinstr m ?s ?e ?p] => set (area := tobinstr m s e p) end.
  exists area. unfold merge_padding in area. repeat split; try assumption.
  - subst area. rewrite tobinstr_length by lia. lia.
  - intros f a b Hin G. rewrite Forall_forall in HF. destruct (HF f Hin) as [_ Hi]. specialize (Hi a b G).
    subst area. apply tobinstr_nth_present; [lia|]. rewrite HG. cbn [get mem_empty]. apply (getl_in fl f a b HP Hin G).
  - intros a Ha Hnone. subst area. apply tobinstr_nth_absent; [lia|]. rewrite HG. cbn [get mem_empty]. apply getl_none. exact Hnone.
Qed.

Theorem merge_accepts A S files :
  Forall (fun f => nonempty f /\ inside A S f) (files_of files) -> ForallOrdPairs disjoint (files_of files) ->
  exists img, mpi_merge sha256 A S files = MOk img.
Proof.
  intros HF HP. destruct (loop_complete A S (files_of files) mem_empty HF) as [m L]; [|exact HP|].
  - intros f _ a Ha. cbn in Ha. discriminate.
  - unfold mpi_merge. fold (files_of files). rewrite L. eexists; reflexivity.
Qed.

Theorem outside_rejected A S files f a b :
  In f (files_of files) -> get f a = Some b -> a < A \/ A + S <= a -> forall img, mpi_merge sha256 A S files <> MOk img.
Proof.
  intros Hin G Ha img H. apply mpi_merge_inv in H. destruct H as [m L]. apply loop_spec in L. destruct L as (HF & _).
  rewrite Forall_forall in HF. destruct (HF f Hin) as [_ Hi]. specialize (Hi a b G). lia.
Qed.

Theorem overlap_rejected A S files l1 f l2 g l3 a :
  files_of files = l1 ++ f :: l2 ++ g :: l3 -> has f a = true -> has g a = true -> forall img, mpi_merge sha256 A S files <> MOk img.
Proof.
  intros E Hf Hg img H. apply mpi_merge_inv in H. destruct H as [m L]. apply loop_spec in L. destruct L as (_ & _ & HP & _).
  rewrite E in HP. apply FOP_split in HP. apply (HP a Hf Hg).
Qed.

Theorem empty_input_rejected A S files f :
  In f (files_of files) -> (forall a, get f a = None) -> forall img, mpi_merge sha256 A S files <> MOk img.
Proof.
  intros Hin Hn img H. apply mpi_merge_inv in H. destruct H as [m L]. apply loop_spec in L. destruct L as (HF & _).
  rewrite Forall_forall in HF. destruct (HF f Hin) as [[a Ha] _]. apply has_get in Ha. destruct Ha as [b Ha]. rewrite Hn in Ha. discriminate.
Qed.

(* the first input that reaches outside is reported as the tool's own error *)
Theorem outside_is_generator_error A S f r acc a b :
  get f a = Some b -> a < A \/ A + S <= a -> merge_loop A S (f :: r) acc = MRaise GeneratorError.
Proof. intros G Ha. cbn [merge_loop]. rewrite (merge_check_outside A S f a b G Ha). reflexivity. Qed.

End MergeFacts.
