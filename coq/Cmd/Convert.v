(* Cmd/Convert.v — lemmas behind Props/C15.v about the model regenerated in gen/GenConvert.v (KeyConverter of
   cmd_convert.py).  Specification: Cmd/ConvertSpec.v.  Proof scripts never mention generated variable names. *)
From Verif Require Import Base.Prim Base.PrimFacts Cmd.StrLemmas Cmd.ConvertSpec gen.GenConvert.

(* ================================================================== fixed-width coordinates *)
Lemma to_bytes_big_ok n x : 0 <= n -> 0 <= x < 256 ^ n -> to_bytes_big n x = Ok (be (Z.to_nat n) x).
Proof.
  intros Hn Hx. unfold to_bytes_big.
  assert ((0 <=? n) && (0 <=? x) && (x <? 256 ^ n) = true) as -> by lia. reflexivity.
Qed.

Lemma pow_width ks : 0 <= ks -> 2 ^ ks <= 256 ^ ((ks + 7) / 8).
Proof.
  intros H. change 256 with (2 ^ 8). rewrite <- Z.pow_mul_r by lia. apply Z.pow_le_mono_r; lia.
Qed.

Lemma firstn_app_exact {A} (a b : list A) : firstn (length a) (a ++ b) = a.
Proof. rewrite firstn_app, Nat.sub_diag, firstn_all. cbn. apply app_nil_r. Qed.
Lemma skipn_app_exact {A} (a b : list A) : skipn (length a) (a ++ b) = b.
Proof. rewrite skipn_app, skipn_all, Nat.sub_diag. reflexivity. Qed.

(* X || Y, each coordinate big-endian on exactly ceil(key_size / 8) bytes, for every point with coordinates below
   2^key_size *)
Lemma nist_fixed_width ks x y :
  0 <= ks -> 0 <= x < 2 ^ ks -> 0 <= y < 2 ^ ks ->
  exists out, public_key_data ks x y = Ok out
              /\ blen out = 2 * ((ks + 7) / 8)
              /\ unbe (firstn (Z.to_nat ((ks + 7) / 8)) out) 0 = x
              /\ unbe (skipn (Z.to_nat ((ks + 7) / 8)) out) 0 = y.
Proof.
  intros Hks Hx Hy. pose proof (pow_width ks Hks) as Hp.
  assert (Hw : 0 <= (ks + 7) / 8) by lia.
  unfold public_key_data. cbv zeta.
  rewrite !to_bytes_big_ok by lia. cbv beta iota.
  eexists. split; [reflexivity|]. set (w := Z.to_nat ((ks + 7) / 8)).
  assert (Hpw : 256 ^ Z.of_nat w = 256 ^ ((ks + 7) / 8)) by (unfold w; rewrite Z2Nat.id by lia; reflexivity).
  split; [autorewrite with blen; unfold w; lia|].
  split.
  - rewrite <- (be_length w x) at 1. rewrite firstn_app_exact, unbe_be by lia. lia.
  - rewrite <- (be_length w x) at 1. rewrite skipn_app_exact, unbe_be by lia. lia.
Qed.

(* the behaviour before the fix (width from bit_length): x = 2^247 on P-256 has 31 significant bytes *)
Lemma bitlength_width_refuted :
  exists x, 0 <= x < 2 ^ 256 /\ (bit_length x + 7) / 8 = 31 /\ (256 + 7) / 8 = 32.
Proof. exists (2 ^ 247). vm_compute. repeat split; discriminate. Qed.

(* ================================================================== rows *)
Definition row_item (b : Z) : pystr := [48; 120] ++ hex_of_bytes [b] ++ [44; 32].     (* "0xHH, " *)
Definition item_comma (b : Z) : pystr := item b ++ [44].                               (* "0xHH," *)

Lemma foldM_acc {A} (f : pystr -> A -> res pystr) (g : A -> pystr) l acc :
  (forall t b, f t b = Ok (t ++ g b)) -> foldM f l acc = Ok (acc ++ flat_map g l).
Proof.
  intros H. revert acc. induction l as [|b l IH]; intros acc; cbn [foldM flat_map].
  - rewrite app_nil_r. reflexivity.
  - rewrite H. cbn [bind]. rewrite IH, <- app_assoc. reflexivity.
Qed.

Lemma format_row_of_bytes_eq self data : format_row_of_bytes self data = Ok (flat_map row_item data).
Proof.
  unfold format_row_of_bytes. cbv zeta. erewrite (foldM_acc _ row_item) by (intros; reflexivity). reflexivity.
Qed.

Lemma format_row_eq self row : format_row self row = Ok (_indentation self ++ str_strip (flat_map row_item row)).
Proof. unfold format_row. rewrite format_row_of_bytes_eq. reflexivity. Qed.

(* ---- str_strip *)
Lemma filter_lstrip s : filter nonspace (lstrip s) = filter nonspace s.
Proof.
  induction s as [|c s IH]; [reflexivity|]. cbn [lstrip filter]. unfold nonspace at 2. destruct (is_space c) eqn:E; cbn [negb].
  - exact IH.
  - cbn [filter]. unfold nonspace at 1. rewrite E. reflexivity.
Qed.
Lemma filter_rev {A} (p : A -> bool) l : filter p (rev l) = rev (filter p l).
Proof.
  induction l as [|x l IH]; [reflexivity|]. cbn [rev filter]. rewrite filter_app, IH. cbn [filter].
  destruct (p x); cbn [rev app]; [reflexivity|apply app_nil_r].
Qed.
(* stripping removes white space only *)
Lemma filter_strip s : filter nonspace (str_strip s) = filter nonspace s.
Proof. unfold str_strip. rewrite filter_rev, filter_lstrip, filter_rev, rev_involutive, filter_lstrip. reflexivity. Qed.

Lemma str_strip_shape c s0 s1 d :
  is_space c = false -> is_space d = false -> c :: s0 = s1 ++ [d; 32] -> str_strip (c :: s0) = s1 ++ [d].
Proof.
  intros Hc Hd E. unfold str_strip. rewrite (lstrip_head c s0 Hc), E, rev_app_distr. cbn [rev app lstrip].
  change (is_space 32) with true. cbv iota. rewrite Hd. change (d :: rev s1) with (rev [d] ++ rev s1).
  rewrite <- rev_app_distr, rev_involutive. reflexivity.
Qed.

Lemma hexdigit_nonspace n : 0 <= n < 16 -> is_space (hexdigit n) = false.
Proof. intros H. unfold hexdigit, is_space. destruct (n <? 10) eqn:E; lia. Qed.

(* a non-empty row is written as its literals separated by ", " with a final comma *)
Lemma strip_row r b :
  exists t, str_strip (flat_map row_item (r ++ [b])) = t ++ [44].
Proof.
  assert (exists c s0, flat_map row_item (r ++ [b]) = c :: s0 /\ is_space c = false) as (c & s0 & E & Hc).
  { destruct r as [|b0 r]; cbn [app flat_map row_item]; eexists; eexists; (split; [reflexivity|reflexivity]). }
  rewrite E. rewrite flat_map_app in E. cbn [flat_map] in E. rewrite app_nil_r in E. unfold row_item at 2 in E.
  exists (flat_map row_item r ++ [48; 120] ++ hex_of_bytes [b]).
  apply (str_strip_shape c s0 (flat_map row_item r ++ [48; 120] ++ hex_of_bytes [b]) 44 Hc); [reflexivity|].
  rewrite <- E, <- !app_assoc. reflexivity.
Qed.

(* ================================================================== splitting into rows *)
Lemma firstn_firstn_skipn {A} (a b : nat) (l : list A) : firstn a l ++ firstn b (skipn a l) = firstn (a + b) l.
Proof.
  revert l. induction a as [|a IH]; intros l; [reflexivity|]. destruct l as [|x l]; [rewrite !firstn_nil; reflexivity|].
  cbn [plus firstn skipn app]. rewrite IH. reflexivity.
Qed.

Lemma rows_concat (data : bytes) (c : nat) (n : nat) :
  concat (map (fun k => firstn c (skipn (k * c) data)) (seq 0 n)) = firstn (n * c) data.
Proof.
  induction n as [|n IH]; [reflexivity|]. rewrite seq_S, map_app, concat_app, IH. cbn [plus map concat].
  rewrite app_nil_r, firstn_firstn_skipn. f_equal. lia.
Qed.

Lemma range_rows cols len :
  0 < cols -> 0 <= len ->
  range_step 0 len cols = Ok (map (fun k => Z.of_nat k * cols) (seq 0 (Z.to_nat (ceil_div len cols)))).
Proof.
  intros Hc Hl. unfold range_step. assert (cols =? 0 = false) as -> by lia. assert (0 <? cols = true) as -> by lia.
  rewrite Z.sub_0_r. reflexivity.
Qed.

Definition rows_of (data : bytes) (c : nat) : list bytes :=
  map (fun k => firstn c (skipn (k * c) data)) (seq 0 (Z.to_nat (ceil_div (blen data) (Z.of_nat c)))).

Lemma split_bytes_per_row_eq self data :
  0 < _columns_count self ->
  split_bytes_per_row self data = Ok (rows_of data (Z.to_nat (_columns_count self))).
Proof.
  intros Hc. unfold split_bytes_per_row, rows_of. rewrite range_rows by (try assumption; apply blen_nonneg). cbv beta iota.
  rewrite map_map, Z2Nat.id by lia. f_equal. apply map_ext. intros k. unfold slice. f_equal; [f_equal; lia|f_equal; lia].
Qed.

Lemma rows_of_concat data c : (0 < c)%nat -> concat (rows_of data c) = data.
Proof.
  intros Hc. unfold rows_of. rewrite rows_concat. apply firstn_all2.
  pose proof (ceil_bounds (blen data) (Z.of_nat c) ltac:(lia) (blen_nonneg data)) as B. unfold blen in *. nia.
Qed.

(* for non-empty data the last row exists and is not empty *)
Lemma rows_of_last data c :
  (0 < c)%nat -> data <> [] -> exists rows r b, rows_of data c = rows ++ [r ++ [b]].
Proof.
  intros Hc Hd. unfold rows_of.
  pose proof (ceil_bounds (blen data) (Z.of_nat c) ltac:(lia) (blen_nonneg data)) as B.
  assert (Hlen : 0 < blen data) by (destruct data; [contradiction|rewrite blen_cons; pose proof (blen_nonneg data); lia]).
  set (n := Z.to_nat (ceil_div (blen data) (Z.of_nat c))) in *.
  assert (Hn : (0 < n)%nat) by (unfold n; nia).
  destruct n as [|m] eqn:En; [lia|]. rewrite seq_S, map_app. cbn [plus map].
  set (last := firstn c (skipn (m * c) data)).
  assert (Hl : last <> []).
  { unfold last. intros E. apply (f_equal (@length Z)) in E. rewrite firstn_length, skipn_length in E. cbn [length] in E.
    assert (Z.of_nat (S m) = ceil_div (blen data) (Z.of_nat c)) by (rewrite <- En; unfold n; rewrite Z2Nat.id; lia).
    unfold blen in *. nia. }
  destruct (exists_last Hl) as (r & b & ->). eexists. exists r, b. reflexivity.
Qed.

(* ================================================================== the array text *)
Definition line (indent : pystr) (row : bytes) : pystr := indent ++ str_strip (flat_map row_item row) ++ [10].

Lemma prepare_array_eq self data :
  0 < _columns_count self ->
  prepare_array self data
  = Ok (drop_last (flat_map (line (_indentation self)) (rows_of data (Z.to_nat (_columns_count self)))) 2 ++ [10]).
Proof.
  intros Hc. unfold prepare_array. cbv zeta. rewrite split_bytes_per_row_eq by exact Hc. cbv beta iota.
  erewrite (foldM_acc _ (line (_indentation self))).
  - reflexivity.
  - intros t row. rewrite format_row_eq. cbv beta iota. unfold line. rewrite <- !app_assoc. reflexivity.
Qed.

Definition ws (s : pystr) : Prop := filter nonspace s = [].

(* facts about the 256 byte values, by evaluation: removing white space from "0xHH, " leaves "0xHH,"; the literal
   parses back to the byte; it contains no comma *)
Definition byte_facts (b : Z) : bool :=
  list_eqb (filter nonspace (row_item b)) (item_comma b)
  && match parse_item (item b) with Some v => v =? b | None => false end
  && free_of 44 (item b).
Lemma all_bytes : forallb byte_facts (map Z.of_nat (seq 0 256)) = true.
Proof. vm_compute. reflexivity. Qed.
Lemma byte_facts_ok b :
  is_byte b -> filter nonspace (row_item b) = item_comma b /\ parse_item (item b) = Some b /\ free_of 44 (item b) = true.
Proof.
  intros Hb. pose proof all_bytes as A. rewrite forallb_forall in A.
  assert (Hin : In b (map Z.of_nat (seq 0 256))).
  { apply in_map_iff. exists (Z.to_nat b). unfold is_byte in Hb. split; [lia|]. apply in_seq. lia. }
  specialize (A b Hin). unfold byte_facts in A. apply andb_prop in A. destruct A as [A A3]. apply andb_prop in A. destruct A as [A1 A2].
  apply list_eqb_eq in A1. split; [exact A1|]. split; [|exact A3].
  destruct (parse_item (item b)) as [v|]; [|discriminate]. f_equal. lia.
Qed.

Lemma filter_row row : Forall is_byte row -> filter nonspace (flat_map row_item row) = flat_map item_comma row.
Proof.
  induction 1 as [|b row Hb _ IH]; [reflexivity|]. cbn [flat_map]. rewrite filter_app, IH.
  rewrite (proj1 (byte_facts_ok b Hb)). reflexivity.
Qed.

Lemma filter_line indent row :
  ws indent -> Forall is_byte row -> filter nonspace (line indent row) = flat_map item_comma row.
Proof.
  intros Hi Hr. unfold line. rewrite !filter_app, Hi, filter_strip, (filter_row row Hr). cbn [app].
  change (filter nonspace [10]) with (@nil Z). apply app_nil_r.
Qed.

Lemma filter_lines indent rows :
  ws indent -> Forall is_byte (concat rows) ->
  filter nonspace (flat_map (line indent) rows) = flat_map item_comma (concat rows).
Proof.
  intros Hi. induction rows as [|r rows IH]; intros H; [reflexivity|]. cbn [concat flat_map] in *.
  apply Forall_app in H. destruct H as [Hr Hrest]. rewrite filter_app, flat_map_app, (filter_line indent r Hi Hr), IH by exact Hrest.
  reflexivity.
Qed.

Lemma join_comma data : data <> [] -> flat_map item_comma data = canonical data ++ [44].
Proof.
  unfold canonical. induction data as [|b data IH]; [contradiction|]. intros _. destruct data as [|b' data].
  - cbn [flat_map map join]. rewrite app_nil_r. reflexivity.
  - cbn [flat_map map] in *. rewrite join_cons2. rewrite IH by discriminate. unfold item_comma. rewrite <- !app_assoc. reflexivity.
Qed.

Lemma drop_last_2 {A} (a : list A) x y : drop_last (a ++ [x; y]) 2 = a.
Proof.
  unfold drop_last. rewrite app_length. cbn [length]. replace (length a + 2 - Z.to_nat 2)%nat with (length a) by lia.
  apply firstn_app_exact.
Qed.

Lemma opt_all_items data : Forall is_byte data -> opt_all parse_item (map item data) = Some data.
Proof.
  induction 1 as [|b data Hb _ IH]; [reflexivity|]. cbn [map opt_all]. rewrite IH.
  destruct (byte_facts_ok b Hb) as (_ & -> & _). reflexivity.
Qed.

Lemma parse_canonical data : data <> [] -> Forall is_byte data -> opt_all parse_item (split (canonical data) 44) = Some data.
Proof.
  intros Hne Hb. unfold canonical. rewrite split_join.
  - apply opt_all_items, Hb.
  - destruct data; [contradiction|discriminate].
  - apply Forall_map. eapply Forall_impl; [|exact Hb]. intros b H. apply (byte_facts_ok b H).
Qed.

(* the emitted array: exists for every non-empty byte list, every column count >= 1 and every white-space indentation;
   without its white space it is 0xHH,0xHH,...,0xHH (no trailing comma, independent of the layout options); the
   tokeniser returns exactly the bytes *)
Lemma format_parse self data :
  0 < _columns_count self -> ws (_indentation self) -> data <> [] -> Forall is_byte data ->
  exists out, prepare_array self data = Ok out /\ filter nonspace out = canonical data /\ parse_init out = Some data.
Proof.
  intros Hc Hws Hne Hb. rewrite (prepare_array_eq self data Hc). eexists. split; [reflexivity|].
  set (c := Z.to_nat (_columns_count self)). assert (Hcn : (0 < c)%nat) by (unfold c; lia).
  destruct (rows_of_last data c Hcn Hne) as (rows & r & b & E).
  pose proof (rows_of_concat data c Hcn) as Hcat. rewrite E in *.
  destruct (strip_row r b) as (t & Ht).
  set (indent := _indentation self) in *.
  assert (ET : flat_map (line indent) (rows ++ [r ++ [b]]) = (flat_map (line indent) rows ++ indent ++ t) ++ [44; 10]).
  { rewrite flat_map_app. cbn [flat_map]. unfold line at 2. rewrite Ht, app_nil_r, <- !app_assoc. reflexivity. }
  assert (EF : filter nonspace (flat_map (line indent) (rows ++ [r ++ [b]])) = canonical data ++ [44]).
  { rewrite filter_lines by (try exact Hws; rewrite Hcat; exact Hb). rewrite Hcat. apply join_comma, Hne. }
  rewrite ET in *. rewrite drop_last_2. rewrite filter_app in EF. change (filter nonspace [44; 10]) with [44] in EF.
  apply app_inv_tail in EF.
  assert (EO : filter nonspace ((flat_map (line indent) rows ++ indent ++ t) ++ [10]) = canonical data).
  { rewrite filter_app, EF. change (filter nonspace [10]) with (@nil Z). apply app_nil_r. }
  split; [exact EO|]. unfold parse_init. rewrite EO. apply parse_canonical; assumption.
Qed.

(* ================================================================== options as validated / built by the tool *)
Lemma validate_ok self self' :
  validate self = Ok self' -> self' = self /\ 0 < _columns_count self /\ 0 <= _indentation_count self.
Proof.
  unfold validate.
  repeat match goal with |- context [if ?c then _ else _] => destruct c eqn:? end; try discriminate.
  intros [= <-]. repeat split; lia.
Qed.

Lemma ws_mul c n : is_space c = true -> ws (mul_list [c] n).
Proof.
  intros Hc. unfold ws, mul_list. induction (Z.to_nat n) as [|k IH]; [reflexivity|]. cbn [concat_rep app filter].
  unfold nonspace at 1. rewrite Hc. exact IH.
Qed.

Lemma make_indentation_ws tab n s : make_indentation tab n = Ok s -> ws s.
Proof. unfold make_indentation. cbv zeta. intros [= <-]. destruct tab; apply ws_mul; reflexivity. Qed.

(* ================================================================== the length variable *)
Definition sizeof_of (name : pystr) : pystr := [115; 105; 122; 101; 111; 102; 40] ++ name ++ [41; 59].   (* sizeof(NAME); *)

Lemma length_is_sizeof self :
  _no_length self = false ->
  exists pre cast,
    prepare_length_variable self = Ok (pre ++ [32; 61; 32] ++ cast ++ sizeof_of (_array_name self) ++ [10])
    /\ (cast = [] \/ cast = [40] ++ _length_type self ++ [41; 32])
    /\ pre = [10] ++ (if _no_const self then [] else [99; 111; 110; 115; 116; 32]) ++ _length_type self ++ [32] ++ _length_name self.
Proof.
  intros Hn. unfold prepare_length_variable. rewrite Hn. cbv zeta.
  pose proof (blen_nonneg (_length_type self)). pose proof (blen_nonneg (_length_name self)). pose proof (blen_nonneg (_array_name self)).
  destruct (negb (list_eqb (_length_type self) _)).
  - eexists. exists ([40] ++ _length_type self ++ [41; 32]).
    match goal with |- context [if ?c then _ else _] => assert (c = true) as -> by (destruct (_no_const self); autorewrite with blen; lia) end.
    split; [|split; [right; reflexivity|reflexivity]]. unfold sizeof_of. f_equal. cbn [app]. rewrite <- ?app_assoc. cbn [app].
    repeat (f_equal; try (rewrite <- ?app_assoc; cbn [app])).
  - eexists. exists [].
    match goal with |- context [if ?c then _ else _] => assert (c = true) as -> by (destruct (_no_const self); autorewrite with blen; lia) end.
    split; [|split; [left; reflexivity|reflexivity]]. unfold sizeof_of. f_equal. cbn [app]. rewrite <- ?app_assoc. cbn [app].
    repeat (f_equal; try (rewrite <- ?app_assoc; cbn [app])).
Qed.

Lemma no_length_empty self : _no_length self = true -> prepare_length_variable self = Ok [].
Proof. intros H. unfold prepare_length_variable. rewrite H. reflexivity. Qed.

(* ================================================================== the whole file *)
Lemma file_layout self data arr :
  prepare_array self data = Ok arr ->
  exists h l f,
    prepare_header self = Ok h /\ prepare_length_variable self = Ok l /\ prepare_footer self = Ok f
    /\ prepare_file_contents self data
       = Ok (h ++ ((if _no_const self then [] else [99; 111; 110; 115; 116; 32]) ++ _array_type self ++ [32] ++ _array_name self
                   ++ [91; 93; 32; 61; 32; 123; 10]) ++ arr ++ [125; 59; 10] ++ l ++ f).
Proof.
  intros Ha. unfold prepare_file_contents. rewrite Ha.
  assert (exists h, prepare_header self = Ok h) as (h & ->).
  { unfold prepare_header, header_text. destruct (_header_contents self); [destruct (_ >? _)|]; eexists; reflexivity. }
  assert (exists f, prepare_footer self = Ok f) as (f & ->).
  { unfold prepare_footer, footer_text. destruct (_footer_contents self); [destruct (_ >? _)|]; eexists; reflexivity. }
  assert (exists l, prepare_length_variable self = Ok l) as (l & ->).
  { unfold prepare_length_variable. cbv zeta. repeat match goal with |- context [if ?c then _ else _] => destruct c end; eexists; reflexivity. }
  exists h, l, f. repeat (split; [reflexivity|]).
  unfold prepare_array_definition, prepare_modifier, prepare_array_type, prepare_array_variable, prepare_array_variable_end.
  cbv beta iota zeta. f_equal. rewrite <- ?app_assoc. cbn [app]. rewrite <- ?app_assoc. reflexivity.
Qed.

(* ================================================================== keys: data flow *)
Section KeysFlow.
  Variables (priv pub opts : Type).
  Variable generate : list Z -> res priv.
  Variable public_of : priv -> pub.
  Variable private_bytes : priv -> list Z -> opts -> res (list Z).
  Variable public_bytes : pub -> list Z -> opts -> res (list Z).
  Notation ckp := (create_key_pair priv pub opts generate public_of private_bytes public_bytes).

  (* the two files hold serialisations of ONE private key and of the public key derived from it *)
  Lemma keys_pair prefix ty enc po pbo files :
    ckp prefix ty enc po pbo = Ok files ->
    exists k a b, generate ty = Ok k /\ private_bytes k enc po = Ok a /\ public_bytes (public_of k) enc pbo = Ok b
                  /\ files = [(prefix ++ [95; 112; 114; 105; 118; 46] ++ enc, a); (prefix ++ [95; 112; 117; 98; 46] ++ enc, b)].
  Proof.
    unfold create_key_pair, to_generator_error. destruct (generate ty) as [k|e]; [|discriminate].
    destruct (private_bytes k enc po) as [a|[]] eqn:Ea; try discriminate.
    destruct (public_bytes (public_of k) enc pbo) as [b|[]] eqn:Eb; try discriminate.
    intros [= <-]. exists k, a, b. repeat split; assumption.
  Qed.

  (* a serialisation the library refuses with ValueError is reported as GeneratorError, and no file is produced *)
  Lemma keys_unsupported prefix ty enc po pbo k :
    generate ty = Ok k ->
    private_bytes k enc po = Raise ValueError \/ (exists a, private_bytes k enc po = Ok a) /\ public_bytes (public_of k) enc pbo = Raise ValueError ->
    ckp prefix ty enc po pbo = Raise GeneratorError.
  Proof.
    intros Hg H. unfold create_key_pair, to_generator_error. rewrite Hg. destruct H as [->|[(a & ->) ->]]; reflexivity.
  Qed.
End KeysFlow.
