(* Cmd/ConvertSpec.v — specification side of C15 (convert): a tokeniser for the body of a C array initialiser.
   Definitions only (no proofs, independent of the generated model). *)
From Verif Require Import Base.Prim.

Definition nonspace (c : Z) : bool := negb (is_space c).

(* value of a hexadecimal digit character *)
Definition hexval (c : Z) : option Z :=
  if is_digit c then Some (c - 48)
  else if (97 <=? c) && (c <=? 102) then Some (c - 87)
  else if (65 <=? c) && (c <=? 70) then Some (c - 55)
  else None.

(* one token: 0xHH (or 0XHH) *)
Definition parse_item (t : pystr) : option Z :=
  match t with
  | [z; x; h; l] =>
      if (z =? 48) && ((x =? 120) || (x =? 88)) then
        match hexval h, hexval l with Some a, Some b => Some (16 * a + b) | _, _ => None end
      else None
  | _ => None
  end.

Fixpoint opt_all {A B} (f : A -> option B) (l : list A) : option (list B) :=
  match l with
  | [] => Some []
  | x :: r => match f x, opt_all f r with Some y, Some ys => Some (y :: ys) | _, _ => None end
  end.

(* the text between `{` and `};` : white space is insignificant, tokens are separated by single commas, every token
   is a 0xHH literal.  A trailing comma, an empty list, or any other token makes the text unparsable (None). *)
Definition parse_init (s : pystr) : option (list Z) := opt_all parse_item (split (filter nonspace s) 44).

(* the literal the tool writes for a byte, and the white-space-free form of a whole initialiser *)
Definition item (b : Z) : pystr := [48; 120] ++ hex_of_bytes [b].
Definition canonical (data : bytes) : pystr := join [44] (map item data).

Definition is_byte (b : Z) : Prop := 0 <= b < 256.
