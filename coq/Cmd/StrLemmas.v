(* Cmd/StrLemmas.v — lemmas about the ASCII string primitives of Base/Prim.v (split / join / replace_char / isnumeric /
   int_of_str / str_strip) and about mapM, shared by Cmd/Version.v (C20) and Cmd/Convert.v (C15). *)
From Verif Require Import Base.Prim Base.PrimFacts.

Ltac btrue :=
  repeat match goal with
         | H : (_ && _) = true |- _ => apply andb_prop in H; destruct H
         | H : negb _ = true |- _ => apply negb_true_iff in H
         end.

(* ------------------------------------------------------------------ mapM *)
Lemma mapM_ext {A B} (f g : A -> res B) l : (forall x, f x = g x) -> mapM f l = mapM g l.
Proof. intros H. induction l as [|x l IH]; cbn [mapM]; [reflexivity|]. rewrite H, IH. reflexivity. Qed.

Lemma mapM_app {A B} (f : A -> res B) a b :
  mapM f (a ++ b) = let* x := mapM f a in let* y := mapM f b in Ok (x ++ y).
Proof.
  induction a as [|x a IH]; cbn [mapM app bind].
  - destruct (mapM f b); reflexivity.
  - destruct (f x); cbn [bind]; [|reflexivity]. rewrite IH.
    destruct (mapM f a); cbn [bind]; [|reflexivity]. destruct (mapM f b); reflexivity.
Qed.

Lemma mapM_ok_map {A B} (f : A -> res B) (g : A -> B) l :
  Forall (fun x => f x = Ok (g x)) l -> mapM f l = Ok (map g l).
Proof. induction 1 as [|x l Hx _ IH]; cbn [mapM map]; [reflexivity|]. rewrite Hx, IH. reflexivity. Qed.

(* if f raises nothing but E, and raises on some element, mapM raises E *)
Lemma mapM_raises {A B} (f : A -> res B) E l p :
  (forall x e, f x = Raise e -> e = E) -> In p l -> f p = Raise E -> mapM f l = Raise E.
Proof.
  intros Honly. induction l as [|x l IH]; intros Hin Hp; [contradiction|]. cbn [mapM].
  destruct (f x) as [y|e] eqn:Ex; cbn [bind].
  - destruct Hin as [->|Hin]; [congruence|]. rewrite (IH Hin Hp). reflexivity.
  - rewrite (Honly _ _ Ex). reflexivity.
Qed.

(* ------------------------------------------------------------------ digits *)
Lemma is_digit_not_space c : is_digit c = true -> is_space c = false.
Proof. unfold is_digit, is_space. lia. Qed.

Lemma lstrip_head c s : is_space c = false -> lstrip (c :: s) = c :: s.
Proof. intros H. cbn [lstrip]. rewrite H. reflexivity. Qed.

Lemma lstrip_nospace s : forallb (fun c => negb (is_space c)) s = true -> lstrip s = s.
Proof. destruct s as [|c s]; [reflexivity|]. cbn [forallb]. intros H. apply lstrip_head.
  apply andb_prop in H. destruct H as [H _]. apply negb_true_iff in H. exact H. Qed.

Lemma forallb_rev {A} (f : A -> bool) l : forallb f (rev l) = forallb f l.
Proof.
  induction l as [|x l IH]; [reflexivity|]. cbn [rev forallb]. rewrite forallb_app, IH. cbn [forallb]. rewrite andb_true_r. apply andb_comm.
Qed.

Lemma str_strip_nospace s : forallb (fun c => negb (is_space c)) s = true -> str_strip s = s.
Proof.
  intros H. unfold str_strip. rewrite (lstrip_nospace s H). rewrite lstrip_nospace by (rewrite forallb_rev; exact H).
  apply rev_involutive.
Qed.

Lemma digits_nospace s : forallb is_digit s = true -> forallb (fun c => negb (is_space c)) s = true.
Proof.
  intros H. rewrite forallb_forall in *. intros c Hc. specialize (H c Hc). rewrite (is_digit_not_space c H). reflexivity.
Qed.

Lemma digits_us_all s acc :
  forallb is_digit s = true -> digits_us s true acc = Some (fold_left (fun a c => a * 10 + (c - 48)) s acc).
Proof.
  revert acc. induction s as [|c s IH]; intros acc H; [reflexivity|]. cbn [forallb] in H. cbn [digits_us fold_left].
  destruct (is_digit c) eqn:E; [|discriminate]. apply IH. exact H.
Qed.

Lemma int_of_str_digits s : isnumeric s = true -> int_of_str s = Ok (int_of_digits s).
Proof.
  unfold isnumeric. destruct s as [|c s]; [discriminate|]. intros H. unfold int_of_str.
  rewrite (str_strip_nospace _ (digits_nospace _ H)). cbn [forallb] in H.
  destruct (is_digit c) eqn:E; [|discriminate]. cbn [andb] in H.
  assert (c =? 43 = false) as -> by (unfold is_digit in E; lia).
  assert (c =? 45 = false) as -> by (unfold is_digit in E; lia).
  cbn [digits_us]. rewrite E, (digits_us_all s _ H). reflexivity.
Qed.

Lemma fold_digits_nonneg s acc : forallb is_digit s = true -> 0 <= acc -> 0 <= fold_left (fun a c => a * 10 + (c - 48)) s acc.
Proof.
  revert acc. induction s as [|c s IH]; intros acc H Ha; [exact Ha|]. cbn [forallb] in H. cbn [fold_left].
  apply andb_prop in H. destruct H as [Hc Hs]. apply IH; [exact Hs|]. unfold is_digit in Hc. lia.
Qed.
Lemma int_of_digits_nonneg s : isnumeric s = true -> 0 <= int_of_digits s.
Proof. unfold isnumeric, int_of_digits. destruct s; [discriminate|]. intros H. apply fold_digits_nonneg; [exact H|lia]. Qed.

(* ------------------------------------------------------------------ join / split / replace_char *)
Lemma join_cons2 sep p q r : join sep (p :: q :: r) = p ++ sep ++ join sep (q :: r).
Proof. reflexivity. Qed.

Lemma join_app sep ps qs : ps <> [] -> qs <> [] -> join sep (ps ++ qs) = join sep ps ++ sep ++ join sep qs.
Proof.
  intros Hp Hq. induction ps as [|p ps IH]; [contradiction|]. destruct ps as [|p' ps].
  - destruct qs as [|q qs]; [contradiction|]. reflexivity.
  - change ((p :: p' :: ps) ++ qs) with (p :: (p' :: ps) ++ qs). cbn [app]. rewrite !join_cons2.
    change (p' :: ps ++ qs) with ((p' :: ps) ++ qs). rewrite IH by discriminate. rewrite <- !app_assoc. reflexivity.
Qed.

Definition free_of (sep : Z) (p : pystr) : bool := forallb (fun c => negb (c =? sep)) p.

Lemma split_go_app sep p r cur : free_of sep p = true -> split_go sep (p ++ r) cur = split_go sep r (rev p ++ cur).
Proof.
  revert cur. induction p as [|c p IH]; intros cur H; [reflexivity|]. unfold free_of in *. cbn [forallb] in H.
  cbn [app split_go rev]. btrue. destruct (c =? sep) eqn:E; [discriminate|]. rewrite IH by assumption. rewrite <- app_assoc. reflexivity.
Qed.

Lemma split_join sep parts :
  parts <> [] -> Forall (fun p => free_of sep p = true) parts -> split (join [sep] parts) sep = parts.
Proof.
  unfold split. intros Hne Hall. induction parts as [|p ps IH]; [contradiction|]. inversion Hall as [|? ? Hp Hps]; subst.
  destruct ps as [|q ps].
  - cbn [join]. rewrite <- (app_nil_r p) at 1. rewrite split_go_app by exact Hp. cbn [split_go]. rewrite app_nil_r, rev_involutive. reflexivity.
  - rewrite join_cons2. rewrite split_go_app by exact Hp. cbn [app split_go]. rewrite Z.eqb_refl, app_nil_r, rev_involutive.
    f_equal. apply IH; [discriminate|exact Hps].
Qed.

Lemma replace_char_app s t a b : replace_char (s ++ t) a b = replace_char s a b ++ replace_char t a b.
Proof. unfold replace_char. apply map_app. Qed.

Lemma replace_char_free s a b : free_of a s = true -> replace_char s a b = s.
Proof.
  unfold replace_char, free_of. induction s as [|c s IH]; [reflexivity|]. cbn [forallb map]. intros H.
  btrue. destruct (c =? a) eqn:E; [discriminate|]. rewrite IH by assumption. reflexivity.
Qed.

Lemma free_of_app sep s t : free_of sep (s ++ t) = free_of sep s && free_of sep t.
Proof. unfold free_of. apply forallb_app. Qed.

Lemma free_of_join a sep parts : free_of a sep = true -> Forall (fun p => free_of a p = true) parts -> free_of a (join sep parts) = true.
Proof.
  intros Hs. induction 1 as [|p ps Hp Hps IH]; [reflexivity|]. destruct ps as [|q ps]; [exact Hp|].
  rewrite join_cons2, !free_of_app, Hp, Hs, IH. reflexivity.
Qed.

(* ------------------------------------------------------------------ filter / flat_map *)
Lemma filter_flat_map {A B} (p : B -> bool) (f : A -> list B) l : filter p (flat_map f l) = flat_map (fun x => filter p (f x)) l.
Proof. induction l as [|x l IH]; [reflexivity|]. cbn [flat_map]. rewrite filter_app, IH. reflexivity. Qed.
