(* Cmd/Extract.v — lemmas about the C11 model.  gen/GenExtract.v is regenerated from cmd_cache_create.py /
   cmd_payload_extract.py on every run (skeleton with holes); the proofs unfold the hole definitions (fc_is_dependency,
   fc_is_extracted, fc_take, pe_pop_key, pe_replace_key, the exception holes) and the skeleton, nothing else.
   The two regular expressions are arbitrary predicates. *)
From Coq Require Import Permutation.
From Verif Require Import Base.Prim Base.PrimFacts Cbor.Codec Cbor.CodecFacts Suit.Py gen.GenCache Cmd.Cache.
From Verif Require Import Cmd.ExtractModel gen.GenExtract.

#[local] Arguments Z.add : simpl never.
#[local] Arguments Z.sub : simpl never.
#[local] Arguments Z.mul : simpl never.
#[local] Arguments Z.pow : simpl never.

(* ---------------------------------------------------------------- hypotheses on an input hierarchy *)
(* a member the Python-object view leaves untouched: well-formed, already in normal form (no bignum tags, no
   indefinite maps, no duplicate keys inside), re-serialised as it was *)
Definition leaf_ok (k v : cbor) : Prop :=
  wf k /\ wf v /\ pyn k = Ok k /\ pyn v = Ok v /\ unpyn k = k /\ unpyn v = v.
Definition key_ne (a b : cbor) : Prop := py_eqb a b = false /\ py_eqb b a = false.
Definition distinct_keys (l : list (cbor * cbor)) : Prop := ForallOrdPairs (fun x y => key_ne (fst x) (fst y)) l.
(* tags 2 / 3 are bignums for cbor2 (they never reach the tool as tagged values) *)
Definition tag_ok (t : Z) : Prop := 0 <= t < 2 ^ 64 /\ (t =? 2) = false /\ (t =? 3) = false.

Definition opt_p (o : option (bytes -> bool)) : bytes -> bool :=
  fun k => match o with Some p => p k | None => false end.

Section Shape.
  Variable dep_p : bytes -> bool.
  (* the hierarchy is what the tool will see: every level is a tagged map with Python-distinct keys, leaves are
     stable members, the text-keyed members under a dependency name are exactly the nested envelopes *)
  Fixpoint shape (e : env) : Prop :=
    match e with
    | Env t ms => tag_ok t /\ blen (pairs ms) < 2 ^ 64 /\ distinct_keys (pairs ms) /\ shape_ms ms
    end
  with shape_ms (ms : members) : Prop :=
    match ms with
    | MNil => True
    | MLeaf k v r => leaf_ok k v /\ (forall n, k = CText n -> dep_p n = false) /\ shape_ms r
    | MDep n e r => dep_p n = true /\ blen n < 2 ^ 64 /\ blen (enc_env e) < 2 ^ 64 /\ shape e /\ shape_ms r
    end.
End Shape.

Scheme env_mut := Induction for env Sort Prop
  with members_mut := Induction for members Sort Prop.
Combined Scheme env_members_ind from env_mut, members_mut.

(* ---------------------------------------------------------------- small facts *)
Lemma py_eqb_text n k : py_eqb (CText n) k = true <-> k = CText n.
Proof.
  unfold py_eqb. cbn [as_pyint]. destruct (as_pyint k) eqn:E.
  - split; [discriminate|]. intros ->. cbn in E. discriminate.
  - destruct k; cbn [cbor_eqb]; split; intros H; try discriminate; try (inversion H; fail).
    + apply list_eqb_eq in H. subst. reflexivity.
    + injection H as <-. apply list_eqb_refl.
Qed.
Lemma py_eqb_text_refl n : py_eqb (CText n) (CText n) = true.
Proof. apply py_eqb_text. reflexivity. Qed.
Lemma py_eqb_text_ne n m : n <> m -> py_eqb (CText n) (CText m) = false.
Proof.
  intros H. destruct (py_eqb (CText n) (CText m)) eqn:E; [|reflexivity]. apply py_eqb_text in E. congruence.
Qed.

Lemma FOP_app_inv {A} (R : A -> A -> Prop) a b :
  ForallOrdPairs R (a ++ b) -> ForallOrdPairs R a /\ ForallOrdPairs R b /\ (forall x y, In x a -> In y b -> R x y).
Proof.
  induction a as [|x a IH]; cbn [app]; intros H.
  - repeat split; [constructor|exact H|intros ? ? []].
  - inversion H as [|? ? HF HP]; subst. apply IH in HP. destruct HP as (Ha & Hb & Hab).
    rewrite Forall_app in HF. destruct HF as [HFa HFb]. repeat split.
    + constructor; assumption.
    + exact Hb.
    + intros u y [<-|Hu] Hy; [rewrite Forall_forall in HFb; apply HFb; exact Hy|apply Hab; assumption].
Qed.
Lemma FOP_app {A} (R : A -> A -> Prop) a b :
  ForallOrdPairs R a -> ForallOrdPairs R b -> (forall x y, In x a -> In y b -> R x y) -> ForallOrdPairs R (a ++ b).
Proof.
  induction a as [|x a IH]; cbn [app]; intros Ha Hb Hab; [exact Hb|].
  inversion Ha as [|? ? HF HP]; subst. constructor.
  - apply Forall_app. split; [exact HF|]. apply Forall_forall. intros y Hy. apply Hab; [left; reflexivity|exact Hy].
  - apply IH; [exact HP|exact Hb|]. intros u y Hu Hy. apply Hab; [right; exact Hu|exact Hy].
Qed.

Lemma distinct_mid pre k v post :
  distinct_keys (pre ++ (k, v) :: post) ->
  Forall (fun kv => py_eqb k (fst kv) = false) pre /\ Forall (fun kv => py_eqb k (fst kv) = false) post.
Proof.
  intros H. apply FOP_app_inv in H. destruct H as (_ & Hb & Hab). split.
  - apply Forall_forall. intros x Hx. apply (Hab x (k, v) Hx (or_introl eq_refl)).
  - inversion Hb as [|? ? HF _]; subst. rewrite Forall_forall in *. intros y Hy. apply (HF y Hy).
Qed.
(* replacing a value, or dropping an entry, keeps the keys distinct *)
Lemma distinct_replace pre k v v' post : distinct_keys (pre ++ (k, v) :: post) -> distinct_keys (pre ++ (k, v') :: post).
Proof.
  intros H. apply FOP_app_inv in H. destruct H as (Ha & Hb & Hab). apply FOP_app; [exact Ha| |].
  - inversion Hb; subst. constructor; assumption.
  - intros x y Hx [<-|Hy]; [apply (Hab x (k, v) Hx (or_introl eq_refl))|apply Hab; [exact Hx|right; exact Hy]].
Qed.
Lemma distinct_drop pre kv post : distinct_keys (pre ++ kv :: post) -> distinct_keys (pre ++ post).
Proof.
  intros H. apply FOP_app_inv in H. destruct H as (Ha & Hb & Hab). apply FOP_app; [exact Ha| |].
  - inversion Hb; subst. assumption.
  - intros x y Hx Hy. apply Hab; [exact Hx|right; exact Hy].
Qed.
Lemma distinct_assoc pre kv post : distinct_keys (pre ++ kv :: post) <-> distinct_keys ((pre ++ [kv]) ++ post).
Proof. rewrite <- app_assoc. reflexivity. Qed.

Lemma dict_pop_mid pre k k' v post :
  Forall (fun kv => py_eqb k (fst kv) = false) pre -> py_eqb k k' = true ->
  dict_pop (pre ++ (k', v) :: post) k = Some (v, pre ++ post).
Proof.
  intros HF Hk. induction pre as [|[a b] pre IH]; cbn [app dict_pop].
  - rewrite Hk. reflexivity.
  - inversion HF as [|? ? Ha HF']; subst. cbn [fst] in Ha. rewrite Ha, (IH HF'). reflexivity.
Qed.
Lemma dict_get_mid pre k k' v post :
  Forall (fun kv => py_eqb k (fst kv) = false) pre -> py_eqb k k' = true ->
  dict_get (pre ++ (k', v) :: post) k = Some v.
Proof.
  intros HF Hk. induction pre as [|[a b] pre IH]; cbn [app dict_get].
  - rewrite Hk. reflexivity.
  - inversion HF as [|? ? Ha HF']; subst. cbn [fst] in Ha. rewrite Ha. apply IH. exact HF'.
Qed.
Lemma dict_set_mid pre k k' v v' post :
  Forall (fun kv => py_eqb k (fst kv) = false) pre -> py_eqb k k' = true ->
  dict_set (pre ++ (k', v) :: post) k v' = pre ++ (k', v') :: post.
Proof.
  intros HF Hk. induction pre as [|[a b] pre IH]; cbn [app dict_set].
  - rewrite Hk. reflexivity.
  - inversion HF as [|? ? Ha HF']; subst. cbn [fst] in Ha. rewrite Ha, (IH HF'). reflexivity.
Qed.
Lemma dict_set_absent d k v : Forall (fun kv => py_eqb k (fst kv) = false) d -> dict_set d k v = d ++ [(k, v)].
Proof.
  induction d as [|[a b] d IH]; intros HF; cbn [dict_set app]; [reflexivity|].
  inversion HF as [|? ? Ha HF']; subst. cbn [fst] in Ha. rewrite Ha, (IH HF'). reflexivity.
Qed.
Lemma dict_get_absent d k : Forall (fun kv => py_eqb k (fst kv) = false) d -> dict_get d k = None.
Proof.
  induction d as [|[a b] d IH]; intros HF; cbn [dict_get]; [reflexivity|].
  inversion HF as [|? ? Ha HF']; subst. cbn [fst] in Ha. rewrite Ha. apply IH. exact HF'.
Qed.
Lemma dict_pop_absent d k : Forall (fun kv => py_eqb k (fst kv) = false) d -> dict_pop d k = None.
Proof.
  induction d as [|[a b] d IH]; intros HF; cbn [dict_pop]; [reflexivity|].
  inversion HF as [|? ? Ha HF']; subst. cbn [fst] in Ha. rewrite Ha, (IH HF'). reflexivity.
Qed.

(* a dict built from pairs with distinct keys is that list of pairs *)
Lemma dict_of_pairs_distinct l : distinct_keys l -> dict_of_pairs l = l.
Proof.
  unfold dict_of_pairs. change l with ([] ++ l) at 1 3. generalize (@nil (cbor * cbor)) as acc.
  induction l as [|[k v] l IH]; intros acc H; cbn [fold_left fst snd].
  - rewrite app_nil_r. reflexivity.
  - destruct (distinct_mid _ _ _ _ H) as [Hpre _]. rewrite (dict_set_absent acc k v Hpre).
    apply distinct_assoc in H. rewrite (IH _ H). rewrite <- app_assoc. reflexivity.
Qed.

Lemma mapR_id {A} (f : A -> res A) l : Forall (fun x => f x = Ok x) l -> mapR f l = Ok l.
Proof. induction 1 as [|x l Hx _ IH]; cbn [mapR]; [reflexivity|]. rewrite Hx, IH. reflexivity. Qed.

Lemma filter_false {A} (l : list A) : filter (fun _ => false) l = [].
Proof. induction l; cbn; auto. Qed.
Lemma filter_true {A} (l : list A) : filter (fun _ => true) l = l.
Proof. induction l; cbn; congruence. Qed.
Lemma filter_filter {A} (f g : A -> bool) l : filter f (filter g l) = filter (fun x => g x && f x) l.
Proof. induction l as [|x l IH]; cbn [filter]; [reflexivity|]. destruct (g x); cbn [filter andb]; [destruct (f x)|]; rewrite IH; reflexivity. Qed.

Lemma remove_first_head x r : remove_first x (x :: r) = r.
Proof. cbn [remove_first]. rewrite list_eqb_refl. reflexivity. Qed.
Lemma remove_all_notin ds x r : ~ In x ds ->
  fold_left (fun l d => remove_first d l) ds (x :: r) = x :: fold_left (fun l d => remove_first d l) ds r.
Proof.
  revert r. induction ds as [|d ds IH]; intros r Hn; cbn [fold_left]; [reflexivity|].
  cbn [remove_first]. destruct (list_eqb d x) eqn:E.
  - apply list_eqb_eq in E. subst. exfalso. apply Hn. left. reflexivity.
  - apply IH. intros Hi. apply Hn. right. exact Hi.
Qed.
(* removing, one by one, the selected elements of a duplicate-free list leaves the others *)
Lemma remove_selected p l : NoDup l ->
  fold_left (fun l d => remove_first d l) (filter p l) l = filter (fun x => negb (p x)) l.
Proof.
  induction 1 as [|x l Hx _ IH]; cbn [filter]; [reflexivity|]. destruct (p x); cbn [negb fold_left].
  - rewrite remove_first_head. exact IH.
  - rewrite remove_all_notin; [rewrite IH; reflexivity|]. intros Hi. apply filter_In in Hi. tauto.
Qed.

(* ---------------------------------------------------------------- the encoded hierarchy, as the tool reads it *)
Definition dep_names : members -> list bytes :=
  fix go ms := match ms with MNil => [] | MLeaf _ _ r => go r | MDep n _ r => n :: go r end.

Lemma text_keys_in n l : In n (text_keys l) -> exists v, In (CText n, v) l.
Proof.
  induction l as [|[k v] l IH]; cbn [text_keys]; [intros []|].
  destruct k as [?|?|?|b|?|?|?|? ?|?]; try (intros H; destruct (IH H) as [w Hw]; exists w; right; exact Hw).
  intros [<-|H]; [exists v; left; reflexivity|destruct (IH H) as [w Hw]; exists w; right; exact Hw].
Qed.
Lemma text_keys_nodup l : distinct_keys l -> NoDup (text_keys l).
Proof.
  induction 1 as [|[k v] l HF _ IH]; cbn [text_keys]; [constructor|].
  destruct k as [?|?|?|b|?|?|?|? ?|?]; try exact IH. constructor; [|exact IH]. intros Hi. apply text_keys_in in Hi. destruct Hi as [w Hw].
  rewrite Forall_forall in HF. destruct (HF _ Hw) as [H1 _]. cbn [fst] in H1. rewrite py_eqb_text_refl in H1. discriminate.
Qed.

Section Facts.
  Variables omit_re dep_re : option (bytes -> bool).
  Let dp := opt_p dep_re.
  Let op := opt_p omit_re.

  Lemma shape_wf_pairs ms : shape_ms dp ms -> wf_pairs (pairs ms).
  Proof.
    induction ms as [|k v r IH|n e r IH]; cbn [shape_ms pairs wf_pairs].
    - trivial.
    - intros ((Hk & Hv & _) & _ & Hr). repeat split; [exact Hk|exact Hv|exact (IH Hr)].
    - intros (_ & Hn & He & _ & Hr). repeat split; [exact Hn|exact He|exact (IH Hr)].
  Qed.

  Lemma shape_pyn_pairs ms : shape_ms dp ms ->
    Forall (fun kv : cbor * cbor => (let (k0, v0) := kv in
              match pyn k0 with Raise e => Raise e | Ok k => match pyn v0 with Raise e => Raise e | Ok v => Ok (k, v) end end) = Ok kv)
           (pairs ms).
  Proof.
    induction ms as [|k v r IH|n e r IH]; cbn [shape_ms pairs].
    - constructor.
    - intros ((_ & _ & Hk & Hv & _) & _ & Hr). constructor; [rewrite Hk, Hv; reflexivity|exact (IH Hr)].
    - intros (_ & _ & _ & _ & Hr). constructor; [reflexivity|exact (IH Hr)].
  Qed.

  Lemma py_loads_env t ms : shape dp (Env t ms) -> py_loads (enc_env (Env t ms)) = Ok (CTag t (CMap (pairs ms))).
  Proof.
    cbn [shape]. intros ((Ht & H2 & H3) & Hlen & Hd & Hs). unfold py_loads. cbn [enc_env].
    rewrite <- (app_nil_r (encode _)). rewrite loads_encode.
    2:{ cbn [wf]. split; [exact Ht|]. split; [exact Hlen|]. apply (shape_wf_pairs ms Hs). }
    cbn [pyn]. rewrite H2, H3. rewrite (mapR_id _ _ (shape_pyn_pairs ms Hs)).
    rewrite (dict_of_pairs_distinct _ Hd). reflexivity.
  Qed.

  (* what is serialised at the end is the encoding of the stripped hierarchy *)
  Lemma shape_unpyn_pairs ms : shape_ms dp ms ->
    map (fun kv : cbor * cbor => let (k, v) := kv in (unpyn k, unpyn v)) (pairs (strip_ms dp op ms)) = pairs (strip_ms dp op ms).
  Proof.
    induction ms as [|k v r IH|n e r IH]; cbn [shape_ms strip_ms pairs map].
    - reflexivity.
    - intros ((_ & _ & _ & _ & Hk & Hv) & _ & Hr). specialize (IH Hr).
      destruct k as [?|?|?|b|?|?|?|? ?|?]; try (cbn [pairs map]; rewrite Hk, Hv, IH; reflexivity).
      destruct (goes dp op b); [exact IH|]. cbn [pairs map]. rewrite Hk, Hv, IH. reflexivity.
    - intros (_ & _ & _ & _ & Hr). cbn [unpyn]. rewrite (IH Hr). reflexivity.
  Qed.
  Lemma ser_stripped t ms : 0 <= t -> shape_ms dp ms ->
    ser (CTag t (CMap (pairs (strip_ms dp op ms)))) = enc_env (Env t (strip_ms dp op ms)).
  Proof. intros Ht Hs. unfold ser. cbn [unpyn enc_env]. rewrite (shape_unpyn_pairs ms Hs). reflexivity. Qed.

  (* the name lists the skeleton computes *)
  Lemma names_dep ms : shape_ms dp ms -> filter dp (text_keys (pairs ms)) = dep_names ms.
  Proof.
    induction ms as [|k v r IH|n e r IH]; cbn [shape_ms pairs text_keys dep_names].
    - reflexivity.
    - intros (_ & Hk & Hr). destruct k as [?|?|?|b|?|?|?|? ?|?]; try exact (IH Hr). cbn [filter]. rewrite (Hk _ eq_refl). exact (IH Hr).
    - intros (Hn & _ & _ & _ & Hr). cbn [filter]. rewrite Hn, (IH Hr). reflexivity.
  Qed.
  Lemma names_goes ms : shape_ms dp ms ->
    filter (goes dp op) (text_keys (pairs ms)) = map fst (level_payloads dp op ms).
  Proof.
    induction ms as [|k v r IH|n e r IH]; cbn [shape_ms pairs text_keys level_payloads].
    - reflexivity.
    - intros (_ & _ & Hr). destruct k as [?|?|?|b|?|?|?|? ?|?]; try exact (IH Hr). cbn [filter]. destruct (goes dp op b); cbn [map fst]; rewrite (IH Hr); reflexivity.
    - intros (Hn & _ & _ & _ & Hr). cbn [filter]. unfold goes at 1. rewrite Hn. cbn [negb andb]. exact (IH Hr).
  Qed.

  (* the three lists of the skeleton, whatever options are given *)
  Lemma skeleton_lists l : NoDup l ->
    let deps := match dep_re with Some p => filter (fc_is_dependency p) l | None => [] end in
    let rest := match dep_re with Some _ => fold_left (fun l d => remove_first d l) deps l | None => l end in
    deps = filter dp l /\
    match omit_re with None => rest | Some p => filter (fc_is_extracted p) rest end = filter (goes dp op) l.
  Proof.
    intros Hnd deps rest.
    assert (Hdeps : deps = filter dp l).
    { subst deps dp. unfold opt_p, fc_is_dependency. destruct dep_re as [p|]; [apply filter_ext; reflexivity|rewrite filter_false; reflexivity]. }
    assert (Hrest : rest = filter (fun k => negb (dp k)) l).
    { subst rest. destruct dep_re as [p|] eqn:E.
      - rewrite Hdeps. apply remove_selected. exact Hnd.
      - subst dp. unfold opt_p. cbn [negb]. rewrite filter_true. reflexivity. }
    split; [exact Hdeps|]. rewrite Hrest. unfold goes. subst op. unfold opt_p, fc_is_extracted. destruct omit_re as [p|].
    - rewrite filter_filter. reflexivity.
    - apply filter_ext. intros a. cbn [negb]. rewrite andb_true_r. reflexivity.
  Qed.
End Facts.

(* ---------------------------------------------------------------- the two loops and the recursion *)
Lemma add_payload_ok c n v c' : add_payload c n v = Ok c' -> exists b, v = CBytes b /\ add_cache_slot c n b = Ok c'.
Proof.
  unfold add_payload. destruct v; try (destruct (add_cache_slot c n []); discriminate).
  intros H. eexists. split; [reflexivity|exact H].
Qed.
Lemma reraise_ok {A} (r : res A) x a : reraise_generator r x = Ok a -> r = Ok a.
Proof. unfold reraise_generator. destruct r as [a'|e]; [intros [= <-]; reflexivity|destruct (exn_eqb e GeneratorError); discriminate]. Qed.
Lemma add_all_cons u d slots c c1 c2 :
  add_cache_slot c u d = Ok c1 -> add_all slots c1 = Ok c2 -> add_all ((u, d) :: slots) c = Ok c2.
Proof. intros H1 H2. unfold add_all in *. cbn [foldM fst snd]. rewrite H1. cbn [bind]. exact H2. Qed.
Lemma add_all_app' a b c c1 c2 : add_all a c = Ok c1 -> add_all b c1 = Ok c2 -> add_all (a ++ b) c = Ok c2.
Proof. intros H1 H2. rewrite add_all_app, H1. cbn [bind]. exact H2. Qed.

Definition strip_deps (dep_p omit_p : bytes -> bool) : members -> members :=
  fix go ms := match ms with
               | MNil => MNil
               | MLeaf k v r => MLeaf k v (go r)
               | MDep n e r => MDep n (strip dep_p omit_p e) (go r)
               end.

Section Fill.
  Variables omit_re dep_re : option (bytes -> bool).
  Let dp := opt_p dep_re.
  Let op := opt_p omit_re.
  Notation state := (cache * list (cbor * cbor))%type.

  (* the two loop bodies of the skeleton, restated; fill_unfold checks that they are the generated ones *)
  Definition step1 (st : state) (payload : bytes) : res state :=
    match fc_take (snd st) (CText payload) with Raise e => Raise e | Ok (data, value') =>
    match add_payload (fst st) payload data with Raise e => Raise e | Ok cache' => Ok (cache', value') end end.
  Definition step2 (fuel : nat) (st : state) (dependency : bytes) : res state :=
    match dict_get_req (snd st) (CText dependency) with Raise e => Raise e | Ok dep_data =>
    match reraise_generator
            (match dep_data with
             | CBytes b => fill_cache_from_envelope_data fuel omit_re dep_re (fst st) b
             | _ => Raise fc_bad_cbor_exn
             end) fc_dependency_exn with
    | Raise e => Raise e
    | Ok (cache', new_dependency_data) => Ok (cache', dict_set (snd st) (CText dependency) (CBytes new_dependency_data))
    end end.

  Lemma fill_unfold fuel c data :
    fill_cache_from_envelope_data (S fuel) omit_re dep_re c data =
    match py_loads data with
    | Raise Unsupported => Raise Unsupported
    | Raise _ => Raise fc_bad_cbor_exn
    | Ok (CTag tag (CMap value)) =>
        let integrated := text_keys value in
        let deps := match dep_re with Some p => filter (fc_is_dependency p) integrated | None => [] end in
        let rest := match dep_re with Some _ => fold_left (fun l d => remove_first d l) deps integrated | None => integrated end in
        let todo := match omit_re with None => rest | Some p => filter (fc_is_extracted p) rest end in
        match foldM step1 todo (c, value) with
        | Raise e => Raise e
        | Ok st1 => match foldM (step2 fuel) deps st1 with
                    | Raise e => Raise e
                    | Ok st2 => Ok (fst st2, ser (CTag tag (CMap (snd st2))))
                    end
        end
    | Ok _ => Raise fc_not_envelope_exn
    end.
  Proof. reflexivity. Qed.

  Lemma strip_leaves_shape ms : shape_ms dp ms -> shape_ms dp (strip_leaves dp op ms).
  Proof.
    induction ms as [|k v r IH|n e r IH]; cbn [shape_ms strip_leaves]; [trivial| |].
    - intros (Hl & Hk & Hr). specialize (IH Hr).
      destruct k as [?|?|?|b|?|?|?|? ?|?]; try (cbn [shape_ms]; split; [exact Hl|split; [exact Hk|exact IH]]).
      destruct (goes dp op b); [exact IH|]. cbn [shape_ms]. split; [exact Hl|split; [exact Hk|exact IH]].
    - intros (H1 & H2 & H3 & H4 & Hr). split; [exact H1|split; [exact H2|split; [exact H3|split; [exact H4|exact (IH Hr)]]]].
  Qed.
  Lemma strip_leaves_dep_names ms : dep_names (strip_leaves dp op ms) = dep_names ms.
  Proof.
    induction ms as [|k v r IH|n e r IH]; cbn [strip_leaves dep_names]; [reflexivity| |rewrite IH; reflexivity].
    destruct k as [?|?|?|b|?|?|?|? ?|?]; try exact IH. destruct (goes dp op b); exact IH.
  Qed.
  Lemma strip_leaves_dep_extracted ms : dep_extracted dp op (strip_leaves dp op ms) = dep_extracted dp op ms.
  Proof.
    induction ms as [|k v r IH|n e r IH]; cbn [strip_leaves dep_extracted]; [reflexivity| |rewrite IH; reflexivity].
    destruct k as [?|?|?|b|?|?|?|? ?|?]; try exact IH. destruct (goes dp op b); exact IH.
  Qed.
  Lemma strip_split ms : strip_ms dp op ms = strip_deps dp op (strip_leaves dp op ms).
  Proof.
    induction ms as [|k v r IH|n e r IH]; cbn [strip_ms strip_leaves strip_deps]; [reflexivity| |rewrite IH; reflexivity].
    destruct k as [?|?|?|b|?|?|?|? ?|?]; try (cbn [strip_deps]; rewrite IH; reflexivity).
    destruct (goes dp op b); [exact IH|]. cbn [strip_deps]. rewrite IH. reflexivity.
  Qed.

  (* first loop: every selected payload is popped and added, in map order; nothing else is touched *)
  Lemma pop_loop ms : forall pre c st,
    fc_take = dict_pop_req -> shape_ms dp ms -> distinct_keys (pre ++ pairs ms) ->
    foldM step1 (map fst (level_payloads dp op ms)) (c, pre ++ pairs ms) = Ok st ->
    snd st = pre ++ pairs (strip_leaves dp op ms) /\
    exists slots, map slot_item slots = level_payloads dp op ms /\ add_all slots c = Ok (fst st).
  Proof.
    intros pre c st Htake. revert pre c st.
    assert (Hskip : forall r (IH : forall pre c st, shape_ms dp r -> distinct_keys (pre ++ pairs r) ->
                       foldM step1 (map fst (level_payloads dp op r)) (c, pre ++ pairs r) = Ok st ->
                       snd st = pre ++ pairs (strip_leaves dp op r) /\
                       exists slots, map slot_item slots = level_payloads dp op r /\ add_all slots c = Ok (fst st))
                     kv pre c st, shape_ms dp r -> distinct_keys (pre ++ kv :: pairs r) ->
                     foldM step1 (map fst (level_payloads dp op r)) (c, pre ++ kv :: pairs r) = Ok st ->
                     snd st = pre ++ kv :: pairs (strip_leaves dp op r) /\
                     exists slots, map slot_item slots = level_payloads dp op r /\ add_all slots c = Ok (fst st)).
    { intros r IH kv pre c st Hr Hd H. apply distinct_assoc in Hd.
      change (pre ++ kv :: pairs r) with (pre ++ [kv] ++ pairs r) in H. rewrite app_assoc in H.
      destruct (IH _ _ _ Hr Hd H) as (E & slots & Es & Ea). split; [|exists slots; auto].
      rewrite E, <- app_assoc. reflexivity. }
    induction ms as [|k v r IH|n e r IH]; intros pre c st Hs Hd H.
    - cbn [level_payloads map foldM] in H. injection H as <-. cbn [snd fst pairs strip_leaves level_payloads].
      split; [reflexivity|]. exists []. split; reflexivity.
    - cbn [shape_ms] in Hs. destruct Hs as (Hl & Hk & Hr). cbn [pairs] in Hd, H.
      destruct k as [?|?|?|b|?|?|?|? ?|?]; try (cbn [level_payloads strip_leaves pairs] in *; apply (Hskip r IH); assumption).
      cbn [level_payloads strip_leaves] in *. destruct (goes dp op b) eqn:G; [|cbn [pairs]; apply (Hskip r IH); assumption].
      cbn [map fst foldM] in H. unfold step1 at 1 in H. cbn [fst snd] in H. rewrite Htake in H. unfold dict_pop_req in H.
      destruct (distinct_mid _ _ _ _ Hd) as [Hpre _].
      rewrite (dict_pop_mid pre (CText b) (CText b) v (pairs r) Hpre (py_eqb_text_refl b)) in H.
      destruct (add_payload c b v) as [c1|] eqn:A; cbn [bind] in H; [|discriminate].
      apply add_payload_ok in A. destruct A as (d & -> & A).
      apply distinct_drop in Hd. destruct (IH _ _ _ Hr Hd H) as (E & slots & Es & Ea).
      split; [exact E|]. exists ((b, d) :: slots). split; [cbn [map]; unfold slot_item at 1; cbn [fst snd]; rewrite Es; reflexivity|].
      apply (add_all_cons _ _ _ _ _ _ A Ea).
    - cbn [shape_ms] in Hs. destruct Hs as (_ & _ & _ & _ & Hr). cbn [level_payloads strip_leaves pairs] in *.
      apply (Hskip r IH); assumption.
  Qed.

  (* second loop, given the claim for the recursive calls *)
  Definition fill_claim (fuel : nat) : Prop :=
    forall e c c' out, shape dp e ->
      fill_cache_from_envelope_data fuel omit_re dep_re c (enc_env e) = Ok (c', out) ->
      out = enc_env (strip dp op e) /\
      exists slots, map slot_item slots = extracted dp op e /\ add_all slots c = Ok c'.

  Lemma dep_loop fuel (IHf : fill_claim fuel) ms : forall pre c st,
    shape_ms dp ms -> distinct_keys (pre ++ pairs ms) ->
    foldM (step2 fuel) (dep_names ms) (c, pre ++ pairs ms) = Ok st ->
    snd st = pre ++ pairs (strip_deps dp op ms) /\
    exists slots, map slot_item slots = dep_extracted dp op ms /\ add_all slots c = Ok (fst st).
  Proof.
    induction ms as [|k v r IH|n e r IH]; intros pre c st Hs Hd H.
    - cbn [dep_names foldM] in H. injection H as <-. cbn [snd fst pairs strip_deps dep_extracted].
      split; [reflexivity|]. exists []. split; reflexivity.
    - cbn [shape_ms] in Hs. destruct Hs as (_ & _ & Hr). cbn [dep_names pairs strip_deps dep_extracted] in *.
      apply distinct_assoc in Hd. change (pre ++ (k, v) :: pairs r) with (pre ++ [(k, v)] ++ pairs r) in H. rewrite app_assoc in H.
      destruct (IH _ _ _ Hr Hd H) as (E & slots & Es & Ea). split; [|exists slots; auto].
      rewrite E, <- app_assoc. reflexivity.
    - cbn [shape_ms] in Hs. destruct Hs as (_ & _ & _ & He & Hr). cbn [dep_names pairs strip_deps dep_extracted] in *.
      cbn [foldM] in H. unfold step2 at 1 in H. cbn [fst snd] in H. unfold dict_get_req in H.
      destruct (distinct_mid _ _ _ _ Hd) as [Hpre _].
      rewrite (dict_get_mid pre (CText n) (CText n) _ (pairs r) Hpre (py_eqb_text_refl n)) in H.
      destruct (reraise_generator _ _) as [[c1 new]|] eqn:R; cbn [bind] in H; [|discriminate].
      apply reraise_ok in R. destruct (IHf e c c1 new He R) as (-> & s1 & Es1 & Ea1).
      rewrite (dict_set_mid pre (CText n) (CText n) _ _ (pairs r) Hpre (py_eqb_text_refl n)) in H.
      apply (distinct_replace _ _ _ (CBytes (enc_env (strip dp op e)))) in Hd. apply distinct_assoc in Hd.
      change (pre ++ ?kv :: pairs r) with (pre ++ [kv] ++ pairs r) in H. rewrite app_assoc in H.
      destruct (IH _ _ _ Hr Hd H) as (E & s2 & Es2 & Ea2). split.
      + rewrite E, <- app_assoc. reflexivity.
      + exists (s1 ++ s2). split; [rewrite map_app, Es1, Es2; reflexivity|apply (add_all_app' _ _ _ _ _ Ea1 Ea2)].
  Qed.

  (* the whole function: the output is the encoding of the stripped hierarchy and the cache received exactly the
     extracted payloads, in order *)
  Theorem fill_spec fuel : fill_claim fuel.
  Proof.
    induction fuel as [|fuel IHf]; intros e c c' out Hs H; [discriminate|].
    destruct e as [t ms]. rewrite fill_unfold, (py_loads_env dep_re t ms Hs) in H.
    pose proof Hs as Hs'. cbn [shape] in Hs'. destruct Hs' as ((Ht & _) & _ & Hd & Hm).
    destruct (skeleton_lists omit_re dep_re (text_keys (pairs ms)) (text_keys_nodup _ Hd)) as [Edeps Etodo].
    cbv zeta in H. rewrite Etodo, Edeps in H. clear Edeps Etodo.
    rewrite (names_goes omit_re dep_re ms Hm), (names_dep dep_re ms Hm) in H.
    destruct (foldM step1 _ _) as [st1|] eqn:L1; [|discriminate].
    destruct (foldM (step2 fuel) _ _) as [st2|] eqn:L2; [|discriminate].
    injection H as <- <-.
    assert (Htake : fc_take = dict_pop_req) by reflexivity.
    destruct (pop_loop ms [] c st1 Htake Hm Hd L1) as (E1 & s1 & Es1 & Ea1). cbn [app] in E1.
    destruct st1 as [c1 v1]. cbn [fst snd] in *. subst v1.
    rewrite <- (strip_leaves_dep_names ms) in L2.
    assert (Hd' : distinct_keys ([] ++ pairs (strip_leaves dp op ms))).
    { clear - Hd. cbn [app]. induction ms as [|k v r IH|n e r IH]; cbn [strip_leaves pairs] in *; [constructor| |].
      - pose proof (distinct_drop [] (k, v) (pairs r) Hd) as Hr. cbn [app] in Hr. specialize (IH Hr).
        assert (Hkeep : distinct_keys ((k, v) :: pairs (strip_leaves dp op r))).
        { inversion Hd as [|? ? HF _]; subst. constructor; [|exact IH]. apply Forall_forall. intros y Hy.
          rewrite Forall_forall in HF. apply HF. clear - Hy. induction r as [|k' v' r' IH'|n' e' r' IH']; cbn [strip_leaves pairs] in *; [destruct Hy| |].
          - destruct k' as [?|?|?|b|?|?|?|? ?|?]; try (destruct Hy as [<-|Hy]; [left; reflexivity|right; apply IH'; exact Hy]).
            destruct (goes dp op b); [right; apply IH'; exact Hy|destruct Hy as [<-|Hy]; [left; reflexivity|right; apply IH'; exact Hy]].
          - destruct Hy as [<-|Hy]; [left; reflexivity|right; apply IH'; exact Hy]. }
        destruct k as [?|?|?|b|?|?|?|? ?|?]; try exact Hkeep. destruct (goes dp op b); [exact IH|exact Hkeep].
      - pose proof (distinct_drop [] _ (pairs r) Hd) as Hr. cbn [app] in Hr. specialize (IH Hr).
        inversion Hd as [|? ? HF _]; subst. constructor; [|exact IH]. apply Forall_forall. intros y Hy.
        rewrite Forall_forall in HF. apply HF. clear - Hy. induction r as [|k' v' r' IH'|n' e' r' IH']; cbn [strip_leaves pairs] in *; [destruct Hy| |].
        + destruct k' as [?|?|?|b|?|?|?|? ?|?]; try (destruct Hy as [<-|Hy]; [left; reflexivity|right; apply IH'; exact Hy]).
          destruct (goes dp op b); [right; apply IH'; exact Hy|destruct Hy as [<-|Hy]; [left; reflexivity|right; apply IH'; exact Hy]].
        + destruct Hy as [<-|Hy]; [left; reflexivity|right; apply IH'; exact Hy]. }
    destruct (dep_loop fuel IHf (strip_leaves dp op ms) [] c1 st2 (strip_leaves_shape ms Hm) Hd' L2) as (E2 & s2 & Es2 & Ea2).
    cbn [app] in E2. rewrite E2, <- strip_split. split.
    - cbn [strip]. apply (ser_stripped omit_re dep_re t ms); [lia|exact Hm].
    - exists (s1 ++ s2). cbn [extracted]. rewrite strip_leaves_dep_extracted in Es2. split; [rewrite map_app, Es1, Es2; reflexivity|].
      apply (add_all_app' _ _ _ _ _ Ea1 Ea2).
  Qed.
End Fill.

(* ---------------------------------------------------------------- structural facts on the specification functions *)
Definition drop_path (x : list bytes * bytes * cbor) : bytes * cbor := (snd (fst x), snd x).
Definition pl_name (x : list bytes * bytes * cbor) : bytes := snd (fst x).

Section SpecFacts.
  Variables dep_p omit_p : bytes -> bool.
  Notation goes := (goes dep_p omit_p).
  Notation strip := (strip dep_p omit_p).
  Notation strip_ms := (strip_ms dep_p omit_p).
  Notation extracted := (extracted dep_p omit_p).
  Notation dep_extracted := (dep_extracted dep_p omit_p).
  Notation level_payloads := (level_payloads dep_p omit_p).

  (* unfolding equations (the mutual fixpoints are section-parametrised: cbn does not refold them) *)
  Lemma strip_env_eq t ms : strip (Env t ms) = Env t (strip_ms ms). Proof. reflexivity. Qed.
  Lemma strip_ms_nil : strip_ms MNil = MNil. Proof. reflexivity. Qed.
  Lemma strip_ms_text n v r : strip_ms (MLeaf (CText n) v r) = if goes n then strip_ms r else MLeaf (CText n) v (strip_ms r).
  Proof. reflexivity. Qed.
  Lemma strip_ms_other k v r : (forall n, k <> CText n) -> strip_ms (MLeaf k v r) = MLeaf k v (strip_ms r).
  Proof. intros H. destruct k as [?|?|?|b|?|?|?|? ?|?]; try reflexivity. exfalso. apply (H b). reflexivity. Qed.
  Lemma strip_ms_dep n e r : strip_ms (MDep n e r) = MDep n (strip e) (strip_ms r). Proof. reflexivity. Qed.
  Lemma extracted_env t ms : extracted (Env t ms) = level_payloads ms ++ dep_extracted ms. Proof. reflexivity. Qed.
  Lemma dep_extracted_nil : dep_extracted MNil = []. Proof. reflexivity. Qed.
  Lemma dep_extracted_leaf k v r : dep_extracted (MLeaf k v r) = dep_extracted r. Proof. reflexivity. Qed.
  Lemma dep_extracted_dep n e r : dep_extracted (MDep n e r) = extracted e ++ dep_extracted r. Proof. reflexivity. Qed.
  Ltac sx := rewrite ?strip_env_eq, ?strip_ms_nil, ?strip_ms_dep, ?extracted_env, ?dep_extracted_nil, ?dep_extracted_leaf, ?dep_extracted_dep.
  Ltac leaf k b := destruct k as [?|?|?|b|?|?|?|? ?|?];
                   first [rewrite strip_ms_text | rewrite strip_ms_other by (intros ?; discriminate)].

  (* no hypothesis: stripping never touches a member under a non-text key, at any level, nor the nesting *)
  Lemma skeleton_strip :
    (forall e, skeleton (strip e) = skeleton e) /\ (forall ms, skeleton_ms (strip_ms ms) = skeleton_ms ms).
  Proof.
    apply env_members_ind.
    - intros t ms IH. sx. cbn [skeleton skeleton_ms]. rewrite IH. reflexivity.
    - reflexivity.
    - intros k v r IH. leaf k b; try (cbn [skeleton skeleton_ms]; rewrite IH; reflexivity).
      destruct (goes b); cbn [skeleton skeleton_ms]; exact IH.
    - intros n e IHe r IHr. sx. cbn [skeleton skeleton_ms]. rewrite IHe, IHr. reflexivity.
  Qed.

  Lemma perm_shuffle {A} (E A' lp de B' : list A) :
    Permutation ((E ++ A') ++ lp ++ de ++ B') (lp ++ (E ++ de) ++ A' ++ B').
  Proof.
    rewrite <- !app_assoc. etransitivity; [|apply Permutation_app_swap_app]. apply Permutation_app_head.
    etransitivity; [apply Permutation_app_swap_app|]. apply Permutation_app_head. apply Permutation_app_swap_app.
  Qed.

  (* conservation: every text-keyed leaf of the input hierarchy is either among the extracted payloads or still a
     text-keyed leaf of the output hierarchy — as multisets of (name, value), nothing lost, nothing duplicated *)
  Lemma conservation_mut :
    (forall e p, Permutation (map drop_path (all_payloads p e)) (extracted e ++ map drop_path (all_payloads p (strip e)))) /\
    (forall ms p, Permutation (map drop_path (ms_payloads p ms))
                              (level_payloads ms ++ dep_extracted ms ++ map drop_path (ms_payloads p (strip_ms ms)))).
  Proof.
    apply env_members_ind.
    - intros t ms IH p. sx. cbn [all_payloads ms_payloads]. rewrite <- app_assoc. apply IH.
    - intros p. constructor.
    - intros k v r IH p. sx. leaf k b; try (cbn [all_payloads ms_payloads level_payloads]; apply IH).
      cbn [all_payloads ms_payloads level_payloads map]. unfold drop_path at 1. cbn [fst snd]. destruct (goes b).
      + cbn [app]. apply perm_skip. apply IH.
      + cbn [all_payloads ms_payloads map]. unfold drop_path at 2. cbn [fst snd]. rewrite app_assoc. apply Permutation_cons_app.
        rewrite <- app_assoc. apply IH.
    - intros n e IHe r IHr p. sx. cbn [all_payloads ms_payloads level_payloads]. rewrite !map_app.
      etransitivity; [apply Permutation_app; [apply IHe|apply IHr]|]. apply perm_shuffle.
  Qed.

  (* what stays, stays in place: the text-keyed leaves of the output are those of the input that are not selected,
     at the same level (path of dependency names), in the same order, with the same value *)
  Lemma remaining_mut :
    (forall e p, all_payloads p (strip e) = filter (fun x => negb (goes (pl_name x))) (all_payloads p e)) /\
    (forall ms p, ms_payloads p (strip_ms ms) = filter (fun x => negb (goes (pl_name x))) (ms_payloads p ms)).
  Proof.
    apply env_members_ind.
    - intros t ms IH p. sx. cbn [all_payloads ms_payloads]. apply IH.
    - reflexivity.
    - intros k v r IH p. leaf k b; try (cbn [all_payloads ms_payloads]; apply IH).
      cbn [all_payloads ms_payloads filter]. unfold pl_name at 1. cbn [fst snd].
      destruct (goes b); cbn [negb all_payloads ms_payloads]; rewrite IH; reflexivity.
    - intros n e IHe r IHr p. sx. cbn [all_payloads ms_payloads]. rewrite filter_app, IHe, IHr. reflexivity.
  Qed.

  Lemma extracted_selected_mut :
    (forall e, Forall (fun nv => goes (fst nv) = true) (extracted e)) /\
    (forall ms, Forall (fun nv => goes (fst nv) = true) (level_payloads ms) /\
                Forall (fun nv => goes (fst nv) = true) (dep_extracted ms)).
  Proof.
    apply env_members_ind.
    - intros t ms [H1 H2]. sx. apply Forall_app. split; assumption.
    - split; constructor.
    - intros k v r [H1 H2]. sx. cbn [level_payloads]. split; [|exact H2].
      destruct k as [?|?|?|b|?|?|?|? ?|?]; try exact H1. destruct (goes b) eqn:G; [constructor; [exact G|exact H1]|exact H1].
    - intros n e IHe r [H1 H2]. sx. cbn [level_payloads]. split; [exact H1|]. apply Forall_app. split; assumption.
  Qed.
End SpecFacts.

(* ---------------------------------------------------------------- cache_create from_envelope *)
Theorem from_envelope_spec fuel eb omit_re dep_re e cache_file out :
  shape (opt_p dep_re) e ->
  cache_create_from_envelope fuel eb omit_re dep_re (enc_env e) = Ok (cache_file, out) ->
  out = enc_env (strip (opt_p dep_re) (opt_p omit_re) e) /\
  exists slots c, map slot_item slots = extracted (opt_p dep_re) (opt_p omit_re) e /\
                  add_all slots (cache_init eb) = Ok c /\ close_and_save_cache c [] = Ok cache_file.
Proof.
  intros Hs H. unfold cache_create_from_envelope in H.
  destruct (fill_cache_from_envelope_data _ _ _ _ _) as [[c o]|] eqn:F; [|discriminate].
  destruct (close_and_save_cache c []) as [f|] eqn:C; [|discriminate]. injection H as <- <-.
  destruct (fill_spec omit_re dep_re fuel e _ _ _ Hs F) as (E & slots & Es & Ea).
  split; [exact E|]. exists slots, c. auto.
Qed.

(* ... and the written cache file decodes (proved decoder, nothing left over) to exactly those payloads, in order *)
Theorem cache_holds_extracted fuel eb omit_re dep_re e cache_file out :
  0 < eb -> shape (opt_p dep_re) e -> extracted (opt_p dep_re) (opt_p omit_re) e <> [] ->
  Forall (fun nv => blen (fst nv) < 2 ^ 64) (extracted (opt_p dep_re) (opt_p omit_re) e) ->
  cache_create_from_envelope fuel eb omit_re dep_re (enc_env e) = Ok (cache_file, out) ->
  exists es, loads_exact cache_file = Some (CMapI (map entry_pair es)) /\
             map slot_item (slots_of es) = extracted (opt_p dep_re) (opt_p omit_re) e /\ Forall entry_ok es.
Proof.
  intros Heb Hs Hne Hlen H. destruct (from_envelope_spec _ _ _ _ _ _ _ Hs H) as (_ & slots & c & Es & Ea & Ec).
  assert (Hn : slots <> []) by (intros ->; apply Hne; rewrite <- Es; reflexivity).
  assert (Hl : Forall (fun ud => blen (fst ud) < 2 ^ 64) slots).
  { rewrite <- Es in Hlen. rewrite Forall_map in Hlen. exact Hlen. }
  destruct (cache_decodes eb slots c [] cache_file Heb Hn Hl Ea Ec) as (es & E1 & E2 & E3 & _).
  exists es. rewrite E2. auto.
Qed.

(* ---------------------------------------------------------------- payload_extract *)
Definition stable_pairs (l : list (cbor * cbor)) : Prop := Forall (fun kv => leaf_ok (fst kv) (snd kv)) l.

Lemma py_loads_map t l r : tag_ok t -> blen l < 2 ^ 64 -> distinct_keys l -> stable_pairs l ->
  py_loads (encode (CTag t (CMap l)) ++ r) = Ok (CTag t (CMap l)).
Proof.
  intros (Ht & H2 & H3) Hlen Hd Hs. unfold py_loads. rewrite loads_encode.
  2:{ cbn [wf]. split; [exact Ht|]. split; [exact Hlen|]. change (wf_pairs l). apply wf_pairs_Forall.
      eapply Forall_impl; [|exact Hs]. intros [k v] (Hk & Hv & _). cbn [fst snd]. auto. }
  cbn [pyn]. rewrite H2, H3. rewrite mapR_id.
  - rewrite (dict_of_pairs_distinct _ Hd). reflexivity.
  - eapply Forall_impl; [|exact Hs]. intros [k v] (_ & _ & Hk & Hv & _). cbn [fst snd] in *. rewrite Hk, Hv. reflexivity.
Qed.

Lemma py_eqb_text_other n k : (forall m, k <> CText m) -> py_eqb (CText n) k = false.
Proof. intros H. destruct (py_eqb (CText n) k) eqn:E; [|reflexivity]. apply py_eqb_text in E. exfalso. apply (H n E). Qed.

Lemma pop_without name l :
  dict_pop l (CText name) = match dict_get l (CText name) with Some v => Some (v, without name l) | None => None end.
Proof.
  induction l as [|[k v] l IH]; cbn [dict_pop dict_get without]; [reflexivity|].
  destruct k as [?|?|?|b|?|?|?|? ?|?];
    try (rewrite py_eqb_text_other by (intros m; discriminate); rewrite IH; destruct (dict_get l (CText name)); reflexivity).
  assert (E : py_eqb (CText name) (CText b) = list_eqb name b) by reflexivity. rewrite E.
  destruct (list_eqb name b); [reflexivity|]. rewrite IH. destruct (dict_get l (CText name)); reflexivity.
Qed.
Lemma without_absent_id name l : dict_get l (CText name) = None -> without name l = l.
Proof.
  induction l as [|[k v] l IH]; cbn [dict_get without]; [reflexivity|].
  destruct k as [?|?|?|b|?|?|?|? ?|?];
    try (rewrite py_eqb_text_other by (intros m; discriminate); intros H; rewrite (IH H); reflexivity).
  assert (E : py_eqb (CText name) (CText b) = list_eqb name b) by reflexivity. rewrite E.
  destruct (list_eqb name b); [discriminate|]. intros H. rewrite (IH H). reflexivity.
Qed.
Lemma without_incl name l x : In x (without name l) -> In x l.
Proof.
  induction l as [|[k v] l IH]; cbn [without]; [intros []|].
  destruct k as [?|?|?|b|?|?|?|? ?|?]; try (intros [<-|H]; [left; reflexivity|right; apply IH; exact H]).
  destruct (list_eqb name b); [intros H; right; exact H|intros [<-|H]; [left; reflexivity|right; apply IH; exact H]].
Qed.
Lemma without_no_name name l : distinct_keys l -> Forall (fun kv => py_eqb (CText name) (fst kv) = false) (without name l).
Proof.
  induction 1 as [|[k v] l HF _ IH]; cbn [without]; [constructor|].
  assert (Hother : (forall m, k <> CText m) -> Forall (fun kv => py_eqb (CText name) (fst kv) = false) ((k, v) :: without name l)).
  { intros Hk. constructor; [cbn [fst]; apply py_eqb_text_other; exact Hk|exact IH]. }
  destruct k as [?|?|?|b|?|?|?|? ?|?]; try (apply Hother; intros m; discriminate).
  destruct (list_eqb name b) eqn:E.
  - apply list_eqb_eq in E. subst b. eapply Forall_impl; [|exact HF]. intros y [Hy _]. exact Hy.
  - constructor; [|exact IH]. cbn [fst]. assert (E' : py_eqb (CText name) (CText b) = list_eqb name b) by reflexivity. rewrite E'. exact E.
Qed.

Definition replacement (name : bytes) (replace : option bytes) : list (cbor * cbor) :=
  match replace with Some b => [(CText name, CBytes b)] | None => [] end.

(* pop / replace / re-dump: the output is the input map without the entry `name`, every other entry untouched and in
   place, the replacement (if any) appended under the same name; the payload file holds the popped bytes *)
Theorem payload_extract_spec t l r name replace want_file out file :
  tag_ok t -> blen l < 2 ^ 64 -> distinct_keys l -> stable_pairs l ->
  payload_extract (encode (CTag t (CMap l)) ++ r) name replace want_file = Ok (out, file) ->
  out = encode (CTag t (CMap (without name l ++ replacement name replace))) /\
  (if want_file then exists b, dict_get l (CText name) = Some (CBytes b) /\ file = Some b else file = None).
Proof.
  intros Ht Hlen Hd Hs H. unfold payload_extract in H. rewrite (py_loads_map t l r Ht Hlen Hd Hs) in H.
  assert (Kp : pe_pop_key name = name) by reflexivity. assert (Kr : pe_replace_key name = name) by reflexivity.
  rewrite Kp, Kr, pop_without in H. cbv zeta in H.
  set (value1 := match match dict_get l (CText name) with Some v => Some (v, without name l) | None => None end with
                 | Some (_, r0) => r0 | None => l end) in H.
  assert (E1 : value1 = without name l).
  { subst value1. destruct (dict_get l (CText name)) eqn:G; [reflexivity|]. symmetry. apply without_absent_id. exact G. }
  set (value2 := match replace with Some b => dict_set value1 (CText name) (CBytes b) | None => value1 end) in H.
  assert (E2 : value2 = without name l ++ replacement name replace).
  { subst value2. rewrite E1. destruct replace as [b|]; cbn [replacement]; [|rewrite app_nil_r; reflexivity].
    apply dict_set_absent. apply without_no_name. exact Hd. }
  assert (Eser : ser (CTag t (CMap value2)) = encode (CTag t (CMap value2))).
  { unfold ser. cbn [unpyn]. do 3 f_equal. rewrite E2. rewrite <- (map_id (without name l ++ replacement name replace)) at 2.
    apply map_ext_in. intros [k v] Hin. apply in_app_or in Hin. destruct Hin as [Hin|Hin].
    - apply without_incl in Hin. unfold stable_pairs in Hs. rewrite Forall_forall in Hs.
      destruct (Hs _ Hin) as (_ & _ & _ & _ & Hk & Hv). cbn [fst snd] in *. rewrite Hk, Hv. reflexivity.
    - destruct replace as [b|]; [|destruct Hin]. destruct Hin as [[= <- <-]|[]]. reflexivity. }
  rewrite Eser in H. destruct want_file.
  - destruct (dict_get l (CText name)) as [v|] eqn:G; [|discriminate].
    destruct v as [?|?|pb|?|?|?|?|? ?|?]; try discriminate. injection H as <- <-. rewrite E2. split; [reflexivity|].
    exists pb. auto.
  - injection H as <- <-. rewrite E2. split; reflexivity.
Qed.

(* "changes only that key": with the entry at its place, the result is the same list without it *)
Lemma without_mid pre name v post :
  Forall (fun kv => py_eqb (CText name) (fst kv) = false) pre ->
  without name (pre ++ (CText name, v) :: post) = pre ++ post.
Proof.
  induction pre as [|[k w] pre IH]; intros HF; cbn [app without].
  - rewrite list_eqb_refl. reflexivity.
  - inversion HF as [|? ? Hk HF']; subst. cbn [fst] in Hk. specialize (IH HF').
    destruct k as [?|?|?|b|?|?|?|? ?|?]; try (rewrite IH; reflexivity).
    assert (E : py_eqb (CText name) (CText b) = list_eqb name b) by reflexivity. rewrite E in Hk. rewrite Hk, IH. reflexivity.
Qed.

(* ---------------------------------------------------------------- the property, assembled *)
(* For every hierarchy the tool accepts: the output envelope is the encoding of a hierarchy e' and the cache received
   slots such that
   (1) conservation: text-keyed leaves of e  =  slots (+) text-keyed leaves of e'   (multisets of (name, value));
   (2) the split is exact: a slot's name is neither a dependency name nor omitted; what stays in e' is exactly, in place
       and in order, what is not so selected;
   (3) e' and e have the same skeleton: every member under a non-text key (manifest, authentication wrapper, severed
       members), the tags and the nesting are identical at every level, in the same order. *)
Theorem extraction_conserves fuel eb omit_re dep_re e cache_file out :
  shape (opt_p dep_re) e ->
  cache_create_from_envelope fuel eb omit_re dep_re (enc_env e) = Ok (cache_file, out) ->
  let dp := opt_p dep_re in let op := opt_p omit_re in
  exists e' slots c,
    out = enc_env e' /\ add_all slots (cache_init eb) = Ok c /\ close_and_save_cache c [] = Ok cache_file /\
    Permutation (map drop_path (all_payloads [] e)) (map slot_item slots ++ map drop_path (all_payloads [] e')) /\
    Forall (fun ud => dp (fst ud) = false /\ op (fst ud) = false) slots /\
    all_payloads [] e' = filter (fun x => negb (goes dp op (pl_name x))) (all_payloads [] e) /\
    skeleton e' = skeleton e.
Proof.
  intros Hs H dp op. destruct (from_envelope_spec _ _ _ _ _ _ _ Hs H) as (E & slots & c & Es & Ea & Ec).
  exists (strip dp op e), slots, c. repeat split; try assumption.
  - rewrite Es. apply (proj1 (conservation_mut dp op)).
  - pose proof (proj1 (extracted_selected_mut dp op) e) as HF. fold dp op in Es. rewrite <- Es in HF. rewrite Forall_map in HF.
    eapply Forall_impl; [|exact HF]. intros [u d]. unfold slot_item, goes. cbn [fst snd]. intros G.
    apply andb_prop in G. destruct G as [G1 G2]. apply negb_true_iff in G1, G2. auto.
  - apply (proj1 (remaining_mut dp op)).
  - apply (proj1 (skeleton_strip dp op)).
Qed.
