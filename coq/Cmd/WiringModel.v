(* Cmd/WiringModel.v — C19: the abstract manifest, the operational reading of a SUIT command sequence that the
   wiring property needs (current component index, per-component uri / image-digest parameters, what was fetched),
   and the executable checker wiring_ok.  Definitions only; lemmas are in Cmd/Wiring.v.
   The generated file gen/GenWiring.v (abstract manifests of the two NCS templates for every image set) imports
   this file. *)
From Verif Require Import Base.Prim.

Inductive comp :=
| CandMfst                       (* [ "CAND_MFST", n ]           *)
| InstldMfst (cid : bytes)       (* [ "INSTLD_MFST", class id ]  *)
| OtherComp.

Inductive cmd :=
| SetIdx (l : list Z)            (* suit-directive-set-component-index n | [n...] *)
| SetAll                         (* suit-directive-set-component-index true       *)
| SetUri (u : bytes)             (* set/override-parameters: suit-parameter-uri          *)
| SetDigest (d : bytes)          (* set/override-parameters: suit-parameter-image-digest *)
| Fetch | ImageMatch | DepIntegrity | ProcessDep
| Other.

(* an integrated dependency: the digest of its manifest and the class id of its manifest component id (if any) *)
Notation integ := (bytes * (bytes * option bytes))%type (only parsing).

Record manifest_abs := {
  comps : list comp;                 (* suit-components, in order                       *)
  deps : list Z;                     (* keys of suit-dependencies                       *)
  shared : list cmd;                 (* suit-shared-sequence                            *)
  seqs : list (list cmd);            (* every other command sequence of the manifest    *)
  integs : list integ;               (* envelope members keyed by a text string         *)
  self_cid : option bytes            (* class id in suit-manifest-component-id          *)
}.

(* what the configuration says: class ids of the configured names *)
Record expect := { exp_installed : list bytes; exp_self : bytes }.

Fixpoint lookup {V} (k : list Z) (l : list (list Z * V)) : option V :=
  match l with [] => None | (k', v) :: r => if list_eqb k k' then Some v else lookup k r end.
Fixpoint zlookup {V} (k : Z) (l : list (Z * V)) : option V :=
  match l with [] => None | (k', v) :: r => if k =? k' then Some v else zlookup k r end.
Definition zmem (k : Z) (l : list Z) : bool := existsb (Z.eqb k) l.
Definition bmem (k : bytes) (l : list bytes) : bool := existsb (list_eqb k) l.

Record st := { cur : list Z; uris : list (Z * bytes); digs : list (Z * bytes); fetched : list (Z * bytes) }.
Definition st0 : st := {| cur := [0]; uris := []; digs := []; fetched := [] |}.

Definition all_idx (n : nat) : list Z := map Z.of_nat (seq 0 n).

(* execution of one command on the abstract state; n = number of declared components *)
Definition step (n : nat) (s : st) (c : cmd) : st :=
  match c with
  | SetIdx l => {| cur := l; uris := uris s; digs := digs s; fetched := fetched s |}
  | SetAll => {| cur := all_idx n; uris := uris s; digs := digs s; fetched := fetched s |}
  | SetUri u => {| cur := cur s; uris := map (fun i => (i, u)) (cur s) ++ uris s; digs := digs s; fetched := fetched s |}
  | SetDigest d => {| cur := cur s; uris := uris s; digs := map (fun i => (i, d)) (cur s) ++ digs s; fetched := fetched s |}
  | Fetch => {| cur := cur s; uris := uris s; digs := digs s;
                fetched := flat_map (fun i => match zlookup i (uris s) with Some u => [(i, u)] | None => [] end) (cur s) ++ fetched s |}
  | _ => s
  end.
Definition run (n : nat) (s : st) (l : list cmd) : st := fold_left (step n) l s.

Definition is_hash (u : bytes) : bool := match u with 35 :: _ => true | _ => false end.   (* '#name' *)
Definition in_range (n : nat) (i : Z) : bool := (0 <=? i) && (i <? Z.of_nat n).
(* l[i] for an integer index (None outside 0 .. len-1); Wiring.znth_spec relates it to nth_error *)
Fixpoint znth {A} (l : list A) (i : Z) : option A :=
  match l with [] => None | x :: r => if i =? 0 then Some x else znth r (i - 1) end.
Definition comp_at (m : manifest_abs) (i : Z) : option comp := znth (comps m) i.

(* is the command acceptable in the state reached so far?  (boolean form; the Prop form is Wiring.cmd_ok) *)
Definition cmd_okb (m : manifest_abs) (s : st) (c : cmd) : bool :=
  match c with
  | SetIdx l => forallb (in_range (length (comps m))) l
  | Fetch =>
      forallb (fun i => in_range (length (comps m)) i &&
                        match zlookup i (uris s) with
                        | Some u => if is_hash u then match lookup u (integs m) with Some _ => true | None => false end else true
                        | None => false end) (cur s)
  | ImageMatch =>
      forallb (fun i => match zlookup i (digs s) with
                        | None => false
                        | Some d =>
                            match comp_at m i with
                            | Some CandMfst =>
                                match zlookup i (fetched s) with
                                | Some u => if is_hash u then match lookup u (integs m) with
                                                              | Some e => list_eqb (fst e) d | None => false end else true
                                | None => false
                                end
                            | Some (InstldMfst cid) =>
                                existsb (fun e => list_eqb (fst (snd e)) d
                                                  && match snd (snd e) with Some c' => list_eqb c' cid | None => false end) (integs m)
                            | Some OtherComp => true
                            | None => false
                            end
                        end) (cur s)
  | DepIntegrity | ProcessDep => forallb (fun i => zmem i (deps m)) (cur s)
  | _ => true
  end.

Fixpoint check_seq (m : manifest_abs) (s : st) (l : list cmd) : bool :=
  match l with
  | [] => true
  | c :: r => cmd_okb m s c && check_seq m (step (length (comps m)) s c) r
  end.

Definition is_mfst (k : comp) : bool := match k with CandMfst | InstldMfst _ => true | OtherComp => false end.
Definition deps_okb (m : manifest_abs) : bool :=
  forallb (fun d => match comp_at m d with Some k => is_mfst k | None => false end) (deps m).

Definition installed_cids (m : manifest_abs) : list bytes :=
  flat_map (fun k => match k with InstldMfst c => [c] | _ => [] end) (comps m).
Definition cids_okb (m : manifest_abs) (e : expect) : bool :=
  forallb (fun c => bmem c (exp_installed e)) (installed_cids m)
  && forallb (fun c => bmem c (installed_cids m)) (exp_installed e)
  && match self_cid m with Some c => list_eqb c (exp_self e) | None => false end.

Definition seqs_okb (m : manifest_abs) : bool :=
  check_seq m st0 (shared m)
  && forallb (fun s => check_seq m (run (length (comps m)) st0 (shared m)) s) (seqs m).

Definition wiring_ok (m : manifest_abs) (e : expect) : bool := seqs_okb m && deps_okb m && cids_okb m e.
