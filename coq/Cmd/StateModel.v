(* Cmd/StateModel.v — abstract read/write programs of the stateful helper objects (signer, encryptor, recursive signer)
   and the definite-assignment analysis "every attribute is written in this call before it is read" (C18). *)
From Verif Require Import Base.Prim.

Inductive ev :=
| R (a : bytes)                       (* self.a is read *)
| W (a : bytes)                       (* self.a = ... *)
| Call (m : bytes)                    (* self.m(...) for a method of the same class *)
| If (t e : list ev)                  (* either branch *)
| Loop (b : list ev).                 (* zero or more times *)

Definition mem (a : bytes) (l : list bytes) : bool := existsb (list_eqb a) l.
Definition inter (a b : list bytes) : list bytes := filter (fun x => mem x b) a.

Section Analysis.
  Variable methods : list (bytes * list ev).
  Fixpoint find_method (m : bytes) (l : list (bytes * list ev)) : option (list ev) :=
    match l with [] => None | (k, b) :: r => if list_eqb m k then Some b else find_method m r end.

  (* returns (attributes read before any definite write, attributes definitely written afterwards) *)
  Fixpoint scan (fuel : nat) (p : list ev) (written : list bytes) {struct fuel} : list bytes * list bytes :=
    match fuel with O => ([[63]], written) | S f =>
    (fix go (p : list ev) (written : list bytes) : list bytes * list bytes :=
       match p with
       | [] => ([], written)
       | R a :: r => let (bad, w) := go r written in ((if mem a written then [] else [a]) ++ bad, w)
       | W a :: r => go r (a :: written)
       | Call m :: r =>
           match find_method m methods with
           | Some b => let (bad1, w1) := scan f b written in let (bad2, w2) := go r w1 in (bad1 ++ bad2, w2)
           | None => let (bad, w) := go r written in ([63] :: m :: bad, w)
           end
       | If t e :: r =>
           let (b1, w1) := scan f t written in
           let (b2, w2) := scan f e written in
           let (b3, w3) := go r (inter w1 w2) in (b1 ++ b2 ++ b3, w3)
       | Loop b :: r =>
           let (b1, _) := scan f b written in
           let (b3, w3) := go r written in (b1 ++ b3, w3)
       end) p written
    end.
End Analysis.

(* ---- meaning: a straight-line run (one path through the program, calls inlined) over an object state ---- *)
Inductive step := SR (a : bytes) | SW (a : bytes).

Section Run.
  Variable V : Type.
  Variable compute : nat -> list V -> V.          (* what a write stores: any function of its position and of everything read so far *)
  Definition state := bytes -> V.
  Definition upd (s : state) (a : bytes) (v : V) : state := fun x => if list_eqb x a then v else s x.

  (* the log of values read is everything the call can observe of the object state *)
  Fixpoint run (p : list step) (pos : nat) (s : state) (log : list V) : list V :=
    match p with
    | [] => log
    | SR a :: r => run r (S pos) s (log ++ [s a])
    | SW a :: r => run r (S pos) (upd s a (compute pos log)) log
    end.

  Fixpoint definite (p : list step) (written : list bytes) : bool :=
    match p with
    | [] => true
    | SR a :: r => mem a written && definite r written
    | SW a :: r => definite r (a :: written)
    end.
End Run.
