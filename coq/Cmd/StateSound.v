(* Cmd/StateSound.v — soundness of the definite-assignment scan (Cmd/StateModel.v) for ALL paths: if the scan of a program
   reports no attribute read before it is written, then every straight-line trace of the program — any choice of branches,
   any number of loop iterations, calls inlined — reads only attributes that the same call has written before; hence
   (Cmd/State.v) no trace observes anything of the state left behind by earlier calls. *)
From Verif Require Import Base.Prim Base.PrimFacts Cmd.StateModel Cmd.State.

Section Sound.
  Variable methods : list (bytes * list ev).

  (* the traces of a program *)
  Inductive trace : list ev -> list step -> Prop :=
  | t_nil : trace [] []
  | t_R a r tr : trace r tr -> trace (R a :: r) (SR a :: tr)
  | t_W a r tr : trace r tr -> trace (W a :: r) (SW a :: tr)
  | t_Call m b r tb tr : find_method m methods = Some b -> trace b tb -> trace r tr -> trace (Call m :: r) (tb ++ tr)
  | t_IfT t e r tt tr : trace t tt -> trace r tr -> trace (If t e :: r) (tt ++ tr)
  | t_IfE t e r te tr : trace e te -> trace r tr -> trace (If t e :: r) (te ++ tr)
  | t_Loop0 b r tr : trace r tr -> trace (Loop b :: r) tr
  | t_LoopS b r tb tr : trace b tb -> trace (Loop b :: r) tr -> trace (Loop b :: r) (tb ++ tr).

  Definition sub (a b : list bytes) : Prop := forall x, mem x a = true -> mem x b = true.

  (* the attributes written by a trace, added to a set *)
  Fixpoint after (tr : list step) (w : list bytes) : list bytes :=
    match tr with [] => w | SR _ :: r => after r w | SW a :: r => after r (a :: w) end.

  Lemma mem_cons x a l : mem x (a :: l) = list_eqb x a || mem x l.
  Proof. reflexivity. Qed.

  Lemma sub_refl a : sub a a. Proof. intros x H. exact H. Qed.
  Lemma sub_trans a b c : sub a b -> sub b c -> sub a c. Proof. intros H1 H2 x H. auto. Qed.
  Lemma sub_cons a w w' : sub w w' -> sub (a :: w) (a :: w').
  Proof. intros H x. rewrite !mem_cons. destruct (list_eqb x a); [reflexivity|]. cbn [orb]. apply H. Qed.

  Lemma after_mono tr : forall w w', sub w w' -> sub (after tr w) (after tr w').
  Proof. induction tr as [|[a|a] r IH]; intros w w' H; cbn [after]; [exact H|apply IH; exact H|apply IH; apply sub_cons; exact H]. Qed.
  Lemma after_grows tr : forall w, sub w (after tr w).
  Proof.
    induction tr as [|[a|a] r IH]; intros w; cbn [after]; [apply sub_refl|apply IH|].
    eapply sub_trans; [|apply IH]. intros x H. rewrite mem_cons, H. apply orb_true_r.
  Qed.
  Lemma after_app t1 t2 w : after (t1 ++ t2) w = after t2 (after t1 w).
  Proof. revert w. induction t1 as [|[a|a] r IH]; intros w; cbn [after app]; [reflexivity|apply IH|apply IH]. Qed.

  Lemma definite_mono tr : forall w w', sub w w' -> definite tr w = true -> definite tr w' = true.
  Proof.
    induction tr as [|[a|a] r IH]; intros w w' H Hd; cbn [definite] in *; [reflexivity| |].
    - apply andb_prop in Hd. destruct Hd as [Hm Hd]. rewrite (H a Hm). cbn [andb]. exact (IH w w' H Hd).
    - apply (IH (a :: w)); [apply sub_cons; exact H|exact Hd].
  Qed.
  Lemma definite_app t1 t2 w : definite t1 w = true -> definite t2 (after t1 w) = true -> definite (t1 ++ t2) w = true.
  Proof.
    revert w. induction t1 as [|[a|a] r IH]; intros w H1 H2; cbn [definite app after] in *; [exact H2| |].
    - apply andb_prop in H1. destruct H1 as [Hm H1]. rewrite Hm. cbn [andb]. exact (IH w H1 H2).
    - exact (IH (a :: w) H1 H2).
  Qed.

  Lemma inter_sub_l a b : sub (inter a b) a.
  Proof. intros x H. unfold inter, mem in *. apply existsb_exists in H. destruct H as (y & Hy & He). apply filter_In in Hy. apply existsb_exists. exists y. tauto. Qed.
  Lemma inter_sub_r a b : sub (inter a b) b.
  Proof.
    intros x H. unfold inter, mem in H. apply existsb_exists in H. destruct H as (y & Hy & He). apply filter_In in Hy. destruct Hy as [_ Hy].
    apply list_eqb_eq in He. subst y. exact Hy.
  Qed.

  Lemma app_nil_both {A} (a b : list A) : a ++ b = [] -> a = [] /\ b = [].
  Proof. destruct a; [auto|discriminate]. Qed.

  (* soundness: a clean scan covers every trace *)
  Definition covers (p : list ev) (written bad w : list bytes) : Prop :=
    bad = [] -> forall tr, trace p tr -> forall written', sub written written' ->
      definite tr written' = true /\ sub w (after tr written').

  Theorem scan_sound : forall fuel p written, covers p written (fst (scan methods fuel p written)) (snd (scan methods fuel p written)).
  Proof.
    induction fuel as [|f IHf]; intros p written; [intros Hbad; discriminate Hbad|].
    cbn [scan].
    match goal with |- covers _ _ (fst (?G p written)) _ => set (go := G) end.
    (* the inner loop over the events of one block, by induction on the trace *)
    assert (Hgo : forall p tr, trace p tr -> forall written, fst (go p written) = [] -> forall written', sub written written' ->
                    definite tr written' = true /\ sub (snd (go p written)) (after tr written')).
    { clear p written. intros p tr Ht. induction Ht as [|a r tr Ht IH|a r tr Ht IH|m b r tb tr Hm Htb _ Htr IHr|t e r tt tr Htt _ Htr IHr|t e r te tr Hte _ Htr IHr
                                                     |b r tr Htr IHr|b r tb tr Htb _ Htl IHl]; intros written Hbad written' Hsub.
      - cbn. split; [reflexivity|exact Hsub].
      - cbn [go] in Hbad |- *. fold go in Hbad |- *. destruct (go r written) as [bad w] eqn:E. cbn [fst snd] in *.
        apply app_nil_both in Hbad. destruct Hbad as [Ha Hb]. destruct (mem a written) eqn:Em; [|discriminate Ha].
        specialize (IH written). rewrite E in IH. destruct (IH Hb written' Hsub) as [Hd Hw]. cbn [definite after]. rewrite (Hsub a Em). auto.
      - cbn [go] in Hbad |- *. fold go in Hbad |- *. cbn [definite after]. apply (IH (a :: written) Hbad). apply sub_cons. exact Hsub.
      - cbn [go] in Hbad |- *. fold go in Hbad |- *. rewrite Hm in Hbad |- *.
        pose proof (IHf b written) as Hb. destruct (scan methods f b written) as [bad1 w1] eqn:E1. cbn [fst snd] in Hb.
        destruct (go r w1) as [bad2 w2] eqn:E2. cbn [fst snd] in *. apply app_nil_both in Hbad. destruct Hbad as [H1 H2].
        destruct (Hb H1 tb Htb written' Hsub) as [Hd1 Hw1]. specialize (IHr w1). rewrite E2 in IHr. destruct (IHr H2 _ Hw1) as [Hd2 Hw2].
        rewrite after_app. split; [apply definite_app; assumption|exact Hw2].
      - cbn [go] in Hbad |- *. fold go in Hbad |- *.
        pose proof (IHf t written) as Hb. destruct (scan methods f t written) as [b1 w1] eqn:E1. destruct (scan methods f e written) as [b2 w2] eqn:E2. cbn [fst snd] in Hb.
        destruct (go r (inter w1 w2)) as [b3 w3] eqn:E3. cbn [fst snd] in *. apply app_nil_both in Hbad. destruct Hbad as [H1 H23]. apply app_nil_both in H23. destruct H23 as [H2 H3].
        destruct (Hb H1 tt Htt written' Hsub) as [Hd1 Hw1]. specialize (IHr (inter w1 w2)). rewrite E3 in IHr.
        destruct (IHr H3 (after tt written') (sub_trans _ _ _ (inter_sub_l w1 w2) Hw1)) as [Hd2 Hw2].
        rewrite after_app. split; [apply definite_app; assumption|exact Hw2].
      - cbn [go] in Hbad |- *. fold go in Hbad |- *.
        pose proof (IHf e written) as Hb. destruct (scan methods f t written) as [b1 w1] eqn:E1. destruct (scan methods f e written) as [b2 w2] eqn:E2. cbn [fst snd] in Hb.
        destruct (go r (inter w1 w2)) as [b3 w3] eqn:E3. cbn [fst snd] in *. apply app_nil_both in Hbad. destruct Hbad as [H1 H23]. apply app_nil_both in H23. destruct H23 as [H2 H3].
        destruct (Hb H2 te Hte written' Hsub) as [Hd1 Hw1]. specialize (IHr (inter w1 w2)). rewrite E3 in IHr.
        destruct (IHr H3 (after te written') (sub_trans _ _ _ (inter_sub_r w1 w2) Hw1)) as [Hd2 Hw2].
        rewrite after_app. split; [apply definite_app; assumption|exact Hw2].
      - cbn [go] in Hbad |- *. fold go in Hbad |- *.
        destruct (scan methods f b written) as [b1 w1] eqn:E1. destruct (go r written) as [b3 w3] eqn:E3. cbn [fst snd] in *.
        apply app_nil_both in Hbad. destruct Hbad as [H1 H3]. specialize (IHr written). rewrite E3 in IHr. exact (IHr H3 written' Hsub).
      - pose proof Hbad as Hbad0. cbn [go] in Hbad. fold go in Hbad.
        pose proof (IHf b written) as Hb. destruct (scan methods f b written) as [b1 w1] eqn:E1. cbn [fst snd] in Hb.
        destruct (go r written) as [b3 w3] eqn:E3. cbn [fst snd] in *. apply app_nil_both in Hbad. destruct Hbad as [H1 H3].
        destruct (Hb H1 tb Htb written' Hsub) as [Hd1 _].
        destruct (IHl written Hbad0 (after tb written') (sub_trans _ _ _ Hsub (after_grows tb written'))) as [Hd2 Hw2].
        rewrite after_app. split; [apply definite_app; assumption|exact Hw2]. }
    intros Hbad tr Ht written' Hsub. exact (Hgo p tr Ht written Hbad written' Hsub).
  Qed.

  (* every trace of a program with a clean scan is state independent *)
  Corollary clean_scan_state_independent fuel p tr V compute s s' :
    fst (scan methods fuel p []) = [] -> trace p tr -> run V compute tr O s [] = run V compute tr O s' [].
  Proof.
    intros Hbad Ht. apply call_state_independent. exact (proj1 (scan_sound fuel p [] Hbad tr Ht [] (sub_refl []))).
  Qed.

  (* non-vacuity helper: one concrete trace of a program (then-branches, loops not entered, calls inlined) *)
  Fixpoint some_trace (fuel : nat) (p : list ev) {struct fuel} : option (list step) :=
    match fuel with O => None | S f =>
    (fix go (p : list ev) : option (list step) :=
       match p with
       | [] => Some []
       | R a :: r => match go r with Some tr => Some (SR a :: tr) | None => None end
       | W a :: r => match go r with Some tr => Some (SW a :: tr) | None => None end
       | Call m :: r => match find_method m methods with
                        | Some b => match some_trace f b, go r with Some tb, Some tr => Some (tb ++ tr) | _, _ => None end
                        | None => None end
       | If t e :: r => match some_trace f t, go r with Some t1, Some tr => Some (t1 ++ tr) | _, _ => None end
       | Loop b :: r => go r
       end) p
    end.

  Lemma some_trace_ok : forall fuel p tr, some_trace fuel p = Some tr -> trace p tr.
  Proof.
    induction fuel as [|f IHf]; intros p tr; [discriminate|]. cbn [some_trace].
    match goal with |- ?G p = _ -> _ => set (go := G) end. revert tr.
    induction p as [|[a|a|m|t e|b] r IH]; intros tr Hs; cbn [go] in Hs; fold go in Hs.
    - injection Hs as <-. constructor.
    - destruct (go r) as [tr0|]; [|discriminate]. injection Hs as <-. constructor. apply IH. reflexivity.
    - destruct (go r) as [tr0|]; [|discriminate]. injection Hs as <-. constructor. apply IH. reflexivity.
    - destruct (find_method m methods) as [b|] eqn:Em; [|discriminate]. destruct (some_trace f b) as [tb|] eqn:Eb; [|discriminate].
      destruct (go r) as [tr0|]; [|discriminate]. injection Hs as <-. econstructor; [exact Em|apply IHf; exact Eb|apply IH; reflexivity].
    - destruct (some_trace f t) as [t1|] eqn:Et; [|discriminate]. destruct (go r) as [tr0|]; [|discriminate]. injection Hs as <-.
      apply t_IfT; [apply IHf; exact Et|apply IH; reflexivity].
    - apply t_Loop0. apply IH. exact Hs.
  Qed.
End Sound.

(* every trace of every program of a table whose scans are all clean is state independent *)
Theorem all_clean_independent (progs : list (bytes * list (bytes * list ev) * list ev)) (fuel : nat) :
  forallb (fun e => match fst (scan (snd (fst e)) fuel (snd e) []) with [] => true | _ => false end) progs = true ->
  forall e, In e progs -> forall tr, trace (snd (fst e)) (snd e) tr ->
  forall V compute s s', run V compute tr O s [] = run V compute tr O s' [].
Proof.
  intros Hall e Hin tr Ht V compute s s'.
  pose proof (proj1 (forallb_forall _ _) Hall e Hin) as Hc. cbv beta in Hc.
  apply (clean_scan_state_independent (snd (fst e)) fuel (snd e) tr V compute s s'); [|exact Ht].
  destruct (fst (scan (snd (fst e)) fuel (snd e) [])); [reflexivity|discriminate Hc].
Qed.
