(* Cmd/Encrypt.v — lemmas about the encryption path (C06, C14).  The model (gen/GenEncrypt.v) is regenerated from
   ncs/encrypt_script.py, ncs/basic_kms.py and suit_generator/cmd_encrypt.py on every run; the proofs below never
   mention generated names.  The specification side (Enc_structure, COSE_Encrypt, file names, hash registry) is
   written by hand here from RFC 9052 / RFC 9053 / RFC 9054 and the command's documented output files. *)
From Verif Require Import Base.Prim Base.PrimFacts Cbor.Codec Cbor.CodecFacts gen.GenEncrypt.
From Verif Require Export Cmd.EncryptModel.

#[local] Arguments Z.add : simpl never.
#[local] Arguments Z.sub : simpl never.
#[local] Arguments Z.mul : simpl never.
#[local] Arguments Z.opp : simpl never.
#[local] Arguments Z.pow : simpl never.

(* ------------------------------------------------------------------------------------------------------------------
   List / slice facts
   ------------------------------------------------------------------------------------------------------------------ *)
Lemma skipn_add {A} (l : list A) m n : skipn n (skipn m l) = skipn (m + n) l.
Proof.
  revert l. induction m as [|m IH]; intros l; [reflexivity|]. destruct l as [|x l]; cbn [skipn Nat.add].
  - destruct n; reflexivity.
  - apply IH.
Qed.
Lemma split3 {A} (a : list A) i j : 0 <= i <= j -> slice_to a i ++ slice a i j ++ slice_from a j = a.
Proof.
  intros H. unfold slice_to, slice, slice_from.
  replace (Z.to_nat j) with (Z.to_nat i + Z.to_nat (j - i))%nat by lia.
  rewrite <- skipn_add, (firstn_skipn (Z.to_nat (j - i))), firstn_skipn. reflexivity.
Qed.
Lemma slice_to_len {A} (a : list A) i : 0 <= i <= blen a -> blen (slice_to a i) = i.
Proof. unfold slice_to, blen. intros H. rewrite firstn_length. lia. Qed.
Lemma slice_len {A} (a : list A) i j : 0 <= i <= j -> j <= blen a -> blen (slice a i j) = j - i.
Proof. unfold slice, blen. intros H H2. rewrite firstn_length, skipn_length. lia. Qed.
Lemma app_eq_len {A} (a c b d : list A) : a ++ b = c ++ d -> length a = length c -> a = c /\ b = d.
Proof.
  revert c. induction a as [|x a IH]; intros [|y c] E L; cbn in *; try discriminate; auto.
  injection E as -> E. apply IH in E; [|lia]. destruct E as [-> ->]. auto.
Qed.
Lemma last_split {A} (r : list A) k : 0 <= k <= blen r -> drop_last r k ++ take_last r k = r /\ blen (take_last r k) = k.
Proof.
  unfold drop_last, take_last, blen. intros H. split; [apply firstn_skipn|]. rewrite skipn_length. lia.
Qed.
Lemma NoDup_map_inj {A B} (f : A -> B) l : (forall x y, In x l -> In y l -> f x = f y -> x = y) -> NoDup l -> NoDup (map f l).
Proof.
  induction l as [|x l IH]; intros Hi Hn; cbn; [constructor|]. inversion Hn as [|? ? Hx Hl]; subst. constructor.
  - intros Hin. apply in_map_iff in Hin. destruct Hin as (y & E & Hy). apply Hi in E; [subst; tauto | right; assumption | left; reflexivity].
  - apply IH; [|assumption]. intros a b Ha Hb. apply Hi; right; assumption.
Qed.

Lemma head_len major arg : 1 <= blen (head major arg) <= 9.
Proof. unfold head. repeat (destruct (_ <? _)); autorewrite with blen; cbn; lia. Qed.
Lemma cint_nonneg z : 0 <= z -> cint z = CUint z.
Proof. unfold cint. intros H. destruct (0 <=? z) eqn:E; [reflexivity|lia]. Qed.
Lemma cint_wf z : - 2 ^ 64 <= z < 2 ^ 64 -> wf (cint z).
Proof. unfold cint. intros H. destruct (0 <=? z) eqn:E; cbn [wf]; lia. Qed.

(* ------------------------------------------------------------------------------------------------------------------
   Constants: the link no test makes
   ------------------------------------------------------------------------------------------------------------------ *)
(* the hard-coded AAD is the Enc_structure of the protected header that generate_suit_encryption_info publishes *)
Lemma aad_is_enc_structure : aad_literal = encode (enc_structure (encode prot_lit) []).
Proof. vm_compute. reflexivity. Qed.
(* ... and that header names AES-GCM-256 *)
Lemma prot_lit_is_a256gcm : prot_lit = spec_protected.
Proof. vm_compute. reflexivity. Qed.

(* the tool's digest table is the registry's, whatever the order of its rows *)
Lemma hash_table_is_spec n : hash_lookup n hash_table = hash_lookup n spec_hash_table.
Proof.
  cbv [hash_table spec_hash_table hash_lookup a_sha256 a_sha384 a_sha512 a_shake128 a_shake256].
  repeat match goal with |- context [list_eqb n ?k] => destruct (list_eqb n k) eqn:? end; try reflexivity;
    repeat match goal with H : list_eqb n _ = true |- _ => apply list_eqb_eq in H end; congruence.
Qed.

(* ------------------------------------------------------------------------------------------------------------------
   The Encryptor methods that need no cryptography
   ------------------------------------------------------------------------------------------------------------------ *)
(* generic destructors for translator output: the scrutinee of the first monadic match / if in the hypothesis *)
Ltac hstep H :=
  match type of H with
  | context [match ?x with Ok _ => _ | Raise _ => _ end] => let E := fresh "E" in destruct x eqn:E; [|discriminate H]
  | context [if ?c then _ else _] => let E := fresh "C" in destruct c eqn:E; try discriminate H
  end.
Ltac untuple :=
  repeat match goal with p : (_ * _)%type |- _ => destruct p end.

(* nonce(12) | tag(16) | ciphertext: the three parts concatenate to the input, with the stated widths *)
Lemma parse_split self a iv tag ct :
  parse_encrypted_assets self a = Ok (iv, tag, ct) ->
  iv ++ tag ++ ct = a /\ (28 <= blen a -> blen iv = 12 /\ blen tag = 16).
Proof.
  unfold parse_encrypted_assets. cbv zeta. intros [= <- <- <-]. split.
  - apply split3. lia.
  - intros H. split; [apply slice_to_len | rewrite slice_len]; lia.
Qed.
(* conversely, a blob built as nonce ++ tag ++ ct with those widths is split back into exactly these parts *)
Lemma parse_concat self iv tag ct :
  blen iv = 12 -> blen tag = 16 -> parse_encrypted_assets self (iv ++ tag ++ ct) = Ok (iv, tag, ct).
Proof.
  intros Hi Ht. destruct (parse_encrypted_assets self (iv ++ tag ++ ct)) as [[[i t] c]|e] eqn:P.
  - apply parse_split in P. destruct P as [E L]. destruct L as [Li Lt]; [autorewrite with blen; pose proof (blen_nonneg ct); lia|].
    apply app_eq_len in E; [|unfold blen in *; lia]. destruct E as [-> E].
    apply app_eq_len in E; [|unfold blen in *; lia]. destruct E as [-> ->]. reflexivity.
  - unfold parse_encrypted_assets in P. cbv zeta in P. discriminate P.
Qed.

Lemma payload_is_tag_ct self ct tag : generate_encrypted_payload self ct tag = Ok (tag ++ ct).
Proof. reflexivity. Qed.

(* the encryption info is encode (bstr (encode (#6.96 [bstr {1:3}, {5: iv}, nil, [[h'', {1: kw, 4: bstr (encode kid)}, cek]]]))) *)
Lemma info_shape self iv cek kid :
  0 <= kid -> generate_suit_encryption_info self iv cek kid = Ok (spec_info (cose_kw_alg self) iv kid cek).
Proof.
  intros Hk. unfold generate_suit_encryption_info, spec_info, cose_encrypt, cek_item, spec_protected. cbv zeta.
  rewrite (cint_nonneg kid Hk). reflexivity.
Qed.

Lemma geniap_spec self asset cek kid ct tag info :
  generate_encryption_info_and_encrypted_payload self asset cek kid = Ok (ct, tag, info) -> 0 <= kid ->
  exists iv, parse_encrypted_assets self asset = Ok (iv, tag, ct) /\ info = spec_info (cose_kw_alg self) iv kid cek.
Proof.
  unfold generate_encryption_info_and_encrypted_payload. intros H Hk. hstep H. untuple. cbv beta iota zeta in H.
  rewrite info_shape in H by assumption. cbv beta iota zeta in H. injection H as <- <- <-. eexists. split; reflexivity.
Qed.

Lemma kw_convert_spec self kw self' : kw_alg_convert self kw = Ok self' -> cose_kw_alg self' = spec_kw kw.
Proof.
  unfold kw_alg_convert, spec_kw, kw_a256kw. cbv zeta. destruct (list_eqb kw _); intros [= <-]; reflexivity.
Qed.

(* generate-info: the supplied iv|tag|ciphertext blob is split into the same layout and no byte is altered:
   the IV named in the info followed by the written file is the blob; the info has the COSE_Encrypt shape *)
Lemma generate_info_files blob cek kid kw files :
  cli_generate_info blob cek kid kw = Ok files -> 0 <= kid ->
  exists iv tag ct,
    files = [(f_info, spec_info (spec_kw kw) iv kid (Some cek)); (f_content, tag ++ ct)]
    /\ iv ++ tag ++ ct = blob /\ (28 <= blen blob -> blen iv = 12 /\ blen tag = 16).
Proof.
  unfold cli_generate_info, enum_of. intros H Hk. hstep H. hstep H.
  match goal with E : (if _ then _ else _) = Ok _ |- _ => hstep E; injection E as <- end.
  match goal with E : generate _ _ _ _ _ = Ok ?t |- _ => destruct t as [[ct tag] info]; rename E into G0 end.
  cbv beta iota zeta in H. injection H as <-.
  assert (G : exists s', kw_alg_convert encryptor_new kw = Ok s'
                         /\ generate_encryption_info_and_encrypted_payload s' blob (Some cek) kid = Ok (ct, tag, info)).
  { unfold generate in G0. cbv beta iota in G0. repeat hstep G0; eexists; (split; [first [eassumption | reflexivity]|]); injection G0 as <-; assumption. }
  destruct G as (s' & K & G). apply kw_convert_spec in K. apply geniap_spec in G; [|assumption].
  destruct G as (iv & P & ->). apply parse_split in P. destruct P as [P L]. rewrite K.
  exists iv, tag, ct. split; [reflexivity|]. split; assumption.
Qed.

(* SuitEncryptionInfoExt: a byte-string-wrapped item given as raw / file parameter is emitted unchanged *)
Lemma raw_info_unchanged b : blen b < 2 ^ 64 -> enc_info_ext_to_cbor (encode (CBytes b)) = Ok (encode (CBytes b)).
Proof.
  intros Hb. unfold enc_info_ext_to_cbor. rewrite <- (app_nil_r (encode (CBytes b))) at 1.
  rewrite loads_encode; [reflexivity | exact Hb].
Qed.

(* ------------------------------------------------------------------------------------------------------------------
   Encryption: AES-GCM, the entropy source, the hash functions and the key store are abstract
   ------------------------------------------------------------------------------------------------------------------ *)

Section Crypto.
  Variable aesgcm_encrypt : bytes -> bytes -> bytes -> bytes -> bytes.          (* key nonce data aad |-> ciphertext ++ tag *)
  Variable urandom : nat -> Z -> bytes.
  Variable hash : bytes -> Z -> bytes -> bytes.
  Variable key_file : bytes -> bytes.
  Hypothesis aes_len : forall k n p a, blen (aesgcm_encrypt k n p a) = blen p + 16.
  Hypothesis rnd_len : forall n k, 0 <= k -> blen (urandom n k) = k.

  Local Notation KMS := (kms_encrypt aesgcm_encrypt urandom hash key_file).
  Local Notation GKA := (generate_kms_artifacts aesgcm_encrypt urandom hash key_file).
  Local Notation EAG := (encrypt_and_generate aesgcm_encrypt urandom hash key_file).
  Local Notation CLI := (cli_encrypt_and_generate aesgcm_encrypt urandom hash key_file).

  (* SuitKMS.encrypt: one draw of 12 bytes, used verbatim as the GCM nonce and returned verbatim; the library's
     ciphertext ++ tag is cut into (tag, ciphertext) without loss *)
  Lemma kms_spec ent pt kn ctx aad nonce tag ct ent' :
    KMS ent pt kn ctx aad = Ok ((nonce, tag, ct), ent') ->
    nonce = urandom ent 12 /\ ent' = S ent /\ ct ++ tag = aesgcm_encrypt (key_file kn) (urandom ent 12) pt aad /\ blen tag = 16.
  Proof.
    unfold kms_encrypt. cbv zeta. intros [= <- <- <- <-]. split; [reflexivity|]. split; [reflexivity|].
    apply last_split. rewrite aes_len. pose proof (blen_nonneg pt). lia.
  Qed.

  Lemma gka_spec self ent pt kn ctx asset cek ent' :
    GKA self ent pt kn ctx = Ok ((asset, cek), ent') ->
    exists tag ct, cose_kw_alg self = -6 /\ ent' = S ent /\ asset = urandom ent 12 ++ tag ++ ct /\ blen tag = 16
                   /\ ct ++ tag = aesgcm_encrypt (key_file kn) (urandom ent 12) pt aad_literal.
  Proof.
    unfold generate_kms_artifacts. intros H. hstep H.
    match goal with E : bytes_of_ints _ = Ok _ |- _ => apply boi_len in E; subst end.
    cbv zeta in H. repeat hstep H.
    match goal with E : kms_encrypt _ _ _ _ _ _ _ _ _ = Ok ?p |- _ => destruct p as [[[nonce tag] ct] e1]; apply kms_spec in E;
      destruct E as (-> & -> & Ea & Lt) end.
    cbv beta iota zeta in H. injection H as <- <- <-.
    exists tag, ct. split; [lia|]. split; [reflexivity|]. split; [rewrite <- app_assoc; reflexivity|]. split; [assumption|].
    exact Ea.
  Qed.

  (* everything the CLI writes for encrypt-and-generate, for every plaintext, key, key id, digest algorithm *)
  Lemma eag_files ent pt kn kid ctx halg kw files ent' :
    CLI ent pt kn kid ctx halg kw = Ok (files, ent') -> 0 <= kid ->
    exists tag ct fam n,
      ent' = S ent
      /\ files = [(f_digest, hash fam n pt); (f_size, str_of_nonneg (blen pt));
                  (f_info, spec_info (-6) (urandom ent 12) kid None); (f_content, tag ++ ct)]
      /\ blen tag = 16
      /\ ct ++ tag = aesgcm_encrypt (key_file kn) (urandom ent 12) pt aad_literal
      /\ hash_lookup halg spec_hash_table = Some (fam, n).
  Proof.
    unfold cli_encrypt_and_generate, enum_of. intros H Hk. hstep H.
    match goal with E : (if _ then _ else _) = Ok _ |- _ => hstep E; injection E as <- end.
    hstep H.
    match goal with E : (if _ then _ else _) = Ok _ |- _ => hstep E; injection E as <- end.
    hstep H.
    match goal with E : encrypt_and_generate _ _ _ _ _ _ _ _ _ _ _ _ = Ok ?p |- _ =>
      destruct p as [[[[[ct tag] info] dig] len] e1]; rename E into G0 end.
    cbv beta iota zeta in H. injection H as <- <-.
    unfold encrypt_and_generate in G0. hstep G0.
    match goal with E : kw_alg_convert _ _ = Ok _ |- _ => apply kw_convert_spec in E; rename E into K end.
    hstep G0.
    match goal with E : digest_generator_init _ = Ok _ |- _ => unfold digest_generator_init in E;
      destruct (hash_lookup halg hash_table) as [[fam n]|] eqn:HL; [injection E as <- | discriminate E] end.
    cbv zeta in G0. unfold generate_digest_size_for_plain_text in G0. rewrite HL in G0. cbv beta iota zeta in G0.
    hstep G0.
    match goal with E : generate_kms_artifacts _ _ _ _ _ _ _ _ _ = Ok ?p |- _ => destruct p as [[asset cek] e2]; apply gka_spec in E;
      destruct E as (tg & c & Kw & -> & -> & Lt & Ea) end.
    cbv beta iota zeta in G0. hstep G0.
    match goal with E : generate_encryption_info_and_encrypted_payload _ _ _ _ = Ok ?p |- _ => destruct p as [[c' tg'] info'];
      apply geniap_spec in E; [|assumption]; destruct E as (iv & P & ->) end.
    cbv beta iota zeta in G0. injection G0 as <- <- <- <- <- <-.
    rewrite parse_concat in P; [|apply rnd_len; lia|assumption]. injection P as <- <- <-.
    exists tg, c, fam, n. rewrite Kw. rewrite <- hash_table_is_spec. repeat split; try assumption; reflexivity.
  Qed.
End Crypto.

(* ------------------------------------------------------------------------------------------------------------------
   Reading the info file back (the recipient's view)
   ------------------------------------------------------------------------------------------------------------------ *)
Ltac pose_heads :=
  repeat match goal with
  | |- context [head ?m ?a] =>
      lazymatch goal with H : 1 <= blen (head m a) <= 9 |- _ => fail | _ => pose proof (head_len m a) end
  end.

Lemma cose_encrypt_len kw iv kid cek :
  blen iv < 2 ^ 32 -> match cek with Some b => blen b < 2 ^ 32 | None => True end ->
  blen (encode (cose_encrypt kw iv kid cek)) < 2 ^ 64.
Proof.
  intros Hi Hc. unfold cose_encrypt, spec_protected, cek_item, cnull, cint.
  destruct cek as [b|]; destruct (0 <=? kw); cbn [encode flat_map fst snd]; autorewrite with blen; pose_heads;
    pose proof (blen_nonneg iv); try pose proof (blen_nonneg b); lia.
Qed.

Lemma cose_encrypt_wf kw iv kid cek :
  blen iv < 2 ^ 32 -> 0 <= kid < 2 ^ 64 -> - 2 ^ 64 <= kw < 2 ^ 64 -> match cek with Some b => blen b < 2 ^ 32 | None => True end ->
  wf (cose_encrypt kw iv kid cek).
Proof.
  intros Hi Hk Hw Hc. pose proof (cint_wf kw Hw) as Wk. pose proof (head_len 0 kid) as Hh.
  unfold cose_encrypt, spec_protected, cek_item, cnull. cbn [wf encode]. autorewrite with blen.
  destruct cek as [b|]; cbn [wf]; repeat split; try assumption; try lia.
Qed.

(* a recipient that decodes the info file finds the serialized protected header {1: 3} and, as header 5, the IV *)
Lemma published_spec kw iv kid cek :
  blen iv < 2 ^ 32 -> 0 <= kid < 2 ^ 64 -> - 2 ^ 64 <= kw < 2 ^ 64 -> match cek with Some b => blen b < 2 ^ 32 | None => True end ->
  published (spec_info kw iv kid cek) = Some (encode spec_protected, iv).
Proof.
  intros Hi Hk Hw Hc. unfold published, spec_info.
  rewrite loads_exact_encode by (cbn [wf]; apply cose_encrypt_len; assumption).
  rewrite loads_exact_encode by (apply cose_encrypt_wf; assumption).
  reflexivity.
Qed.

(* ------------------------------------------------------------------------------------------------------------------
   C06 decrypts / C14 histories
   ------------------------------------------------------------------------------------------------------------------ *)
Section Decrypts.
  Variable aesgcm_encrypt : bytes -> bytes -> bytes -> bytes -> bytes.
  Variable aesgcm_decrypt : bytes -> bytes -> bytes -> bytes -> option bytes.
  Variable urandom : nat -> Z -> bytes.
  Variable hash : bytes -> Z -> bytes -> bytes.
  Variable key_file : bytes -> bytes.
  Hypothesis aes_law : forall k n p a, aesgcm_decrypt k n (aesgcm_encrypt k n p a) a = Some p.
  Hypothesis aes_len : forall k n p a, blen (aesgcm_encrypt k n p a) = blen p + 16.
  Hypothesis rnd_len : forall n k, 0 <= k -> blen (urandom n k) = k.

  Local Notation CLI := (cli_encrypt_and_generate aesgcm_encrypt urandom hash key_file).

  (* the four files are mutually consistent: decrypting the emitted tag and ciphertext with the named key, the IV and
     the protected header READ BACK from the info file, and the Enc_structure of that header as AAD, gives the plaintext *)
  Lemma decrypts ent pt kn kid ctx halg kw files ent' :
    CLI ent pt kn kid ctx halg kw = Ok (files, ent') -> 0 <= kid < 2 ^ 64 ->
    exists digest size info content prot iv tag ct fam n,
      files = [(f_digest, digest); (f_size, size); (f_info, info); (f_content, content)]
      /\ published info = Some (prot, iv)
      /\ content = tag ++ ct /\ blen tag = 16
      /\ aesgcm_decrypt (key_file kn) iv (ct ++ tag) (encode (enc_structure prot [])) = Some pt
      /\ prot = encode spec_protected /\ info = spec_info (-6) iv kid None
      /\ hash_lookup halg spec_hash_table = Some (fam, n) /\ digest = hash fam n pt /\ size = str_of_nonneg (blen pt).
  Proof.
    intros H Hk. apply (eag_files aesgcm_encrypt urandom hash key_file aes_len rnd_len) in H; [|lia].
    destruct H as (tag & ct & fam & n & _ & -> & Lt & Ea & HL).
    pose proof (rnd_len ent 12 ltac:(lia)) as Li.
    do 4 eexists. exists (encode spec_protected), (urandom ent 12), tag, ct, fam, n.
    split; [reflexivity|]. split; [apply published_spec; try lia; exact I|].
    split; [reflexivity|]. split; [assumption|]. split.
    - rewrite Ea, aad_is_enc_structure, prot_lit_is_a256gcm. apply aes_law.
    - repeat split; try reflexivity; assumption.
  Qed.

End Decrypts.

Section Histories.
  Variable aesgcm_encrypt : bytes -> bytes -> bytes -> bytes -> bytes.
  Variable urandom : nat -> Z -> bytes.
  Variable hash : bytes -> Z -> bytes -> bytes.
  Variable key_file : bytes -> bytes.
  Hypothesis aes_len : forall k n p a, blen (aesgcm_encrypt k n p a) = blen p + 16.
  Hypothesis rnd_len : forall n k, 0 <= k -> blen (urandom n k) = k.

  Local Notation CLI := (cli_encrypt_and_generate aesgcm_encrypt urandom hash key_file).
  Local Notation step := (step aesgcm_encrypt urandom hash key_file).
  Local Notation run_history := (run_history aesgcm_encrypt urandom hash key_file).
  Local Notation call_ok := (call_ok aesgcm_encrypt urandom key_file).
  Local Notation hist_ok := (hist_ok aesgcm_encrypt urandom key_file).

  (* C14: what one invocation does with the entropy source *)
  (* exactly one draw; the drawn 12 bytes are the GCM nonce and, unchanged, the published header 5 *)
  Lemma one_draw ent c files ent' :
    step ent c = Ok (files, ent') -> 0 <= c_kid c < 2 ^ 64 -> ent' = S ent /\ call_ok ent c files.
  Proof.
    unfold step. intros H Hk. apply (eag_files aesgcm_encrypt urandom hash key_file aes_len rnd_len) in H; [|lia].
    destruct H as (tag & ct & fam & n & -> & -> & Lt & Ea & HL). split; [reflexivity|].
    pose proof (rnd_len ent 12 ltac:(lia)) as Li. split.
    - unfold iv_of.
      change (file_of f_info _) with (Some (spec_info (-6) (urandom ent 12) (c_kid c) None)).
      cbv beta iota. rewrite published_spec by (first [lia | exact I]). reflexivity.
    - exists tag, ct. split; [reflexivity|]. split; assumption.
  Qed.

  Lemma history_spec cs : forall ent outs ent',
    run_history ent cs = Ok (outs, ent') -> Forall (fun c => 0 <= c_kid c < 2 ^ 64) cs ->
    ent' = (ent + length cs)%nat /\ hist_ok ent cs outs.
  Proof.
    induction cs as [|c cs IH]; intros ent outs ent' H F; cbn [run_history] in H.
    - injection H as <- <-. split; [cbn; lia | exact I].
    - inversion F as [|? ? Fc Fr]; subst. destruct (step ent c) as [[f e1]|] eqn:S1; [|discriminate].
      destruct (run_history e1 cs) as [[fs e2]|] eqn:R; [|discriminate]. injection H as <- <-.
      apply one_draw in S1; [|assumption]. destruct S1 as [-> Ok1]. apply IH in R; [|assumption]. destruct R as [-> Hr].
      split; [cbn [length]; lia|]. cbn [hist_ok]. split; assumption.
  Qed.

  Lemma hist_ivs cs : forall ent outs, hist_ok ent cs outs -> map iv_of outs = map (fun i => Some (urandom i 12)) (seq ent (length cs)).
  Proof.
    induction cs as [|c cs IH]; intros ent [|o outs] H; cbn [hist_ok] in H; try contradiction; [reflexivity|].
    destruct H as [[Hiv _] Hr]. cbn [map length seq]. rewrite Hiv. f_equal. apply IH. assumption.
  Qed.

  (* for every history, of any length, with the same or different plaintexts and keys: the published IVs are the
     successive draws, hence pairwise distinct when the entropy source never repeats a 12-byte draw *)
  Lemma ivs_distinct ent cs outs ent' :
    (forall i j, urandom i 12 = urandom j 12 -> i = j) ->
    run_history ent cs = Ok (outs, ent') -> Forall (fun c => 0 <= c_kid c < 2 ^ 64) cs ->
    NoDup (map iv_of outs) /\ length outs = length cs /\ ~ In None (map iv_of outs).
  Proof.
    intros Inj H F. apply history_spec in H; [|assumption]. destruct H as [_ H]. apply hist_ivs in H.
    split; [|split].
    - rewrite H. apply NoDup_map_inj; [|apply seq_NoDup]. intros x y _ _ E. injection E as E. apply Inj. assumption.
    - apply (f_equal (@length _)) in H. rewrite !map_length, seq_length in H. assumption.
    - rewrite H. intros Hin. apply in_map_iff in Hin. destruct Hin as (x & E & _). discriminate.
  Qed.
End Histories.

(* the info file produced by either sub-command is accepted unchanged as raw / file encryption-info parameter *)
Lemma raw_info_accepted kw iv kid cek :
  blen iv < 2 ^ 32 -> match cek with Some b => blen b < 2 ^ 32 | None => True end ->
  enc_info_ext_to_cbor (spec_info kw iv kid cek) = Ok (spec_info kw iv kid cek).
Proof. intros Hi Hc. apply raw_info_unchanged. apply cose_encrypt_len; assumption. Qed.

(* ------------------------------------------------------------------------------------------------------------------
   A toy instance: the hypotheses on the abstract functions are satisfiable (used by the non-vacuity examples)
   ------------------------------------------------------------------------------------------------------------------ *)
Lemma toy_law k n p a : toy_dec k n (toy_enc k n p a) a = Some p.
Proof.
  unfold toy_dec, toy_enc, drop_last. f_equal. rewrite app_length, repeat_length.
  replace (length p + 16 - Z.to_nat 16)%nat with (length p + 0)%nat by lia.
  rewrite firstn_app_2. cbn [firstn]. apply app_nil_r.
Qed.
Lemma toy_len k n p a : blen (toy_enc k n p a) = blen p + 16.
Proof. unfold toy_enc. autorewrite with blen. reflexivity. Qed.
Lemma toy_rnd_len n k : 0 <= k -> blen (toy_rnd n k) = k.
Proof. unfold toy_rnd. intros H. autorewrite with blen. lia. Qed.
Lemma toy_rnd_inj i j : toy_rnd i 12 = toy_rnd j 12 -> i = j.
Proof. unfold toy_rnd. change (Z.to_nat 12) with 12%nat. cbn [repeat]. intros [= E]. lia. Qed.
