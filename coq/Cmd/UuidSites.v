(* Cmd/UuidSites.v — C13: lemmas about the model regenerated from manifest.py / cmd_mpi.py / cmd_image.py /
   build_configuration/configuration.py (gen/GenUuidSites.v).  uuid5 and the namespace constants are abstract. *)
From Verif Require Import Base.Prim Base.PrimFacts gen.GenUuidSites.

(* ------------------------------------------------------------------ the three sites *)
Lemma three_sites_agree (uuid5 : bytes -> bytes -> bytes) (ns : nsname -> bytes) (vendor cls : bytes) :
  (* class id: manifest description {namespace, name}; MPI record; role assignment (value and dictionary key) *)
  manifest_cid uuid5 ns vendor cls = uuid5 (uuid5 (ns NS_DNS) vendor) cls /\
  mpi_cid uuid5 ns vendor cls = uuid5 (uuid5 (ns NS_DNS) vendor) cls /\
  image_cid uuid5 ns vendor cls = uuid5 (uuid5 (ns NS_DNS) vendor) cls /\
  image_key uuid5 ns vendor cls = uuid5 (uuid5 (ns NS_DNS) vendor) cls /\
  (* vendor id: manifest description RFC4122_UUID: <vendor>; MPI record; role assignment *)
  manifest_vid uuid5 ns vendor = uuid5 (ns NS_DNS) vendor /\
  mpi_vid uuid5 ns vendor cls = uuid5 (ns NS_DNS) vendor /\
  image_vid uuid5 ns vendor cls = uuid5 (ns NS_DNS) vendor /\
  (* a description with a name only is in the DNS namespace as well *)
  manifest_name_only uuid5 ns vendor = uuid5 (ns NS_DNS) vendor.
Proof. repeat split; reflexivity. Qed.

(* ------------------------------------------------------------------ association lists *)
Lemma alookup_upsert_same {V} k (v : V) l : alookup k (upsert k v l) = Some v.
Proof.
  induction l as [|[k' v'] l IH]; cbn [upsert alookup].
  - rewrite list_eqb_refl. reflexivity.
  - destruct (list_eqb k k') eqn:E; cbn [alookup]; [rewrite list_eqb_refl; reflexivity|]. rewrite E. assumption.
Qed.
Lemma alookup_upsert_other {V} k k' (v : V) l : k <> k' -> alookup k (upsert k' v l) = alookup k l.
Proof.
  intros N. induction l as [|[k2 v2] l IH]; cbn [upsert alookup].
  - destruct (list_eqb k k') eqn:E; [apply list_eqb_eq in E; contradiction | reflexivity].
  - destruct (list_eqb k' k2) eqn:E2; cbn [alookup].
    + apply list_eqb_eq in E2. subst k2.
      destruct (list_eqb k k') eqn:E; [apply list_eqb_eq in E; contradiction | reflexivity].
    + destruct (list_eqb k k2); [reflexivity | assumption].
Qed.

Definition pair_of (e : bytes * bytes * Z) : bytes * bytes := (e_vendor e, e_class e).

Lemma NoDup_map_inj {A B} (f : A -> B) l a b : NoDup (map f l) -> In a l -> In b l -> f a = f b -> a = b.
Proof.
  induction l as [|x l IH]; cbn; intros ND Ha Hb E; [contradiction|].
  inversion ND as [|? ? Hx ND']; subst.
  destruct Ha as [->|Ha], Hb as [->|Hb]; try reflexivity.
  - exfalso. apply Hx. rewrite E. apply in_map. assumption.
  - exfalso. apply Hx. rewrite <- E. apply in_map. assumption.
  - apply IH; assumption.
Qed.

Lemma NoDup_app_one {A} (l : list A) x : NoDup l -> ~ In x l -> NoDup (l ++ [x]).
Proof.
  induction l as [|y l IH]; cbn; intros ND Hx.
  - constructor; [intros [] | constructor].
  - inversion ND as [|? ? Hy ND']; subst. constructor.
    + intros Hin. apply in_app_or in Hin. destruct Hin as [Hin|[->|[]]]; [exact (Hy Hin) | apply Hx; left; reflexivity].
    + apply IH; [assumption | intros Hin; apply Hx; right; assumption].
Qed.

(* ------------------------------------------------------------------ the holes of the Kconfig reader fit together *)
Lemma holes_consistent :
  (forall m, kc_key1 m = kc_key3 m) /\ (forall m, kc_key2 m = kc_key4 m) /\
  (forall e, kc_field1 e = e_vendor e) /\ (forall e, kc_field2 e = e_class e) /\ kc_dup_exn = GeneratorError /\
  (forall cfg m x1 x2 r, cfg_str cfg (kc_key3 m) = Ok x1 -> cfg_str cfg (kc_key4 m) = Ok x2 -> kc_role m = Ok r ->
     kc_data cfg m = Ok (x1, x2, r)).
Proof.
  repeat split; try reflexivity.
  intros cfg m x1 x2 r H1 H2 H3. unfold kc_data. rewrite H1, H2, H3. reflexivity.
Qed.

Lemma kc_data_inv cfg m e : kc_data cfg m = Ok e ->
  cfg_str cfg (kc_key3 m) = Ok (e_vendor e) /\ cfg_str cfg (kc_key4 m) = Ok (e_class e) /\ kc_role m = Ok (e_role e).
Proof.
  unfold kc_data. destruct (cfg_str cfg (kc_key3 m)) as [x1|]; cbn [bind]; [|discriminate].
  destruct (cfg_str cfg (kc_key4 m)) as [x2|]; cbn [bind]; [|discriminate].
  destruct (kc_role m) as [r|]; cbn [bind]; [|discriminate]. intros [= <-]. repeat split; reflexivity.
Qed.

(* the duplicate check: accepted -> the pair is new; the pair is present -> GeneratorError *)
Lemma kc_dup_ok cfg acc m v c :
  cfg_str cfg (kc_key3 m) = Ok v -> cfg_str cfg (kc_key4 m) = Ok c -> kc_dup cfg acc m = Ok tt ->
  ~ In (v, c) (map pair_of acc).
Proof.
  destruct holes_consistent as (K1 & K2 & F1 & F2 & _).
  intros Hv Hc. induction acc as [|it acc IH]; cbn [kc_dup map In]; [tauto|].
  rewrite K1, Hv. cbn [bind]. rewrite F1.
  destruct (list_eqb (e_vendor it) v) eqn:Ev.
  - rewrite K2, Hc. cbn [bind]. rewrite F2. destruct (list_eqb (e_class it) c) eqn:Ec; [discriminate|].
    intros H [Heq|Hin]; [|exact (IH H Hin)]. unfold pair_of in Heq. injection Heq as _ E2.
    subst c. rewrite list_eqb_refl in Ec. discriminate.
  - intros H [Heq|Hin]; [|exact (IH H Hin)]. unfold pair_of in Heq. injection Heq as E1 _.
    subst v. rewrite list_eqb_refl in Ev. discriminate.
Qed.
Lemma kc_dup_cases cfg acc m v c :
  cfg_str cfg (kc_key3 m) = Ok v -> cfg_str cfg (kc_key4 m) = Ok c ->
  kc_dup cfg acc m = Ok tt \/ kc_dup cfg acc m = Raise GeneratorError.
Proof.
  destruct holes_consistent as (K1 & K2 & F1 & F2 & EX & _).
  intros Hv Hc. induction acc as [|it acc IH]; cbn [kc_dup]; [left; reflexivity|].
  rewrite K1, Hv. cbn [bind]. destruct (list_eqb (kc_field1 it) v); [|assumption].
  rewrite K2, Hc. cbn [bind]. destruct (list_eqb (kc_field2 it) c); [|assumption]. right. rewrite EX. reflexivity.
Qed.
Lemma kc_dup_raises cfg acc m v c :
  cfg_str cfg (kc_key3 m) = Ok v -> cfg_str cfg (kc_key4 m) = Ok c -> In (v, c) (map pair_of acc) ->
  kc_dup cfg acc m = Raise GeneratorError.
Proof.
  intros Hv Hc Hin. destruct (kc_dup_cases cfg acc m v c Hv Hc) as [H|H]; [|assumption].
  exfalso. exact (kc_dup_ok cfg acc m v c Hv Hc H Hin).
Qed.

(* what an accepted configuration yields *)
Definition entry_of (cfg : list (bytes * kval)) (m : bytes) (e : bytes * bytes * Z) : Prop :=
  cfg_str cfg (kc_key3 m) = Ok (e_vendor e) /\ cfg_str cfg (kc_key4 m) = Ok (e_class e) /\ kc_role m = Ok (e_role e).

Lemma kc_go_spec cfg items : forall acc out, kc_go cfg items acc = Ok out -> NoDup (map pair_of acc) ->
  NoDup (map pair_of out) /\
  (exists more, out = acc ++ more /\ forall e, In e more -> exists key m, In key (map fst items) /\ kc_match key = Some m /\ entry_of cfg m e) /\
  (forall key m, In key (map fst items) -> kc_match key = Some m -> exists e, In e out /\ entry_of cfg m e).
Proof.
  induction items as [|[key val] items IH]; intros acc out H ND; cbn [kc_go] in H.
  - injection H as <-. split; [assumption|]. split; [exists []; rewrite app_nil_r; split; [reflexivity | intros e []]|].
    intros key m [].
  - destruct (kc_match key) as [m|] eqn:Em.
    + destruct (kc_dup cfg acc m) as [[]|] eqn:Ed; cbn [bind] in H; [|discriminate].
      destruct (kc_data cfg m) as [e|] eqn:Ee; cbn [bind] in H; [|discriminate].
      pose proof (kc_data_inv cfg m e Ee) as (Hv & Hc & Hr).
      assert (ND' : NoDup (map pair_of (acc ++ [e]))).
      { rewrite map_app. cbn [map]. apply NoDup_app_one; [assumption|]. exact (kc_dup_ok cfg acc m _ _ Hv Hc Ed). }
      destruct (IH _ _ H ND') as (ND2 & (more & -> & Hmore) & Hall).
      split; [assumption|]. split.
      * exists (e :: more). rewrite <- app_assoc. split; [reflexivity|].
        intros e' [<-|Hin].
        -- exists key, m. split; [left; reflexivity|]. split; [assumption|]. repeat split; assumption.
        -- destruct (Hmore e' Hin) as (k' & m' & Hk & Hm & He). exists k', m'. split; [right; assumption|]. split; assumption.
      * intros key' m' [<-|Hin] Hm'.
        -- cbn [fst] in Hm'. rewrite Em in Hm'. injection Hm' as <-. exists e. split; [|repeat split; assumption].
           apply in_or_app. left. apply in_or_app. right. left. reflexivity.
        -- exact (Hall key' m' Hin Hm').
    + destruct (IH _ _ H ND) as (ND2 & (more & -> & Hmore) & Hall).
      split; [assumption|]. split.
      * exists more. split; [reflexivity|]. intros e Hin. destruct (Hmore e Hin) as (k' & m' & Hk & Hm & He).
        exists k', m'. split; [right; assumption|]. split; assumption.
      * intros key' m' [<-|Hin] Hm'; [cbn [fst] in Hm'; rewrite Em in Hm'; discriminate|]. exact (Hall key' m' Hin Hm').
Qed.

Lemma kconfig_entries cfg entries :
  kconfig_assignments cfg = Ok entries ->
  (forall e, In e entries -> exists key m, In key (map fst cfg) /\ kc_match key = Some m /\ entry_of cfg m e) /\
  (forall key m, In key (map fst cfg) -> kc_match key = Some m -> exists e, In e entries /\ entry_of cfg m e).
Proof.
  intros H. destruct (kc_go_spec cfg cfg [] entries H (NoDup_nil _)) as (_ & (more & E & Hm) & Hall).
  cbn [app] in E. subst more. split; assumption.
Qed.

(* a well-formed configuration (every named manifest has both names as strings and a known role) is accepted or
   rejected with GeneratorError — nothing else *)
Lemma kc_go_wf cfg items : forall acc,
  (forall key m, In key (map fst items) -> kc_match key = Some m -> exists e, entry_of cfg m e) ->
  (exists out, kc_go cfg items acc = Ok out) \/ kc_go cfg items acc = Raise GeneratorError.
Proof.
  induction items as [|[key val] items IH]; intros acc WF; cbn [kc_go].
  - left. eexists. reflexivity.
  - assert (WF' : forall key m, In key (map fst items) -> kc_match key = Some m -> exists e, entry_of cfg m e).
    { intros k m Hin. apply WF. right. assumption. }
    destruct (kc_match key) as [m|] eqn:Em; [|apply IH; assumption].
    destruct (WF key m (or_introl eq_refl) Em) as (e & Hv & Hc & Hr).
    destruct (kc_dup_cases cfg acc m _ _ Hv Hc) as [Hd|Hd]; rewrite Hd; cbn [bind]; [|right; reflexivity].
    destruct holes_consistent as (_ & _ & _ & _ & _ & KD). rewrite (KD cfg m _ _ _ Hv Hc Hr). cbn [bind].
    apply IH. assumption.
Qed.

(* ------------------------------------------------------------------ the storage *)
Section Storage.
Variable uuid5 : bytes -> bytes -> bytes.
Variable ns : nsname -> bytes.
Definition cid (v c : bytes) : bytes := uuid5 (uuid5 (ns NS_DNS) v) c.

Lemma find_assign_same st e : find_role (assign_role uuid5 ns st e) (cid (e_vendor e) (e_class e)) = Some (e_role e).
Proof. unfold find_role, assign_role. change (image_key uuid5 ns (e_vendor e) (e_class e)) with (cid (e_vendor e) (e_class e)).
  rewrite alookup_upsert_same. reflexivity. Qed.
Lemma find_assign_other st e k : k <> cid (e_vendor e) (e_class e) -> find_role (assign_role uuid5 ns st e) k = find_role st k.
Proof. intros N. unfold find_role, assign_role. change (image_key uuid5 ns (e_vendor e) (e_class e)) with (cid (e_vendor e) (e_class e)).
  rewrite alookup_upsert_other by assumption. reflexivity. Qed.

Lemma find_fold_other l : forall st k, (forall e, In e l -> cid (e_vendor e) (e_class e) <> k) ->
  find_role (fold_left (assign_role uuid5 ns) l st) k = find_role st k.
Proof.
  induction l as [|e l IH]; intros st k H; cbn [fold_left]; [reflexivity|].
  rewrite IH by (intros e' He'; apply H; right; assumption).
  apply find_assign_other. intros E. exact (H e (or_introl eq_refl) (eq_sym E)).
Qed.
Lemma find_fold_last pre e post st :
  (forall e', In e' post -> cid (e_vendor e') (e_class e') <> cid (e_vendor e) (e_class e)) ->
  find_role (fold_left (assign_role uuid5 ns) (pre ++ e :: post) st) (cid (e_vendor e) (e_class e)) = Some (e_role e).
Proof.
  intros H. rewrite fold_left_app. cbn [fold_left]. rewrite find_fold_other by assumption. apply find_assign_same.
Qed.

(* build-configuration assignments: at most one role per pair; each applies to its pair, whatever the defaults say
   about that pair; no other pair is affected.  `cid` of the queried pair is what the manifest description of that
   pair carries (manifest_cid) and what the MPI record carries (mpi_cid). *)
Lemma kconfig_roles cfg defaults entries :
  kconfig_assignments cfg = Ok entries ->
  NoDup (map pair_of entries) /\
  (forall e, In e entries ->
     (* uuid5 does not collide on the names involved *)
     (forall e', In e' entries -> cid (e_vendor e') (e_class e') = cid (e_vendor e) (e_class e) -> pair_of e' = pair_of e) ->
     find_role (storage_init uuid5 ns defaults entries) (manifest_cid uuid5 ns (e_vendor e) (e_class e)) = Some (e_role e) /\
     find_role (storage_init uuid5 ns defaults entries) (mpi_cid uuid5 ns (e_vendor e) (e_class e)) = Some (e_role e)) /\
  (forall v c, (forall e', In e' entries -> cid (e_vendor e') (e_class e') <> cid v c) ->
     find_role (storage_init uuid5 ns defaults entries) (manifest_cid uuid5 ns v c)
     = find_role (storage_init uuid5 ns defaults []) (manifest_cid uuid5 ns v c)).
Proof.
  intros H. destruct (kc_go_spec cfg cfg [] entries H (NoDup_nil _)) as (ND & _ & _).
  split; [assumption|]. split.
  - intros e Hin Hinj.
    change (manifest_cid uuid5 ns (e_vendor e) (e_class e)) with (cid (e_vendor e) (e_class e)).
    change (mpi_cid uuid5 ns (e_vendor e) (e_class e)) with (cid (e_vendor e) (e_class e)).
    apply in_split in Hin. destruct Hin as (pre & post & ->).
    assert (Hpost : forall e', In e' post -> cid (e_vendor e') (e_class e') <> cid (e_vendor e) (e_class e)).
    { intros e' He' E. assert (Hp : pair_of e' = pair_of e) by (apply Hinj; [apply in_or_app; right; right; assumption | assumption]).
      rewrite map_app in ND. cbn [map] in ND. apply NoDup_remove_2 in ND. apply ND. apply in_or_app. right.
      rewrite <- Hp. apply in_map. assumption. }
    unfold storage_init. rewrite app_assoc. split; apply find_fold_last; assumption.
  - intros v c Hne. change (manifest_cid uuid5 ns v c) with (cid v c). unfold storage_init. rewrite app_nil_r, fold_left_app.
    apply find_fold_other. assumption.
Qed.
End Storage.

(* one pair given to two different roles: the configuration is not accepted, and a well-formed one is rejected
   with GeneratorError *)
Lemma two_roles_rejected cfg k1 k2 m1 m2 v c r1 r2 :
  In k1 (map fst cfg) -> In k2 (map fst cfg) -> kc_match k1 = Some m1 -> kc_match k2 = Some m2 ->
  cfg_str cfg (kc_key3 m1) = Ok v -> cfg_str cfg (kc_key4 m1) = Ok c -> kc_role m1 = Ok r1 ->
  cfg_str cfg (kc_key3 m2) = Ok v -> cfg_str cfg (kc_key4 m2) = Ok c -> kc_role m2 = Ok r2 -> r1 <> r2 ->
  (forall out, kconfig_assignments cfg <> Ok out) /\
  ((forall key m, In key (map fst cfg) -> kc_match key = Some m -> exists e, entry_of cfg m e) ->
   kconfig_assignments cfg = Raise GeneratorError).
Proof.
  intros Hk1 Hk2 Hm1 Hm2 Hv1 Hc1 Hr1 Hv2 Hc2 Hr2 Hne.
  assert (No : forall out, kconfig_assignments cfg <> Ok out).
  { intros out H. destruct (kc_go_spec cfg cfg [] out H (NoDup_nil _)) as (ND & _ & Hall).
    destruct (Hall k1 m1 Hk1 Hm1) as (e1 & He1 & Ev1 & Ec1 & Er1).
    destruct (Hall k2 m2 Hk2 Hm2) as (e2 & He2 & Ev2 & Ec2 & Er2).
    assert (E : e1 = e2).
    { apply (NoDup_map_inj pair_of out); try assumption. unfold pair_of. congruence. }
    subst e2. congruence. }
  split; [assumption|]. intros WF. destruct (kc_go_wf cfg cfg [] WF) as [[out H]|H]; [|assumption].
  exfalso. exact (No out H).
Qed.

(* which configuration keys name which role (the three configurable manifests of the property) *)
Definition k_root_vendor : bytes := kc_key3 [82; 79; 79; 84].                                   (* ..._ROOT_VENDOR_NAME *)
Definition k_app_vendor : bytes := kc_key3 [65; 80; 80; 95; 76; 79; 67; 65; 76; 95; 49].        (* ..._APP_LOCAL_1_VENDOR_NAME *)
Definition k_rad_vendor : bytes := kc_key3 [82; 65; 68; 95; 76; 79; 67; 65; 76; 95; 49].        (* ..._RAD_LOCAL_1_VENDOR_NAME *)
Lemma role_names :
  kc_match k_root_vendor = Some [82; 79; 79; 84] /\ kc_role [82; 79; 79; 84] = Ok 32 /\
  kc_match k_app_vendor = Some [65; 80; 80; 95; 76; 79; 67; 65; 76; 95; 49] /\ kc_role [65; 80; 80; 95; 76; 79; 67; 65; 76; 95; 49] = Ok 34 /\
  kc_match k_rad_vendor = Some [82; 65; 68; 95; 76; 79; 67; 65; 76; 95; 49] /\ kc_role [82; 65; 68; 95; 76; 79; 67; 65; 76; 95; 49] = Ok 49.
Proof. vm_compute. repeat split; reflexivity. Qed.
