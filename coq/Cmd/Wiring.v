(* Cmd/Wiring.v — C19: what wiring_ok (Cmd/WiringModel.v) guarantees, for every abstract manifest; and the
   regenerated abstract manifests of the two NCS templates (gen/GenWiring.v) pass it for every image set, every
   name and every child digest. *)
From Verif Require Import Base.Prim Base.PrimFacts Cmd.WiringModel gen.GenWiring.

(* ------------------------------------------------------------------ the specification, in Prop *)
Definition cmd_ok (m : manifest_abs) (s : st) (c : cmd) : Prop :=
  match c with
  | SetIdx l => forall i, In i l -> 0 <= i < blen (comps m)
  | Fetch =>
      forall i, In i (cur s) ->
        0 <= i < blen (comps m) /\
        exists u, zlookup i (uris s) = Some u /\ (is_hash u = true -> exists e, lookup u (integs m) = Some e)
  | ImageMatch =>
      forall i, In i (cur s) ->
        exists d k, zlookup i (digs s) = Some d /\ comp_at m i = Some k /\
          match k with
          | CandMfst => exists u, zlookup i (fetched s) = Some u /\
                                  (is_hash u = true -> exists e, lookup u (integs m) = Some e /\ fst e = d)
          | InstldMfst cid => exists name, In (name, (d, Some cid)) (integs m)
          | OtherComp => True
          end
  | DepIntegrity | ProcessDep => forall i, In i (cur s) -> In i (deps m)
  | _ => True
  end.

Lemma znth_spec {A} (l : list A) i k : znth l i = Some k <-> 0 <= i /\ nth_error l (Z.to_nat i) = Some k.
Proof.
  revert i. induction l as [|x l IH]; intros i; cbn [znth].
  - split; [discriminate|]. intros [_ H]. destruct (Z.to_nat i); discriminate.
  - destruct (i =? 0) eqn:E.
    + apply Z.eqb_eq in E. subst i. cbn. split; [intros H; split; [lia|assumption] | intros [_ H]; assumption].
    + apply Z.eqb_neq in E. rewrite IH. split.
      * intros [H0 H]. split; [lia|]. replace (Z.to_nat i) with (S (Z.to_nat (i - 1))) by lia. assumption.
      * intros [H0 H]. split; [lia|]. replace (Z.to_nat i) with (S (Z.to_nat (i - 1))) in H by lia. assumption.
Qed.

Lemma in_range_spec n i : in_range n i = true <-> 0 <= i < Z.of_nat n.
Proof. unfold in_range. rewrite andb_true_iff. lia. Qed.

Lemma zmem_In k l : zmem k l = true <-> In k l.
Proof.
  unfold zmem. rewrite existsb_exists. split.
  - intros [x [Hi He]]. apply Z.eqb_eq in He. subst. assumption.
  - intros H. exists k. split; [assumption | apply Z.eqb_refl].
Qed.
Lemma bmem_In k l : bmem k l = true <-> In k l.
Proof.
  unfold bmem. rewrite existsb_exists. split.
  - intros [x [Hi He]]. apply list_eqb_eq in He. subst. assumption.
  - intros H. exists k. split; [assumption | apply list_eqb_refl].
Qed.
Lemma lookup_In {V} k (l : list (list Z * V)) v : lookup k l = Some v -> In (k, v) l.
Proof.
  induction l as [|[k' v'] l IH]; cbn [lookup]; [discriminate|].
  destruct (list_eqb k k') eqn:E.
  - intros [= <-]. apply list_eqb_eq in E. subst. left. reflexivity.
  - intros H. right. apply IH. assumption.
Qed.

Lemma cmd_okb_sound m s c : cmd_okb m s c = true -> cmd_ok m s c.
Proof.
  destruct c as [l| |u|d| | | | |]; cbn [cmd_okb cmd_ok]; try (intros _; exact I).
  - (* SetIdx *) intros H i Hi. rewrite forallb_forall in H. apply H in Hi. apply in_range_spec in Hi. unfold blen. lia.
  - (* Fetch *) intros H i Hi. rewrite forallb_forall in H. apply H in Hi. clear H.
    apply andb_prop in Hi. destruct Hi as [Hr Hi]. apply in_range_spec in Hr. split; [unfold blen; lia|].
    destruct (zlookup i (uris s)) as [u|]; [|discriminate]. exists u. split; [reflexivity|].
    intros Hh. rewrite Hh in Hi. destruct (lookup u (integs m)) as [e|]; [|discriminate]. exists e. reflexivity.
  - (* ImageMatch *) intros H i Hi. rewrite forallb_forall in H. apply H in Hi. clear H.
    destruct (zlookup i (digs s)) as [d|]; [|discriminate]. exists d.
    destruct (comp_at m i) as [k|]; [|discriminate]. exists k. split; [reflexivity|]. split; [reflexivity|].
    destruct k as [|cid|]; [| |exact I].
    + destruct (zlookup i (fetched s)) as [u|]; [|discriminate]. exists u. split; [reflexivity|].
      intros Hh. rewrite Hh in Hi. destruct (lookup u (integs m)) as [e|]; [|discriminate].
      exists e. split; [reflexivity|]. apply list_eqb_eq. assumption.
    + apply existsb_exists in Hi. destruct Hi as [[name [dg oc]] [Hin Hb]]. cbn [fst snd] in Hb.
      apply andb_prop in Hb. destruct Hb as [Hd Hc]. apply list_eqb_eq in Hd. subst dg.
      destruct oc as [c'|]; [|discriminate]. apply list_eqb_eq in Hc. subst c'. exists name. assumption.
  - (* DepIntegrity *) intros H i Hi. rewrite forallb_forall in H. apply zmem_In. apply H. assumption.
  - (* ProcessDep *) intros H i Hi. rewrite forallb_forall in H. apply zmem_In. apply H. assumption.
Qed.

Lemma check_seq_sound m l : forall s, check_seq m s l = true ->
  forall pre c post, l = pre ++ c :: post -> cmd_ok m (run (length (comps m)) s pre) c.
Proof.
  induction l as [|c0 l IH]; intros s H pre c post E.
  - destruct pre; discriminate.
  - cbn [check_seq] in H. apply andb_prop in H. destruct H as [H0 H1].
    destruct pre as [|p pre]; cbn [app] in E; injection E as -> ->.
    + cbn. apply cmd_okb_sound. assumption.
    + cbn [run fold_left]. apply (IH _ H1 pre c post). reflexivity.
Qed.

Lemma run_app n s a b : run n (run n s a) b = run n s (a ++ b).
Proof. unfold run. rewrite fold_left_app. reflexivity. Qed.

Lemma installed_In m c : In c (installed_cids m) <-> In (InstldMfst c) (comps m).
Proof.
  unfold installed_cids. rewrite in_flat_map. split.
  - intros [k [Hk Hc]]. destruct k as [|c'|]; cbn in Hc; try contradiction. destruct Hc as [->|[]]. assumption.
  - intros H. exists (InstldMfst c). split; [assumption | left; reflexivity].
Qed.

(* ------------------------------------------------------------------ soundness of the checker *)
Lemma wiring_ok_sound m e : wiring_ok m e = true ->
  (* every command of the shared sequence is acceptable in the state reached by the commands before it *)
  (forall pre c post, shared m = pre ++ c :: post -> cmd_ok m (run (length (comps m)) st0 pre) c) /\
  (* likewise every command of every other sequence, which runs after the shared sequence *)
  (forall s pre c post, In s (seqs m) -> s = pre ++ c :: post ->
     cmd_ok m (run (length (comps m)) st0 (shared m ++ pre)) c) /\
  (* every declared dependency index is a candidate- or installed-manifest component *)
  (forall d, In d (deps m) -> exists k, comp_at m d = Some k /\ is_mfst k = true) /\
  (* installed-manifest class ids are exactly those of the configured names *)
  (forall c, In (InstldMfst c) (comps m) <-> In c (exp_installed e)) /\
  self_cid m = Some (exp_self e).
Proof.
  unfold wiring_ok, seqs_okb, deps_okb, cids_okb. intros H.
  apply andb_prop in H. destruct H as [H Hc]. apply andb_prop in H. destruct H as [H Hdeps].
  apply andb_prop in H. destruct H as [H Hseqs].
  apply andb_prop in Hc. destruct Hc as [Hc Hself]. apply andb_prop in Hc. destruct Hc as [Hc1 Hc2].
  split; [|split; [|split; [|split]]].
  - intros pre c post E. eapply check_seq_sound; eassumption.
  - intros s pre c post Hin E. rewrite forallb_forall in Hseqs. apply Hseqs in Hin.
    rewrite <- run_app. eapply check_seq_sound; eassumption.
  - intros d Hd. rewrite forallb_forall in Hdeps. apply Hdeps in Hd.
    destruct (comp_at m d) as [k|]; [|discriminate]. exists k. split; [reflexivity | assumption].
  - intros c. rewrite <- installed_In. split; intros Hc.
    + rewrite forallb_forall in Hc1. apply Hc1 in Hc. apply bmem_In. assumption.
    + rewrite forallb_forall in Hc2. apply Hc2 in Hc. apply bmem_In. assumption.
  - destruct (self_cid m) as [c|]; [|discriminate]. f_equal. apply list_eqb_eq. assumption.
Qed.

(* the first clause of the property, without reference to the execution state: every index named by a
   set-component-index anywhere in the manifest is a declared component *)
Lemma indices_declared m e : wiring_ok m e = true ->
  forall s l i, In s (shared m :: seqs m) -> In (SetIdx l) s -> In i l -> 0 <= i < blen (comps m).
Proof.
  intros H s l i Hs Hl Hi. destruct (wiring_ok_sound m e H) as (Hsh & Hsq & _).
  apply in_split in Hl. destruct Hl as (pre & post & E).
  destruct Hs as [<-|Hs].
  - exact (Hsh pre _ post E i Hi).
  - exact (Hsq s pre _ post Hs E i Hi).
Qed.

(* the third clause: at every fetch, the uri in force for each current component, when it is a '#name', is the
   name of an integrated dependency *)
Lemma fetched_integrated m e : wiring_ok m e = true ->
  forall s pre post i, In s (seqs m) -> s = pre ++ Fetch :: post ->
    In i (cur (run (length (comps m)) st0 (shared m ++ pre))) ->
    exists u, zlookup i (uris (run (length (comps m)) st0 (shared m ++ pre))) = Some u /\
              (is_hash u = true -> exists dg, In (u, dg) (integs m)).
Proof.
  intros H s pre post i Hs E Hi. destruct (wiring_ok_sound m e H) as (_ & Hsq & _).
  destruct (Hsq s pre _ post Hs E i Hi) as (_ & u & Hu & Hh).
  exists u. split; [assumption|]. intros Hu'. destruct (Hh Hu') as [dg Hdg]. exists dg. apply lookup_In. assumption.
Qed.

(* the fourth clause: at every image-match on a candidate-manifest component that was filled by fetching '#name',
   the digest parameter in force equals the digest of the manifest of the integrated dependency of that name *)
Lemma verified_digest m e : wiring_ok m e = true ->
  forall s pre post i, In s (seqs m) -> s = pre ++ ImageMatch :: post ->
    In i (cur (run (length (comps m)) st0 (shared m ++ pre))) -> comp_at m i = Some CandMfst ->
    exists d u, zlookup i (digs (run (length (comps m)) st0 (shared m ++ pre))) = Some d /\
                zlookup i (fetched (run (length (comps m)) st0 (shared m ++ pre))) = Some u /\
                (is_hash u = true -> exists oc, lookup u (integs m) = Some (d, oc)).
Proof.
  intros H s pre post i Hs E Hi Hc. destruct (wiring_ok_sound m e H) as (_ & Hsq & _).
  destruct (Hsq s pre _ post Hs E i Hi) as (d & k & Hd & Hk & Hm).
  rewrite Hc in Hk. injection Hk as <-. destruct Hm as (u & Hu & Hh).
  exists d, u. split; [assumption|]. split; [assumption|]. intros Hu'. destruct (Hh Hu') as ([d' oc] & Hl & Hf).
  cbn in Hf. subst d'. exists oc. assumption.
Qed.

(* ------------------------------------------------------------------ the regenerated template models are wired *)
(* names fixed by the specification side (by hand): the Nordic top / secure domain / system controller manifests *)
Definition n_nordic : bytes := [110; 111; 114; 100; 105; 99; 115; 101; 109; 105; 46; 99; 111; 109].       (* nordicsemi.com *)
Definition n_top : bytes := [110; 82; 70; 53; 52; 72; 50; 48; 95; 110; 111; 114; 100; 105; 99; 95; 116; 111; 112].     (* nRF54H20_nordic_top *)
Definition n_sec : bytes := [110; 82; 70; 53; 52; 72; 50; 48; 95; 115; 101; 99].            (* nRF54H20_sec *)
Definition n_sys : bytes := [110; 82; 70; 53; 52; 72; 50; 48; 95; 115; 121; 115].            (* nRF54H20_sys *)

Section Wired.
Variable cidf : bytes -> bytes -> bytes.

(* class ids the configuration asks for: the configured radio / application names for the images present, the fixed
   Nordic top name, and the configured root name for the manifest itself *)
Definition root_expect (r a t : bool) (root_v root_c app_v app_c rad_v rad_c : bytes) : expect :=
  {| exp_installed := (if r then [cidf rad_v rad_c] else []) ++ (if a then [cidf app_v app_c] else [])
                      ++ (if t then [cidf n_nordic n_top] else []);
     exp_self := cidf root_v root_c |}.
Definition top_expect : expect :=
  {| exp_installed := [cidf n_nordic n_sec; cidf n_nordic n_sys]; exp_self := cidf n_nordic n_top |}.

Ltac crunch := unfold wiring_ok, seqs_okb, deps_okb, cids_okb, root_expect, top_expect, root_model, top_model, n_nordic, n_top, n_sec, n_sys; cbn; repeat (rewrite ?list_eqb_refl, ?orb_true_r; cbn); reflexivity.

Lemma root_wired r a t root_v root_c app_v app_c rad_v rad_c d_r d_a d_t c_r c_a c_t :
  r || a || t = true ->
  wiring_ok (root_model cidf r a t root_v root_c app_v app_c rad_v rad_c d_r d_a d_t c_r c_a c_t)
            (root_expect r a t root_v root_c app_v app_c rad_v rad_c) = true.
Proof. destruct r, a, t; intros H; try discriminate H; clear H; crunch. Qed.

(* the top template verifies, on the installed system-controller component, the digest taken from sysctrl.suit:
   that is the digest of an integrated dependency whose own class id is the one of that component *)
Lemma top_wired d_sec d_sys c_sec :
  wiring_ok (top_model cidf d_sec d_sys c_sec (Some (cidf n_nordic n_sys))) top_expect = true.
Proof. crunch. Qed.
End Wired.
