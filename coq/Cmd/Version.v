(* Cmd/Version.v — the lemmas behind Props/C20.v (specification: Cmd/VersionSpec.v), about the model regenerated in gen/GenVersion.v.
   Proof scripts never mention generated variable names. *)
From Verif Require Import Base.Prim Base.PrimFacts Cmd.StrLemmas Cmd.VersionModel Cmd.VersionSpec gen.GenVersion.

(* ================================================================== list_cmp *)
Lemma cmp_opp_0 x : (x ?= 0) = CompOpp (0 ?= x).
Proof. apply Z.compare_antisym. Qed.

Lemma list_cmp_nil_r a : list_cmp a [] = CompOpp (zeros_vs a).
Proof.
  induction a as [|x a IH]; [reflexivity|]. cbn [list_cmp zeros_vs]. rewrite cmp_opp_0, IH.
  destruct (0 ?= x); reflexivity.
Qed.

Lemma list_cmp_antisym a b : list_cmp b a = CompOpp (list_cmp a b).
Proof.
  revert b. induction a as [|x a IH]; intros b.
  - cbn [list_cmp]. rewrite list_cmp_nil_r. reflexivity.
  - destruct b as [|y b].
    + change (list_cmp [] (x :: a)) with (zeros_vs (x :: a)). rewrite list_cmp_nil_r, CompOpp_involutive. reflexivity.
    + cbn [list_cmp]. rewrite (Z.compare_antisym x y), IH. destruct (x ?= y); reflexivity.
Qed.

Lemma list_cmp_app a b s t :
  length a = length b -> list_cmp (a ++ s) (b ++ t) = match list_cmp a b with Eq => list_cmp s t | c => c end.
Proof.
  revert b. induction a as [|x a IH]; intros [|y b] H; try discriminate.
  - reflexivity.
  - cbn [app list_cmp]. destruct (x ?= y); try reflexivity. apply IH. cbn in H. lia.
Qed.

Lemma zeros_vs_app b t : zeros_vs (b ++ t) = match zeros_vs b with Eq => zeros_vs t | c => c end.
Proof. induction b as [|y b IH]; [reflexivity|]. cbn [app zeros_vs]. destruct (0 ?= y); auto. Qed.

Lemma zeros_vs_nonneg b : Forall (fun x => 0 <= x) b -> zeros_vs b = Eq \/ zeros_vs b = Lt.
Proof.
  induction 1 as [|y b Hy _ IH]; [left; reflexivity|]. cbn [zeros_vs].
  destruct (Z.compare_spec 0 y); [exact IH|right; reflexivity|lia].
Qed.

(* ================================================================== tails *)
(* the integers the regenerated converter assigns to the three labels *)
Definition label_val (l : label) : Z := match convert_version_part (label_name l) with Ok z => z | Raise _ => 0 end.

(* all that the ordering needs from the extracted Enum table: the labels are accepted, their values are negative and
   increase from alpha to rc *)
Lemma cvp_label l : convert_version_part (label_name l) = Ok (label_val l).
Proof. destruct l; vm_compute; reflexivity. Qed.
Lemma label_vals_ordered : label_val Alpha < label_val Beta /\ label_val Beta < label_val Rc /\ label_val Rc < 0.
Proof. repeat split; vm_compute; reflexivity. Qed.

Lemma vals_nonneg v : wf v -> Forall (fun x => 0 <= x) (vals v).
Proof.
  intros (_ & H & _). unfold vals. apply Forall_map. eapply Forall_impl; [|exact H].
  intros s Hs. apply int_of_digits_nonneg. exact Hs.
Qed.

Ltac cmp_facts :=
  destruct label_vals_ordered as (Hab & Hbc & Hc0);
  generalize dependent (label_val Alpha); intros xa; generalize dependent (label_val Beta); intros xb;
  generalize dependent (label_val Rc); intros xc; intros;
  assert ((xa ?= xa) = Eq /\ (xb ?= xb) = Eq /\ (xc ?= xc) = Eq) as (Eaa & Ebb & Ecc) by (rewrite !Z.compare_refl; auto);
  assert ((xa ?= xb) = Lt /\ (xa ?= xc) = Lt /\ (xb ?= xc) = Lt) as (Eab & Eac & Ebc) by (repeat split; apply Z.compare_lt_iff; lia);
  assert ((xb ?= xa) = Gt /\ (xc ?= xa) = Gt /\ (xc ?= xb) = Gt) as (Eba & Eca & Ecb) by (repeat split; apply Z.compare_gt_iff; lia);
  assert ((0 ?= xa) = Gt /\ (0 ?= xb) = Gt /\ (0 ?= xc) = Gt) as (E0a & E0b & E0c) by (repeat split; apply Z.compare_gt_iff; lia);
  assert ((xa ?= 0) = Lt /\ (xb ?= 0) = Lt /\ (xc ?= 0) = Lt) as (Ea0 & Eb0 & Ec0) by (repeat split; apply Z.compare_lt_iff; lia).

(* comparing the tails = comparing rank, then pre-release number *)
Lemma tail_cmp v w :
  list_cmp (tail label_val v) (tail label_val w) = match rank v ?= rank w with Eq => prenum v ?= prenum w | c => c end.
Proof.
  unfold tail, rank, prenum, release_rank. cmp_facts.
  destruct (pre v) as [[[| |] [n|]]|], (pre w) as [[[| |] [n'|]]|]; cbn [list_cmp zeros_vs label_rank];
    rewrite ?Eaa, ?Ebb, ?Ecc, ?Eab, ?Eac, ?Ebc, ?Eba, ?Eca, ?Ecb, ?E0a, ?E0b, ?E0c, ?Ea0, ?Eb0, ?Ec0;
    repeat match goal with |- context [int_of_digits ?s] => generalize (int_of_digits s); intro end;
    repeat match goal with
           | |- context [Z.compare ?a ?b] => first [is_var a | is_var b]; destruct (Z.compare a b)
           end; reflexivity.
Qed.

Lemma zeros_vs_tail w : zeros_vs (tail label_val w) = match release_rank ?= rank w with Eq => 0 ?= prenum w | c => c end.
Proof.
  unfold tail, rank, prenum, release_rank. cmp_facts.
  destruct (pre w) as [[[| |] [n|]]|]; cbn [zeros_vs label_rank]; rewrite ?E0a, ?E0b, ?E0c; reflexivity.
Qed.

Lemma tail_head_neg v : is_pre v = true -> exists r t, tail label_val v = r :: t /\ r < 0.
Proof.
  destruct label_vals_ordered as (Hab & Hbc & Hc0).
  unfold is_pre, tail. destruct (pre v) as [[l [n|]]|]; [| |discriminate]; intros _; eexists; eexists; (split; [reflexivity|]);
    destruct l; lia.
Qed.

(* ================================================================== version_order on integer lists *)
Lemma order_shorter v w :
  wf v -> wf w -> (length (nums v) < length (nums w))%nat -> (is_pre v && is_Eq (list_cmp (vals v) (vals w))) = false ->
  semver_cmp v w = list_cmp (ints label_val v) (ints label_val w).
Proof.
  intros Hv Hw Hlen Hf9. unfold semver_cmp, ints.
  pose proof (vals_nonneg w Hw) as Hnn.
  assert (Hl : (length (vals v) < length (vals w))%nat) by (unfold vals; rewrite !map_length; exact Hlen).
  set (a := vals v) in *. set (b := vals w) in *.
  rewrite <- (firstn_skipn (length a) b) in Hf9 |- *. set (b1 := firstn (length a) b) in *. set (b2 := skipn (length a) b) in *.
  assert (Hb1 : length a = length b1) by (unfold b1; rewrite firstn_length; lia).
  assert (Hb2 : Forall (fun x => 0 <= x) b2).
  { rewrite <- (firstn_skipn (length a) b) in Hnn. apply Forall_app in Hnn. exact (proj2 Hnn). }
  assert (Hb2ne : b2 <> []).
  { intros E. assert (length b2 = 0%nat) by (rewrite E; reflexivity). unfold b2 in *. rewrite skipn_length in *. lia. }
  rewrite <- (app_nil_r a) at 1. rewrite <- (app_nil_r a) in Hf9. rewrite (list_cmp_app a b1 [] b2 Hb1) in Hf9 |- *.
  rewrite <- app_assoc, (list_cmp_app a b1 _ _ Hb1).
  destruct (list_cmp a b1); try reflexivity.
  change (list_cmp [] b2) with (zeros_vs b2) in *.
  destruct (is_pre v) eqn:Epre.
  - (* the shorter one is a pre-release: its label (negative) meets a numeric field of the longer one *)
    destruct (tail_head_neg v Epre) as (r & t & -> & Hr).
    destruct b2 as [|y b2']; [contradiction|]. inversion Hb2 as [|? ? Hy Hb2']; subst.
    cbn [app list_cmp]. assert ((r ?= y) = Lt) as -> by (apply Z.compare_lt_iff; lia).
    cbn [zeros_vs] in *. destruct (Z.compare_spec 0 y) as [E|E|E]; [|reflexivity|lia].
    destruct (zeros_vs_nonneg b2' Hb2') as [Z0|Z0]; rewrite Z0 in *; [discriminate|reflexivity].
  - (* the shorter one is a release *)
    assert (tail label_val v = []) as -> by (unfold is_pre, tail in *; destruct (pre v) as [[l [n|]]|]; try discriminate; reflexivity).
    assert (rank v = release_rank) as -> by (unfold is_pre, rank in *; destruct (pre v) as [[l n]|]; try discriminate; reflexivity).
    assert (prenum v = 0) as -> by (unfold is_pre, prenum in *; destruct (pre v) as [[l n]|]; try discriminate; reflexivity).
    change (list_cmp [] (b2 ++ tail label_val w)) with (zeros_vs (b2 ++ tail label_val w)). rewrite zeros_vs_app, zeros_vs_tail.
    reflexivity.
Qed.

Lemma semver_antisym v w : semver_cmp w v = CompOpp (semver_cmp v w).
Proof.
  unfold semver_cmp. rewrite (list_cmp_antisym (vals v) (vals w)). destruct (list_cmp (vals v) (vals w)); try reflexivity.
  cbn [CompOpp]. rewrite (Z.compare_antisym (rank v) (rank w)). destruct (rank v ?= rank w); try reflexivity.
  cbn [CompOpp]. apply Z.compare_antisym.
Qed.

Lemma is_Eq_opp c : is_Eq (CompOpp c) = is_Eq c.
Proof. destruct c; reflexivity. Qed.

Lemma version_order_ints v w : wf v -> wf w -> f9_family v w = false -> semver_cmp v w = list_cmp (ints label_val v) (ints label_val w).
Proof.
  intros Hv Hw. unfold f9_family, shorter_is_pre.
  destruct (length (nums v) <? length (nums w))%nat eqn:E1.
  - apply Nat.ltb_lt in E1. apply order_shorter; assumption.
  - destruct (length (nums w) <? length (nums v))%nat eqn:E2.
    + apply Nat.ltb_lt in E2. intros H. rewrite (list_cmp_antisym (vals w) (vals v)), is_Eq_opp in H.
      rewrite (semver_antisym w v), (list_cmp_antisym (ints label_val w) (ints label_val v)). f_equal. apply order_shorter; assumption.
    + intros _. apply Nat.ltb_ge in E1, E2. unfold semver_cmp, ints.
      rewrite list_cmp_app by (unfold vals; rewrite !map_length; lia).
      destruct (list_cmp (vals v) (vals w)); try reflexivity. symmetry. apply tail_cmp.
Qed.

(* the domain named in the design is inside the complement of the F9 family *)
Lemma f9_equal_arity v w : length (nums v) = length (nums w) -> f9_family v w = false.
Proof.
  intros H. unfold f9_family, shorter_is_pre. rewrite H, Nat.ltb_irrefl. reflexivity.
Qed.
Lemma f9_shorter_release v w : (length (nums v) < length (nums w))%nat -> pre v = None -> f9_family v w = false /\ f9_family w v = false.
Proof.
  intros H Hp. unfold f9_family, shorter_is_pre, is_pre. rewrite Hp. pose proof H as H'. apply Nat.ltb_lt in H'. rewrite H'.
  assert ((length (nums w) <? length (nums v))%nat = false) as -> by (apply Nat.ltb_ge; lia). split; reflexivity.
Qed.

(* ================================================================== the converter on printed versions *)
Definition clean (c : Z) : bool := negb (c =? 45) && negb (c =? 46).
Definition cleanp (p : pystr) : Prop := forallb clean p = true.

Lemma clean_free p : cleanp p -> free_of 45 p = true /\ free_of 46 p = true.
Proof.
  unfold cleanp, free_of, clean. rewrite !forallb_forall. intros H. split; intros c Hc; specialize (H c Hc); btrue; rewrite ?H, ?H0; reflexivity.
Qed.

Lemma digit_clean c : is_digit c = true -> clean c = true.
Proof. unfold is_digit, clean. intros H. assert (c =? 45 = false) as -> by lia. assert (c =? 46 = false) as -> by lia. reflexivity. Qed.

Lemma numeric_clean s : numeric s -> cleanp s.
Proof.
  unfold numeric, isnumeric, cleanp. destruct s as [|c s]; [discriminate|]. rewrite !forallb_forall.
  intros H x Hx. apply digit_clean, H, Hx.
Qed.

Lemma label_clean l : cleanp (label_name l).
Proof. destruct l; reflexivity. Qed.

Lemma from_obj_eq s : from_obj s = mapM convert_version_part (split (replace_char s 45 46) 46).
Proof.
  unfold from_obj, suitlist_from_obj.
  erewrite (mapM_ext _ convert_version_part); [|intros p; destruct (convert_version_part p); reflexivity].
  destruct (mapM convert_version_part _); reflexivity.
Qed.

(* a string  n1.n2...[-p1.p2...]  whose parts contain neither '-' nor '.' is cut into exactly those parts *)
Lemma from_obj_parts ns ps :
  ns <> [] -> Forall cleanp ns -> Forall cleanp ps ->
  from_obj (join [46] ns ++ match ps with [] => [] | _ => 45 :: join [46] ps end) = mapM convert_version_part (ns ++ ps).
Proof.
  intros Hne Hns Hps. rewrite from_obj_eq. f_equal.
  assert (F45 : forall l, Forall cleanp l -> Forall (fun p => free_of 45 p = true) l)
    by (intros l; apply Forall_impl; intros p Hp; apply (clean_free p Hp)).
  assert (F46 : forall l, Forall cleanp l -> Forall (fun p => free_of 46 p = true) l)
    by (intros l; apply Forall_impl; intros p Hp; apply (clean_free p Hp)).
  assert (E : replace_char (join [46] ns ++ match ps with [] => [] | _ => 45 :: join [46] ps end) 45 46 = join [46] (ns ++ ps)).
  { rewrite replace_char_app, (replace_char_free (join [46] ns)) by (apply free_of_join; [reflexivity|apply F45, Hns]).
    destruct ps as [|q ps]; [rewrite !app_nil_r; reflexivity|].
    change (45 :: join [46] (q :: ps)) with ([45] ++ join [46] (q :: ps)).
    rewrite replace_char_app, (replace_char_free (join [46] (q :: ps))) by (apply free_of_join; [reflexivity|apply F45, Hps]).
    rewrite join_app by (try assumption; discriminate). reflexivity. }
  rewrite E. apply split_join.
  - destruct ns; [contradiction|discriminate].
  - apply F46, Forall_app. split; assumption.
Qed.

Lemma cvp_numeric p : numeric p -> convert_version_part p = Ok (int_of_digits p).
Proof. unfold numeric, convert_version_part. intros H. rewrite H, (int_of_str_digits _ H). reflexivity. Qed.

Lemma table_labels : map fst prerelease_table = [label_name Alpha; label_name Beta; label_name Rc].
Proof. reflexivity. Qed.

Lemma pre_parts_clean v : wf v -> Forall cleanp (pre_parts v).
Proof.
  intros (_ & _ & H). unfold pre_parts. destruct (pre v) as [[l [n|]]|]; repeat constructor; try apply label_clean.
  apply numeric_clean, H.
Qed.

Lemma mapM_pre_parts v : wf v -> mapM convert_version_part (pre_parts v) = Ok (tail label_val v).
Proof.
  intros (_ & _ & H). unfold pre_parts, tail. destruct (pre v) as [[l [n|]]|]; cbn [mapM]; rewrite ?cvp_label, ?(cvp_numeric _ H); reflexivity.
Qed.

Lemma convert_print v : wf v -> from_obj (print v) = Ok (ints label_val v).
Proof.
  intros Hv. pose proof Hv as (Hne & Hnum & _). unfold print.
  rewrite from_obj_parts; [|exact Hne|eapply Forall_impl; [|exact Hnum]; apply numeric_clean|apply pre_parts_clean, Hv].
  rewrite mapM_app, (mapM_ok_map _ int_of_digits) by (eapply Forall_impl; [|exact Hnum]; apply cvp_numeric).
  cbn [bind]. rewrite mapM_pre_parts by exact Hv. reflexivity.
Qed.

Lemma version_order v w :
  wf v -> wf w -> f9_family v w = false ->
  exists a b, from_obj (print v) = Ok a /\ from_obj (print w) = Ok b /\ semver_cmp v w = list_cmp a b.
Proof.
  intros Hv Hw H. exists (ints label_val v), (ints label_val w). split; [apply convert_print, Hv|]. split; [apply convert_print, Hw|].
  apply version_order_ints; assumption.
Qed.

(* F9: 0-alpha vs 0.0-alpha are equal under semantic versioning (zero-padded numeric part, same label) but the
   integer lists [0,-3] and [0,0,-3] compare as Lt *)
Definition f9_v := {| nums := [[48]]; pre := Some (Alpha, None) |}.
Definition f9_w := {| nums := [[48]; [48]]; pre := Some (Alpha, None) |}.
Lemma wf_dec_example : wf f9_v /\ wf f9_w.
Proof. repeat split; try discriminate; repeat constructor. Qed.
Lemma mixed_arity_refuted :
  exists v w a b, wf v /\ wf w /\ f9_family v w = true /\ from_obj (print v) = Ok a /\ from_obj (print w) = Ok b
                  /\ semver_cmp v w = Eq /\ list_cmp a b = Lt.
Proof.
  exists f9_v, f9_w, (ints label_val f9_v), (ints label_val f9_w). destruct wf_dec_example as [A B].
  split; [exact A|]. split; [exact B|]. repeat split; vm_compute; reflexivity.
Qed.

(* ================================================================== rejected labels *)
Lemma int_of_str_raises s e : int_of_str s = Raise e -> e = ValueError.
Proof. unfold int_of_str. destruct (match str_strip s with [] => None | _ => _ end); [discriminate|]. intros [= <-]. reflexivity. Qed.

Lemma cvp_raises p e : convert_version_part p = Raise e -> e = ValueError.
Proof.
  unfold convert_version_part, prerelease_value. destruct (isnumeric p).
  - destruct (int_of_str p) eqn:E; [discriminate|]. intros [= <-]. apply (int_of_str_raises _ _ E).
  - destruct (str_lookup p prerelease_table); [discriminate|]. intros [= <-]. reflexivity.
Qed.

Lemma cvp_unknown p : isnumeric p = false -> str_lookup p prerelease_table = None -> convert_version_part p = Raise ValueError.
Proof. unfold convert_version_part, prerelease_value. intros -> ->. reflexivity. Qed.

(* any part that is neither numeric nor a member of the Enum makes the whole conversion raise ValueError *)
Lemma bad_part_rejected s p :
  In p (split (replace_char s 45 46) 46) -> isnumeric p = false -> str_lookup p prerelease_table = None ->
  from_obj s = Raise ValueError.
Proof.
  intros Hin Hn Hl. rewrite from_obj_eq. apply (mapM_raises _ ValueError _ p); [apply cvp_raises|exact Hin|apply cvp_unknown; assumption].
Qed.

Lemma lookup_other p : p <> label_name Alpha -> p <> label_name Beta -> p <> label_name Rc -> str_lookup p prerelease_table = None.
Proof.
  intros A B C. unfold prerelease_table. cbn [str_lookup]. unfold str_eqb.
  repeat match goal with |- context [list_eqb p ?x] => let E := fresh "E" in destruct (list_eqb p x) eqn:E;
                           [apply list_eqb_eq in E; first [contradiction (A E) | contradiction (B E) | contradiction (C E)]|] end.
  reflexivity.
Qed.

(* N(.N)*-LABEL[.N] with a label other than alpha / beta / rc is rejected *)
Lemma bad_label_rejected ns lab (on : option pystr) :
  ns <> [] -> Forall numeric ns -> cleanp lab -> isnumeric lab = false -> match on with Some n => numeric n | None => True end ->
  lab <> label_name Alpha -> lab <> label_name Beta -> lab <> label_name Rc ->
  from_obj (join [46] ns ++ 45 :: join [46] (lab :: match on with Some n => [n] | None => [] end)) = Raise ValueError.
Proof.
  intros Hne Hns Hlab Hnn Hon A B C.
  assert (Hps : Forall cleanp (lab :: match on with Some n => [n] | None => [] end))
    by (constructor; [exact Hlab|destruct on; repeat constructor; apply numeric_clean, Hon]).
  assert (Hcl : Forall cleanp ns) by (eapply Forall_impl; [|exact Hns]; apply numeric_clean).
  pose proof (from_obj_parts ns _ Hne Hcl Hps) as E. cbn iota in E. rewrite E.
  apply (mapM_raises _ ValueError _ lab); [apply cvp_raises|apply in_or_app; right; left; reflexivity|].
  apply cvp_unknown; [exact Hnn|apply lookup_other; assumption].
Qed.

(* ================================================================== sequence number *)
Definition tweak_val (t : option pystr) (d : Z) : Prop := match t with None => d = 0 | Some x => int_of_str x = Ok d end.

Ltac seq_unfold base add :=
  intros HM Hm Hp Ht; unfold base, add;
  rewrite HM, Hm, Hp; cbv beta iota; rewrite !Z.shiftl_mul_pow2 by lia;
  match goal with t : option _ |- _ => destruct t; cbn [tweak_val] in Ht; [rewrite Ht; cbv beta iota zeta|subst] end;
  f_equal; lia.

Lemma seqnum_value M m p t a b c d :
  int_of_str M = Ok a -> int_of_str m = Ok b -> int_of_str p = Ok c -> tweak_val t d ->
  default_seq_num M m p t = Ok (a * 2 ^ 24 + b * 2 ^ 16 + c * 2 ^ 8 + d).
Proof. unfold default_seq_num. seq_unfold seqnum_base seqnum_add_tweak. Qed.

Lemma scfw_seqnum_value M m p t a b c d :
  int_of_str M = Ok a -> int_of_str m = Ok b -> int_of_str p = Ok c -> tweak_val t d ->
  scfw_default_seq_num M m p t = Ok (a * 2 ^ 24 + b * 2 ^ 16 + c * 2 ^ 8 + d).
Proof. unfold scfw_default_seq_num. seq_unfold scfw_seqnum_base scfw_seqnum_add_tweak. Qed.

Lemma pack_monotone a b c d a' b' c' d' :
  0 <= b < 256 -> 0 <= c < 256 -> 0 <= d < 256 -> 0 <= b' < 256 -> 0 <= c' < 256 -> 0 <= d' < 256 ->
  lex_lt a b c d a' b' c' d' ->
  a * 2 ^ 24 + b * 2 ^ 16 + c * 2 ^ 8 + d < a' * 2 ^ 24 + b' * 2 ^ 16 + c' * 2 ^ 8 + d'.
Proof. unfold lex_lt. change (2 ^ 24) with 16777216. change (2 ^ 16) with 65536. change (2 ^ 8) with 256. lia. Qed.

Lemma seqnum_monotone M m p t a b c d M' m' p' t' a' b' c' d' s s' :
  int_of_str M = Ok a -> int_of_str m = Ok b -> int_of_str p = Ok c -> tweak_val t d ->
  int_of_str M' = Ok a' -> int_of_str m' = Ok b' -> int_of_str p' = Ok c' -> tweak_val t' d' ->
  0 <= b < 256 -> 0 <= c < 256 -> 0 <= d < 256 -> 0 <= b' < 256 -> 0 <= c' < 256 -> 0 <= d' < 256 ->
  lex_lt a b c d a' b' c' d' ->
  default_seq_num M m p t = Ok s -> default_seq_num M' m' p' t' = Ok s' -> s < s'.
Proof.
  intros HM Hm Hp Ht HM' Hm' Hp' Ht' ? ? ? ? ? ? Hlt.
  rewrite (seqnum_value _ _ _ _ _ _ _ _ HM Hm Hp Ht), (seqnum_value _ _ _ _ _ _ _ _ HM' Hm' Hp' Ht').
  intros [= <-] [= <-]. apply pack_monotone; assumption.
Qed.

Lemma scfw_seqnum_monotone M m p t a b c d M' m' p' t' a' b' c' d' s s' :
  int_of_str M = Ok a -> int_of_str m = Ok b -> int_of_str p = Ok c -> tweak_val t d ->
  int_of_str M' = Ok a' -> int_of_str m' = Ok b' -> int_of_str p' = Ok c' -> tweak_val t' d' ->
  0 <= b < 256 -> 0 <= c < 256 -> 0 <= d < 256 -> 0 <= b' < 256 -> 0 <= c' < 256 -> 0 <= d' < 256 ->
  lex_lt a b c d a' b' c' d' ->
  scfw_default_seq_num M m p t = Ok s -> scfw_default_seq_num M' m' p' t' = Ok s' -> s < s'.
Proof.
  intros HM Hm Hp Ht HM' Hm' Hp' Ht' ? ? ? ? ? ? Hlt.
  rewrite (scfw_seqnum_value _ _ _ _ _ _ _ _ HM Hm Hp Ht), (scfw_seqnum_value _ _ _ _ _ _ _ _ HM' Hm' Hp' Ht').
  intros [= <-] [= <-]. apply pack_monotone; assumption.
Qed.

(* ================================================================== default version string *)
Lemma span_digits_ok s : forallb is_digit (fst (span_digits s)) = true.
Proof.
  induction s as [|c s IH]; [reflexivity|]. cbn [span_digits]. destruct (is_digit c) eqn:E; [|reflexivity].
  destruct (span_digits s) as [d t]. cbn [fst forallb] in *. rewrite E, IH. reflexivity.
Qed.

Lemma rest_groups_sound r g : rest_groups r = Some g -> g = [] \/ exists d, g = [d] /\ numeric d.
Proof.
  unfold rest_groups. set (r1 := match r with [] => [] | c :: r' => if c =? 46 then r' else r end).
  pose proof (span_digits_ok r1) as H. destruct (span_digits r1) as [d r2]. cbn [fst] in H.
  destruct (list_eqb r2 [] || list_eqb r2 [10]); [|discriminate]. intros [= <-].
  destruct d as [|c d]; [left; reflexivity|]. right. exists (c :: d). split; [reflexivity|exact H].
Qed.

Lemma match_extraversion_sound labels e g :
  match_extraversion labels e = Some g -> exists l, In l labels /\ (g = [l] \/ exists d, g = [l; d] /\ numeric d).
Proof.
  induction labels as [|l ls IH]; [discriminate|]. cbn [match_extraversion].
  assert (K : match_extraversion ls e = Some g -> exists l0, In l0 (l :: ls) /\ (g = [l0] \/ exists d, g = [l0; d] /\ numeric d)).
  { intros H. destruct (IH H) as (l0 & Hin & Hg). exists l0. split; [right; exact Hin|exact Hg]. }
  destruct (is_prefix l e); [|exact K]. destruct (rest_groups (skipn (length l) e)) as [g'|] eqn:E; [|exact K].
  intros [= <-]. exists l. split; [left; reflexivity|]. destruct (rest_groups_sound _ _ E) as [->|(d & -> & Hd)]; [left; reflexivity|].
  right. exists d. split; [reflexivity|exact Hd].
Qed.

(* every label the EXTRAVERSION regex can capture is a clean string that the converter accepts *)
Definition label_accepted (l : pystr) : bool :=
  forallb clean l && match convert_version_part l with Ok _ => true | Raise _ => false end.
Lemma extraversion_labels_accepted : forallb label_accepted extraversion_labels = true.
Proof. vm_compute. reflexivity. Qed.

Lemma fallback_accepted :
  exists l, version_fallback = version_dash ++ l /\ label_accepted l = true /\ scfw_version_fallback = scfw_version_dash ++ l.
Proof. exists (label_name Alpha). repeat split; vm_compute; reflexivity. Qed.

Lemma separators : version_dash = [45] /\ version_dot = [46] /\ scfw_version_dash = [45] /\ scfw_version_dot = [46].
Proof. repeat split; reflexivity. Qed.

Lemma accepted_tail ns g :
  ns <> [] -> Forall numeric ns -> Forall (fun p => cleanp p /\ exists r, convert_version_part p = Ok r) g ->
  exists tl, from_obj (join [46] ns ++ match g with [] => [] | _ => 45 :: join [46] g end) = Ok (map int_of_digits ns ++ tl).
Proof.
  intros Hne Hns Hg.
  rewrite from_obj_parts; [|exact Hne|eapply Forall_impl; [|exact Hns]; apply numeric_clean|eapply Forall_impl; [|exact Hg]; intros p Hp; apply Hp].
  rewrite mapM_app, (mapM_ok_map _ int_of_digits) by (eapply Forall_impl; [|exact Hns]; apply cvp_numeric). cbn [bind].
  assert (exists tl, mapM convert_version_part g = Ok tl) as (tl & ->).
  { clear Hne Hns. induction Hg as [|p g (_ & r & Hr) _ (tl & IH)]; [exists []; reflexivity|]. exists (r :: tl). cbn [mapM]. rewrite Hr, IH. reflexivity. }
  exists tl. reflexivity.
Qed.

Lemma label_accepted_spec l : label_accepted l = true -> cleanp l /\ exists r, convert_version_part l = Ok r.
Proof.
  unfold label_accepted. intros H. apply andb_prop in H. destruct H as [H1 H2]. split; [exact H1|].
  destruct (convert_version_part l) as [r|]; [exists r; reflexivity|discriminate].
Qed.

Ltac norm_app := repeat (progress (cbn [join app]; rewrite <- ?app_assoc)).

Definition three (M m p : pystr) : list Z := [int_of_digits M; int_of_digits m; int_of_digits p].

Lemma dv_groups M m p g :
  numeric M -> numeric m -> numeric p -> Forall (fun q => cleanp q /\ exists r, convert_version_part q = Ok r) g ->
  exists tl, from_obj (join [46] [M; m; p] ++ match g with [] => [] | _ => 45 :: join [46] g end) = Ok (three M m p ++ tl).
Proof.
  intros HM Hm Hp Hg. apply (accepted_tail [M; m; p] g); [discriminate|repeat constructor; assumption|exact Hg].
Qed.

Lemma dv_plain M m p : numeric M -> numeric m -> numeric p -> exists tl, from_obj (join [46] [M; m; p]) = Ok (three M m p ++ tl).
Proof. intros HM Hm Hp. destruct (dv_groups M m p [] HM Hm Hp (Forall_nil _)) as (tl & H). exists tl. rewrite app_nil_r in H. exact H. Qed.

Lemma dv_label M m p l :
  numeric M -> numeric m -> numeric p -> label_accepted l = true ->
  exists tl, from_obj (join [46] [M; m; p] ++ 45 :: l) = Ok (three M m p ++ tl).
Proof.
  intros HM Hm Hp Hl. apply label_accepted_spec in Hl.
  apply (dv_groups M m p [l] HM Hm Hp). repeat constructor; apply Hl.
Qed.

Lemma dv_match M m p e g :
  numeric M -> numeric m -> numeric p -> match_extraversion extraversion_labels e = Some g ->
  exists tl, from_obj (join [46] [M; m; p] ++ 45 :: join [46] g) = Ok (three M m p ++ tl).
Proof.
  intros HM Hm Hp E. destruct (match_extraversion_sound _ _ _ E) as (l & Hin & Hg).
  assert (Hl : label_accepted l = true) by (pose proof extraversion_labels_accepted as A; rewrite forallb_forall in A; apply A, Hin).
  apply label_accepted_spec in Hl.
  assert (Hgs : Forall (fun q => cleanp q /\ exists r, convert_version_part q = Ok r) g).
  { destruct Hg as [->|(d & -> & Hd)]; repeat constructor; try apply Hl; try (apply numeric_clean, Hd). eexists. apply (cvp_numeric _ Hd). }
  destruct (dv_groups M m p g HM Hm Hp Hgs) as (tl & H). exists tl. rewrite <- H.
  destruct Hg as [->|(d & -> & _)]; reflexivity.
Qed.

(* the default version string is accepted by the converter and starts with the three numeric fields *)
Lemma default_version_accepted M m p extra :
  numeric M -> numeric m -> numeric p ->
  exists tl, (let* s := default_version M m p extra in from_obj s) = Ok (three M m p ++ tl).
Proof.
  intros HM Hm Hp. unfold default_version, default_version_base. cbv beta iota.
  destruct fallback_accepted as (l & F1 & Hl & _). destruct separators as (S1 & S2 & _). rewrite F1, S1, S2.
  destruct (dv_plain M m p HM Hm Hp) as (t0 & H0). destruct (dv_label M m p l HM Hm Hp Hl) as (t1 & H1).
  destruct extra as [e|]; [destruct (match_extraversion extraversion_labels e) as [g|] eqn:E; [|destruct (blen e >? 0)]|]; cbn [bind].
  - destruct (dv_match M m p e g HM Hm Hp E) as (t2 & H2). exists t2. rewrite <- H2. f_equal. norm_app. reflexivity.
  - exists t1. rewrite <- H1. f_equal. norm_app. reflexivity.
  - exists t0. rewrite <- H0. f_equal. norm_app. reflexivity.
  - exists t0. rewrite <- H0. f_equal. norm_app. reflexivity.
Qed.

Lemma scfw_default_version_accepted M m p extra :
  numeric M -> numeric m -> numeric p ->
  exists tl, (let* s := scfw_default_version M m p extra in from_obj s) = Ok (three M m p ++ tl).
Proof.
  intros HM Hm Hp. unfold scfw_default_version, scfw_default_version_base. cbv beta iota.
  destruct fallback_accepted as (l & _ & Hl & F1). destruct separators as (_ & _ & S1 & S2). rewrite F1, S1, S2.
  destruct (dv_plain M m p HM Hm Hp) as (t0 & H0). destruct (dv_label M m p l HM Hm Hp Hl) as (t1 & H1).
  destruct extra as [e|]; [destruct (match_extraversion extraversion_labels e) as [g|] eqn:E; [|destruct (blen e >? 0)]|]; cbn [bind].
  - destruct (dv_match M m p e g HM Hm Hp E) as (t2 & H2). exists t2. rewrite <- H2. f_equal. norm_app. reflexivity.
  - exists t1. rewrite <- H1. f_equal. norm_app. reflexivity.
  - exists t0. rewrite <- H0. f_equal. norm_app. reflexivity.
  - exists t0. rewrite <- H0. f_equal. norm_app. reflexivity.
Qed.
