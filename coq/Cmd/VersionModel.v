(* Cmd/VersionModel.v — hand-written part of the C20 model: a matcher for the EXTRAVERSION regular expression of
   ncs/build.py,   ^(L1|L2|...)[\.]{0,1}([0-9]+){0,1}$   used with re.match(...).groups().
   The label alternatives L1.. are extracted from the regex text by translator/unit_version.py (which fails closed
   when the rest of the regex is not literally this shape); this file is tied to Python's `re` by the correspondence
   stream "extra" of vlib/c20.py (every case runs through re.match inside append_default_version_values). *)
From Verif Require Import Base.Prim.

Fixpoint span_digits (s : pystr) : pystr * pystr :=
  match s with
  | [] => ([], [])
  | c :: r => if is_digit c then let '(d, t) := span_digits r in (c :: d, t) else ([], s)
  end.

(* what follows the label: an optional '.', an optional run of digits (greedy), then the end of the string or
   one final "\n" ('$' without re.MULTILINE).  Result: the groups after the first that are not None. *)
Definition rest_groups (r : pystr) : option (list pystr) :=
  let r1 := match r with [] => [] | c :: r' => if c =? 46 then r' else r end in
  let '(d, r2) := span_digits r1 in
  if list_eqb r2 [] || list_eqb r2 [10] then Some (match d with [] => [] | _ => [d] end) else None.

(* alternation: the leftmost alternative for which the whole pattern matches *)
Fixpoint match_extraversion (labels : list pystr) (s : pystr) : option (list pystr) :=
  match labels with
  | [] => None
  | l :: ls =>
      if is_prefix l s then
        match rest_groups (skipn (length l) s) with
        | Some g => Some (l :: g)
        | None => match_extraversion ls s
        end
      else match_extraversion ls s
  end.

(* SuitList(SuitInt).from_obj(list of int).to_obj(): the integers themselves *)
Definition suitlist_from_obj (l : list Z) : list Z := l.
