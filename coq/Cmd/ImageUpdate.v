(* Cmd/ImageUpdate.v — lemmas about the `image update` model.  The model (gen/GenImageUpdate.v) is regenerated from
   suit_generator/cmd_image.py on every run; proofs never mention generated names. *)
From Verif Require Import Base.Prim Base.PrimFacts Base.Mem Base.MemFacts gen.GenImageUpdate.

#[local] Arguments Z.add : simpl never.
#[local] Arguments Z.sub : simpl never.
#[local] Arguments Z.mul : simpl never.

(* ---------------------------------------------------------------- specification side (written by hand) *)
(* the update-candidate record: magic, number of regions, envelope address, envelope size, n zeroed (address, size) pairs;
   all little-endian 32-bit *)
Definition uci_bytes (magic regions addr size : Z) (n : nat) : bytes :=
  le 4 magic ++ le 4 regions ++ le 4 addr ++ le 4 size ++ repeat 0 (8 * n).
Definition u32 (x : Z) : Prop := 0 <= x < 4294967296.

Lemma go_I little f v vs :
  struct_pack_go little (73 :: f) (v :: vs) =
    if (0 <=? v) && (v <? 4294967296)
    then match struct_pack_go little f vs with Ok r => Ok ((if little then le 4 v else be 4 v) ++ r) | Raise e => Raise e end
    else Raise StructError.
Proof.
  cbn [struct_pack_go]. change (fmt_width 73) with (Some 4%nat). cbv iota. change (256 ^ Z.of_nat 4) with 4294967296.
  unfold bind. reflexivity.
Qed.

Lemma go_zero_pairs k : struct_pack_go true (concat_rep k [73; 73]) (concat_rep k [0; 0]) = Ok (repeat 0 (8 * k)).
Proof.
  induction k as [|k IH]; [reflexivity|]. cbn [concat_rep app]. rewrite !go_I. cbn [Z.leb Z.ltb Z.compare andb].
  rewrite IH. replace (8 * S k)%nat with (8 + 8 * k)%nat by lia. reflexivity.
Qed.

Ltac pack_step :=
  rewrite go_I;
  match goal with |- context [if ?c then _ else _] => replace c with true by (first [reflexivity | unfold u32 in *; lia]) end.

Theorem uci_record addr size n :
  u32 addr -> u32 size ->
  prepare_uci addr size n = Ok (uci_bytes 1437226410 1 addr size (Z.to_nat n)).      (* 0x55AA55AA *)
Proof.
  intros Ha Hs. unfold prepare_uci, prepare_struct_format, update_magic_value_available, uci_bytes. cbv beta iota zeta.
  unfold struct_pack, mul_list. cbn [app].
  do 4 pack_step. rewrite go_zero_pairs. reflexivity.
Qed.

(* a value that does not fit 32 bits (or is negative) is an error *)
Theorem uci_overflow addr size n : ~ u32 addr \/ ~ u32 size -> prepare_uci addr size n = Raise StructError.
Proof.
  intros H. unfold prepare_uci, prepare_struct_format, update_magic_value_available. cbv beta iota zeta.
  unfold struct_pack, mul_list. cbn [app]. do 2 pack_step. rewrite !go_I.
  destruct ((0 <=? addr) && (addr <? 4294967296)) eqn:Ea.
  - replace ((0 <=? size) && (size <? 4294967296)) with false by (unfold u32 in H; lia). reflexivity.
  - reflexivity.
Qed.

(* the fields decode back *)
Theorem uci_fields magic regions addr size n :
  u32 magic -> u32 regions -> u32 addr -> u32 size ->
  let r := uci_bytes magic regions addr size n in
  blen r = 16 + 8 * Z.of_nat n /\
  unle (slice r 0 4) = magic /\ unle (slice r 4 8) = regions /\ unle (slice r 8 12) = addr /\ unle (slice r 12 16) = size /\
  slice_from r 16 = repeat 0 (8 * n).
Proof.
  intros Hm Hr Ha Hs r. unfold u32 in *.
  assert (W : 256 ^ Z.of_nat 4 = 4294967296) by reflexivity.
  split; [unfold r, uci_bytes; autorewrite with blen; lia|].
  split; [|split; [|split; [|split]]].
  - change (slice r 0 4) with (slice ([] ++ le 4 magic ++ (le 4 regions ++ le 4 addr ++ le 4 size ++ repeat 0 (8 * n))) (blen (@nil Z)) (blen (@nil Z) + blen (le 4 magic))).
    rewrite slice_app_mid. apply unle_le. lia.
  - replace (slice r 4 8) with (slice (le 4 magic ++ le 4 regions ++ (le 4 addr ++ le 4 size ++ repeat 0 (8 * n))) (blen (le 4 magic)) (blen (le 4 magic) + blen (le 4 regions))) by (rewrite !le_len; reflexivity).
    rewrite slice_app_mid. apply unle_le. lia.
  - replace (slice r 8 12) with (slice ((le 4 magic ++ le 4 regions) ++ le 4 addr ++ (le 4 size ++ repeat 0 (8 * n))) (blen (le 4 magic ++ le 4 regions)) (blen (le 4 magic ++ le 4 regions) + blen (le 4 addr))).
    + rewrite slice_app_mid. apply unle_le. lia.
    + rewrite blen_app, !le_len. unfold r, uci_bytes. rewrite <- !app_assoc. reflexivity.
  - replace (slice r 12 16) with (slice ((le 4 magic ++ le 4 regions ++ le 4 addr) ++ le 4 size ++ repeat 0 (8 * n)) (blen (le 4 magic ++ le 4 regions ++ le 4 addr)) (blen (le 4 magic ++ le 4 regions ++ le 4 addr) + blen (le 4 size))).
    + rewrite slice_app_mid. apply unle_le. lia.
    + rewrite !blen_app, !le_len. unfold r, uci_bytes. rewrite <- !app_assoc. reflexivity.
  - unfold slice_from, r, uci_bytes. change (Z.to_nat 16) with (length (le 4 magic) + (length (le 4 regions) + (length (le 4 addr) + length (le 4 size))))%nat.
    rewrite !app_assoc. rewrite <- !app_length. rewrite skipn_app, skipn_all, Nat.sub_diag. reflexivity.
Qed.

(* ---------------------------------------------------------------- the two images *)
Theorem images file uci_addr part_addr n :
  u32 part_addr -> u32 (blen file) ->
  create_files_for_update (Some file) uci_addr part_addr n
    = Ok (frombytes mem_empty (uci_bytes 1437226410 1 part_addr (blen file) (Z.to_nat n)) uci_addr,
          frombytes mem_empty file part_addr).
Proof.
  intros Hp Hf. unfold create_files_for_update, create_storage_image, storage_args, create_partition_image.
  rewrite (uci_record part_addr (blen file) n Hp Hf). reflexivity.
Qed.

(* read address by address: the storage image holds only the record, the partition image exactly the file *)
Theorem images_read file uci_addr part_addr n st pt :
  u32 part_addr -> u32 (blen file) ->
  create_files_for_update (Some file) uci_addr part_addr n = Ok (st, pt) ->
  let r := uci_bytes 1437226410 1 part_addr (blen file) (Z.to_nat n) in
  (forall a, get st a = if (uci_addr <=? a) && (a <? uci_addr + blen r) then nth_error r (Z.to_nat (a - uci_addr)) else None) /\
  (forall a, get pt a = if (part_addr <=? a) && (a <? part_addr + blen file) then nth_error file (Z.to_nat (a - part_addr)) else None).
Proof.
  intros Hp Hf H r. rewrite (images file uci_addr part_addr n Hp Hf) in H.
  assert (E1 : st = frombytes mem_empty r uci_addr) by (unfold r; congruence).
  assert (E2 : pt = frombytes mem_empty file part_addr) by congruence.
  rewrite E1, E2. split; intros a; apply get_frombytes.
Qed.

Theorem missing_file_rejected uci_addr part_addr n : create_files_for_update None uci_addr part_addr n = Raise GeneratorError.
Proof. reflexivity. Qed.

Theorem overflow_rejected file uci_addr part_addr n :
  ~ u32 part_addr \/ ~ u32 (blen file) -> create_files_for_update (Some file) uci_addr part_addr n = Raise StructError.
Proof.
  intros H. unfold create_files_for_update, create_storage_image, storage_args.
  rewrite (uci_overflow part_addr (blen file) n H). reflexivity.
Qed.
