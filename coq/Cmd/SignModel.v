(* Cmd/SignModel.v — definitions only (no proofs): the specification side of C04 / C09, written by hand from RFC 9052 (COSE_Sign1,
   Sig_structure), RFC 9053 (ECDSA / EdDSA algorithm identifiers and hash functions), the SUIT manifest draft (authentication wrapper =
   bstr .cbor [ bstr digest, * bstr COSE_Sign1_Tagged ]) and the documented behaviour of `suit-generator sign`; toy instances of the
   abstract primitives for the non-vacuity examples. *)
Require Import Coq.Strings.String.
From Verif Require Import Base.Prim Base.Str Cbor.Codec Suit.Py Cmd.SignPrim gen.GenSign.

(* ------------------------------------------------------------------------------------------------------------------
   C04: COSE
   ------------------------------------------------------------------------------------------------------------------ *)
Definition a_es256 : bytes := s2b "es-256".
Definition a_es384 : bytes := s2b "es-384".
Definition a_es521 : bytes := s2b "es-521".
Definition a_eddsa : bytes := s2b "eddsa".
Definition a_hash_eddsa : bytes := s2b "hash-eddsa".
Definition five_algs : list bytes := [a_es256; a_es384; a_es521; a_eddsa; a_hash_eddsa].

(* RFC 9053 2.1: ES256 = -7, ES384 = -35, ES512 = -36 (with P-521); 2.2: EdDSA = -8; -65537: Nordic's private-use HashEdDSA *)
Definition spec_cose_alg (alg : bytes) : option Z :=
  if list_eqb alg a_es256 then Some (-7) else if list_eqb alg a_es384 then Some (-35) else if list_eqb alg a_es521 then Some (-36)
  else if list_eqb alg a_eddsa then Some (-8) else if list_eqb alg a_hash_eddsa then Some (-65537) else None.
(* the name under which the hand-written registry /verif/spec/registry.json lists the algorithm *)
Definition registry_name (alg : bytes) : bytes :=
  s2b "cose-alg-" ++ (if list_eqb alg a_hash_eddsa then s2b "vs-hash-eddsa" else alg).
(* RFC 9053 2.1: the hash function of each ECDSA algorithm, by the size of the curve *)
Definition spec_es_hash : list (Z * bytes) := [(256, s2b "SHA256"); (384, s2b "SHA384"); (521, s2b "SHA512")].

(* RFC 9052 4.4: Sig_structure = [ context : "Signature1", body_protected : bstr, external_aad : bstr, payload : bstr ] *)
Definition sig_structure (protected payload : bytes) : cbor := CArray [CText (s2b "Signature1"); CBytes protected; CBytes []; CBytes payload].
(* RFC 9052 3.1 header parameters: 1 = alg, 4 = kid; the key identifier is carried as bstr .cbor uint, as the SUIT processor of NCS expects *)
Definition spec_protected (alg_id kid : Z) : cbor := CMap [(CUint 1, cint alg_id); (CUint 4, CBytes (encode (CUint kid)))].
(* RFC 9052 4.2: COSE_Sign1_Tagged = #6.18([protected : bstr, unprotected : {}, payload : nil (detached), signature : bstr]) *)
Definition cose_sign1 (protected signature : bytes) : cbor := CTag 18 (CArray [CBytes protected; CMap []; CSimple 22; CBytes signature]).

(* every element of the authentication wrapper is a byte string (sizes below 2^64: what a CBOR head can carry) *)
Definition bstr_list (l : list cbor) : Prop := Forall (fun x => match x with CBytes b => blen b < 2 ^ 64 | _ => False end) l.

Definition all_bstr (l : list cbor) : Prop := Forall (fun x => match x with CBytes _ => True | _ => False end) l.

(* env' is env with the VALUE under its authentication-wrapper key replaced (w -> w'): same tag, same keys in the same order,
   every other entry identical *)
Definition same_but_wrapper (env env' : cbor) (w w' : bytes) : Prop :=
  exists t pre k2 post,
    env = CTag t (CMap (pre ++ (k2, CBytes w) :: post)) /\ env' = CTag t (CMap (pre ++ (k2, CBytes w') :: post))
    /\ py_eqb (CUint 2) k2 = true /\ Forall (fun kv => py_eqb (CUint 2) (fst kv) = false) pre.

(* which key classes an algorithm accepts: ES<n> needs an EC key of exactly that size, (Hash)EdDSA an Edwards key *)
Definition spec_key_matches (k : keykind) (alg : bytes) : bool :=
  match k with
  | KEc ks => (list_eqb alg a_es256 && (ks =? 256)) || (list_eqb alg a_es384 && (ks =? 384)) || (list_eqb alg a_es521 && (ks =? 521))
  | KEd25519 | KEd448 => list_eqb alg a_eddsa || list_eqb alg a_hash_eddsa
  | KOther => false
  end.

(* a COSE verifier for the raw signature encodings of RFC 9053: ECDSA = r || s, each on ceil(key size / 8) bytes *)
Section Verifier.
  Variable ecdsa_verify : bytes -> bytes -> bytes -> Z * Z -> bool.        (* public key, hash, message, (r, s) *)
  Variable eddsa_verify eddsa_ph_verify : bytes -> bytes -> bytes -> bool.   (* public key, message, signature *)
  Definition cose_verify (kind : keykind) (pk alg msg sig : bytes) : bool :=
    match kind with
    | KEc ks =>
        let w := ceil_div ks 8 in
        (blen sig =? 2 * w)
        && match z_lookup ks spec_es_hash with
           | Some h => ecdsa_verify pk h msg (unbe (firstn (Z.to_nat w) sig) 0, unbe (skipn (Z.to_nat w) sig) 0)
           | None => false
           end
    | KEd25519 | KEd448 => if list_eqb alg a_hash_eddsa then eddsa_ph_verify pk msg sig else eddsa_verify pk msg sig
    | KOther => false
    end.
End Verifier.

(* an item in the Python-object normal form whose re-encoding is the item itself: what cbor2.dumps(cbor2.loads(x)) == x needs
   (definite lengths, no bignum tags, map keys pairwise different) *)
Fixpoint pynormal (c : cbor) : Prop :=
  match c with
  | CUint n | CNint n => 0 <= n < 2 ^ 64
  | CBytes _ | CText _ => True
  | CArray l => (fix all (l : list cbor) := match l with [] => True | x :: r => pynormal x /\ all r end) l
  | CMap l => (fix all (l : list (cbor * cbor)) := match l with [] => True | (k, v) :: r => pynormal k /\ pynormal v /\ all r end) l
              /\ dict_of_pairs l = l
  | CMapI _ => False
  | CTag t x => (t =? 2) = false /\ (t =? 3) = false /\ pynormal x
  | CSimple v => True
  end.

(* ------------------------------------------------------------------------------------------------------------------
   C09: the configuration tree
   ------------------------------------------------------------------------------------------------------------------ *)
Definition cfg_omit (c : cfg) : bool := match c with Cfg (Some b) _ _ _ _ _ _ _ _ _ => b | _ => false end.
Definition cfg_key_name (c : cfg) := match c with Cfg _ kn _ _ _ _ _ _ _ _ => kn end.
Definition cfg_key_id (c : cfg) := match c with Cfg _ _ kid _ _ _ _ _ _ _ => kid end.
Definition cfg_sign (c : cfg) := match c with Cfg _ _ _ s _ _ _ _ _ _ => s end.
Definition cfg_kms (c : cfg) := match c with Cfg _ _ _ _ k _ _ _ _ _ => k end.
Definition cfg_alg (c : cfg) := match c with Cfg _ _ _ _ _ a _ _ _ _ => a end.
Definition cfg_ctx (c : cfg) := match c with Cfg _ _ _ _ _ _ x _ _ _ => x end.
Definition cfg_action (c : cfg) := match c with Cfg _ _ _ _ _ _ _ a _ _ => a end.
Definition cfg_deps (c : cfg) : list (pystr * cfg) := match c with Cfg _ _ _ _ _ _ _ _ _ (Some l) => l | _ => [] end.
Definition with_keys (c : cfg) (kn : option pystr) (kid : option Z) : cfg :=
  match c with Cfg o _ _ s k a x act b d => Cfg o kn kid s k a x act b d end.

(* the value an attribute has at the end of a path root .. node: set by the nearest ancestor-or-self that sets it, else the default *)
Definition inherit {A} (path : list (option A)) (d : A) : A :=
  fold_left (fun cur o => match o with Some v => v | None => cur end) path d.
Definition inherit_opt {A} (path : list (option A)) : option A :=
  fold_left (fun cur o => match o with Some v => Some v | None => cur end) path None.
(* scripts: nearest ancestor-or-self, else the environment (NCS_SUIT_*_SCRIPT, then ZEPHYR_BASE + the in-tree path) *)
Definition env_script (envvar : pystr -> option pystr) (var suffix : pystr) : option pystr :=
  match env_truthy envvar var with
  | Some s => Some s
  | None => match env_truthy envvar (s2b "ZEPHYR_BASE") with Some z => Some (z ++ suffix) | None => None end
  end.
Definition sign_suffix : pystr := s2b "/../modules/lib/suit-generator/ncs/sign_script.py".
Definition kms_suffix : pystr := s2b "/../modules/lib/suit-generator/ncs/basic_kms.py".
Definition spec_script (envvar : pystr -> option pystr) (path : list (option pystr)) (var suffix : pystr) : option pystr :=
  fold_left (fun cur o => match o with Some v => Some v | None => cur end) path (env_script envvar var suffix).
Definition or_empty (o : option pystr) : pystr := match o with Some s => s | None => [] end.

(* the call of sign_envelope that the node at the end of `path` (root first) must receive: ITS OWN key name and key id and
   already-signed action; script, KMS, algorithm and context from the nearest ancestor-or-self that sets them *)
Definition spec_call (envvar : pystr -> option pystr) (path : list cfg) (c : cfg) (name : pystr) : rfields :=
  let p := path ++ [c] in
  {| r_name := name; r_omit := false; r_key_name := cfg_key_name c; r_key_id := cfg_key_id c;
     r_sign_script := or_empty (spec_script envvar (map cfg_sign p) (s2b "NCS_SUIT_SIGN_SCRIPT") sign_suffix);
     r_kms_script := or_empty (spec_script envvar (map cfg_kms p) (s2b "NCS_SUIT_KMS_SCRIPT") kms_suffix);
     r_alg := inherit (map cfg_alg p) (s2b "eddsa");
     r_ctx := inherit_opt (map cfg_ctx p);
     r_action := match cfg_action c with Some a => a | None => s2b "error" end |}.

(* the calls of sign_envelope for a whole configuration, in order: dependencies first (in configuration order), then the node itself
   unless it is marked omit-signing *)
Fixpoint spec_calls (envvar : pystr -> option pystr) (path : list cfg) (c : cfg) (name : pystr) {struct c} : list rfields :=
  match c with
  | Cfg _ _ _ _ _ _ _ _ _ deps =>
    (match deps with
     | None => []
     | Some l => (fix go (l : list (pystr * cfg)) : list rfields :=
                    match l with [] => [] | (dn, dc) :: r => spec_calls envvar (path ++ [c]) dc dn ++ go r end) l
     end)
    ++ (if cfg_omit c then [] else [spec_call envvar path c name])
  end.

(* the calls a tree of signers makes *)
Fixpoint calls_of (n : rnode) : list rfields :=
  match n with
  | RNode f _ ds => (fix go (ds : list rnode) := match ds with [] => [] | d :: r => calls_of d ++ go r end) ds ++ (if r_omit f then [] else [f])
  end.

Definition dep_names (n : rnode) : list pystr := map (fun d => r_name (rn_fields d)) (rn_deps n).

(* P holds for the node and the envelope it produced, and — at every level below — for every dependency signer and the envelope
   that was re-embedded (serialised) under that dependency's name *)
Inductive every_level (P : rnode -> cbor -> Prop) : rnode -> cbor -> Prop :=
| EL n env' :
    P n env' ->
    (forall d, In d (rn_deps n) ->
       exists denv', env_get env' (CText (r_name (rn_fields d))) = Ok (CBytes (ser denv')) /\ every_level P d denv') ->
    every_level P n env'.

(* one level: same tag, the same keys in the same order, and every entry other than the authentication wrapper (key 2) and the
   dependencies named in the configuration identical (or nothing changed at all) *)
Definition frame_level (n : rnode) (env' : cbor) : Prop :=
  env' = rn_env n \/
  exists t kvs kvs',
    rn_env n = CTag t (CMap kvs) /\ env' = CTag t (CMap kvs') /\ map fst kvs' = map fst kvs
    /\ forall k, py_eqb k (CUint 2) = false -> (forall dn, In dn (dep_names n) -> py_eqb k (CText dn) = false) -> dict_get kvs' k = dict_get kvs k.
Definition manifest_level (n : rnode) (env' : cbor) : Prop := env_get env' (CUint 3) = env_get (rn_env n) (CUint 3).

(* what a sign script may do to one envelope (NCS sign_envelope does exactly this): only the entry under key 2 changes *)
Definition only_wrapper (env env' : cbor) : Prop :=
  exists t kvs kvs',
    env = CTag t (CMap kvs) /\ env' = CTag t (CMap kvs') /\ map fst kvs' = map fst kvs
    /\ forall k, py_eqb k (CUint 2) = false -> dict_get kvs' k = dict_get kvs k.

(* the tree of signers is consistent with the envelopes it holds: every dependency signer holds the envelope found under its name
   in the parent, names are pairwise different (keys of a JSON object) *)
Inductive rnode_ok : rnode -> Prop :=
| ROk f env ds :
    NoDup (map (fun d => r_name (rn_fields d)) ds) ->
    (forall d, In d ds -> load_dependency env (r_name (rn_fields d)) = Ok (rn_env d) /\ rnode_ok d) ->
    rnode_ok (RNode f env ds).

(* a named dependency, somewhere in the configuration, that the envelope does not contain as a tagged envelope *)
Inductive bad_dependency : cfg -> cbor -> Prop :=
| BadHere c env dn dc e : In (dn, dc) (cfg_deps c) -> load_dependency env dn = Raise e -> bad_dependency c env
| BadBelow c env dn dc denv : In (dn, dc) (cfg_deps c) -> load_dependency env dn = Ok denv -> bad_dependency dc denv -> bad_dependency c env.

(* ------------------------------------------------------------------------------------------------------------------
   toy instances (non-vacuity examples)
   ------------------------------------------------------------------------------------------------------------------ *)
Definition toy_keystore (c : option bytes) (n : bytes) : option (keykind * bytes) :=
  if list_eqb n (s2b "ec") then Some (KEc 256, [1]) else if list_eqb n (s2b "ed") then Some (KEd25519, [2]) else None.
Definition toy_ecdsa (k h m : bytes) (n : nat) : Z * Z := (blen m + 2 ^ 200, 5).
Definition toy_ecdsa_verify (pk h m : bytes) (rs : Z * Z) : bool := (fst rs =? blen m + 2 ^ 200) && (snd rs =? 5).
Definition toy_ed (k m : bytes) : bytes := k ++ m.
Definition toy_ed_verify (pk m s : bytes) : bool := list_eqb s (pk ++ m).
(* an unsigned envelope: #6.107({2: bstr [bstr [-16, h'aabb']], 3: bstr {1: 1}, "#dep": bstr <child envelope>}) *)
Definition toy_digest : bytes := encode (CArray [CNint 15; CBytes [170; 187]]).
Definition toy_child : cbor := CTag 107 (CMap [(CUint 2, CBytes (encode (CArray [CBytes toy_digest]))); (CUint 3, CBytes [161; 1; 2])]).
Definition toy_env : cbor :=
  CTag 107 (CMap [(CUint 2, CBytes (encode (CArray [CBytes toy_digest]))); (CUint 3, CBytes [161; 1; 1]); (CText (s2b "#dep"), CBytes (encode toy_child))]).
Definition toy_cfg : cfg :=
  Cfg None (Some (s2b "ec")) (Some 7) (Some (s2b "sign.py")) (Some (s2b "kms.py")) (Some a_es256) None None false
      (Some [(s2b "#dep", Cfg None (Some (s2b "ed")) (Some 256) None None (Some a_eddsa) None None false None)]).
Definition toy_no_env (k : bytes) : option bytes := None.
