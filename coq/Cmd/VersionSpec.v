(* Cmd/VersionSpec.v — specification side of C20: structured versions, the printer, semantic-version precedence,
   the zero-padded comparison of integer lists, the F9 family.  Definitions only (no proofs, independent of the
   generated model), so that Run/RunVersion.v can evaluate them even when a proof of Cmd/Version.v breaks. *)
From Verif Require Import Base.Prim.

(* ================================================================== specification side *)
Inductive label := Alpha | Beta | Rc.
Definition label_name (l : label) : pystr :=
  match l with Alpha => [97; 108; 112; 104; 97] | Beta => [98; 101; 116; 97] | Rc => [114; 99] end.
(* alpha < beta < rc < release *)
Definition label_rank (l : label) : Z := match l with Alpha => 0 | Beta => 1 | Rc => 2 end.
Definition release_rank : Z := 3.

(* N(.N)*[-(alpha|beta|rc)[.N]] : every N is an arbitrary non-empty string of ASCII digits (leading zeros allowed,
   unbounded value) *)
Record version := { nums : list pystr; pre : option (label * option pystr) }.

Definition numeric (s : pystr) : Prop := isnumeric s = true.
Definition wf (v : version) : Prop :=
  nums v <> [] /\ Forall numeric (nums v) /\ match pre v with Some (_, Some n) => numeric n | _ => True end.

Definition pre_parts (v : version) : list pystr :=
  match pre v with None => [] | Some (l, None) => [label_name l] | Some (l, Some n) => [label_name l; n] end.
(* the printer: fields joined by '.', then '-' label ['.' number] *)
Definition print (v : version) : pystr :=
  join [46] (nums v) ++ match pre_parts v with [] => [] | _ :: _ => 45 :: join [46] (pre_parts v) end.

Definition vals (v : version) : list Z := map int_of_digits (nums v).
Definition rank (v : version) : Z := match pre v with None => release_rank | Some (l, _) => label_rank l end.
Definition prenum (v : version) : Z := match pre v with Some (_, Some n) => int_of_digits n | _ => 0 end.

(* zero-padded element-wise comparison of integer lists (what the device does with the SUIT version lists) *)
Fixpoint zeros_vs (b : list Z) : comparison :=
  match b with [] => Eq | y :: b' => match 0 ?= y with Eq => zeros_vs b' | c => c end end.
Fixpoint list_cmp (a b : list Z) : comparison :=
  match a with
  | [] => zeros_vs b
  | x :: a' => match b with
               | [] => match x ?= 0 with Eq => list_cmp a' [] | c => c end
               | y :: b' => match x ?= y with Eq => list_cmp a' b' | c => c end
               end
  end.

(* semantic-version precedence: numeric per field (zero-padded), then alpha < beta < rc < release, then the
   pre-release number (absent = 0) *)
Definition semver_cmp (v w : version) : comparison :=
  match list_cmp (vals v) (vals w) with
  | Eq => match rank v ?= rank w with Eq => prenum v ?= prenum w | c => c end
  | c => c
  end.

(* the integer list a version stands for, given the integers lv that stand for the three labels *)
Definition tail (lv : label -> Z) (v : version) : list Z :=
  match pre v with
  | None => []
  | Some (l, None) => [lv l]
  | Some (l, Some n) => [lv l; int_of_digits n]
  end.
Definition ints (lv : label -> Z) (v : version) : list Z := vals v ++ tail lv v.

(* the known finding F9: different numeric arity, the version with fewer numeric fields is a pre-release, and the
   numeric parts are equal after zero-padding *)
Definition is_pre (v : version) : bool := match pre v with None => false | Some _ => true end.
Definition shorter_is_pre (v w : version) : bool :=
  if (length (nums v) <? length (nums w))%nat then is_pre v
  else if (length (nums w) <? length (nums v))%nat then is_pre w else false.
Definition is_Eq (c : comparison) : bool := match c with Eq => true | _ => false end.
Definition f9_family (v w : version) : bool := shorter_is_pre v w && is_Eq (list_cmp (vals v) (vals w)).

(* lexicographic order on (major, minor, patch, tweak) *)
Definition lex_lt (a b c d a' b' c' d' : Z) : Prop :=
  a < a' \/ (a = a' /\ (b < b' \/ (b = b' /\ (c < c' \/ (c = c' /\ d < d'))))).

