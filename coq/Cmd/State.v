(* Cmd/State.v — a call whose every attribute read is preceded by a write in the same call does not depend on the state
   the object was left in by earlier calls. *)
From Verif Require Import Base.Prim Base.PrimFacts Cmd.StateModel.

Section NI.
  Variable V : Type.
  Variable compute : nat -> list V -> V.

  Lemma mem_true a l : mem a l = true -> In a l.
  Proof. unfold mem. intros H. apply existsb_exists in H. destruct H as (x & Hx & He). apply list_eqb_eq in He. subst. exact Hx. Qed.

  Theorem run_independent p : forall written pos s s' log,
    definite p written = true -> (forall a, In a written -> s a = s' a) ->
    run V compute p pos s log = run V compute p pos s' log.
  Proof.
    induction p as [|[a|a] r IH]; intros written pos s s' log Hd Hag; [reflexivity| |].
    - cbn [definite] in Hd. apply andb_prop in Hd. destruct Hd as [Hm Hd]. cbn [run].
      rewrite (Hag a (mem_true a written Hm)). eapply IH; eassumption.
    - cbn [definite] in Hd. cbn [run]. apply (IH (a :: written)); [exact Hd|].
      intros x [<-|Hx]; unfold upd; [rewrite list_eqb_refl; reflexivity|].
      destruct (list_eqb x a); [reflexivity|apply Hag; exact Hx].
  Qed.

  (* with nothing assumed about the initial state at all *)
  Corollary call_state_independent p s s' : definite p [] = true -> run V compute p O s [] = run V compute p O s' [].
  Proof. intros Hd. apply (run_independent p [] O s s' [] Hd). intros a []. Qed.
End NI.
