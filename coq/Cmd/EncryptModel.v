(* Cmd/EncryptModel.v — definitions only (no proofs; the executable model imports this file, so a broken proof never stops
   the model from running).  (1) The specification side of C06 / C14, written by hand from RFC 9052 / 9053 / 9054 and the
   command's documented output files; (2) histories: the composition of the regenerated invocation (gen/GenEncrypt.v)
   over a list of calls, threading the entropy state. *)
From Verif Require Import Base.Prim Cbor.Codec gen.GenEncrypt.

(* ------------------------------------------------------------------------------------------------------------------
   Specification side
   ------------------------------------------------------------------------------------------------------------------ *)
(* RFC 9052 5.3: Enc_structure = [ context : "Encrypt", protected : empty_or_serialized_map, external_aad : bstr ] *)
Definition t_Encrypt : bytes := [69; 110; 99; 114; 121; 112; 116].
Definition enc_structure (protected external_aad : bytes) : cbor := CArray [CText t_Encrypt; CBytes protected; CBytes external_aad].
(* RFC 9053 4.1: A256GCM = 3; header parameter 1 = alg, 4 = kid, 5 = IV; RFC 9053 6.1: direct = -6; 6.2: A256KW = -5 *)
Definition spec_protected : cbor := CMap [(CUint 1, CUint 3)].
Definition cek_item (cek : option bytes) : cbor := match cek with None => cnull | Some b => CBytes b end.
(* RFC 9052 5.1: COSE_Encrypt_Tagged = #6.96([protected, unprotected, ciphertext / nil, [+ [protected, unprotected, ciphertext]]]);
   the key identifier is carried as bstr .cbor uint, as suit-generator's manifests expect *)
Definition cose_encrypt (kw : Z) (iv : bytes) (kid : Z) (cek : option bytes) : cbor :=
  CTag 96 (CArray [CBytes (encode spec_protected); CMap [(CUint 5, CBytes iv)]; cnull;
                   CArray [CArray [CBytes []; CMap [(CUint 1, cint kw); (CUint 4, CBytes (encode (CUint kid)))]; cek_item cek]]]).
(* suit-parameter-encryption-info = bstr .cbor COSE_Encrypt_Tagged; the file holds that parameter value, itself encoded *)
Definition spec_info (kw : Z) (iv : bytes) (kid : Z) (cek : option bytes) : bytes := encode (CBytes (encode (cose_encrypt kw iv kid cek))).

Definition f_digest : bytes := [112; 108; 97; 105; 110; 95; 116; 101; 120; 116; 95; 100; 105; 103; 101; 115; 116; 46; 98; 105; 110].
Definition f_size : bytes := [112; 108; 97; 105; 110; 95; 116; 101; 120; 116; 95; 115; 105; 122; 101; 46; 116; 120; 116].
Definition f_info : bytes := [115; 117; 105; 116; 95; 101; 110; 99; 114; 121; 112; 116; 105; 111; 110; 95; 105; 110; 102; 111; 46; 98; 105; 110].
Definition f_content : bytes := [101; 110; 99; 114; 121; 112; 116; 101; 100; 95; 99; 111; 110; 116; 101; 110; 116; 46; 98; 105; 110].

(* the five digest algorithms of the property: name |-> (hash function, digest length in bytes); SHAKE lengths as
   fixed by the property's anchor (16 / 32) *)
Definition a_sha256 : bytes := [115; 104; 97; 45; 50; 53; 54].
Definition a_sha384 : bytes := [115; 104; 97; 45; 51; 56; 52].
Definition a_sha512 : bytes := [115; 104; 97; 45; 53; 49; 50].
Definition a_shake128 : bytes := [115; 104; 97; 107; 101; 49; 50; 56].
Definition a_shake256 : bytes := [115; 104; 97; 107; 101; 50; 53; 54].
Definition spec_hash_table : list (bytes * (bytes * Z)) :=
  [(a_sha256, ([83; 72; 65; 50; 53; 54], 32)); (a_sha384, ([83; 72; 65; 51; 56; 52], 48)); (a_sha512, ([83; 72; 65; 53; 49; 50], 64));
   (a_shake128, ([83; 72; 65; 75; 69; 49; 50; 56], 16)); (a_shake256, ([83; 72; 65; 75; 69; 50; 53; 54], 32))].
Definition kw_direct : bytes := [100; 105; 114; 101; 99; 116].
Definition kw_a256kw : bytes := [97; 101; 115; 45; 107; 119; 45; 50; 53; 54].
Definition spec_kw (kw_alg : bytes) : Z := if list_eqb kw_alg kw_a256kw then -5 else -6.

(* what a recipient reads out of the encryption-info file: the serialized protected header and the IV (header 5) *)
Definition published (info : bytes) : option (bytes * bytes) :=
  match loads_exact info with
  | Some (CBytes inner) =>
    match loads_exact inner with
    | Some (CTag 96 (CArray (CBytes prot :: CMap unprot :: _))) =>
        match map_lookup (CUint 5) unprot with Some (CBytes iv) => Some (prot, iv) | _ => None end
    | _ => None end
  | _ => None end.

Fixpoint file_of (name : bytes) (files : list (bytes * bytes)) : option bytes :=
  match files with [] => None | (n, c) :: r => if list_eqb name n then Some c else file_of name r end.
Definition iv_of (files : list (bytes * bytes)) : option bytes :=
  match file_of f_info files with Some info => option_map snd (published info) | None => None end.

(* ------------------------------------------------------------------------------------------------------------------
   Histories of encrypt-and-generate invocations (C14)
   ------------------------------------------------------------------------------------------------------------------ *)
Record call := { c_pt : bytes; c_key : bytes; c_kid : Z; c_ctx : option bytes; c_hash : bytes; c_kw : bytes }.

Section Histories.
  Variable aesgcm_encrypt : bytes -> bytes -> bytes -> bytes -> bytes.
  Variable urandom : nat -> Z -> bytes.
  Variable hash : bytes -> Z -> bytes -> bytes.
  Variable key_file : bytes -> bytes.

  (* what invocation number i must have done: published exactly draw i, and produced the written tag / ciphertext with it *)
  Definition call_ok (i : nat) (c : call) (files : list (bytes * bytes)) : Prop :=
    iv_of files = Some (urandom i 12)
    /\ exists tag ct, file_of f_content files = Some (tag ++ ct) /\ blen tag = 16
                      /\ ct ++ tag = aesgcm_encrypt (key_file (c_key c)) (urandom i 12) (c_pt c) aad_literal.


  Definition step (ent : nat) (c : call) := cli_encrypt_and_generate aesgcm_encrypt urandom hash key_file ent (c_pt c) (c_key c) (c_kid c) (c_ctx c) (c_hash c) (c_kw c).


  Fixpoint run_history (ent : nat) (cs : list call) : res (list (list (bytes * bytes)) * nat) :=
    match cs with
    | [] => Ok ([], ent)
    | c :: r =>
        match step ent c with Raise x => Raise x | Ok (f, ent1) =>
        match run_history ent1 r with Raise x => Raise x | Ok (fs, ent2) => Ok (f :: fs, ent2) end end
    end.

  Fixpoint hist_ok (ent : nat) (cs : list call) (outs : list (list (bytes * bytes))) : Prop :=
    match cs, outs with
    | [], [] => True
    | c :: cs', o :: outs' => call_ok ent c o /\ hist_ok (S ent) cs' outs'
    | _, _ => False
    end.

End Histories.

(* a toy instance of the abstract functions (non-vacuity examples) *)
Definition toy_enc (k n p a : bytes) : bytes := p ++ repeat 0 16.
Definition toy_dec (k n c a : bytes) : option bytes := Some (drop_last c 16).
Definition toy_rnd (n : nat) (k : Z) : bytes := repeat (Z.of_nat n) (Z.to_nat k).
Definition toy_hash (fam : bytes) (n : Z) (d : bytes) : bytes := repeat 7 (Z.to_nat n).
Definition toy_key (name : bytes) : bytes := repeat 1 32.

