Require Import Coq.Strings.String.
From Verif Require Import Base.Prim Cbor.Codec Run.Wire Cmd.ConvertSpec gen.GenConvert.

Definition as_optb (c : cbor) : option (option bytes) :=
  match c with
  | CArray [] => Some None
  | CArray [x] => match as_bytes x with Some v => Some (Some v) | None => None end
  | _ => None
  end.

Definition mk (aty anm lty lnm : bytes) (cols : Z) (hdr ftr : option bytes) (icount : Z) (ind : bytes) (nolen noconst : bool) : conv :=
  {| _array_type := aty; _array_name := anm; _length_type := lty; _length_name := lnm; _columns_count := cols;
     _no_length := nolen; _no_const := noconst; _indentation := ind; _indentation_count := icount;
     _header_contents := hdr; _footer_contents := ftr |}.

Definition run (name : bytes) (args : list cbor) : option cbor :=
  (* "cv_pubkey" key_size X Y : X, Y as big-endian byte strings of any length *)
  if is name "cv_pubkey" then
    match args with
    | [ks; x; y] =>
        match as_int ks, as_bytes x, as_bytes y with
        | Some ks, Some x, Some y => Some (reply c_bytes (public_key_data ks (unbe x 0) (unbe y 0)))
        | _, _, _ => None end
    | _ => None end
  (* "cv_file": KeyConverter(...).prepare_file_contents() with the key bytes given *)
  else if is name "cv_file" then
    match args with
    | [aty; anm; lty; lnm; cols; hdr; ftr; icount; itab; nolen; noconst; data] =>
        match as_bytes aty, as_bytes anm, as_bytes lty, as_bytes lnm, as_int cols, as_optb hdr, as_optb ftr with
        | Some aty, Some anm, Some lty, Some lnm, Some cols, Some hdr, Some ftr =>
            match as_int icount, as_bool itab, as_bool nolen, as_bool noconst, as_bytes data with
            | Some icount, Some itab, Some nolen, Some noconst, Some data =>
                Some (reply c_bytes (let* ind := make_indentation itab icount in
                                     let* self := validate (mk aty anm lty lnm cols hdr ftr icount ind nolen noconst) in
                                     prepare_file_contents self data))
            | _, _, _, _, _ => None end
        | _, _, _, _, _, _, _ => None end
    | _ => None end
  (* "cv_array" cols indentation_count indentation_tab data : _prepare_array alone *)
  else if is name "cv_array" then
    match args with
    | [cols; icount; itab; data] =>
        match as_int cols, as_int icount, as_bool itab, as_bytes data with
        | Some cols, Some icount, Some itab, Some data =>
            Some (reply c_bytes (let* ind := make_indentation itab icount in
                                 prepare_array (mk [] [] [] [] cols None None icount ind false false) data))
        | _, _, _, _ => None end
    | _ => None end
  (* "cv_parse" text : the specification's tokeniser (ValueError = unparsable) *)
  else if is name "cv_parse" then
    match args with
    | [t] => match as_bytes t with
             | Some t => Some (reply c_bytes (match parse_init t with Some l => Ok l | None => Raise ValueError end))
             | None => None end
    | _ => None end
  else None.
