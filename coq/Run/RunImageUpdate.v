Require Import Coq.Strings.String.
From Verif Require Import Base.Prim Cbor.Codec Run.Wire Base.Mem gen.GenImageUpdate.

Definition c_mem (m : mem) : cbor := c_list (fun s : seg => CArray [c_int (fst s); c_bytes (snd s)]) m.
Definition as_opt_bytes (c : cbor) : option (option bytes) :=
  match c with CSimple 22 => Some None | CBytes b => Some (Some b) | _ => None end.

Definition run (name : bytes) (args : list cbor) : option cbor :=
  (* "uci_record" dfu_partition_address candidate_size dfu_max_caches *)
  if is name "uci_record" then
    match args with
    | [a; s; n] =>
      match as_int a, as_int s, as_int n with
      | Some a, Some s, Some n => Some (reply c_bytes (prepare_uci a s n))
      | _, _, _ => None end
    | _ => None end
  (* "uci_format" dfu_max_caches *)
  else if is name "uci_format" then
    match args with
    | [n] => match as_int n with Some n => Some (reply c_bytes (prepare_struct_format n)) | None => None end
    | _ => None end
  (* "image_update" file|null update_candidate_info_address dfu_partition_address dfu_max_caches
     -> [storage image, partition image], an image being [[start, bytes]...] *)
  else if is name "image_update" then
    match args with
    | [f; u; p; n] =>
      match as_opt_bytes f, as_int u, as_int p, as_int n with
      | Some f, Some u, Some p, Some n =>
          Some (reply (fun sp : mem * mem => CArray [c_mem (fst sp); c_mem (snd sp)]) (create_files_for_update f u p n))
      | _, _, _, _ => None end
    | _ => None end
  else None.
