Require Import Coq.Strings.String.
From Verif Require Import Base.Prim Cbor.Codec Run.Wire gen.GenUuidSites.

(* To RUN the site terms the abstract uuid5 is instantiated by the free term algebra, encoded injectively as CBOR bytes:
   uuid5 a b = encode [5, a, b];  ns k = encode [k]  (0 DNS, 1 URL, 2 OID, 3 X500).  The harness decodes the term and
   evaluates it with Python's uuid.uuid5, so what is compared is the call STRUCTURE extracted from each site. *)
Definition sym_uuid5 (a b : bytes) : bytes := encode (CArray [CUint 5; CBytes a; CBytes b]).
Definition sym_ns (n : nsname) : bytes :=
  encode (CArray [CUint (match n with NS_DNS => 0 | NS_URL => 1 | NS_OID => 2 | NS_X500 => 3 end)]).

Definition c_kval (v : kval) : cbor := match v with KStr s => CBytes s | KOther => cnull end.
Definition c_entry (e : bytes * bytes * Z) : cbor := CArray [CBytes (fst (fst e)); CBytes (snd (fst e)); c_int (snd e)].
Definition c_optint (o : option Z) : cbor := match o with Some z => c_int z | None => cnull end.
Definition as_optbytes (c : cbor) : option (option bytes) :=
  match c with CSimple 22 => Some None | CBytes b => Some (Some b) | CText b => Some (Some b) | _ => None end.

Definition run (name : bytes) (args : list cbor) : option cbor :=
  (* "uuid_sites" vendor class -> the eight site terms *)
  if is name "uuid_sites" then
    match args with
    | [v; c] =>
      match as_bytes v, as_bytes c with
      | Some v, Some c =>
          Some (reply (c_list c_bytes)
            (Ok [manifest_cid sym_uuid5 sym_ns v c; manifest_vid sym_uuid5 sym_ns v; manifest_name_only sym_uuid5 sym_ns v;
                 mpi_vid sym_uuid5 sym_ns v c; mpi_cid sym_uuid5 sym_ns v c;
                 image_vid sym_uuid5 sym_ns v c; image_cid sym_uuid5 sym_ns v c; image_key sym_uuid5 sym_ns v c]))
      | _, _ => None end
    | _ => None end
  (* "bc_parse" text -> [[key, string value | null]...] *)
  else if is name "bc_parse" then
    match args with
    | [t] => match as_bytes t with
             | Some t => Some (reply (c_list (fun kv => CArray [CBytes (fst kv); c_kval (snd kv)])) (bc_parse t))
             | None => None end
    | _ => None end
  (* "kconfig" text -> [[vendor, class, role]...] *)
  else if is name "kconfig" then
    match args with
    | [t] => match as_bytes t with
             | Some t => Some (reply (c_list c_entry) (let* cfg := bc_parse t in kconfig_assignments cfg))
             | None => None end
    | _ => None end
  (* "kconfig_roles" soc text|null [[vendor, class]...] -> role | null of the envelope whose manifest class id is
     derived (as SuitUUID.from_obj does) from each queried pair *)
  else if is name "kconfig_roles" then
    match args with
    | [soc; t; qs] =>
      match as_int soc, as_optbytes t, as_list_of (as_pair as_bytes as_bytes) qs with
      | Some soc, Some t, Some qs =>
          Some (reply (c_list c_optint)
            (let* entries := match t with Some t => let* cfg := bc_parse t in kconfig_assignments cfg | None => Ok [] end in
             let st := storage_init sym_uuid5 sym_ns
                         (if soc =? 0 then default_assignments_nrf54h20 else default_assignments_nrf9280) entries in
             Ok (map (fun q => find_role st (manifest_cid sym_uuid5 sym_ns (fst q) (snd q))) qs)))
      | _, _, _ => None end
    | _ => None end
  else None.
