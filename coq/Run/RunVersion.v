Require Import Coq.Strings.String.
From Verif Require Import Base.Prim Cbor.Codec Run.Wire Cmd.VersionModel Cmd.VersionSpec gen.GenVersion.

(* optional argument: [] = absent, [x] = present *)
Definition as_opt {A} (f : cbor -> option A) (c : cbor) : option (option A) :=
  match c with
  | CArray [] => Some None
  | CArray [x] => match f x with Some v => Some (Some v) | None => None end
  | _ => None
  end.

(* integers beyond 64 bits travel as CBOR bignums (tags 2 / 3), which cbor2 reads back as int *)
Definition c_zint (z : Z) : cbor :=
  if (z <? 2 ^ 64) && (- 2 ^ 64 <=? z) then cint z
  else if 0 <=? z then CTag 2 (CBytes (be (Z.to_nat (Z.log2 z / 8 + 1)) z))
  else CTag 3 (CBytes (be (Z.to_nat (Z.log2 (-1 - z) / 8 + 1)) (-1 - z))).

Definition label_of (n : Z) : option label :=
  if n =? 0 then Some Alpha else if n =? 1 then Some Beta else if n =? 2 then Some Rc else None.

(* a structured version: [[num...], []] | [[num...], [label]] | [[num...], [label, num]] *)
Definition as_version (c : cbor) : option version :=
  match c with
  | CArray [ns; CArray p] =>
      match as_list_of as_bytes ns with
      | None => None
      | Some ns =>
          match p with
          | [] => Some {| nums := ns; pre := None |}
          | [l] => match as_int l with Some l => match label_of l with Some l => Some {| nums := ns; pre := Some (l, None) |} | None => None end | None => None end
          | [l; n] => match as_int l, as_bytes n with
                      | Some l, Some n => match label_of l with Some l => Some {| nums := ns; pre := Some (l, Some n) |} | None => None end
                      | _, _ => None end
          | _ => None
          end
      end
  | _ => None
  end.

Definition cmp_code (c : comparison) : Z := match c with Lt => -1 | Eq => 0 | Gt => 1 end.

(* all ordered pairs (i, j) of the given versions on which semver_cmp and the zero-padded comparison of the converted
   lists disagree (a version the converter rejects disagrees with everything) *)
Fixpoint enumerate {A} (i : Z) (l : list A) : list (Z * A) :=
  match l with [] => [] | x :: r => (i, x) :: enumerate (i + 1) r end.
Definition sweep (vs : list version) : list (Z * Z) :=
  let conv := enumerate 0 (map (fun v => (v, from_obj (print v))) vs) in
  flat_map (fun '(i, (v, a)) =>
    flat_map (fun '(j, (w, b)) =>
      match a, b with
      | Ok a, Ok b => if cmp_code (semver_cmp v w) =? cmp_code (list_cmp a b) then [] else [(i, j)]
      | _, _ => [(i, j)]
      end) conv) conv.

Definition run (name : bytes) (args : list cbor) : option cbor :=
  if is name "ver_convert" then
    match args with
    | [s] => match as_bytes s with Some s => Some (reply (c_list c_zint) (from_obj s)) | None => None end
    | _ => None end
  else if is name "ver_part" then
    match args with
    | [s] => match as_bytes s with Some s => Some (reply c_zint (convert_version_part s)) | None => None end
    | _ => None end
  else if is name "ver_print" then
    match args with
    | [v] => match as_version v with Some v => Some (reply c_bytes (Ok (print v))) | None => None end
    | _ => None end
  else if is name "ver_cmp" then
    (* [semver_cmp v w, list_cmp a b] for two printed strings given as structured versions *)
    match args with
    | [v; w] => match as_version v, as_version w with
                | Some v, Some w =>
                    Some (reply (c_list c_int) (let* a := from_obj (print v) in let* b := from_obj (print w) in
                                                Ok [cmp_code (semver_cmp v w); cmp_code (list_cmp a b); if f9_family v w then 1 else 0]))
                | _, _ => None end
    | _ => None end
  else if is name "ver_sweep" then
    match args with
    | [vs] => match as_list_of as_version vs with
              | Some vs => Some (reply (c_list (fun '(i, j) => CArray [c_int i; c_int j])) (Ok (sweep vs)))
              | None => None end
    | _ => None end
  else if is name "ver_seqnum" then
    match args with
    | [scfw; M; m; p; t] =>
        match as_bool scfw, as_bytes M, as_bytes m, as_bytes p, as_opt as_bytes t with
        | Some scfw, Some M, Some m, Some p, Some t =>
            Some (reply c_zint (if scfw then scfw_default_seq_num M m p t else default_seq_num M m p t))
        | _, _, _, _, _ => None end
    | _ => None end
  else if is name "ver_default" then
    match args with
    | [scfw; M; m; p; e] =>
        match as_bool scfw, as_bytes M, as_bytes m, as_bytes p, as_opt as_bytes e with
        | Some scfw, Some M, Some m, Some p, Some e =>
            Some (reply c_bytes (if scfw then scfw_default_version M m p e else default_version M m p e))
        | _, _, _, _, _ => None end
    | _ => None end
  else None.
