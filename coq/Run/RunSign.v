Require Import Coq.Strings.String.
From Verif Require Import Base.Prim Cbor.Codec Suit.Py Run.Wire Cmd.SignPrim gen.GenSign.

(* Wire entry points of the signing model (C04, C09).  The abstract functions are instantiated from data the harness supplies:
   the key store is a table [name, kind, key size]; the signature primitives are oracle tables keyed by (key name, message)
   that the harness fills from the implementation's own output (ECDSA is randomised) or computes with `cryptography`; an
   argument pair that is not in the table yields (0, 0) / [], which can never agree with the implementation. *)

Definition kind_of (k ks : Z) : keykind :=
  if k =? 0 then KEc ks else if k =? 1 then KEd25519 else if k =? 2 then KEd448 else KOther.
(* entries (context, name, kind, key size); the key is identified by context ++ "/" ++ name *)
Definition ctx_bytes (c : option bytes) : bytes := match c with Some b => b | None => [] end.
Fixpoint tab_keystore (t : list (bytes * bytes * Z * Z)) (ctx : option bytes) (name : bytes) : option (keykind * bytes) :=
  match t with
  | [] => None
  | (c, n, k, ks) :: r => if list_eqb name n && list_eqb (ctx_bytes ctx) c then Some (kind_of k ks, c ++ [47] ++ n) else tab_keystore r ctx name
  end.
(* entries: (key, message, primitive 0 ecdsa / 1 eddsa / 2 eddsa_ph, a, b): ecdsa (unbe a, unbe b); others a *)
Fixpoint tab_sig (t : list (bytes * bytes * Z * bytes * bytes)) (p : Z) (key msg : bytes) : option (bytes * bytes) :=
  match t with
  | [] => None
  | (k, m, q, a, b) :: r => if list_eqb key k && list_eqb msg m && (p =? q) then Some (a, b) else tab_sig r p key msg
  end.
Definition t_ecdsa t (key h msg : bytes) (n : nat) : Z * Z :=
  match tab_sig t 0 key msg with Some (a, b) => (unbe a 0, unbe b 0) | None => (0, 0) end.
Definition t_eddsa t (key msg : bytes) : bytes := match tab_sig t 1 key msg with Some (a, _) => a | None => [] end.
Definition t_eddsa_ph t (key msg : bytes) : bytes := match tab_sig t 2 key msg with Some (a, _) => a | None => [] end.

Definition as_key_entry (c : cbor) : option (bytes * bytes * Z * Z) :=
  match c with
  | CArray [x; n; k; ks] => match as_bytes x, as_bytes n, as_int k, as_int ks with Some x, Some n, Some k, Some ks => Some (x, n, k, ks) | _, _, _, _ => None end
  | _ => None end.
Definition as_sig_entry (c : cbor) : option (bytes * bytes * Z * bytes * bytes) :=
  match c with
  | CArray [k; m; p; a; b] =>
      match as_bytes k, as_bytes m, as_int p, as_bytes a, as_bytes b with
      | Some k, Some m, Some p, Some a, Some b => Some (k, m, p, a, b) | _, _, _, _, _ => None end
  | _ => None end.
Definition as_opt_str (c : cbor) : option (option bytes) :=
  match c with CSimple 22 => Some None | CBytes b => Some (Some b) | CText b => Some (Some b) | _ => None end.

(* the JSON configuration, sent as a CBOR map with the JSON keys; "key-id" already parsed by the harness (int(s, 0)) *)
Definition opt_field (kvs : list (cbor * cbor)) (k : String.string) : option cbor := map_lookup (CText (s2b k)) kvs.
Definition str_field (kvs : list (cbor * cbor)) (k : String.string) : option (option bytes) :=
  match opt_field kvs k with None => Some None | Some (CText b) => Some (Some b) | Some _ => None end.
Fixpoint as_cfg (fuel : nat) (c : cbor) : option cfg :=
  match fuel with O => None | S f =>
  match c with
  | CMap kvs =>
    match (match opt_field kvs "omit-signing" with None => Some None | Some v => match as_bool v with Some b => Some (Some b) | None => None end end),
          str_field kvs "key-name",
          (match opt_field kvs "key-id" with None => Some None | Some v => match as_int v with Some z => Some (Some z) | None => None end end),
          str_field kvs "sign-script", str_field kvs "kms-script", str_field kvs "alg", str_field kvs "context", str_field kvs "already-signed-action" with
    | Some omit, Some kn, Some kid, Some ss, Some ks, Some alg, Some ctx, Some act =>
      match opt_field kvs "dependencies" with
      | None => Some (Cfg omit kn kid ss ks alg ctx act false None)
      | Some (CMap l) =>
          match optmap (fun kv => match kv with (CText n, v) => match as_cfg f v with Some d => Some (n, d) | None => None end | _ => None end) l with
          | Some ds => Some (Cfg omit kn kid ss ks alg ctx act false (Some ds))
          | None => None end
      | Some _ => Some (Cfg omit kn kid ss ks alg ctx act true None)
      end
    | _, _, _, _, _, _, _, _ => None end
  | _ => None end end.

Fixpoint tab_env (t : list (bytes * bytes)) (k : bytes) : option bytes :=
  match t with [] => None | (n, v) :: r => if list_eqb k n then Some v else tab_env r k end.

Definition c_opt (o : option bytes) : cbor := match o with Some b => CBytes b | None => cnull end.
Definition c_call (fe : rfields * cbor) : cbor :=
  let f := fst fe in
  CArray [CBytes (r_name f); c_opt (r_key_name f); match r_key_id f with Some z => cint z | None => cnull end; CBytes (r_sign_script f);
          CBytes (r_kms_script f); CBytes (r_alg f); c_opt (r_ctx f); CBytes (r_action f)].
Definition c_recursive (r : bytes * nat * list (rfields * cbor)) : cbor :=
  let '(out, _, tr) := r in CArray [CBytes out; CArray (map c_call tr)].
Definition c_single (r : bytes * nat) : cbor := CBytes (fst r).
Definition c_pair_z {A} (f : A -> cbor) (r : list (bytes * A)) : cbor := CArray (map (fun p => CArray [CBytes (fst p); f (snd p)]) r).
Definition c_effect (e : effect) : cbor :=
  match e with EfRaise x => CArray [CUint 0; CUint (exn_code x)] | EfRemove => CArray [CUint 1] | EfSkip => CArray [CUint 2] end.
Definition no_keys (c : option bytes) (n : bytes) : option (keykind * bytes) := None.
Definition no_ecdsa (k h m : bytes) (n : nat) : Z * Z := (0, 0).
Definition no_ed (k m : bytes) : bytes := [].

Definition run (name : bytes) (args : list cbor) : option cbor :=
  (* "sign_consts": the extracted tables *)
  if is name "sign_consts" then
    Some (CArray [CUint 0; CArray [c_pair_z cint cose_sign_algs; cint wrapper_key; cint sign1_tag;
                                   CArray (map (fun p => CArray [cint (fst p); CBytes (snd p)]) es_hash_map);
                                   CBytes default_alg; CBytes default_action; c_pair_z c_effect asa_branches;
                                   c_pair_z CBytes sign_algs; c_pair_z CBytes signed_actions; c_pair_z cint suit_ids]])
  (* "sign_single" infile key_name key_id alg context|null action keystore sigtab : cmd_sign.main single-level -> the output file *)
  else if is name "sign_single" then
    match args with
    | [f; kn; kid; alg; ctx; act; ks; st] =>
      match as_bytes f, as_bytes kn, as_int kid, as_bytes alg, as_opt_str ctx, as_bytes act, as_list_of as_key_entry ks, as_list_of as_sig_entry st with
      | Some f, Some kn, Some kid, Some alg, Some ctx, Some act, Some ks, Some st =>
          Some (reply c_single (match enum_of_value sign_algs alg with Raise x => Raise x | Ok alg =>
                                match enum_of_value signed_actions act with Raise x => Raise x | Ok act =>
                                cli_sign_single (tab_keystore ks) (t_ecdsa st) (t_eddsa st) (t_eddsa_ph st) O f kn kid alg ctx act end end))
      | _, _, _, _, _, _, _, _ => None end
    | _ => None end
  (* "sign_recursive" infile cfg envvars keystore sigtab : cmd_sign.main recursive -> [output file, calls of sign_envelope in order] *)
  else if is name "sign_recursive" then
    match args with
    | [f; c; ev; ks; st] =>
      match as_bytes f, as_cfg 64 c, as_list_of (as_pair as_bytes as_bytes) ev, as_list_of as_key_entry ks, as_list_of as_sig_entry st with
      | Some f, Some c, Some ev, Some ks, Some st =>
          Some (reply c_recursive (cli_sign_recursive (ncs_call (tab_keystore ks) (t_ecdsa st) (t_eddsa st) (t_eddsa_ph st)) (tab_env ev) O f c (s2b "in")))
      | _, _, _, _, _ => None end
    | _ => None end
  (* "sign_authblock" protected(encoded object) unprotected(encoded object)|null signature : dumps(create_authentication_block(...)) *)
  else if is name "sign_authblock" then
    match args with
    | [p; u; s] =>
      match as_bytes p, as_opt_str u, as_bytes s with
      | Some p, Some u, Some s =>
          Some (reply c_bytes (match py_loads (CBytes p) with Raise x => Raise x | Ok po =>
                               match (match u with None => Ok None | Some ub => match py_loads (CBytes ub) with Raise x => Raise x | Ok uo => Ok (Some uo) end end) with
                               | Raise x => Raise x | Ok uo =>
                               match create_authentication_block po uo s with Raise x => Raise x | Ok t => Ok (ser t) end end end))
      | _, _, _ => None end
    | _ => None end
  (* "sign_cose" infile protected(encoded object) : create_cose_structure *)
  else if is name "sign_cose" then
    match args with
    | [f; p] =>
      match as_bytes f, as_bytes p with
      | Some f, Some p =>
          Some (reply c_bytes (match load_envelope f with Raise x => Raise x | Ok e =>
                               match py_loads (CBytes p) with Raise x => Raise x | Ok po =>
                               create_cose_structure {| envelope := e; _skip_signing := false |} po end end))
      | _, _ => None end
    | _ => None end
  (* "sign_asa" infile action : already_signed_action -> [dumps(envelope), skip flag] *)
  else if is name "sign_asa" then
    match args with
    | [f; a] =>
      match as_bytes f, as_bytes a with
      | Some f, Some a =>
          Some (reply (fun s => CArray [CBytes (ser (envelope s)); c_bool (_skip_signing s)])
                      (match load_envelope f with Raise x => Raise x | Ok e => already_signed_action {| envelope := e; _skip_signing := false |} a end))
      | _, _ => None end
    | _ => None end
  (* "sign_keytype" kind key_size alg : _verify_signing_key_type *)
  else if is name "sign_keytype" then
    match args with
    | [k; ks; a] =>
      match as_int k, as_int ks, as_bytes a with
      | Some k, Some ks, Some a => Some (reply c_bool (verify_signing_key_type (kind_of k ks) a))
      | _, _, _ => None end
    | _ => None end
  (* "sign_es" key_size r s (big-endian bytes) : _create_cose_es_signature for a key whose signature decodes to (r, s) *)
  else if is name "sign_es" then
    match args with
    | [ks; r; s] =>
      match as_int ks, as_bytes r, as_bytes s with
      | Some ks, Some r, Some s =>
          Some (reply c_single (create_cose_es_signature no_keys (fun _ _ _ _ => (unbe r 0, unbe s 0)) no_ed no_ed O [] [] ks))
      | _, _, _ => None end
    | _ => None end
  (* "sign_kms" data key_name alg context keystore sigtab : SuitKMS.sign *)
  else if is name "sign_kms" then
    match args with
    | [d; kn; alg; ctx; ks; st] =>
      match as_bytes d, as_bytes kn, as_bytes alg, as_opt_str ctx, as_list_of as_key_entry ks, as_list_of as_sig_entry st with
      | Some d, Some kn, Some alg, Some ctx, Some ks, Some st =>
          Some (reply c_single (kms_sign (tab_keystore ks) (t_ecdsa st) (t_eddsa st) (t_eddsa_ph st) O d kn alg ctx))
      | _, _, _, _, _, _ => None end
    | _ => None end
  else None.
