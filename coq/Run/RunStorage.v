Require Import Coq.Strings.String.
From Verif Require Import Base.Prim Cbor.Codec Run.Wire Base.Mem Cmd.StorageModel gen.GenStorage.

Definition as_opt_b (c : cbor) : option (option bytes) :=
  match c with CSimple 22 => Some None | CBytes b => Some (Some b) | _ => None end.
Definition as_input (c : cbor) : option (bytes * option bytes) := as_pair as_bytes as_opt_b c.
Definition as_assign (c : cbor) : option (list (bytes * Z)) := as_list_of (as_pair as_bytes as_int) c.

Definition c_mem (m : mem) : cbor := c_list (fun s : seg => CArray [c_int (fst s); CBytes (snd s)]) m.
Definition c_files (fs : list (bytes * mem)) : cbor := c_list (fun f : bytes * mem => CArray [CText (fst f); c_mem (snd f)]) fs.
Definition reply_m {A} (f : A -> cbor) (r : mres A) : cbor :=
  match r with
  | MOk a => CArray [CUint 0; f a]
  | MRaise e => CArray [CUint 1; CUint (exn_code e)]
  | MOverlap => CArray [CUint 1; CUint 40]      (* intelhex.AddressOverlapError *)
  end.

Definition run (name : bytes) (args : list cbor) : option cbor :=
  (* "boot" soc base assignments [[severed envelope, manifest_cbor|null]...] : [[file name, [[start, bytes]...]]...] *)
  if is name "boot" then
    match args with
    | [soc; base; asg; inputs] =>
      match as_bytes soc, as_int base, as_assign asg, as_list_of as_input inputs with
      | Some soc, Some base, Some asg, Some inputs => Some (reply_m c_files (boot_files soc base asg inputs))
      | _, _, _, _ => None end
    | _ => None end
  (* "add" soc assignments [[env, mc]...] : the _envelopes dictionary after the adds [[role, slot bytes]...] *)
  else if is name "add" then
    match args with
    | [soc; asg; inputs] =>
      match as_bytes soc, as_assign asg, as_list_of as_input inputs with
      | Some soc, Some asg, Some inputs =>
          Some (reply (c_list (fun rb : Z * bytes => CArray [c_int (fst rb); CBytes (snd rb)]))
                      (match str_lookup soc soc_layouts with
                       | None => Raise unknown_soc_exn
                       | Some layout => match add_all layout (mk_storage asg 0 []) inputs with
                                        | Raise e => Raise e
                                        | Ok st => Ok (envelopes st)
                                        end
                       end))
      | _, _, _ => None end
    | _ => None end
  (* "sever" [key...] : the keys that survive SuitEnvelope.sever *)
  else if is name "sever" then
    match args with
    | [keys] =>
      match as_list_of as_bytes keys with
      | Some ks => Some (reply (c_list CText) (Ok (map fst (sever (map (fun k => (k, tt)) ks)))))
      | None => None end
    | _ => None end
  else None.
