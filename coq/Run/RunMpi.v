Require Import Coq.Strings.String.
From Verif Require Import Base.Prim Cbor.Codec Run.Wire Base.Mem gen.GenMpi.

(* uuid5 is supplied by the harness as a table [[namespace, name, result]...] computed with Python's uuid module;
   a pair that is not in the table yields the empty string (and so a visible disagreement). *)
Definition lookup_uuid (tbl : list (bytes * (bytes * bytes))) (ns name : bytes) : bytes :=
  match List.find (fun e => list_eqb (fst e) ns && list_eqb (fst (snd e)) name) tbl with
  | Some e => snd (snd e)
  | None => []
  end.
(* sha256 is run symbolically: the "digest" of m is the marker 256, the length of m, then m itself; the harness
   replaces it by hashlib.sha256(m).  The reply therefore carries integer lists, not byte strings. *)
Definition sha_sym (m : bytes) : bytes := 256 :: blen m :: m.

Definition as_opt_text (c : cbor) : option (option bytes) :=
  match c with CSimple 22 => Some None | CText b => Some (Some b) | CBytes b => Some (Some b) | _ => None end.
Definition as_mem (c : cbor) : option mem := as_list_of (as_pair as_int as_bytes) c.
Definition as_opt_files (c : cbor) : option (option (list mem)) :=
  match c with CSimple 22 => Some None | _ => match as_list_of as_mem c with Some l => Some (Some l) | None => None end end.

Definition c_mem (m : mem) : cbor := c_list (fun s : seg => CArray [c_int (fst s); c_list c_int (snd s)]) m.
Definition reply_m (r : mres mem) : cbor :=
  match r with
  | MOk m => CArray [CUint 0; c_mem m]
  | MRaise e => CArray [CUint 1; CUint (exn_code e)]
  | MOverlap => CArray [CUint 1; CUint 40]      (* intelhex.AddressOverlapError *)
  end.

Definition run (name : bytes) (args : list cbor) : option cbor :=
  (* "mpi_generate" vendor class address size dp iu sv uuid_table *)
  if is name "mpi_generate" then
    match args with
    | [v; c; a; s; dp; iu; sv; tbl] =>
      match as_bytes v, as_bytes c, as_int a, as_int s, as_bool dp, as_bool iu, as_opt_text sv,
            as_list_of (as_pair as_bytes (as_pair as_bytes as_bytes)) tbl with
      | Some v, Some c, Some a, Some s, Some dp, Some iu, Some sv, Some tbl =>
          Some (reply_m (mres_of_res (mpi_generate (lookup_uuid tbl) [] v c a s dp iu sv)))
      | _, _, _, _, _, _, _, _ => None end
    | _ => None end
  (* "mpi_merge" address size files|null      files = [[[start, bytes]...]...] *)
  else if is name "mpi_merge" then
    match args with
    | [a; s; fl] =>
      match as_int a, as_int s, as_opt_files fl with
      | Some a, Some s, Some fl => Some (reply_m (mpi_merge sha_sym a s fl))
      | _, _, _ => None end
    | _ => None end
  else None.
