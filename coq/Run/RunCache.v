Require Import Coq.Strings.String.
From Verif Require Import Base.Prim Cbor.Codec Run.Wire gen.GenCache.

Definition add_all (slots : list (bytes * bytes)) (c : cache) : res cache :=
  foldM (fun c ud => add_cache_slot c (fst ud) (snd ud)) slots c.

Definition run (name : bytes) (args : list cbor) : option cbor :=
  (* "cache_build" eb [[uri, data]...] : from_payloads + close *)
  if is name "cache_build" then
    match args with
    | [eb; slots] =>
      match as_int eb, as_list_of (as_pair as_bytes as_bytes) slots with
      | Some eb, Some slots =>
          Some (reply c_bytes (let* c := add_all slots (cache_init eb) in close_and_save_cache c []))
      | _, _ => None end
    | _ => None end
  (* "cache_pad" eb data *)
  else if is name "cache_pad" then
    match args with
    | [eb; d] =>
      match as_int eb, as_bytes d with
      | Some eb, Some d => Some (reply c_bytes (add_padding (cache_init eb) d))
      | _, _ => None end
    | _ => None end
  (* "cache_merge" eb [[[k, v]...]...] : merge the decoded dictionaries in order, then close *)
  else if is name "cache_merge" then
    match args with
    | [eb; dicts] =>
      match as_int eb, as_list_of (as_list_of (as_pair as_bytes as_bytes)) dicts with
      | Some eb, Some dicts =>
          Some (reply c_bytes (let* c := foldM merge_single_cache_dict dicts (cache_init eb) in close_and_save_cache c []))
      | _, _ => None end
    | _ => None end
  else None.
