Require Import Coq.Strings.String.
From Verif Require Import Base.Prim Cbor.Codec Run.Wire Cmd.WiringModel gen.GenWiring.

(* wire form of the abstract manifest:
   [comps, deps, shared, seqs, integs, self_cid]
   comp  = 0 (candidate manifest) | bytes (installed manifest, class id) | 1 (other)
   cmd   = [0, [i...]] | [1] | [2, uri] | [3, digest] | [4] fetch | [5] image-match | [6] dependency-integrity
         | [7] process-dependency | [8] other
   integ = [name, manifest digest, class id | null]          expect = [[cid...], self cid] *)
Definition as_comp (c : cbor) : option comp :=
  match c with CUint 0 => Some CandMfst | CBytes b => Some (InstldMfst b) | CUint _ => Some OtherComp | _ => None end.
Definition as_cmd (c : cbor) : option cmd :=
  match c with
  | CArray [CUint 0; l] => match as_list_of as_int l with Some l => Some (SetIdx l) | None => None end
  | CArray [CUint 1] => Some SetAll
  | CArray [CUint 2; u] => match as_bytes u with Some u => Some (SetUri u) | None => None end
  | CArray [CUint 3; d] => match as_bytes d with Some d => Some (SetDigest d) | None => None end
  | CArray [CUint 4] => Some Fetch
  | CArray [CUint 5] => Some ImageMatch
  | CArray [CUint 6] => Some DepIntegrity
  | CArray [CUint 7] => Some ProcessDep
  | CArray [CUint 8] => Some Other
  | _ => None
  end.
Definition as_optbytes (c : cbor) : option (option bytes) :=
  match c with CSimple 22 => Some None | CBytes b => Some (Some b) | _ => None end.
Definition as_integ (c : cbor) : option (bytes * (bytes * option bytes)) :=
  match c with
  | CArray [n; d; k] => match as_bytes n, as_bytes d, as_optbytes k with
                        | Some n, Some d, Some k => Some (n, (d, k)) | _, _, _ => None end
  | _ => None
  end.
Definition as_manifest (c : cbor) : option manifest_abs :=
  match c with
  | CArray [cs; ds; sh; sq; ig; sc] =>
      match as_list_of as_comp cs, as_list_of as_int ds, as_list_of as_cmd sh, as_list_of (as_list_of as_cmd) sq,
            as_list_of as_integ ig, as_optbytes sc with
      | Some cs, Some ds, Some sh, Some sq, Some ig, Some sc =>
          Some {| comps := cs; deps := ds; shared := sh; seqs := sq; integs := ig; self_cid := sc |}
      | _, _, _, _, _, _ => None
      end
  | _ => None
  end.
Definition as_expect (c : cbor) : option expect :=
  match c with
  | CArray [l; s] => match as_list_of as_bytes l, as_bytes s with
                     | Some l, Some s => Some {| exp_installed := l; exp_self := s |} | _, _ => None end
  | _ => None
  end.

Definition c_comp (k : comp) : cbor := match k with CandMfst => CUint 0 | InstldMfst b => CBytes b | OtherComp => CUint 1 end.
Definition c_cmd (c : cmd) : cbor :=
  match c with
  | SetIdx l => CArray [CUint 0; c_list c_int l] | SetAll => CArray [CUint 1]
  | SetUri u => CArray [CUint 2; CBytes u] | SetDigest d => CArray [CUint 3; CBytes d]
  | Fetch => CArray [CUint 4] | ImageMatch => CArray [CUint 5] | DepIntegrity => CArray [CUint 6]
  | ProcessDep => CArray [CUint 7] | Other => CArray [CUint 8]
  end.
Definition c_optbytes (o : option bytes) : cbor := match o with Some b => CBytes b | None => cnull end.
Definition c_manifest (m : manifest_abs) : cbor :=
  CArray [c_list c_comp (comps m); c_list c_int (deps m); c_list c_cmd (shared m); c_list (c_list c_cmd) (seqs m);
          c_list (fun e => CArray [CBytes (fst e); CBytes (fst (snd e)); c_optbytes (snd (snd e))]) (integs m);
          c_optbytes (self_cid m)].

(* the class-id function of the generated template models, supplied by the harness as a table [[vendor, class, cid]...] *)
Definition as_triple (c : cbor) : option (bytes * bytes * bytes) :=
  match c with CArray [a; b; d] => match as_bytes a, as_bytes b, as_bytes d with
                                   | Some a, Some b, Some d => Some (a, b, d) | _, _, _ => None end | _ => None end.
Fixpoint cid_tbl (t : list (bytes * bytes * bytes)) (v c : bytes) : bytes :=
  match t with
  | [] => []
  | (v', c', d) :: r => if list_eqb v v' && list_eqb c c' then d else cid_tbl r v c
  end.

Definition run (name : bytes) (args : list cbor) : option cbor :=
  (* "wiring_ok" manifest expect -> bool *)
  if is name "wiring_ok" then
    match args with
    | [m; e] => match as_manifest m, as_expect e with
                | Some m, Some e => Some (reply c_bool (Ok (wiring_ok m e))) | _, _ => None end
    | _ => None end
  (* "wiring_report" manifest expect -> [shared ok, [seq ok...], deps ok, class ids ok] *)
  else if is name "wiring_report" then
    match args with
    | [m; e] => match as_manifest m, as_expect e with
                | Some m, Some e =>
                    Some (reply (fun x => x)
                      (Ok (CArray [c_bool (check_seq m st0 (shared m));
                                   c_list (fun s => c_bool (check_seq m (WiringModel.run (List.length (comps m)) st0 (shared m)) s)) (seqs m);
                                   c_bool (deps_okb m); c_bool (cids_okb m e)])))
                | _, _ => None end
    | _ => None end
  (* "root_model" radio application top [6 names] [3 digests] [3 class ids|null] table -> manifest *)
  else if is name "root_model" then
    match args with
    | [r; a; t; ns; ds; cs; tb] =>
        match as_bool r, as_bool a, as_bool t, as_list_of as_bytes ns, as_list_of as_bytes ds, as_list_of as_optbytes cs,
              as_list_of as_triple tb with
        | Some r, Some a, Some t, Some [n1; n2; n3; n4; n5; n6], Some [d1; d2; d3], Some [c1; c2; c3], Some tb =>
            Some (reply c_manifest (Ok (root_model (cid_tbl tb) r a t n1 n2 n3 n4 n5 n6 d1 d2 d3 c1 c2 c3)))
        | _, _, _, _, _, _, _ => None end
    | _ => None end
  (* "root_defaults" -> the six default names of the root template *)
  else if is name "root_defaults" then
    Some (reply (c_list c_bytes) (Ok [default_root_v; default_root_c; default_app_v; default_app_c; default_rad_v; default_rad_c]))
  (* "top_model" [2 digests] [2 class ids|null] table -> manifest *)
  else if is name "top_model" then
    match args with
    | [ds; cs; tb] =>
        match as_list_of as_bytes ds, as_list_of as_optbytes cs, as_list_of as_triple tb with
        | Some [d1; d2], Some [c1; c2], Some tb => Some (reply c_manifest (Ok (top_model (cid_tbl tb) d1 d2 c1 c2)))
        | _, _, _ => None end
    | _ => None end
  else None.
