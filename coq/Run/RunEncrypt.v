Require Import Coq.Strings.String.
From Verif Require Import Base.Prim Cbor.Codec Run.Wire gen.GenEncrypt Cmd.EncryptModel.

(* Wire entry points of the encryption model (C06, C14).  The abstract functions are instantiated from data the harness
   supplies: AES-GCM and the hashes are oracle tables computed by the harness with `cryptography` / hashlib for exactly
   the arguments the model asks for (an argument tuple that is not in the table yields [], which can never agree with the
   implementation); os.urandom is the recorded stream (draw n of k bytes = the first k bytes of block n). *)

Fixpoint tab_aes (t : list (bytes * bytes * bytes * bytes * bytes)) (k n d a : bytes) : bytes :=
  match t with
  | [] => []
  | (k', n', d', a', r) :: t' =>
      if list_eqb k k' && list_eqb n n' && list_eqb d d' && list_eqb a a' then r else tab_aes t' k n d a
  end.
(* an entry without data (null) answers for any data: used for the 64 KiB cases to keep the request small *)
Fixpoint tab_hash (t : list (bytes * Z * option bytes * bytes)) (fam : bytes) (n : Z) (d : bytes) : bytes :=
  match t with
  | [] => []
  | (f', n', d', r) :: t' =>
      if list_eqb fam f' && (n =? n') && match d' with Some d' => list_eqb d d' | None => true end then r else tab_hash t' fam n d
  end.
Definition blocks_rnd (blocks : list bytes) (n : nat) (k : Z) : bytes := slice_to (nth n blocks []) k.

Definition as_aes_entry (c : cbor) : option (bytes * bytes * bytes * bytes * bytes) :=
  match c with
  | CArray [CBytes k; CBytes n; CBytes d; CBytes a; CBytes r] => Some (k, n, d, a, r)
  | _ => None end.
Definition as_opt_bytes (c : cbor) : option (option bytes) :=
  match c with CSimple 22 => Some None | CBytes b => Some (Some b) | CText b => Some (Some b) | _ => None end.
Definition as_hash_entry (c : cbor) : option (bytes * Z * option bytes * bytes) :=
  match c with
  | CArray [f; CUint n; d; CBytes r] =>
      match as_bytes f, as_opt_bytes d with Some f, Some d => Some (f, n, d, r) | _, _ => None end
  | _ => None end.
Definition as_call (key : bytes) (c : cbor) : option call :=
  match c with
  | CArray [CBytes pt; kid; h; kw] =>
      match as_int kid, as_bytes h, as_bytes kw with
      | Some kid, Some h, Some kw => Some {| c_pt := pt; c_key := key; c_kid := kid; c_ctx := None; c_hash := h; c_kw := kw |}
      | _, _, _ => None end
  | _ => None end.

Definition c_files (fs : list (bytes * bytes)) : cbor := CArray (map (fun nc => CArray [CBytes (fst nc); CBytes (snd nc)]) fs).
Definition c_files_ent (r : list (bytes * bytes) * nat) : cbor := CArray [c_files (fst r); CUint (Z.of_nat (snd r))].
Definition c_triple (t : bytes * bytes * bytes) : cbor := let '(a, b, c) := t in CArray [CBytes a; CBytes b; CBytes c].
Definition dummy_aes (k n d a : bytes) : bytes := d ++ repeat 0 16.
Definition dummy_hash (fam : bytes) (n : Z) (d : bytes) : bytes := repeat 0 (Z.to_nat n).
Definition c_infos (r : list (list (bytes * bytes)) * nat) : cbor :=
  CArray [CArray (map (fun fs => match file_of f_info fs with Some i => CBytes i | None => cnull end) (fst r)); CUint (Z.of_nat (snd r))].

Definition run (name : bytes) (args : list cbor) : option cbor :=
  (* "enc_consts": the extracted constants [aad literal, encoded protected header, [[alg, hash class, length]...]] *)
  if is name "enc_consts" then
    Some (CArray [CUint 0; CArray [CBytes aad_literal; CBytes (encode prot_lit);
                                   CArray (map (fun r => CArray [CBytes (fst r); CBytes (fst (snd r)); cint (snd (snd r))]) hash_table)]])
  (* "enc_parse" kw asset *)
  else if is name "enc_parse" then
    match args with
    | [a] => match as_bytes a with Some a => Some (reply c_triple (parse_encrypted_assets encryptor_new a)) | None => None end
    | _ => None end
  (* "enc_payload" content tag *)
  else if is name "enc_payload" then
    match args with
    | [c; t] => match as_bytes c, as_bytes t with
                | Some c, Some t => Some (reply c_bytes (generate_encrypted_payload encryptor_new c t)) | _, _ => None end
    | _ => None end
  (* "enc_info" cose_kw_alg iv cek|null key_id *)
  else if is name "enc_info" then
    match args with
    | [kw; iv; cek; kid] =>
      match as_int kw, as_bytes iv, as_opt_bytes cek, as_int kid with
      | Some kw, Some iv, Some cek, Some kid =>
          Some (reply c_bytes (generate_suit_encryption_info (set_cose_kw_alg kw encryptor_new) iv cek kid))
      | _, _, _, _ => None end
    | _ => None end
  (* "enc_generate" blob cek|null key_id kw_alg : Encryptor.generate *)
  else if is name "enc_generate" then
    match args with
    | [b; cek; kid; kw] =>
      match as_bytes b, as_opt_bytes cek, as_int kid, as_bytes kw with
      | Some b, Some cek, Some kid, Some kw => Some (reply c_triple (generate encryptor_new b cek kid kw))
      | _, _, _, _ => None end
    | _ => None end
  (* "enc_geninfo" blob cek key_id kw_alg : cmd_encrypt.generate_info, the files written *)
  else if is name "enc_geninfo" then
    match args with
    | [b; cek; kid; kw] =>
      match as_bytes b, as_bytes cek, as_int kid, as_bytes kw with
      | Some b, Some cek, Some kid, Some kw => Some (reply c_files (cli_generate_info b cek kid kw))
      | _, _, _, _ => None end
    | _ => None end
  (* "enc_eag" blocks aes_table hash_table key ent plaintext key_name key_id hash_alg kw_alg : cmd_encrypt.encrypt_and_generate *)
  else if is name "enc_eag" then
    match args with
    | [blocks; at_; ht; key; ent; pt; kn; kid; h; kw] =>
      match as_list_of as_bytes blocks, as_list_of as_aes_entry at_, as_list_of as_hash_entry ht, as_bytes key, as_int ent,
            as_bytes pt, as_bytes kn, as_int kid, as_bytes h, as_bytes kw with
      | Some blocks, Some at_, Some ht, Some key, Some ent, Some pt, Some kn, Some kid, Some h, Some kw =>
          Some (reply c_files_ent (cli_encrypt_and_generate (tab_aes at_) (blocks_rnd blocks) (tab_hash ht) (fun _ => key)
                                     (Z.to_nat ent) pt kn kid None h kw))
      | _, _, _, _, _, _, _, _, _, _ => None end
    | _ => None end
  (* "enc_history" blocks key ent [[plaintext, key_id, hash_alg, kw_alg]...] : the info files of a history, and the final state *)
  else if is name "enc_history" then
    match args with
    | [blocks; key; ent; calls] =>
      match as_list_of as_bytes blocks, as_bytes key, as_int ent with
      | Some blocks, Some key, Some ent =>
        match as_list_of (as_call key) calls with
        | Some calls => Some (reply c_infos (run_history dummy_aes (blocks_rnd blocks) dummy_hash (fun _ => key) (Z.to_nat ent) calls))
        | None => None end
      | _, _, _ => None end
    | _ => None end
  (* "enc_raw" info : SuitEncryptionInfoExt.from_obj({"raw": info}).to_cbor() *)
  else if is name "enc_raw" then
    match args with
    | [i] => match as_bytes i with Some i => Some (reply c_bytes (enc_info_ext_to_cbor i)) | None => None end
    | _ => None end
  else None.
