(* Run/Wire.v — the wire format between the harness and the executable model: one CBOR item in, one CBOR item out.
   Request  = [name, arg...]          Reply = [0, value] | [1, exception code] | [2] (unknown request / bad arguments) *)
Require Import Coq.Strings.String Coq.Strings.Ascii.
From Verif Require Import Base.Prim Cbor.Codec.
From Verif Require Export Base.Str.

Definition exn_code (e : exn) : Z :=
  match e with
  | ValueError => 1 | SUITError => 2 | GeneratorError => 3 | OverflowError => 4 | SignerError => 5
  | IndexError => 6 | TypeError => 7 | KeyError => 8 | AttributeError => 9 | StructError => 10
  | NotImplementedError => 11 | RecursionLimit => 12 | OSErr => 14 | OtherError => 15 | Unsupported => 16
  | Need _ _ => 13
  end.

Definition reply {A} (f : A -> cbor) (r : res A) : cbor :=
  match r with
  | Ok a => CArray [CUint 0; f a]
  | Raise (Need k a) => CArray [CUint 1; CUint 13; CText k; CArray (map CBytes a)]
  | Raise e => CArray [CUint 1; CUint (exn_code e)]
  end.
Definition bad_request : cbor := CArray [CUint 2].

Definition as_int (c : cbor) : option Z :=
  match c with CUint n => Some n | CNint n => Some (-1 - n) | _ => None end.
Definition as_bytes (c : cbor) : option bytes :=
  match c with CBytes b => Some b | CText b => Some b | _ => None end.
Definition as_bool (c : cbor) : option bool :=
  match c with CSimple 21 => Some true | CSimple 20 => Some false | _ => None end.
Definition as_list (c : cbor) : option (list cbor) := match c with CArray l => Some l | _ => None end.

Fixpoint optmap {A B} (f : A -> option B) (l : list A) : option (list B) :=
  match l with
  | [] => Some []
  | x :: r => match f x, optmap f r with Some y, Some ys => Some (y :: ys) | _, _ => None end
  end.
Definition as_pair {A B} (f : cbor -> option A) (g : cbor -> option B) (c : cbor) : option (A * B) :=
  match c with CArray [a; b] => match f a, g b with Some x, Some y => Some (x, y) | _, _ => None end | _ => None end.
Definition as_list_of {A} (f : cbor -> option A) (c : cbor) : option (list A) :=
  match c with CArray l => optmap f l | _ => None end.

Definition c_int (z : Z) : cbor := cint z.
Definition c_bytes (b : bytes) : cbor := CBytes b.
Definition c_list {A} (f : A -> cbor) (l : list A) : cbor := CArray (map f l).
Definition c_bool (b : bool) : cbor := cbool b.
