Require Import Coq.Strings.String.
From Verif Require Import Base.Prim Cbor.Codec Cbor.TagScan Run.Wire Suit.Py Suit.Ty Suit.Interp Suit.SpecEnc Suit.SpecTypes gen.GenTypes.

(* External functions are answered from a table sent with the request: [[kind, [arg...], result]...]; a missing
   entry is reported as `Need kind args` and the harness re-sends the request with the value added.
   result: bytes = the value; null = the call raises ValueError; false = outside the modelled fragment. *)
Definition otable := list (bytes * list bytes * cbor).

Definition parse_otable (c : cbor) : option otable :=
  as_list_of (fun e => match e with
                       | CArray [CText k; CArray a; r] => match optmap as_bytes a with Some a' => Some (k, a', r) | None => None end
                       | _ => None end) c.

Fixpoint lists_eqb (a b : list bytes) : bool :=
  match a, b with [], [] => true | x :: a', y :: b' => list_eqb x y && lists_eqb a' b' | _, _ => false end.

Definition ask (t : otable) (kind : String.string) (args : list bytes) : res bytes :=
  match List.find (fun e => list_eqb (fst (fst e)) (s2b kind) && lists_eqb (snd (fst e)) args) t with
  | Some (_, CBytes b) => Ok b
  | Some (_, CSimple 22) => Raise ValueError
  | Some (_, _) => Raise Unsupported
  | None => Raise (Need (s2b kind) args)
  end.
Arguments ask t kind%string args.

Definition fuel0 : nat := 2000.

Section WithTable.
  Variable t : otable.
  Variable files : list (bytes * bytes).
  Definition o_hash (alg data : bytes) := ask t "hash" [alg; data].
  Definition o_uuid5 (ns name : bytes) := ask t "uuid5" [ns; name].
  Definition o_fs (p : bytes) : option bytes := lookup p files.
  Definition o_json_loads (s : bytes) : res cbor := let* b := ask t "json_loads" [s] in dec b.
  Definition o_json_dumps (c : cbor) : res bytes := ask t "json_dumps" [ser c].
  Definition hnames : list bytes := map fst hash_table.

  Definition m_from_obj := from_obj types hnames o_hash o_uuid5 o_fs o_json_loads o_json_dumps severable_ids steps_processed steps_digest_ext.
  Definition m_to_cbor := to_cbor types.
  Definition m_from_cbor := from_cbor types o_json_dumps.
  Definition m_to_obj := to_obj types.
  Definition m_create := create types hnames o_hash o_uuid5 o_fs o_json_loads o_json_dumps severable_ids steps_prepare steps_processed steps_digest_ext.
  (* specification-side encoder (C02); delegated classes go through the object model *)
  Definition m_special (t : ty) (d : cbor) : res cbor :=
    let* v := m_from_obj fuel0 t d in let* b := m_to_cbor fuel0 t v in dec b.
  (* the specification encoder walks the PINNED grammar (Suit/SpecTypes.v), never the regenerated tables *)
  Definition m_spec := spec_item spec_types o_json_loads m_special.
End WithTable.

Definition files_of (c : cbor) : option (list (bytes * bytes)) := as_list_of (as_pair as_bytes as_bytes) c.

Definition c_obj (c : cbor) : cbor := CBytes (ser c).   (* Python objects travel serialised (bignums get their tags) *)

Definition run (name : bytes) (args : list cbor) : option cbor :=
  (* "create" description files oracle : prepare_suit_data *)
  if is name "create" then
    match args with
    | [d; fl; ot] =>
        match pyn d, files_of fl, parse_otable ot with
        | Ok d', Some fl', Some ot' => Some (reply c_bytes (m_create ot' fl' fuel0 d'))
        | _, _, _ => None end
    | _ => None end
  (* "parse" class bytes oracle : <class>.from_cbor(bytes).to_obj() *)
  else if is name "parse" then
    match args with
    | [CText cls; CBytes b; ot] =>
        match parse_otable ot with
        | Some ot' => Some (reply c_obj (let* v := m_from_cbor ot' fuel0 (TRef cls) b in m_to_obj fuel0 (TRef cls) v))
        | None => None end
    | _ => None end
  (* "encode" class description files oracle : <class>.from_obj(d).to_cbor() *)
  else if is name "encode" then
    match args with
    | [CText cls; d; fl; ot] =>
        match pyn d, files_of fl, parse_otable ot with
        | Ok d', Some fl', Some ot' =>
            Some (reply c_bytes (let* v := m_from_obj ot' fl' fuel0 (TRef cls) d' in m_to_cbor fuel0 (TRef cls) v))
        | _, _, _ => None end
    | _ => None end
  (* "reencode" class bytes oracle : <class>.from_cbor(bytes).to_cbor() *)
  else if is name "reencode" then
    match args with
    | [CText cls; CBytes b; ot] =>
        match parse_otable ot with
        | Some ot' => Some (reply c_bytes (let* v := m_from_cbor ot' fuel0 (TRef cls) b in m_to_cbor fuel0 (TRef cls) v))
        | None => None end
    | _ => None end
  (* "objobj" class description files oracle : <class>.from_obj(d).to_obj() *)
  else if is name "objobj" then
    match args with
    | [CText cls; d; fl; ot] =>
        match pyn d, files_of fl, parse_otable ot with
        | Ok d', Some fl', Some ot' =>
            Some (reply c_obj (let* v := m_from_obj ot' fl' fuel0 (TRef cls) d' in m_to_obj fuel0 (TRef cls) v))
        | _, _, _ => None end
    | _ => None end
  (* "spec" class description files oracle : the item the specification assigns to the description, serialised *)
  else if is name "spec" then
    match args with
    | [CText cls; d; fl; ot] =>
        match pyn d, files_of fl, parse_otable ot with
        | Ok d', Some fl', Some ot' => Some (reply c_bytes (let* c := m_spec ot' fl' fuel0 (TRef cls) d' in Ok (ser c)))
        | _, _, _ => None end
    | _ => None end
  (* "scan_tags" bytes : SuitObject.reject_sharing_tags(bytes) returns (true) or raises ValueError (false) *)
  else if is name "scan_tags" then
    match args with
    | [CBytes b] => Some (reply c_bool (Ok (scan_tags b)))
    | _ => None end
  else None.
