Require Import Coq.Strings.String.
From Verif Require Import Base.Prim Cbor.Codec Run.Wire Suit.Py gen.GenCache Cmd.ExtractModel gen.GenExtract.

(* A regular expression reaches the model as the finite set of names it fully matches (computed by the harness with
   Python's `re` over every text key of the hierarchy); null = the option was not given. *)
Definition as_pred (c : cbor) : option (option (bytes -> bool)) :=
  match c with
  | CSimple 22 => Some None
  | _ => match as_list_of as_bytes c with
         | Some l => Some (Some (fun k => str_in k l))
         | None => None
         end
  end.
Definition as_opt_bytes (c : cbor) : option (option bytes) :=
  match c with CSimple 22 => Some None | CBytes b => Some (Some b) | _ => None end.

Definition c_pair (p : bytes * bytes) : cbor := CArray [CBytes (fst p); CBytes (snd p)].
Definition c_extract (p : bytes * option bytes) : cbor :=
  CArray [CBytes (fst p); match snd p with Some b => CBytes b | None => CSimple 22 end].

Definition run (name : bytes) (args : list cbor) : option cbor :=
  (* "from_envelope" eb omit|null dep|null envelope : [cache file, output envelope] *)
  if is name "from_envelope" then
    match args with
    | [eb; omit; dep; data] =>
      match as_int eb, as_pred omit, as_pred dep, as_bytes data with
      | Some eb, Some omit, Some dep, Some data =>
          Some (reply c_pair (cache_create_from_envelope (S (length data)) eb omit dep data))
      | _, _, _, _ => None end
    | _ => None end
  (* "payload_extract" envelope name replace|null want_file : [output envelope, payload file|null] *)
  else if is name "payload_extract" then
    match args with
    | [data; nm; rep; wf] =>
      match as_bytes data, as_bytes nm, as_opt_bytes rep, as_bool wf with
      | Some data, Some nm, Some rep, Some wf => Some (reply c_extract (payload_extract data nm rep wf))
      | _, _, _, _ => None end
    | _ => None end
  else None.
