#!/bin/bash
# regenerate _CoqProject/Makefile and make the given targets (robust against concurrent edits of shared files)
cd /verif && python3 vlib/project.py >/dev/null && cd coq && coq_makefile -f _CoqProject -o Makefile >/dev/null && timeout 900 make "$@" 2>&1 | grep -v "^COQ\|^make" | head -40
