(* C08 — symbolic names and registry codes are in one-to-one correspondence.
   Statements only.  `types` is REGENERATED from the imported package (gen/GenTypes.v); `registry` is the
   hand-written specification side (spec/registry.json -> gen/GenSpec.v). *)
Require Import Coq.Strings.String.
From Verif Require Import Base.Prim Base.Str Cbor.Codec Suit.Py Suit.Ty Suit.Interp Suit.Tables gen.GenTypes gen.GenSpec.
Open Scope Z_scope.

(* 1. every key space of the tool (every enum / key-value table reachable from the envelope types): no two names
      share a code, no name occurs twice *)
Theorem tool_tables_bijective :
  forall n t tbl, In (n, t) types -> table_of t = Some tbl -> NoDup (map fst tbl) /\ NoDup (map snd tbl).
Proof. exact (all_tables_nodup types ltac:(vm_compute; reflexivity)). Qed.
Print Assumptions tool_tables_bijective.

(* 2. every key space of the registry is implemented by the named class with exactly the registered pairs *)
Theorem tool_tables_match_registry :
  forall sp cls closed ents, In (sp, cls, closed, ents) registry ->
  exists t tbl, lookup cls types = Some t /\ table_of t = Some tbl /\ forall n i, In (n, i) tbl <-> In (n, i) ents.
Proof. exact (registry_rows_match types registry ltac:(vm_compute; reflexivity)). Qed.
Print Assumptions tool_tables_match_registry.

(* 3. CBOR tags 107, 18, 96 mark the envelope, COSE_Sign1 and COSE_Encrypt *)
Theorem tags_match_registry : forallb (tag_ok types) registry_tags = true.
Proof. vm_compute. reflexivity. Qed.
Print Assumptions tags_match_registry.

(* 4. node level, for ANY table with distinct names and ids (hence, by 1, for every key space of the tool):
      name -> registered integer -> the same name, foreign names and unknown integers rejected *)
Theorem enum_name_id_name env hn H u5 fs jl jd sev sp sd tbl :
  NoDup (map fst tbl) -> NoDup (map snd tbl) -> (forall n i, In (n, i) tbl -> - 2 ^ 64 <= i < 2 ^ 64) ->
  forall n i f, In (n, i) tbl ->
      from_obj env hn H u5 fs jl jd sev sp sd (S f) (TEnum tbl) (CText n) = Ok (VRaw (CText n))
      /\ to_cbor env (S f) (TEnum tbl) (VRaw (CText n)) = Ok (ser (cint i))
      /\ from_cbor env jd (S f) (TEnum tbl) (ser (cint i)) = Ok (VRaw (CText n))
      /\ to_obj env (S f) (TEnum tbl) (VRaw (CText n)) = Ok (CText n).
Proof. exact (Tables.enum_name_id_name env hn H u5 fs jl jd sev sp sd tbl). Qed.
Print Assumptions enum_name_id_name.

Theorem enum_rejects_foreign env hn H u5 fs jl jd sev sp sd tbl n f :
  ~ In n (map fst tbl) -> from_obj env hn H u5 fs jl jd sev sp sd (S f) (TEnum tbl) (CText n) = Raise ValueError.
Proof. exact (Tables.enum_rejects_foreign env hn H u5 fs jl jd sev sp sd tbl n f). Qed.
Print Assumptions enum_rejects_foreign.

Theorem enum_rejects_unknown_id env jd tbl i f :
  - 2 ^ 64 <= i < 2 ^ 64 -> ~ In i (map snd tbl) -> from_cbor env jd (S f) (TEnum tbl) (ser (cint i)) = Raise ValueError.
Proof. exact (Tables.enum_rejects_unknown_id env jd tbl i f). Qed.
Print Assumptions enum_rejects_unknown_id.

Theorem kv_member_by_name env hn H u5 fs jl jd sev sp sd m emb :
  NoDup (map fst (map (fun e => (key_name e, key_id e)) m)) ->
  forall e x f, In e m ->
  exists idx, nth_error m idx = Some e /\
    from_obj env hn H u5 fs jl jd sev sp sd (S f) (TKeyValue m emb) (CMap [(CText (key_name e), x)]) =
    (let* y := from_obj env hn H u5 fs jl jd sev sp sd f (key_ty e) x in Ok (VKV [(idx, y)])).
Proof. exact (Tables.kv_member_by_name env hn H u5 fs jl jd sev sp sd m emb). Qed.
Print Assumptions kv_member_by_name.

Theorem kv_rejects_foreign env hn H u5 fs jl jd sev sp sd m emb n x rest f :
  ~ In n (map fst (map (fun e => (key_name e, key_id e)) m)) ->
  from_obj env hn H u5 fs jl jd sev sp sd (S f) (TKeyValue m emb) (CMap ((CText n, x) :: rest)) = Raise ValueError.
Proof. exact (Tables.kv_rejects_foreign env hn H u5 fs jl jd sev sp sd m emb n x rest f). Qed.
Print Assumptions kv_rejects_foreign.

Theorem kv_member_written_under_id env m emb e idx v b c f :
  nth_error m idx = Some e -> key_id e <> -1 -> key_id e <> -2 ->
  to_cbor env f (key_ty e) v = Ok b -> dec b = Ok c ->
  to_cbor env (S f) (TKeyValue m emb) (VKV [(idx, v)]) = Ok (ser (CMap [(cint (key_id e), c)])).
Proof. exact (Tables.kv_member_written_under_id env m emb e idx v b c f). Qed.
Print Assumptions kv_member_written_under_id.

Theorem kv_member_by_id env jd m emb :
  NoDup (map snd (map (fun e => (key_name e, key_id e)) m)) ->
  forall e x f, In e m -> - 2 ^ 64 <= key_id e < 2 ^ 64 ->
  exists idx, nth_error m idx = Some e /\
    forall b, dec b = Ok (CMap [(cint (key_id e), x)]) ->
    from_cbor env jd (S f) (TKeyValue m emb) b =
    (let* y := from_cbor env jd f (key_ty e) (ensure_cbor x) in Ok (VKV [(idx, y)])).
Proof. exact (Tables.kv_member_by_id env jd m emb). Qed.
Print Assumptions kv_member_by_id.

(* non-vacuity: the command key spaces are among the tables statement 1 speaks about, and a concrete name *)
Example directive_space_present :
  exists t tbl, lookup (s2b "SuitDirective") types = Some t /\ table_of t = Some tbl /\ In (s2b "suit-directive-fetch", 21) tbl.
Proof. eexists. eexists. split; [vm_compute; reflexivity|]. split; [reflexivity|]. vm_compute. tauto. Qed.
