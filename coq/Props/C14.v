(* C14 — every encryption uses a fresh IV.
   Statements about histories of the model REGENERATED from /repo/ncs/basic_kms.py (SuitKMS.encrypt: os.urandom(12) is
   one draw `urandom n 12` from the entropy state n), /repo/ncs/encrypt_script.py and /repo/suit_generator/cmd_encrypt.py.
   The entropy source, AES-GCM, the hash functions and the key store are universally quantified. *)
From Verif Require Import Base.Prim Base.PrimFacts Cbor.Codec Cbor.CodecFacts gen.GenEncrypt Cmd.Encrypt.

(* invocation number n draws exactly once (the state goes from n to n+1); the 12 drawn bytes are the nonce AES-GCM is
   called with and, read back from the written info file with the proved decoder, the published header 5 — no
   truncation, no transformation, no stored value *)
Theorem one_draw_published_verbatim
  (aesgcm_encrypt : bytes -> bytes -> bytes -> bytes -> bytes) (urandom : nat -> Z -> bytes)
  (hash : bytes -> Z -> bytes -> bytes) (key_file : bytes -> bytes) :
  (forall k n p a, blen (aesgcm_encrypt k n p a) = blen p + 16) ->
  (forall n k, 0 <= k -> blen (urandom n k) = k) ->
  forall n c files n',
  step aesgcm_encrypt urandom hash key_file n c = Ok (files, n') -> 0 <= c_kid c < 2 ^ 64 ->
  n' = S n
  /\ iv_of files = Some (urandom n 12)
  /\ exists tag ct, file_of f_content files = Some (tag ++ ct) /\ blen tag = 16
                    /\ ct ++ tag = aesgcm_encrypt (key_file (c_key c)) (urandom n 12) (c_pt c) aad_literal.
Proof. exact (Encrypt.one_draw aesgcm_encrypt urandom hash key_file). Qed.
Print Assumptions one_draw_published_verbatim.

(* every history (any length, same or different plaintexts / keys / key ids / digest algorithms): the entropy state
   advances by the number of invocations and invocation i behaves as above with draw number n + i *)
Theorem history_spec
  (aesgcm_encrypt : bytes -> bytes -> bytes -> bytes -> bytes) (urandom : nat -> Z -> bytes)
  (hash : bytes -> Z -> bytes -> bytes) (key_file : bytes -> bytes) :
  (forall k n p a, blen (aesgcm_encrypt k n p a) = blen p + 16) ->
  (forall n k, 0 <= k -> blen (urandom n k) = k) ->
  forall cs n outs n',
  run_history aesgcm_encrypt urandom hash key_file n cs = Ok (outs, n') -> Forall (fun c => 0 <= c_kid c < 2 ^ 64) cs ->
  n' = (n + length cs)%nat /\ hist_ok aesgcm_encrypt urandom key_file n cs outs.
Proof. exact (Encrypt.history_spec aesgcm_encrypt urandom hash key_file). Qed.
Print Assumptions history_spec.

(* the published IVs of a history are pairwise distinct whenever the entropy source does not repeat a 12-byte draw *)
Theorem ivs_distinct
  (aesgcm_encrypt : bytes -> bytes -> bytes -> bytes -> bytes) (urandom : nat -> Z -> bytes)
  (hash : bytes -> Z -> bytes -> bytes) (key_file : bytes -> bytes) :
  (forall k n p a, blen (aesgcm_encrypt k n p a) = blen p + 16) ->
  (forall n k, 0 <= k -> blen (urandom n k) = k) ->
  forall n cs outs n',
  (forall i j, urandom i 12 = urandom j 12 -> i = j) ->
  run_history aesgcm_encrypt urandom hash key_file n cs = Ok (outs, n') -> Forall (fun c => 0 <= c_kid c < 2 ^ 64) cs ->
  NoDup (map iv_of outs) /\ length outs = length cs /\ ~ In None (map iv_of outs).
Proof. exact (Encrypt.ivs_distinct aesgcm_encrypt urandom hash key_file). Qed.
Print Assumptions ivs_distinct.

(* non-vacuity: an injective entropy source of the right width exists, and a concrete history of three invocations
   (twice the same firmware, same key) is accepted and publishes three different IVs *)
Example premises_satisfiable :
  (forall k n p a, blen (toy_enc k n p a) = blen p + 16) /\ (forall n k, 0 <= k -> blen (toy_rnd n k) = k)
  /\ (forall i j, toy_rnd i 12 = toy_rnd j 12 -> i = j).
Proof. exact (conj toy_len (conj toy_rnd_len toy_rnd_inj)). Qed.
Example history_nonvacuous :
  let c1 := {| c_pt := [1; 2; 3]; c_key := [107; 49]; c_kid := 7; c_ctx := None; c_hash := a_sha256; c_kw := kw_direct |} in
  let c2 := {| c_pt := []; c_key := [107; 49]; c_kid := 4294967295; c_ctx := None; c_hash := a_shake256; c_kw := kw_direct |} in
  exists outs, run_history toy_enc toy_rnd toy_hash toy_key 10 [c1; c1; c2] = Ok (outs, 13%nat)
               /\ map iv_of outs = [Some (repeat 10 12); Some (repeat 11 12); Some (repeat 12 12)].
Proof. eexists. split; vm_compute; reflexivity. Qed.
