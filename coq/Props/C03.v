(* C03 — parse then create reproduces the envelope.
   Statements only.  Round-trip lemmas of the object model, constructor by constructor; the witnesses of the known
   findings (F4a3, F4b) as refutations computed on the model over the REGENERATED tables.  The induction that glues the
   constructor lemmas together over the whole grammar is proved for the DESCRIPTION level (describe_then_rebuild: what parse
   shows for a stable tree is read back by create as the same tree) and for the BYTE level (encode_then_parse: the bytes create
   writes for a byte-stable tree are parsed back into that tree), and both are chained (created_bytes_round_trip); the round
   trip of whole envelopes (digest steps, merged payload / text members) is decided by the differential check on every run. *)
Require Import Coq.Strings.String.
From Verif Require Import Base.Prim Base.Str Cbor.Codec Suit.Py Suit.PyFacts Suit.Ty Suit.Interp Suit.Tables Suit.Roundtrip Suit.Reparse Suit.Typed Suit.Stable Suit.ByteTrip Suit.Idem Cbor.CodecFacts gen.GenTypes.
Open Scope Z_scope.

Theorem int_roundtrip env jd c f g : normal c -> check_int c = true ->
  to_cbor env (S g) TInt (VRaw c) = Ok (ser c) /\ from_cbor env jd (S f) TInt (ser c) = Ok (VRaw c).
Proof. exact (Roundtrip.int_roundtrip env jd c f g). Qed.
Print Assumptions int_roundtrip.
Theorem uint_roundtrip env jd c f g : normal c -> check_uint c = true ->
  to_cbor env (S g) TUint (VRaw c) = Ok (ser c) /\ from_cbor env jd (S f) TUint (ser c) = Ok (VRaw c).
Proof. exact (Roundtrip.uint_roundtrip env jd c f g). Qed.
Print Assumptions uint_roundtrip.
Theorem bool_roundtrip env jd c f g : normal c -> is_none c || is_bool c = true ->
  to_cbor env (S g) TBool (VRaw c) = Ok (ser c) /\ from_cbor env jd (S f) TBool (ser c) = Ok (VRaw c).
Proof. exact (Roundtrip.bool_roundtrip env jd c f g). Qed.
Print Assumptions bool_roundtrip.
Theorem tstr_roundtrip env jd c f g : normal c -> is_none c || is_str c = true ->
  to_cbor env (S g) TTstr (VRaw c) = Ok (ser c) /\ from_cbor env jd (S f) TTstr (ser c) = Ok (VRaw c).
Proof. exact (Roundtrip.tstr_roundtrip env jd c f g). Qed.
Print Assumptions tstr_roundtrip.
Theorem null_roundtrip env jd f g :
  to_cbor env (S g) TNull (VRaw cnull) = Ok [246] /\ from_cbor env jd (S f) TNull [246] = Ok (VRaw cnull).
Proof. exact (Roundtrip.null_roundtrip env jd f g). Qed.
Print Assumptions null_roundtrip.
Theorem bstr_roundtrip env jd x f g : blen x < two64 ->
  to_cbor env (S g) THex (VRaw (CBytes x)) = Ok (ser (CBytes x))
  /\ dec (ser (CBytes x)) = Ok (CBytes x)
  /\ from_cbor env jd (S f) THex (ensure_cbor (CBytes x)) = Ok (VRaw (CBytes x))
  /\ from_cbor env jd (S f) TBstr (ensure_cbor (CBytes x)) = Ok (VRaw (CBytes x)).
Proof. exact (Roundtrip.bstr_roundtrip env jd x f g). Qed.
Print Assumptions bstr_roundtrip.
Theorem cbstr_roundtrip env jd t v b0 f g : to_cbor env g t v = Ok b0 -> blen b0 < two64 ->
  to_cbor env (S g) (TCbstr t) v = Ok (ser (CBytes b0))
  /\ dec (ser (CBytes b0)) = Ok (CBytes b0)
  /\ from_cbor env jd (S f) (TCbstr t) (ensure_cbor (CBytes b0)) = from_cbor env jd f t b0.
Proof. exact (Roundtrip.cbstr_roundtrip env jd t v b0 f g). Qed.
Print Assumptions cbstr_roundtrip.
Theorem tag_roundtrip env jd n name t v b c f g : to_cbor env g t v = Ok b -> dec b = Ok c -> normal (CTag n c) ->
  to_cbor env (S g) (TTag n name t) (VTagged v) = Ok (ser (CTag n c))
  /\ from_cbor env jd (S f) (TTag n name t) (ser (CTag n c)) = (let* y := from_cbor env jd f t (ser c) in Ok (VTagged y)).
Proof. exact (Roundtrip.tag_roundtrip env jd n name t v b c f g). Qed.
Print Assumptions tag_roundtrip.
Theorem wrong_tag_refused env jd n m name t c f : normal (CTag m c) -> m <> n ->
  from_cbor env jd (S f) (TTag n name t) (ser (CTag m c)) = Raise SUITError.
Proof. exact (Roundtrip.wrong_tag_refused env jd n m name t c f). Qed.
Print Assumptions wrong_tag_refused.
(* DESCRIPTION LEVEL, all node classes but the extended digest / encryption-info forms (which parse never produces): for every type table, budget, and
   every STABLE tree (well-typed; scalars of the right kind; byte strings of real bytes; named tuples whose member names are
   pairwise different, star-free except for a repeated last member "name*" whose prefix starts no other member name; key-value
   nodes with pairwise different member names; and at every union node the alternatives tried before the parsed one reject
   what is shown), reading back what is shown gives the same tree: nothing dropped, duplicated, reordered or re-typed.
   The trees on which the union premise fails are exactly the known findings F4a3 / F4b (refuted below on the model). *)
Theorem describe_then_rebuild env hn H u5 fs jl jd sev sp sd f t v o :
  st env hn H u5 fs jl jd sev sp sd t v -> to_obj env f t v = Ok o -> from_obj env hn H u5 fs jl jd sev sp sd f t o = Ok v.
Proof. exact (Reparse.describe_then_rebuild env hn H u5 fs jl jd sev sp sd f t v o). Qed.
Print Assumptions describe_then_rebuild.

(* envelope level: re-creating from the description parse shows serialises the parsed tree itself, after update_severable_digests
   and update_digest have recomputed the digests over it *)
Theorem parse_then_create env hn H u5 fs jl jd sev sprep sp sd f b o v :
  from_cbor env jd f (TRef (s2b "SuitEnvelopeTagged")) b = Ok v -> st env hn H u5 fs jl jd sev sp sd (TRef (s2b "SuitEnvelopeTagged")) v ->
  parse env jd f (s2b "SuitEnvelopeTagged") b = Ok o ->
  create env hn H u5 fs jl jd sev sprep sp sd f o
  = (let* e2 := apply_steps env hn H sev (fun t' v' => to_cbor env f t' v') (s2b "SuitEnvelopeTagged") sprep v in to_cbor env f (TRef (s2b "SuitEnvelopeTagged")) e2).
Proof. intros Hfc Hst Hp. exact (Reparse.parse_then_create env hn H u5 fs jl jd sev sp sd sprep f _ b o v Hfc Hst Hp eq_refl). Qed.
Print Assumptions parse_then_create.

(* BYTE LEVEL.  For every type table, budget and BYTE-STABLE tree (Suit/ByteTrip.v, bst: leaves hold normal values of the right
   kind, each known map key once, tuples with the number of members their member list allows, at a union node the alternatives
   tried before the encoded one reject the encoded bytes; not covered: merged payload / text members, bit fields with members):
   what the encoder writes is the serialisation of ONE normal item, the decoder accepts it, and the parser rebuilds exactly the
   tree that was encoded — no member dropped, duplicated, reordered or re-typed on the way through bytes. *)
Theorem encoder_output_decodes env jd f t v b : bst env jd t v -> to_cbor env f t v = Ok b -> exists c, normal c /\ dec b = Ok c /\ ser c = b.
Proof. exact (ByteTrip.encoder_output_decodes env jd f t v b). Qed.
Print Assumptions encoder_output_decodes.

Theorem encode_then_parse env jd f t v b :
  bst env jd t v -> to_cbor env f t v = Ok b -> (forall bb, b <> ser (CBytes bb)) -> from_cbor env jd f t b = Ok v.
Proof. exact (ByteTrip.encode_then_parse env jd f t v b). Qed.
Print Assumptions encode_then_parse.

(* the two levels chained — the statement of the property for one class of the grammar: bytes written by create for a tree that is
   stable at both levels are parsed, shown, read back and encoded again to THE SAME BYTES *)
Theorem created_bytes_round_trip env hn H u5 fs jl jd sev sp sd f t v b :
  bst env jd t v -> st env hn H u5 fs jl jd sev sp sd t v -> to_cbor env f t v = Ok b -> (forall bb, b <> ser (CBytes bb)) ->
  forall o, (let* v1 := from_cbor env jd f t b in to_obj env f t v1) = Ok o ->
  (let* v2 := from_obj env hn H u5 fs jl jd sev sp sd f t o in to_cbor env f t v2) = Ok b.
Proof.
  intros Hb Hs Hgo Hnb o Ho. rewrite (ByteTrip.encode_then_parse env jd f t v b Hb Hgo Hnb) in Ho. cbn [bind] in Ho.
  rewrite (Reparse.describe_then_rebuild env hn H u5 fs jl jd sev sp sd f t v o Hs Ho). cbn [bind]. exact Hgo.
Qed.
Print Assumptions created_bytes_round_trip.

(* non-vacuity: a digest tuple of the regenerated table is byte-stable; its encoding is parsed back *)
Example digest_tuple_byte_stable jd :
  bst types jd (TRef (s2b "SuitDigestRaw")) (VSeq [VRaw (CText (s2b "cose-alg-sha-256")); VRaw (CBytes [1; 2])])
  /\ (let* b := to_cbor types 6 (TRef (s2b "SuitDigestRaw")) (VSeq [VRaw (CText (s2b "cose-alg-sha-256")); VRaw (CBytes [1; 2])]) in
      from_cbor types jd 6 (TRef (s2b "SuitDigestRaw")) b) = Ok (VSeq [VRaw (CText (s2b "cose-alg-sha-256")); VRaw (CBytes [1; 2])]).
Proof.
  split; [|vm_compute; reflexivity].
  eapply b_ref; [vm_compute; reflexivity|]. apply b_tuple.
  - constructor.
    + cbn [map fst]. repeat constructor; cbn [In]; intuition discriminate.
    + vm_compute. reflexivity.
    + intros k ft Hl _. left. vm_compute in Hl. injection Hl as <- _. vm_compute. reflexivity.
  - split; [cbn; lia|]. split; [intros; reflexivity|discriminate].
  - reflexivity.
  - intros j x Hj. destruct j as [|[|j]]; cbn [nth_error] in Hj; try (destruct j; discriminate Hj); injection Hj as <-.
    + eexists. split; [vm_compute; reflexivity|]. eapply b_ref; [vm_compute; reflexivity|].
      apply (b_enum types jd _ _ (-16)).
      * vm_compute. auto.
      * cbn [map fst]. repeat constructor; cbn [In]; intuition discriminate.
      * cbn [map snd]. repeat constructor; cbn [In]; intuition discriminate.
      * intros n i Hin. cbn [In] in Hin. destruct Hin as [E|[E|[E|[E|[E|[]]]]]]; injection E as _ <-; lia.
    + eexists. split; [vm_compute; reflexivity|]. eapply b_ref; [vm_compute; reflexivity|]. apply b_hex. reflexivity.
Qed.

(* WHOLE ENVELOPES — the statement of the property.  create reads the description, recomputes the digests
   (update_severable_digests, then update_digest) and encodes; if the tree it encodes is stable at both levels, then for the
   bytes b it writes:  parse b shows a description o, and create o writes b AGAIN — byte for byte, digests included.
   Recomputing the digests of an envelope whose digests were just computed changes nothing (Suit/Idem.v), the parser rebuilds
   the encoded tree (Suit/ByteTrip.v), and what parse shows is read back as that tree (Suit/Reparse.v). *)
Theorem recomputing_digests_changes_nothing env hn H sev tc root e e2 :
  NoDup sev -> (forall sid, In sid sev -> sid <> 2 /\ sid <> 3) ->
  apply_steps env hn H sev tc root [1; 2] e = Ok e2 -> apply_steps env hn H sev tc root [1; 2] e2 = Ok e2.
Proof. intros Hnd Hsev. exact (Idem.apply_steps_idempotent env hn H sev Hnd Hsev tc root e e2). Qed.
Print Assumptions recomputing_digests_changes_nothing.

Theorem created_envelopes_round_trip env hn H u5 fs jl jd sev sp sd f desc b tg name t' :
  NoDup sev -> (forall sid, In sid sev -> sid <> 2 /\ sid <> 3) ->
  lookup (s2b "SuitEnvelopeTagged") env = Some (TTag tg name t') ->
  create env hn H u5 fs jl jd sev [1; 2] sp sd f desc = Ok b ->
  (* the tree that create encoded is stable at the byte level and at the description level *)
  (forall v0 v1, from_obj env hn H u5 fs jl jd sev sp sd f (TRef (s2b "SuitEnvelopeTagged")) desc = Ok v0 ->
                 apply_steps env hn H sev (fun t0 x => to_cbor env f t0 x) (s2b "SuitEnvelopeTagged") [1; 2] v0 = Ok v1 ->
                 bst env jd (TRef (s2b "SuitEnvelopeTagged")) v1 /\ st env hn H u5 fs jl jd sev sp sd (TRef (s2b "SuitEnvelopeTagged")) v1) ->
  forall o, parse env jd f (s2b "SuitEnvelopeTagged") b = Ok o ->
  create env hn H u5 fs jl jd sev [1; 2] sp sd f o = Ok b.
Proof.
  intros Hnd Hsev Hroot Hc Hstable o Hp. unfold create in Hc.
  destruct (from_obj env hn H u5 fs jl jd sev sp sd f (TRef (s2b "SuitEnvelopeTagged")) desc) as [v0|] eqn:E0; cbn [bind] in Hc; [|discriminate].
  destruct (apply_steps env hn H sev (fun t0 x => to_cbor env f t0 x) (s2b "SuitEnvelopeTagged") [1; 2] v0) as [v1|] eqn:E1; cbn [bind] in Hc; [|discriminate].
  destruct (Hstable v0 v1 eq_refl E1) as [Hb Hs].
  pose proof (ByteTrip.encode_then_parse env jd f _ v1 b Hb Hc (ByteTrip.tagged_not_bytes env jd f _ tg name t' v1 b Hroot Hb Hc)) as Hfc.
  rewrite (Reparse.parse_then_create env hn H u5 fs jl jd sev sp sd [1; 2] f _ b o v1 Hfc Hs Hp eq_refl).
  rewrite (Idem.apply_steps_idempotent env hn H sev Hnd Hsev _ _ v0 v1 E1). cbn [bind]. exact Hc.
Qed.
Print Assumptions created_envelopes_round_trip.

(* every tree the parser builds from a string of real bytes meets the SYNTACTIC conditions of stability (pst: scalars of the right
   kind, byte strings of real bytes, named tuples with the values their member list allows, no repeated members, pairwise different
   map keys) — for the regenerated table, whose well-formedness now includes the member-name conditions of named tuples and
   key-value nodes (checked by computation on every run).  What can keep a parsed tree from being re-read unchanged is therefore only
   an ambiguity premise at a union / header-map / payload-map / text-map node. *)
Theorem parsed_trees_are_syntactically_stable jd f t b v :
  Typed.wf types t = true -> bytes_ok b -> from_cbor types jd f t b = Ok v -> pst types t v.
Proof.
  intros Hwf Hb E. assert (Henv : env_wf types = true) by (vm_compute; reflexivity).
  pose proof (from_cbor_pst types jd Henv f t b Hwf Hb) as Hg. rewrite E in Hg. exact Hg.
Qed.
Print Assumptions parsed_trees_are_syntactically_stable.

(* non-vacuity: a digest tuple (enumerated algorithm name + bytes) of the regenerated table is stable, and is rebuilt *)
Example digest_tuple_stable hn H u5 fs jl jd sev sp sd :
  exists fields, lookup (s2b "SuitDigestRaw") types = Some (TTuple fields) /\ tuple_ok fields
    /\ from_obj types hn H u5 fs jl jd sev sp sd 6 (TRef (s2b "SuitDigestRaw"))
         (CMap [(CText (s2b "suit-digest-algorithm-id"), CText (s2b "cose-alg-sha-256")); (CText (s2b "suit-digest-bytes"), CText (s2b "0102"))])
       = Ok (VSeq [VRaw (CText (s2b "cose-alg-sha-256")); VRaw (CBytes [1; 2])]).
Proof.
  eexists. split; [vm_compute; reflexivity|]. split.
  - constructor.
    + cbn [map fst]. repeat constructor; cbn [In]; intuition discriminate.
    + vm_compute. reflexivity.
    + intros k ft Hl _. left. vm_compute in Hl. injection Hl as <- _. vm_compute. reflexivity.
  - vm_compute. reflexivity.
Qed.

(* names and integers of every key space round-trip (shared with C08) *)
Theorem enum_name_id_name env hn H u5 fs jl jd sev sp sd tbl :
  NoDup (map fst tbl) -> NoDup (map snd tbl) -> (forall n i, In (n, i) tbl -> - 2 ^ 64 <= i < 2 ^ 64) ->
  forall n i f, In (n, i) tbl ->
      from_obj env hn H u5 fs jl jd sev sp sd (S f) (TEnum tbl) (CText n) = Ok (VRaw (CText n))
      /\ to_cbor env (S f) (TEnum tbl) (VRaw (CText n)) = Ok (ser (cint i))
      /\ from_cbor env jd (S f) (TEnum tbl) (ser (cint i)) = Ok (VRaw (CText n))
      /\ to_obj env (S f) (TEnum tbl) (VRaw (CText n)) = Ok (CText n).
Proof. exact (Tables.enum_name_id_name env hn H u5 fs jl jd sev sp sd tbl). Qed.
Print Assumptions enum_name_id_name.

(* ---- the known findings, as refutations of the unrestricted statement, computed on the model ---- *)
Definition no_oracle_b (_ _ : bytes) : res bytes := Raise Unsupported.
Definition rt_bytes (cls : bytes) (d : cbor) : res (bytes * bytes) :=
  let fo := from_obj types [] no_oracle_b no_oracle_b (fun _ => None) (fun _ => Raise ValueError) (fun _ => Raise Unsupported) [] [] [] 60 (TRef cls) in
  let* v := fo d in
  let* b := to_cbor types 60 (TRef cls) v in
  let* v' := from_cbor types (fun _ => Raise Unsupported) 60 (TRef cls) b in
  let* d' := to_obj types 60 (TRef cls) v' in
  let* v'' := fo d' in
  let* b' := to_cbor types 60 (TRef cls) v'' in
  Ok (b, b').

(* F4a3: a component identifier whose only part is the single character "~" does not survive parse + create *)
Theorem roundtrip_refuted_single_char :
  exists d b b', rt_bytes (s2b "SuitComponentIdentifier") d = Ok (b, b') /\ b <> b'.
Proof.
  exists (CArray [CText (s2b "~")]). eexists. eexists. split; [vm_compute; reflexivity|]. discriminate.
Qed.
Print Assumptions roundtrip_refuted_single_char.

(* F4b: a part whose text encoding is 16 bytes keeps its bytes but is shown as a raw UUID *)
Theorem retyped_refuted_16_bytes :
  exists d v' shown,
    (let* v := from_obj types [] no_oracle_b no_oracle_b (fun _ => None) (fun _ => Raise ValueError) (fun _ => Raise Unsupported) [] [] [] 60
                 (TRef (s2b "SuitComponentIdentifier")) d in
     let* b := to_cbor types 60 (TRef (s2b "SuitComponentIdentifier")) v in
     from_cbor types (fun _ => Raise Unsupported) 60 (TRef (s2b "SuitComponentIdentifier")) b) = Ok v'
    /\ to_obj types 60 (TRef (s2b "SuitComponentIdentifier")) v' = Ok shown /\ shown <> d.
Proof.
  exists (CArray [CText (s2b "nRF54H20_cpuapp")]). eexists. eexists. split; [vm_compute; reflexivity|]. split; [vm_compute; reflexivity|]. discriminate.
Qed.
Print Assumptions retyped_refuted_16_bytes.

(* non-vacuity of the positive lemmas: a concrete sequence number round-trips *)
Example uint_roundtrip_instance : from_cbor types (fun _ => Raise Unsupported) 5 TUint (ser (CUint 65536)) = Ok (VRaw (CUint 65536)).
Proof. vm_compute. reflexivity. Qed.
