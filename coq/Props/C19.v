(* C19 — NCS templates yield consistent dependency wiring for every image set.
   Only statements, each closed by `exact` of a lemma of Cmd/Wiring.v.
   (1) wiring_ok_sound & corollaries: what the executable checker wiring_ok (Cmd/WiringModel.v) guarantees, for EVERY
       abstract manifest — it is the checker that the harness runs (extracted) on the independently decoded envelope
       of every configuration of the finite configuration space.
   (2) templates_wired / top_template_wired: the abstract manifests REGENERATED from the two templates
       (gen/GenWiring.v: rendered per image set by ncs/build.py's renderer with placeholders for names and child
       digests) pass the checker for all 7 non-empty image sets and ALL names, child digests and class-id functions. *)
From Verif Require Import Base.Prim Base.PrimFacts Cmd.WiringModel gen.GenWiring Cmd.Wiring.

(* cmd_ok m s c: command c is acceptable in the abstract execution state s (current component indices, uri and
   image-digest parameters per component, what each component was filled with by a fetch):
     set-component-index l : every index of l is a declared component;
     fetch                 : every current index is declared, has a uri in force, and a uri '#name' is the key of an
                             integrated dependency;
     image-match           : every current component has a digest in force; for a candidate-manifest component filled
                             by fetching '#name' it equals the digest of the manifest of the integrated dependency
                             of that name; for an installed-manifest component it is the manifest digest of an
                             integrated dependency whose own class id is that component's;
     dependency-integrity, process-dependency : every current index is a declared dependency. *)
Theorem wiring_ok_sound m e : wiring_ok m e = true ->
  (forall pre c post, shared m = pre ++ c :: post -> cmd_ok m (run (length (comps m)) st0 pre) c) /\
  (forall s pre c post, In s (seqs m) -> s = pre ++ c :: post ->
     cmd_ok m (run (length (comps m)) st0 (shared m ++ pre)) c) /\
  (forall d, In d (deps m) -> exists k, comp_at m d = Some k /\ is_mfst k = true) /\
  (forall c, In (InstldMfst c) (comps m) <-> In c (exp_installed e)) /\
  self_cid m = Some (exp_self e).
Proof. exact (Wiring.wiring_ok_sound m e). Qed.
Print Assumptions wiring_ok_sound.

(* clause 1, state-free: every index named by any set-component-index refers to a declared component *)
Theorem indices_declared m e : wiring_ok m e = true ->
  forall s l i, In s (shared m :: seqs m) -> In (SetIdx l) s -> In i l -> 0 <= i < blen (comps m).
Proof. exact (Wiring.indices_declared m e). Qed.
Print Assumptions indices_declared.

(* comp_at is ordinary list indexing *)
Theorem comp_at_nth m i k : comp_at m i = Some k <-> 0 <= i /\ nth_error (comps m) (Z.to_nat i) = Some k.
Proof. exact (Wiring.znth_spec (comps m) i k). Qed.
Print Assumptions comp_at_nth.

(* clause 3: every fetched '#name' has an integrated dependency of that name *)
Theorem fetched_integrated m e : wiring_ok m e = true ->
  forall s pre post i, In s (seqs m) -> s = pre ++ Fetch :: post ->
    In i (cur (run (length (comps m)) st0 (shared m ++ pre))) ->
    exists u, zlookup i (uris (run (length (comps m)) st0 (shared m ++ pre))) = Some u /\
              (is_hash u = true -> exists dg, In (u, dg) (integs m)).
Proof. exact (Wiring.fetched_integrated m e). Qed.
Print Assumptions fetched_integrated.

(* clause 4: the digest the parent verifies for a fetched '#name' is the digest of that dependency's manifest *)
Theorem verified_digest m e : wiring_ok m e = true ->
  forall s pre post i, In s (seqs m) -> s = pre ++ ImageMatch :: post ->
    In i (cur (run (length (comps m)) st0 (shared m ++ pre))) -> comp_at m i = Some CandMfst ->
    exists d u, zlookup i (digs (run (length (comps m)) st0 (shared m ++ pre))) = Some d /\
                zlookup i (fetched (run (length (comps m)) st0 (shared m ++ pre))) = Some u /\
                (is_hash u = true -> exists oc, lookup u (integs m) = Some (d, oc)).
Proof. exact (Wiring.verified_digest m e). Qed.
Print Assumptions verified_digest.

(* the regenerated root template model is wired for every non-empty image set, all six configured names, all child
   digests and child class ids, and every class-id function *)
Theorem templates_wired cidf r a t root_v root_c app_v app_c rad_v rad_c d_r d_a d_t c_r c_a c_t :
  r || a || t = true ->
  wiring_ok (root_model cidf r a t root_v root_c app_v app_c rad_v rad_c d_r d_a d_t c_r c_a c_t)
            (root_expect cidf r a t root_v root_c app_v app_c rad_v rad_c) = true.
Proof. exact (Wiring.root_wired cidf r a t root_v root_c app_v app_c rad_v rad_c d_r d_a d_t c_r c_a c_t). Qed.
Print Assumptions templates_wired.

(* the regenerated top template model is wired, provided sysctrl.suit is the envelope of the system-controller
   manifest (its own class id is the one of the installed component whose digest the top manifest checks) *)
Theorem top_template_wired cidf d_sec d_sys c_sec :
  wiring_ok (top_model cidf d_sec d_sys c_sec (Some (cidf n_nordic n_sys))) (top_expect cidf) = true.
Proof. exact (Wiring.top_wired cidf d_sec d_sys c_sec). Qed.
Print Assumptions top_template_wired.

(* non-vacuity: a two-component manifest that fetches '#a' and verifies the right digest passes; the same manifest
   with an out-of-range index, with a renamed integrated dependency, or with another digest does not *)
Definition ex_m (idx : Z) (key dg : bytes) : manifest_abs :=
  {| comps := [CandMfst; InstldMfst [1; 2]]; deps := [0; 1]; shared := [SetIdx [1]];
     seqs := [[SetIdx [idx]; DepIntegrity]; [SetIdx [0]; SetUri [35; 97]; SetDigest [7; 7]; Fetch; ImageMatch; ProcessDep]];
     integs := [(key, (dg, None))]; self_cid := Some [9] |}.
Definition ex_e : expect := {| exp_installed := [[1; 2]]; exp_self := [9] |}.
Example wiring_ok_nonvacuous :
  wiring_ok (ex_m 1 [35; 97] [7; 7]) ex_e = true /\ wiring_ok (ex_m 2 [35; 97] [7; 7]) ex_e = false
  /\ wiring_ok (ex_m 1 [35; 98] [7; 7]) ex_e = false /\ wiring_ok (ex_m 1 [35; 97] [7; 8]) ex_e = false.
Proof. vm_compute. repeat split; reflexivity. Qed.
