(* C01 — created envelopes carry correct manifest and severed-member digests.
   Statements only.  The tables (`types`, `severable_ids`, `steps_prepare`, `hash_table`) are REGENERATED from /repo;
   the interpreter (Suit/Interp.v) is hand-written and tied to the code by the correspondence check. *)
Require Import Coq.Strings.String.
From Verif Require Import Base.Prim Base.Str Cbor.Codec Suit.Py Suit.Ty Suit.Interp Suit.Tables Suit.Digest Suit.Typed Suit.TypedObj Suit.Payload Suit.Embed gen.GenTypes gen.GenSpec.
Open Scope Z_scope.

(* the order of calls in prepare_suit_data (and in the two other places that prepare an envelope) as extracted from
   the source: first the severable digests, then the manifest digest, then serialisation *)
Theorem update_order_in_source : steps_prepare = [1; 2] /\ steps_processed = [1; 2] /\ steps_digest_ext = [1; 2].
Proof. repeat split; reflexivity. Qed.
Print Assumptions update_order_in_source.

(* the list of severable members as extracted: exactly the five members of the property plus the legacy install key *)
Theorem severable_members_in_source : severable_ids = [23; 15; 16; 18; 20; 17].
Proof. reflexivity. Qed.
Print Assumptions severable_members_in_source.

(* the hash table of the tool: names, primitives and output lengths (SHAKE128 -> 16, SHAKE256 -> 32 bytes) *)
Theorem hash_table_ok : hash_table = registry_hash.
Proof. vm_compute. reflexivity. Qed.
Print Assumptions hash_table_ok.

Lemma severable_nodup : NoDup severable_ids.
Proof. apply nodup_Z_ok. vm_compute. reflexivity. Qed.
Lemma severable_not_2_3 : forall sid, In sid severable_ids -> sid <> 2 /\ sid <> 3.
Proof. intros sid Hin. cbn in Hin. repeat (destruct Hin as [<-|Hin]; [split; discriminate|]). destruct Hin. Qed.

(* MAIN STATEMENT, for every hash function H, every description o, every fuel: when create succeeds, the bytes written
   are the serialisation of an envelope object in which
   (a) the digest of the authentication wrapper is H(declared algorithm, serialisation of the manifest member under its
       envelope type cbstr(SuitManifest) — i.e. the byte-string-WRAPPED manifest of this same object), and
   (b) for every severable member that the manifest references by digest and that is present in the envelope, the
       recorded digest is H(declared algorithm, serialisation of that envelope member).
   A digest value supplied in the description does not occur in the statement: whatever it was, it has been replaced. *)
Theorem create_digests_correct H uuid5 fs jl jd fuel o out :
  create types (map fst hash_table) H uuid5 fs jl jd severable_ids steps_prepare steps_processed steps_digest_ext fuel o = Ok out ->
  let root := s2b "SuitEnvelopeTagged" in
  exists ents em mm ai ae mi me ments,
    to_cbor types fuel (TRef root) (VTagged (VKV ents)) = Ok out
    /\ envelope_map types root = Some em
    /\ find_idx (fun x => key_id x =? 2) em O = Some (ai, ae)
    /\ find_idx (fun x => key_id x =? 3) em O = Some (mi, me)
    /\ kv_get ents mi = Some (VKV ments) /\ map_of types (key_ty me) = Some mm
    /\ (exists j a blocks alg mb h,
           kv_get ents ai = Some (VSeq (VUnion j (VSeq [VRaw alg; VRaw (CBytes h)]) :: blocks)) /\ a = alg
           /\ to_cbor types fuel (key_ty me) (VKV ments) = Ok mb /\ hash_of (map fst hash_table) H alg mb = Ok h)
    /\ (forall sid si se ai' dv at_ ei ee ev, In sid severable_ids ->
           find_idx (fun x => key_id x =? sid) mm O = Some (si, se) ->
           kv_get ments si = Some (VUnion ai' dv) ->
           nth_error (alts_of types (key_ty se)) ai' = Some at_ -> is_ref at_ "SuitDigest" = true ->
           find_idx (fun x => key_id x =? sid) em O = Some (ei, ee) -> kv_get ents ei = Some ev ->
           exists j alg data h,
             dv = VUnion j (VSeq [VRaw alg; VRaw (CBytes h)])
             /\ to_cbor types fuel (key_ty ee) ev = Ok data /\ hash_of (map fst hash_table) H alg data = Ok h).
Proof.
  intros Hc.
  destruct (create_digests types (map fst hash_table) H uuid5 fs jl jd severable_ids steps_prepare steps_processed steps_digest_ext
              (proj1 update_order_in_source) severable_nodup severable_not_2_3 fuel o out Hc)
    as (ents & em & mm & ai & ae & mi & me & ments & H1 & H2 & H3 & H4 & H5 & H6 & H7 & H8 & _).
  exists ents, em, mm, ai, ae, mi, me, ments. repeat (split; [assumption|]). assumption.
Qed.
Print Assumptions create_digests_correct.

(* BYTE LEVEL: the bytes written are the serialisation of tag 107 over a map whose entry 3 is the deserialisation of
   exactly the bytes mb that were hashed into the authentication wrapper's digest (mb = serialisation of the manifest
   member under cbstr(SuitManifest) = the byte-string-wrapped manifest).  NO premise beyond `create ... = Ok out`: that the object's members have distinct table indices follows from the well-typedness of the
   tree built from the description (Suit/TypedObj.v), and that the maps merged from integrated payloads / dependencies carry no
   integer key is proved through the byte level (Suit/Payload.v, using the decoder facts of Cbor/DecodeSound.v). *)
Lemma envelope_root : lookup (s2b "SuitEnvelopeTagged") types = Some (TTag 107 (s2b "SUIT_Envelope_Tagged") (TRef (s2b "SuitEnvelope"))).
Proof. vm_compute. reflexivity. Qed.
Definition envelope_members_table : list (bytes * Z * ty) :=
  match lookup (s2b "SuitEnvelope") types with Some (TKeyValue m _) => m | _ => [] end.
Definition envelope_embedded : option (list Z) :=
  match lookup (s2b "SuitEnvelope") types with Some (TKeyValue _ e) => e | _ => None end.
Lemma envelope_table : lookup (s2b "SuitEnvelope") types = Some (TKeyValue envelope_members_table envelope_embedded).
Proof. vm_compute. reflexivity. Qed.
Lemma envelope_ids_distinct : NoDup (map key_id envelope_members_table).
Proof. apply nodup_Z_ok. vm_compute. reflexivity. Qed.

(* the regenerated type table is well formed (every referenced class exists, no bare list, '*' members only last): by
   computation on the table of this run; with it, every object tree built from a description is well-typed (Suit/TypedObj.v),
   in particular the member list of the envelope object has pairwise different indices *)
Lemma types_well_formed : env_wf types = true.
Proof. vm_compute. reflexivity. Qed.

Theorem created_trees_are_well_typed H uuid5 fs jl jd fuel t o v : wf types t = true ->
  from_obj types (map fst hash_table) H uuid5 fs jl jd severable_ids steps_processed steps_digest_ext fuel t o = Ok v -> wt types t v.
Proof.
  intros Hwf E. pose proof (from_obj_wt types (map fst hash_table) H uuid5 fs jl jd severable_ids steps_processed steps_digest_ext types_well_formed fuel t o Hwf) as Hw.
  rewrite E in Hw. exact Hw.
Qed.
Print Assumptions created_trees_are_well_typed.

(* the members carried under text keys (integrated payloads / dependencies) are maps from names to byte strings in the
   regenerated table: with Suit/Payload.v, what such a map deserialises to has no integer key, so merging it into the envelope
   map cannot overwrite a registered member (this was an explicit premise of the byte-level theorems before) *)
Lemma envelope_payload_members : forall e, In e envelope_members_table -> key_id e = -1 \/ key_id e = -2 ->
  exists pn tn hn, key_ty e = TRef pn /\ lookup pn types = Some (TPayloadMap (TRef tn) (TRef hn)) /\ lookup tn types = Some TTstr /\ lookup hn types = Some THex.
Proof.
  intros e Hin Hid. unfold envelope_members_table in Hin. vm_compute in Hin.
  repeat (destruct Hin as [<-|Hin];
    [cbn [key_id fst snd] in Hid;
     first [exfalso; destruct Hid as [Hid|Hid]; discriminate Hid
           |exists (s2b "SuitIntegratedPayloadMap"), (s2b "SuitTstr"), (s2b "SuitHex"); repeat split; vm_compute; reflexivity]|]).
  destruct Hin.
Qed.

Theorem digest_is_over_the_embedded_manifest H uuid5 fs jl jd fuel o out :
  create types (map fst hash_table) H uuid5 fs jl jd severable_ids steps_prepare steps_processed steps_digest_ext fuel o = Ok out ->
  exists ents ai j alg h blocks mb,
    to_cbor types fuel (TRef (s2b "SuitEnvelopeTagged")) (VTagged (VKV ents)) = Ok out
    /\ kv_get ents ai = Some (VSeq (VUnion j (VSeq [VRaw alg; VRaw (CBytes h)]) :: blocks))
    /\ hash_of (map fst hash_table) H alg mb = Ok h
    /\ (exists c data cm,
          dec mb = Ok c /\ dict_get data (cint 3) = Some c /\ dec (ser (CMap data)) = Ok cm /\ out = ser (CTag 107 cm)).
Proof.
  exact (create_digest_over_embedded_manifest types (map fst hash_table) H uuid5 fs jl jd severable_ids steps_prepare steps_processed steps_digest_ext
           (s2b "SuitEnvelope") (s2b "SUIT_Envelope_Tagged") 107 envelope_members_table envelope_embedded
           envelope_root envelope_table envelope_ids_distinct types_well_formed (proj1 update_order_in_source) severable_nodup severable_not_2_3 envelope_payload_members fuel o out).
Qed.
Print Assumptions digest_is_over_the_embedded_manifest.

Theorem severed_digests_are_over_the_embedded_members H uuid5 fs jl jd fuel o out :
  create types (map fst hash_table) H uuid5 fs jl jd severable_ids steps_prepare steps_processed steps_digest_ext fuel o = Ok out ->
  exists ents mm mi me ments,
    to_cbor types fuel (TRef (s2b "SuitEnvelopeTagged")) (VTagged (VKV ents)) = Ok out
    /\ find_idx (fun x => key_id x =? 3) envelope_members_table O = Some (mi, me) /\ kv_get ents mi = Some (VKV ments)
    /\ map_of types (key_ty me) = Some mm
    /\ forall sid si se ai' dv at_ ei ee ev, In sid severable_ids ->
         find_idx (fun x => key_id x =? sid) mm O = Some (si, se) -> kv_get ments si = Some (VUnion ai' dv) ->
         nth_error (alts_of types (key_ty se)) ai' = Some at_ -> is_ref at_ "SuitDigest" = true ->
         find_idx (fun x => key_id x =? sid) envelope_members_table O = Some (ei, ee) -> kv_get ents ei = Some ev -> sid <> -1 -> sid <> -2 ->
         exists j alg data h,
           dv = VUnion j (VSeq [VRaw alg; VRaw (CBytes h)]) /\ hash_of (map fst hash_table) H alg data = Ok h
           /\ (exists c dmap cm, dec data = Ok c /\ dict_get dmap (cint sid) = Some c /\ dec (ser (CMap dmap)) = Ok cm /\ out = ser (CTag 107 cm)).
Proof.
  exact (create_digests_over_embedded_members types (map fst hash_table) H uuid5 fs jl jd severable_ids steps_prepare steps_processed steps_digest_ext
           (s2b "SuitEnvelope") (s2b "SUIT_Envelope_Tagged") 107 envelope_members_table envelope_embedded
           envelope_root envelope_table envelope_ids_distinct types_well_formed (proj1 update_order_in_source) severable_nodup severable_not_2_3 envelope_payload_members fuel o out).
Qed.
Print Assumptions severed_digests_are_over_the_embedded_members.

(* the manifest member of the envelope is a cbstr node: what is hashed is exactly one byte-string layer around the
   manifest encoding, and the same for every severable envelope member *)
Theorem hashed_members_are_bstr_wrapped :
  forall em, envelope_map types (s2b "SuitEnvelopeTagged") = Some em ->
  forall e, In e em -> In (key_id e) [3; 15; 16; 18; 20; 17; 23] -> exists t, key_ty e = TCbstr t.
Proof.
  intros em Hem e Hin Hid. vm_compute in Hem. injection Hem as <-.
  cbn [In] in Hin. repeat (destruct Hin as [<-|Hin]; [cbn [key_id fst snd] in Hid; try (eexists; reflexivity); exfalso; cbn in Hid; intuition discriminate|]).
  destruct Hin.
Qed.
Print Assumptions hashed_members_are_bstr_wrapped.

Theorem cbstr_is_one_layer env f t v b :
  to_cbor env (S f) (TCbstr t) v = Ok b -> exists b0, to_cbor env f t v = Ok b0 /\ b = ser (CBytes b0).
Proof. exact (to_cbor_cbstr env f t v b). Qed.
Print Assumptions cbstr_is_one_layer.

(* a supplied digest value never survives *)
Theorem supplied_digest_overwritten j a old1 old2 h :
  digest_set (VUnion j (VSeq [a; old1])) h = digest_set (VUnion j (VSeq [a; old2])) h.
Proof. exact (digest_set_overwrites j a old1 old2 h). Qed.
Print Assumptions supplied_digest_overwritten.

(* non-vacuity: with a concrete hash function a concrete description with a severed, present payload-fetch is created *)
Example create_nonvacuous :
  let H (a d : bytes) : res bytes := Ok (firstn 4 (d ++ [0;0;0;0])) in
  let o := CMap [(CText (s2b "SUIT_Envelope_Tagged"), CMap [
     (CText (s2b "suit-authentication-wrapper"), CMap [(CText (s2b "SuitDigest"), CMap [(CText (s2b "suit-digest-algorithm-id"), CText (s2b "cose-alg-sha-256"))])]);
     (CText (s2b "suit-manifest"), CMap [(CText (s2b "suit-manifest-version"), CUint 1);
        (CText (s2b "suit-payload-fetch"), CMap [(CText (s2b "suit-digest-algorithm-id"), CText (s2b "cose-alg-sha-256")); (CText (s2b "suit-digest-bytes"), CText (s2b "00"))])]);
     (CText (s2b "suit-payload-fetch"), CArray [])])] in
  exists out, create types (map fst hash_table) H (fun _ _ => Raise Unsupported) (fun _ => None) (fun _ => Raise ValueError) (fun _ => Raise Unsupported)
                     severable_ids steps_prepare steps_processed steps_digest_ext 40 o = Ok out /\ blen out = 30.
Proof. vm_compute. eexists. split; reflexivity. Qed.
