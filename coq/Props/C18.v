(* C18 — output depends only on the inputs.
   Statements only.  (1) The model functions of create / parse are Gallina functions: equal inputs give equal outputs;
   what needs proof is what could make the IMPLEMENTATION differ between invocations: state kept on helper objects,
   module- or class-level state written by function bodies, the in-place fill of digests into the caller's description.
   (2) The history half (permuted / interleaved operations in one interpreter vs fresh interpreters, hash seeds, working
   directories, JSON vs YAML) exists only on the implementation side and is decided by the differential check. *)
Require Import Coq.Strings.String.
From Verif Require Import Base.Prim Base.Str Cbor.Codec Suit.Py Suit.Ty Suit.Interp Suit.Files Cmd.StateModel Cmd.State Cmd.StateSound gen.GenTypes gen.GenState.
Open Scope Z_scope.

(* every operation on a signer / encryptor / recursive signer / cache / envelope object writes each attribute before it
   reads it — on the read/write programs EXTRACTED from the source (calls inlined, branches intersected) *)
Notation reads_before_writes e := (fst (scan (snd (fst e)) 40%nat (snd e) [])).

Theorem no_stale_object_state : forallb (fun e => match reads_before_writes e with [] => true | _ => false end) entry_programs = true.
Proof. vm_compute. reflexivity. Qed.
Print Assumptions no_stale_object_state.

(* no function body stores into module-level or class-level state (type metadata is patched at import time only), none is memoised *)
Theorem no_shared_state_writers : shared_state_writers = [].
Proof. reflexivity. Qed.
Print Assumptions no_shared_state_writers.

(* no function body builds a set (the order of iteration over a set of strings depends on PYTHONHASHSEED): the encoders
   are order-preserving dict / list based *)
Theorem no_hash_order_dependence : set_constructions = [].
Proof. reflexivity. Qed.
Print Assumptions no_hash_order_dependence.

(* a straight-line run in which every read is preceded by a write of the same call observes nothing of the state that
   earlier calls left behind — for every value domain and every computation *)
Theorem call_state_independent V compute p s s' :
  definite p [] = true -> run V compute p O s [] = run V compute p O s' [].
Proof. exact (State.call_state_independent V compute p s s'). Qed.
Print Assumptions call_state_independent.

(* the scan is SOUND for all paths (Cmd/StateSound.v): every trace of every extracted entry program — any choice of branches,
   any number of loop iterations, calls inlined — observes nothing of the state that earlier calls left on the object *)
Theorem every_path_is_state_independent :
  forall e, In e entry_programs -> forall tr, trace (snd (fst e)) (snd e) tr ->
  forall V compute s s', run V compute tr O s [] = run V compute tr O s' [].
Proof. exact (all_clean_independent entry_programs 40 no_stale_object_state). Qed.
Print Assumptions every_path_is_state_independent.

(* non-vacuity: every extracted entry program has a trace, and at least one has a trace that reads *)
Example entry_programs_have_traces :
  forallb (fun e => match some_trace (snd (fst e)) 40 (snd e) with Some _ => true | None => false end) entry_programs = true.
Proof. vm_compute. reflexivity. Qed.

(* create fills digests into the caller's description in place: creating again from the filled description parses to the
   same digest object (the first alternative now accepts what the second one computed) — file form *)
Theorem filled_digest_reparses env hn H u5 fs jl jd sev sp sd f a p c h :
  str_in a hn = true -> fs p = Some c -> H a c = Ok h ->
  from_obj env hn H u5 fs jl jd sev sp sd (S f) TDigestExt (CMap [(kalg, CText a); (kbytes, CMap [(CText (s2b "file"), CText p)])]) =
  from_obj env hn H u5 fs jl jd sev sp sd f (TRef (s2b "SuitDigestRaw")) (CMap [(kalg, CText a); (kbytes, CText (hex_of_bytes h))]).
Proof. exact (Files.digest_from_file env hn H u5 fs jl jd sev sp sd f a p c h). Qed.
Print Assumptions filled_digest_reparses.

(* non-vacuity: the signer's entry program really contains reads (of attributes it has just written) *)
Example signer_program_reads :
  exists ms, find_method (s2b "sign_envelope") methods_Signer = Some ms /\ existsb (fun e => match e with R _ => true | _ => false end) ms = true.
Proof. eexists. split; [vm_compute; reflexivity|]. vm_compute. reflexivity. Qed.
