(* C15 — generated key pairs match and convert emits the exact public key.
   Only statements, each closed by `exact` of a lemma of Cmd/Convert.v about the model REGENERATED from
   /repo/suit_generator/cmd_convert.py (KeyConverter) and the data flow of /repo/suit_generator/cmd_keys.py
   (KeyGenerator.create_key_pair) in gen/GenConvert.v, plus non-vacuity examples.
   Specification side (Cmd/ConvertSpec.v): `parse_init` tokenises the body of a C array initialiser (white space
   insignificant, single commas between 0xHH literals, anything else — in particular a trailing comma — unparsable);
   `canonical data` = 0xHH,0xHH,...,0xHH.
   Key generation, PEM/DER (de)serialisation and the EdDSA raw encoding are library code: compared, not proved. *)
From Verif Require Import Base.Prim Base.PrimFacts Cmd.StrLemmas Cmd.ConvertSpec gen.GenConvert Cmd.Convert.

(* X || Y with both coordinates big-endian on exactly ceil(key_size/8) bytes, for EVERY point with coordinates below
   2^key_size (in particular coordinates with leading zero bytes): decoding the two halves gives back (x, y) *)
Theorem nist_fixed_width ks x y :
  0 <= ks -> 0 <= x < 2 ^ ks -> 0 <= y < 2 ^ ks ->
  exists out, public_key_data ks x y = Ok out
              /\ blen out = 2 * ((ks + 7) / 8)
              /\ unbe (firstn (Z.to_nat ((ks + 7) / 8)) out) 0 = x
              /\ unbe (skipn (Z.to_nat ((ks + 7) / 8)) out) 0 = y.
Proof. exact (Convert.nist_fixed_width ks x y). Qed.
Print Assumptions nist_fixed_width.

(* 64 / 96 / 132 bytes for P-256 / P-384 / P-521 *)
Theorem nist_lengths : 2 * ((256 + 7) / 8) = 64 /\ 2 * ((384 + 7) / 8) = 96 /\ 2 * ((521 + 7) / 8) = 132.
Proof. repeat split; reflexivity. Qed.
Print Assumptions nist_lengths.

(* fixed finding F3, the old behaviour: a width taken from bit_length gives 31 bytes for x = 2^247 on P-256 *)
Theorem bitlength_width_refuted :
  exists x, 0 <= x < 2 ^ 256 /\ (bit_length x + 7) / 8 = 31 /\ (256 + 7) / 8 = 32.
Proof. exact Convert.bitlength_width_refuted. Qed.
Print Assumptions bitlength_width_refuted.

(* for every non-empty byte list, every column count >= 1 and every white-space indentation the array text exists, is
   0xHH,0xHH,...,0xHH once white space is removed (so: no trailing comma, and the layout options change white space
   only), and the tokeniser returns exactly the bytes *)
Theorem format_parse self data :
  0 < _columns_count self -> ws (_indentation self) -> data <> [] -> Forall is_byte data ->
  exists out, prepare_array self data = Ok out /\ filter nonspace out = canonical data /\ parse_init out = Some data.
Proof. exact (Convert.format_parse self data). Qed.
Print Assumptions format_parse.

(* the hypotheses of format_parse are what the tool establishes: _validate accepts only columns >= 1 and an
   indentation count >= 0, and __init__ builds the indentation from tabs or spaces only *)
Theorem validated_options self self' :
  validate self = Ok self' -> self' = self /\ 0 < _columns_count self /\ 0 <= _indentation_count self.
Proof. exact (Convert.validate_ok self self'). Qed.
Print Assumptions validated_options.

Theorem indentation_is_white_space tab n s : make_indentation tab n = Ok s -> ws s.
Proof. exact (Convert.make_indentation_ws tab n s). Qed.
Print Assumptions indentation_is_white_space.

(* the length variable is initialised with sizeof(<array name>), optionally cast to the length type *)
Theorem length_is_sizeof self :
  _no_length self = false ->
  exists pre cast,
    prepare_length_variable self = Ok (pre ++ [32; 61; 32] ++ cast ++ sizeof_of (_array_name self) ++ [10])
    /\ (cast = [] \/ cast = [40] ++ _length_type self ++ [41; 32])
    /\ pre = [10] ++ (if _no_const self then [] else [99; 111; 110; 115; 116; 32]) ++ _length_type self ++ [32] ++ _length_name self.
Proof. exact (Convert.length_is_sizeof self). Qed.
Print Assumptions length_is_sizeof.

Theorem no_length_empty self : _no_length self = true -> prepare_length_variable self = Ok [].
Proof. exact (Convert.no_length_empty self). Qed.
Print Assumptions no_length_empty.

(* the file: header, `[const ]<type> <name>[] = {`, the array text, `};`, the length variable, footer *)
Theorem file_layout self data arr :
  prepare_array self data = Ok arr ->
  exists h l f,
    prepare_header self = Ok h /\ prepare_length_variable self = Ok l /\ prepare_footer self = Ok f
    /\ prepare_file_contents self data
       = Ok (h ++ ((if _no_const self then [] else [99; 111; 110; 115; 116; 32]) ++ _array_type self ++ [32] ++ _array_name self
                   ++ [91; 93; 32; 61; 32; 123; 10]) ++ arr ++ [125; 59; 10] ++ l ++ f).
Proof. exact (Convert.file_layout self data arr). Qed.
Print Assumptions file_layout.

(* keys, with the library abstract (arbitrary generate / public_of / private_bytes / public_bytes): the two files are
   <prefix>_priv.<enc> and <prefix>_pub.<enc>, they hold serialisations of ONE private key and of the public key derived
   from it; a ValueError of either serialisation is reported as GeneratorError *)
Theorem keys_pair priv pub opts generate public_of private_bytes public_bytes prefix ty enc po pbo files :
  create_key_pair priv pub opts generate public_of private_bytes public_bytes prefix ty enc po pbo = Ok files ->
  exists k a b, generate ty = Ok k /\ private_bytes k enc po = Ok a /\ public_bytes (public_of k) enc pbo = Ok b
                /\ files = [(prefix ++ [95; 112; 114; 105; 118; 46] ++ enc, a); (prefix ++ [95; 112; 117; 98; 46] ++ enc, b)].
Proof. exact (Convert.keys_pair priv pub opts generate public_of private_bytes public_bytes prefix ty enc po pbo files). Qed.
Print Assumptions keys_pair.

Theorem keys_unsupported priv pub opts generate public_of private_bytes public_bytes prefix ty enc po pbo k :
  generate ty = Ok k ->
  private_bytes k enc po = Raise ValueError \/ (exists a, private_bytes k enc po = Ok a) /\ public_bytes (public_of k) enc pbo = Raise ValueError ->
  create_key_pair priv pub opts generate public_of private_bytes public_bytes prefix ty enc po pbo = Raise GeneratorError.
Proof. exact (Convert.keys_unsupported priv pub opts generate public_of private_bytes public_bytes prefix ty enc po pbo k). Qed.
Print Assumptions keys_unsupported.

(* ---- non-vacuity ---- *)
(* P-256, x = 2^247 (leading zero byte), y = 2^256 - 1: 64 bytes *)
Example nist_fixed_width_nonvacuous :
  exists out, public_key_data 256 (2 ^ 247) (2 ^ 256 - 1) = Ok out /\ blen out = 64 /\ nth 0 out 9 = 0 /\ nth 1 out 9 = 128.
Proof. eexists. split; [vm_compute; reflexivity|]. repeat split; vm_compute; reflexivity. Qed.

(* three bytes, two columns, four spaces:  "    0x00, 0x01,\n    0xff\n" *)
Definition ex_self : conv :=
  {| _array_type := [117]; _array_name := [107]; _length_type := [115; 105; 122; 101; 95; 116]; _length_name := [110];
     _columns_count := 2; _no_length := false; _no_const := false; _indentation := [32; 32; 32; 32]; _indentation_count := 4;
     _header_contents := None; _footer_contents := None |}.
Example format_parse_nonvacuous :
  0 < _columns_count ex_self /\ ws (_indentation ex_self) /\ Forall is_byte [0; 1; 255]
  /\ prepare_array ex_self [0; 1; 255]
     = Ok [32; 32; 32; 32; 48; 120; 48; 48; 44; 32; 48; 120; 48; 49; 44; 10; 32; 32; 32; 32; 48; 120; 102; 102; 10]
  /\ validate ex_self = Ok ex_self /\ make_indentation false 4 = Ok (_indentation ex_self).
Proof. repeat split; try reflexivity; repeat constructor; unfold is_byte; lia. Qed.

Example length_nonvacuous :
  prepare_length_variable ex_self
  = Ok ([10; 99; 111; 110; 115; 116; 32; 115; 105; 122; 101; 95; 116; 32; 110] ++ [32; 61; 32] ++ sizeof_of [107] ++ [10]).
Proof. vm_compute. reflexivity. Qed.
