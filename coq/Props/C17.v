(* C17 — parsing untrusted bytes fails cleanly.
   Statements only, about the hand-written parser model (Suit/Interp.v from_cbor / to_obj), for EVERY byte string, every
   recursion budget and every type table (hence for the regenerated one). *)
Require Import Coq.Strings.String.
From Verif Require Import Base.Prim Base.Str Cbor.Codec Suit.Py Suit.Ty Suit.Interp Suit.Clean Suit.Typed gen.GenTypes.
Open Scope Z_scope.

(* the exceptions that may escape: the tool's input errors, or the model's own "budget exhausted" / "declined" / "external
   value needed" markers — never IndexError, TypeError, KeyError, AttributeError, a bare Exception, OSError, ... *)
Theorem internal_errors_are : forall e, internal e = false <-> (e = ValueError \/ e = SUITError \/ e = RecursionLimit \/ e = Unsupported \/ exists k a, e = Need k a).
Proof.
  intros e. split.
  - destruct e; cbn; intros H; try discriminate H; eauto 10.
  - intros [->|[->|[->|[->|(k & a & ->)]]]]; reflexivity.
Qed.
Print Assumptions internal_errors_are.

Theorem no_internal_error env json_dumps : (forall c, cleanR (json_dumps c)) ->
  forall fuel t b, cleanR (from_cbor env json_dumps fuel t b).
Proof. exact (from_cbor_clean env json_dumps). Qed.
Print Assumptions no_internal_error.

Theorem shown_description_total env f t v : cleanR (to_obj env f t v).
Proof. exact (to_obj_clean env f t v). Qed.
Print Assumptions shown_description_total.

Theorem parse_fails_cleanly env json_dumps : (forall c, cleanR (json_dumps c)) ->
  forall fuel root b, cleanR (parse env json_dumps fuel root b).
Proof. exact (parse_clean env json_dumps). Qed.
Print Assumptions parse_fails_cleanly.

(* FULL STRENGTH: the model never declines.  The regenerated type table is well formed (every referenced class exists, no
   bare list, a repeated '*' member only in last position) — a computation on the table regenerated from the code on this
   run — and for a well-formed table, parsing ANY byte string as ANY class of the table, with any budget, yields a
   description or raises ValueError / SUITError (or the budget is exhausted / the JSON oracle is asked): every tree the
   parser builds is well-typed (Suit/Typed.v, wt), and showing a well-typed tree cannot reach an unmodelled state. *)
Theorem regenerated_table_well_formed : env_wf types = true.
Proof. vm_compute. reflexivity. Qed.
Print Assumptions regenerated_table_well_formed.

Theorem strict_errors_are : forall e, strict e = true <-> (e = ValueError \/ e = SUITError \/ e = RecursionLimit \/ exists k a, e = Need k a).
Proof.
  intros e. split.
  - destruct e; cbn; intros H; try discriminate H; eauto 10.
  - intros [->|[->|[->|(k & a & ->)]]]; reflexivity.
Qed.
Print Assumptions strict_errors_are.

Theorem parsed_trees_are_well_typed json_dumps : (forall c, strictR (json_dumps c)) ->
  forall fuel t b v, wf types t = true -> from_cbor types json_dumps fuel t b = Ok v -> wt types t v.
Proof. intros Hjd fuel t b v Hwf E. exact (from_cbor_wt types json_dumps fuel t b v regenerated_table_well_formed Hjd Hwf E). Qed.
Print Assumptions parsed_trees_are_well_typed.

Theorem parse_never_declines json_dumps : (forall c, strictR (json_dumps c)) ->
  forall fuel root b, bound types root = true -> strictR (parse types json_dumps fuel root b).
Proof. exact (parse_strict types json_dumps regenerated_table_well_formed). Qed.
Print Assumptions parse_never_declines.

(* non-vacuity: the classes of the table are bound, e.g. the envelope root *)
Example envelope_root_bound : bound types (s2b "SuitEnvelopeTagged") = true.
Proof. vm_compute. reflexivity. Qed.

Theorem length_fields_validated_first b0 rest n :
  1 < b0 / 32 < 6 -> 23 < b0 mod 32 < 28 -> decode_cbor_length (b0 mod 32) rest = Some n -> blen (b0 :: rest) < n ->
  validate_cbor (b0 :: rest) = Raise ValueError /\ dec (b0 :: rest) = Raise ValueError.
Proof. exact (validate_rejects_inflated_length b0 rest n). Qed.
Print Assumptions length_fields_validated_first.

(* the model terminates by construction (structural recursion on the budget); the budget needed grows with the nesting
   depth of the input, not with anything else: a concrete deeply nested input exhausts a small budget *)
Example nesting_exhausts_budget :
  from_cbor types (fun _ => Raise Unsupported) 3 (TRef (s2b "SuitCommandSequence")) [130; 24; 32; 67; 130; 12; 0] = Raise RecursionLimit.
Proof. vm_compute. reflexivity. Qed.

(* non-vacuity: malformed inputs of the four F5 families are rejected with ValueError by the model *)
Example f5_tuple_too_short : from_cbor types (fun _ => Raise Unsupported) 30 (TRef (s2b "SuitDigestRaw")) [129; 47] = Raise ValueError.
Proof. vm_compute. reflexivity. Qed.
Example f5_bitfield_not_int : from_cbor types (fun _ => Raise Unsupported) 30 (TRef (s2b "SuitRepPolicy")) [96] = Raise ValueError.
Proof. vm_compute. reflexivity. Qed.
Example f5_unknown_key_no_embedded : from_cbor types (fun _ => Raise Unsupported) 30 (TRef (s2b "SuitCommon")) [161; 24; 99; 0] = Raise ValueError.
Proof. vm_compute. reflexivity. Qed.

(* F14 — the value-sharing / string-reference tags are refused by a scan of the item HEADS before the bytes reach the CBOR decoder
   (SuitObject.reject_sharing_tags, model Cbor/TagScan.v, compared with the implementation on every input of the malformed
   stream).  For every byte string the decoder model accepts — every head width, indefinite-length maps, trailing bytes — the scan
   accepts exactly when the decoded item carries none of the tags 25 / 28 / 29 / 256 outside its byte strings; it is one pass over
   the input (the length of the input is its fuel, one byte at least is consumed per round). *)
From Verif Require Cbor.CodecFacts Cbor.TagScan Cbor.TagScanFacts.
Theorem sharing_tags_rejected_before_decoding b c :
  Cbor.CodecFacts.bytes_ok b -> loads b = Some c -> Cbor.TagScan.scan_tags b = negb (Cbor.TagScan.has_share c).
Proof. exact (Cbor.TagScanFacts.scan_decides b c). Qed.
Print Assumptions sharing_tags_rejected_before_decoding.

(* non-vacuity: the F14 witness shape (shareable arrays with two references each, as a map KEY of the envelope), a tag number
   written with a 2-byte argument, a tag-looking byte pair inside a byte string, an ordinary envelope *)
Example scan_rejects_map_key_bomb :
  Cbor.TagScan.scan_tags [216; 107; 161; 130; 216; 28; 129; 0; 216; 28; 130; 216; 29; 0; 216; 29; 0; 0] = false.
Proof. vm_compute. reflexivity. Qed.
Example scan_rejects_wide_tag_head : Cbor.TagScan.scan_tags [129; 217; 0; 29; 0] = false.
Proof. vm_compute. reflexivity. Qed.
Example scan_skips_string_content : Cbor.TagScan.scan_tags [216; 107; 161; 2; 68; 216; 28; 216; 29] = true.
Proof. vm_compute. reflexivity. Qed.
Example scan_decides_non_vacuous :
  loads [216; 107; 161; 2; 216; 28; 129; 0] = Some (CTag 107 (CMap [(CUint 2, CTag 28 (CArray [CUint 0]))])) /\
  Cbor.TagScan.scan_tags [216; 107; 161; 2; 216; 28; 129; 0] = false.
Proof. vm_compute. split; reflexivity. Qed.
