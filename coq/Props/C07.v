(* C07 — boot storage images place each installed envelope intact in its role's slot.
   Only statements, each closed by `exact` of a lemma proved in Cmd/Storage.v about the model REGENERATED from
   /repo/suit_generator/cmd_image.py and envelope.py (gen/GenStorage.v: extracted tables, skeletons whose holes are
   translated by PyG) against the PINNED device ABI /verif/spec/storage_abi.json (gen/GenStorageAbi.v), over the memory-image
   model Base/Mem.v and the proved CBOR encoder.
   Inputs of the model that come from the tool's generic codec (compared on the implementation side, see vlib/c07.py):
   the re-encoded severed envelope and the encoded one-entry manifest {component-id}.  The class -> role assignments are an
   arbitrary table (their derivation is C13). *)
From Verif Require Import Base.Prim Base.PrimFacts Cbor.Codec Cbor.CodecFacts Base.Mem Base.MemFacts.
From Verif Require Import Cmd.StorageModel gen.GenStorage gen.GenStorageAbi Cmd.Storage.

(* layout_is_abi: the extracted tables, read as maps role -> (offset, size, domain), are the pinned ABI (both SoCs) *)
Theorem layout_is_abi :
  (forall r, lookup_slot r layout_nrf54h20 = lookup_slot r abi_layout_nrf54h20) /\
  (forall r, lookup_slot r layout_nrf9280 = lookup_slot r abi_layout_nrf9280).
Proof. exact (conj layout_is_abi_nrf54h20 layout_is_abi_nrf9280). Qed.
Print Assumptions layout_is_abi.

Theorem constants_are_abi :
  ((forall x, In x manifest_roles <-> In x abi_roles) /\ (forall x, In x manifest_domains <-> In x abi_domains)) /\
  envelope_slot_version = abi_slot_version /\
  (envelope_slot_version_key, envelope_slot_class_id_offset_key, envelope_slot_envelope_bstr_key) = abi_slot_keys /\
  ih_fill = abi_fill /\ domain_files = abi_files /\ same_names sever_names abi_stripped_members = true /\
  soc_layouts = [(default_soc, layout_nrf54h20); ([110; 114; 102; 57; 50; 56; 48], layout_nrf9280)].
Proof. exact (conj enums_are_abi slot_constants_are_abi). Qed.
Print Assumptions constants_are_abi.

(* layout_disjoint: for EVERY storage address two different slots of a layout share no address, and every slot lies
   inside the area of its domain; areas of different domains are disjoint (finite check on offsets + lifting) *)
Theorem layout_disjoint layout areas base :
  (layout = layout_nrf54h20 /\ areas = abi_areas_nrf54h20) \/ (layout = layout_nrf9280 /\ areas = abi_areas_nrf9280) ->
  (forall e1 e2 a, In e1 layout -> In e2 layout -> e1 <> e2 -> range base e1 a -> range base e2 a -> False) /\
  (forall e a, In e layout -> range base e a ->
     exists lo hi, zlookup (e_domain e) areas = Some (lo, hi) /\ base + lo <= a < base + hi) /\
  (forall d1 d2 lo1 hi1 lo2 hi2 a, zlookup d1 areas = Some (lo1, hi1) -> zlookup d2 areas = Some (lo2, hi2) -> d1 <> d2 ->
     base + lo1 <= a < base + hi1 -> base + lo2 <= a < base + hi2 -> False).
Proof.
  intros H. destruct layouts_checked as (A1 & A2 & A3 & _ & B1 & B2 & B3 & _).
  destruct H as [[-> ->]|[-> ->]]; (split; [|split]).
  - intros e1 e2 a. exact (slots_disjoint _ base e1 e2 a A1).
  - intros e a. exact (slot_in_area _ _ base e a A2).
  - intros d1 d2 lo1 hi1 lo2 hi2 a. exact (areas_disjoint _ d1 d2 lo1 hi1 lo2 hi2 base a A3 eq_refl).
  - intros e1 e2 a. exact (slots_disjoint _ base e1 e2 a B1).
  - intros e a. exact (slot_in_area _ _ base e a B2).
  - intros d1 d2 lo1 hi1 lo2 hi2 a. exact (areas_disjoint _ d1 d2 lo1 hi1 lo2 hi2 base a B3 eq_refl).
Qed.
Print Assumptions layout_disjoint.

(* slot_framing (1): what add_envelope stores under the role is encode {0: 1, 1: class-id offset, 2: envelope}; it fits the
   slot of the role found for the 16 bytes at that offset, the role was free *)
Theorem slot_framing layout st env mc st' :
  add_envelope layout st env (Some mc) = Ok st' -> exists role e, added layout st st' env mc role e.
Proof. exact (add_envelope_spec layout st env mc st'). Qed.
Print Assumptions slot_framing.

(* slot_framing (2): reading inside a placed slot gives the stored bytes, then 0xFF up to exactly the slot size *)
Theorem slot_padding base envs dom layout e stored :
  pairwise_apart layout = true -> fits layout envs -> In e layout -> selected dom e = true -> zlookup (e_role e) envs = Some stored ->
  forall i, 0 <= i < e_size e ->
    read_slots (placed base envs dom layout) (base + e_offset e + i) = if i <? blen stored then nth_error stored (Z.to_nat i) else Some 255.
Proof. exact (slot_read base envs dom layout e stored). Qed.
Print Assumptions slot_padding.

(* class_offset: for ANY position at which the searched pattern is found, the 16 bytes at the recorded offset inside the
   stored envelope are the class UUID of the component id [bstr .cbor "INSTLD_MFST", bstr uuid]; and the pattern is found in
   every envelope that contains that encoded entry *)
Theorem class_offset env uuid i :
  blen uuid = 16 -> ae_find env (component_id_manifest first_part uuid) = i -> i <> -1 ->
  ae_class_id env (ae_class_offset i) = uuid.
Proof. exact (Storage.class_offset env uuid i). Qed.
Print Assumptions class_offset.
Theorem component_id_found pre post uuid :
  ae_find (pre ++ slice_from (component_id_manifest first_part uuid) 1 ++ post) (component_id_manifest first_part uuid) <> -1.
Proof. exact (Storage.component_id_found pre post uuid). Qed.
Print Assumptions component_id_found.

(* placement: for a domain (or all), the image is exactly the union of address -> padded slot over the stored envelopes of
   that domain; no envelope of the domain: no image (no file) *)
Theorem placement layout st dom :
  pairwise_apart layout = true -> fits layout (envelopes st) ->
  let segs := placed (base_address st) (envelopes st) dom layout in
  exists o, as_intelhex layout st dom = MOk o /\
            match o with None => segs = [] | Some img => segs <> [] /\ forall a, get img a = read_slots segs a end.
Proof. exact (Storage.placement layout st dom). Qed.
Print Assumptions placement.

(* domain_separation: every byte of the image of domain d lies in a slot whose layout entry belongs to d *)
Theorem domain_separation layout st d a b :
  fits layout (envelopes st) -> read_slots (placed (base_address st) (envelopes st) (Some d) layout) a = Some b ->
  exists e, In e layout /\ e_domain e = d /\ range (base_address st) e a.
Proof. exact (image_within_domain layout st d a b). Qed.
Print Assumptions domain_separation.

(* rejections: each of the four causes raises GeneratorError in the add phase ... *)
Theorem rejections layout st env mc role e :
  add_envelope layout st env None = Raise GeneratorError /\
  (find_role st (ae_class_id env (ae_class_offset (ae_find env mc))) = None -> add_envelope layout st env (Some mc) = Raise GeneratorError) /\
  (find_role st (ae_class_id env (ae_class_offset (ae_find env mc))) = Some role -> zmember role (envelopes st) = true ->
     add_envelope layout st env (Some mc) = Raise GeneratorError) /\
  (find_role st (ae_class_id env (ae_class_offset (ae_find env mc))) = Some role -> lookup_slot role layout = Some e ->
     e_size e < blen (encode (spec_slot_item (ae_class_offset (ae_find env mc)) env)) ->
     add_envelope layout st env (Some mc) = Raise GeneratorError) /\
  (find_role st (ae_class_id env (ae_class_offset (ae_find env mc))) = Some role -> lookup_slot role layout = Some e ->
     zmember role (envelopes st) = false -> blen (encode (spec_slot_item (ae_class_offset (ae_find env mc)) env)) <= e_size e ->
     exists st', add_envelope layout st env (Some mc) = Ok st').
Proof.
  exact (conj (missing_component_id_rejected layout st env) (conj (unknown_class_rejected layout st env mc)
        (conj (duplicate_role_rejected layout st env mc role) (conj (oversize_rejected layout st env mc role e)
              (fitting_accepted layout st env mc role e))))).
Qed.
Print Assumptions rejections.

(* ... and the add phase precedes every write: an envelope rejected anywhere in the list => no file; all added => the write
   phase cannot fail and writes exactly one file per domain that has an envelope *)
Theorem rejected_writes_nothing soc base assign pre env mc post layout st1 e :
  str_lookup soc soc_layouts = Some layout ->
  add_all layout (mk_storage assign base []) pre = Ok st1 -> add_envelope layout st1 env mc = Raise e ->
  boot_files soc base assign (pre ++ (env, mc) :: post) = MRaise e.
Proof. exact (Storage.rejected_writes_nothing soc base assign pre env mc post layout st1 e). Qed.
Print Assumptions rejected_writes_nothing.

Theorem boot_spec soc layout base assign inputs :
  str_lookup soc soc_layouts = Some layout -> pairwise_apart layout = true -> nodup_z (map e_role layout) = true ->
  (exists e, add_all layout (mk_storage assign base []) inputs = Raise e /\ boot_files soc base assign inputs = MRaise e) \/
  (exists st files, add_all layout (mk_storage assign base []) inputs = Ok st /\ boot_files soc base assign inputs = MOk files /\
     forall name img, In (name, img) files ->
       exists n d, In (n, d) manifest_domains /\ zlookup d domain_files = Some name /\
                   placed base (envelopes st) (Some d) layout <> [] /\
                   forall a, get img a = read_slots (placed base (envelopes st) (Some d) layout) a).
Proof. exact (Storage.boot_spec soc layout base assign inputs). Qed.
Print Assumptions boot_spec.

(* stored_is_stripped_input, the part the model carries: sever removes exactly the extracted key list, which is the pinned
   list (constants_are_abi); that the remaining members re-encode byte-identically is decided on the implementation *)
Theorem stored_is_stripped_input_partial {A} (top : list (bytes * A)) :
  sever top = filter (fun kv => negb (str_in (fst kv) sever_names)) top /\
  (forall kv, In kv (sever top) <-> In kv top /\ str_in (fst kv) sever_names = false).
Proof. exact (sever_removes_exactly top). Qed.
Print Assumptions stored_is_stripped_input_partial.

(* ---------------------------------------------------------------- non-vacuity *)
Definition ex_uuid : bytes := [8; 193; 181; 153; 85; 232; 95; 188; 158; 118; 123; 194; 156; 225; 176; 77].
Definition ex_mc : bytes := component_id_manifest first_part ex_uuid.
(* a (fake) envelope that contains the component-id entry after 7 other bytes *)
Definition ex_env : bytes := [216; 107; 161; 3; 88; 40; 161] ++ slice_from ex_mc 1 ++ [1; 2; 3].

Example boot_nonvacuous :
  exists img, boot_files default_soc 4096 [(ex_uuid, 34)] [(ex_env, Some ex_mc)]
              = MOk [([115; 117; 105; 116; 95; 105; 110; 115; 116; 97; 108; 108; 101; 100; 95; 101; 110; 118; 101; 108; 111; 112; 101; 115; 95;
                       97; 112; 112; 108; 105; 99; 97; 116; 105; 111; 110; 95; 109; 101; 114; 103; 101; 100; 46; 104; 101; 120], img)]
              /\ ae_find ex_env ex_mc = 7 /\ ae_class_id ex_env 23 = ex_uuid
              /\ get img (4096 + 13312) = Some 163 /\ get img (4096 + 13312 + 3) = Some 1 /\ get img (4096 + 13312 + 4) = Some 23
              /\ get img (4096 + 13312 + 1023) = Some 255 /\ get img (4096 + 13312 + 1024) = None /\ get img (4096 + 13311) = None.
Proof. eexists. split; [vm_compute; reflexivity|]. vm_compute. repeat split. Qed.

Example rejections_nonvacuous :
  boot_files default_soc 0 [(ex_uuid, 34)] [(ex_env, Some ex_mc); (ex_env, Some ex_mc)] = MRaise GeneratorError /\
  boot_files default_soc 0 [] [(ex_env, Some ex_mc)] = MRaise GeneratorError /\
  boot_files default_soc 0 [(ex_uuid, 34)] [(ex_env, None)] = MRaise GeneratorError /\
  boot_files default_soc 0 [(ex_uuid, 34)] [(ex_env ++ repeat 0 1000, Some ex_mc)] = MRaise GeneratorError /\
  boot_files [120] 0 [(ex_uuid, 34)] [(ex_env, Some ex_mc)] = MRaise GeneratorError.
Proof. repeat split; vm_compute; reflexivity. Qed.
