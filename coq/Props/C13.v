(* C13 — vendor/class UUIDs are derived identically everywhere.
   Only statements, each closed by `exact` of a lemma of Cmd/UuidSites.v about the model REGENERATED from
   suit/manifest.py (SuitUUID.from_obj), cmd_mpi.py (MpiGenerator.generate), cmd_image.py (assign_role, _find_role,
   __init__, _get_role_assignments_from_kconfig, the role and default tables) and build_configuration/configuration.py.
   uuid5 and the uuid.NAMESPACE_* constants are abstract (universally quantified): the theorems hold for every
   function uuid5, in particular for RFC 4122 version-5 UUIDs. *)
From Verif Require Import Base.Prim Base.PrimFacts gen.GenUuidSites Cmd.UuidSites.

(* for every vendor and class name the three sites compute the same terms: closes by reflexivity exactly when the
   extracted call structures agree (a different namespace constant is a different `ns _`, a different nesting a
   different term) *)
Theorem three_sites_agree (uuid5 : bytes -> bytes -> bytes) (ns : nsname -> bytes) (vendor cls : bytes) :
  manifest_cid uuid5 ns vendor cls = uuid5 (uuid5 (ns NS_DNS) vendor) cls /\
  mpi_cid uuid5 ns vendor cls = uuid5 (uuid5 (ns NS_DNS) vendor) cls /\
  image_cid uuid5 ns vendor cls = uuid5 (uuid5 (ns NS_DNS) vendor) cls /\
  image_key uuid5 ns vendor cls = uuid5 (uuid5 (ns NS_DNS) vendor) cls /\
  manifest_vid uuid5 ns vendor = uuid5 (ns NS_DNS) vendor /\
  mpi_vid uuid5 ns vendor cls = uuid5 (ns NS_DNS) vendor /\
  image_vid uuid5 ns vendor cls = uuid5 (ns NS_DNS) vendor /\
  manifest_name_only uuid5 ns vendor = uuid5 (ns NS_DNS) vendor.
Proof. exact (UuidSites.three_sites_agree uuid5 ns vendor cls). Qed.
Print Assumptions three_sites_agree.

(* role assignments of an accepted build configuration: no pair has two roles; the envelope / MPI class id of each
   named pair is mapped to the role named for it, whatever the defaults say (the defaults are an arbitrary list);
   a class id that no named pair produces is mapped as without the configuration.  "uuid5 does not collide on the
   names involved" is the explicit premise of the second clause, and the premise `<>` of the third. *)
Theorem kconfig_roles (uuid5 : bytes -> bytes -> bytes) (ns : nsname -> bytes) cfg defaults entries :
  kconfig_assignments cfg = Ok entries ->
  NoDup (map pair_of entries) /\
  (forall e, In e entries ->
     (forall e', In e' entries -> cid uuid5 ns (e_vendor e') (e_class e') = cid uuid5 ns (e_vendor e) (e_class e) -> pair_of e' = pair_of e) ->
     find_role (storage_init uuid5 ns defaults entries) (manifest_cid uuid5 ns (e_vendor e) (e_class e)) = Some (e_role e) /\
     find_role (storage_init uuid5 ns defaults entries) (mpi_cid uuid5 ns (e_vendor e) (e_class e)) = Some (e_role e)) /\
  (forall v c, (forall e', In e' entries -> cid uuid5 ns (e_vendor e') (e_class e') <> cid uuid5 ns v c) ->
     find_role (storage_init uuid5 ns defaults entries) (manifest_cid uuid5 ns v c)
     = find_role (storage_init uuid5 ns defaults []) (manifest_cid uuid5 ns v c)).
Proof. exact (UuidSites.kconfig_roles uuid5 ns cfg defaults entries). Qed.
Print Assumptions kconfig_roles.

(* the entries of an accepted configuration are exactly the manifests named by ..._<M>_VENDOR_NAME keys, each with the
   string values of its two keys and the role of its name *)
Theorem kconfig_entries cfg entries :
  kconfig_assignments cfg = Ok entries ->
  (forall e, In e entries -> exists key m, In key (map fst cfg) /\ kc_match key = Some m /\ entry_of cfg m e) /\
  (forall key m, In key (map fst cfg) -> kc_match key = Some m -> exists e, In e entries /\ entry_of cfg m e).
Proof. exact (UuidSites.kconfig_entries cfg entries). Qed.
Print Assumptions kconfig_entries.

(* a configuration giving one pair to two roles is rejected; if it is otherwise well-formed, with GeneratorError *)
Theorem two_roles_rejected cfg k1 k2 m1 m2 v c r1 r2 :
  In k1 (map fst cfg) -> In k2 (map fst cfg) -> kc_match k1 = Some m1 -> kc_match k2 = Some m2 ->
  cfg_str cfg (kc_key3 m1) = Ok v -> cfg_str cfg (kc_key4 m1) = Ok c -> kc_role m1 = Ok r1 ->
  cfg_str cfg (kc_key3 m2) = Ok v -> cfg_str cfg (kc_key4 m2) = Ok c -> kc_role m2 = Ok r2 -> r1 <> r2 ->
  (forall out, kconfig_assignments cfg <> Ok out) /\
  ((forall key m, In key (map fst cfg) -> kc_match key = Some m -> exists e, entry_of cfg m e) ->
   kconfig_assignments cfg = Raise GeneratorError).
Proof. exact (UuidSites.two_roles_rejected cfg k1 k2 m1 m2 v c r1 r2). Qed.
Print Assumptions two_roles_rejected.

(* which keys name which role: SB_CONFIG_SUIT_MPI_ROOT_* -> APP_ROOT (0x20), _APP_LOCAL_1_* -> APP_LOCAL_1 (0x22),
   _RAD_LOCAL_1_* -> RAD_LOCAL_1 (0x31)   (finite: by computation) *)
Theorem kconfig_role_names :
  kc_match k_root_vendor = Some [82; 79; 79; 84] /\ kc_role [82; 79; 79; 84] = Ok 32 /\
  kc_match k_app_vendor = Some [65; 80; 80; 95; 76; 79; 67; 65; 76; 95; 49] /\ kc_role [65; 80; 80; 95; 76; 79; 67; 65; 76; 95; 49] = Ok 34 /\
  kc_match k_rad_vendor = Some [82; 65; 68; 95; 76; 79; 67; 65; 76; 95; 49] /\ kc_role [82; 65; 68; 95; 76; 79; 67; 65; 76; 95; 49] = Ok 49.
Proof. exact UuidSites.role_names. Qed.
Print Assumptions kconfig_role_names.

(* non-vacuity: a configuration file that re-assigns the default application pair to RAD_LOCAL_1 and names a new root
   is accepted with two entries; giving the same pair to ROOT and APP_LOCAL_1 is rejected with GeneratorError *)
Definition ex_text (second : bytes) : bytes :=
  (* SB_CONFIG_SUIT_MPI_ROOT_VENDOR_NAME="v"\nSB_CONFIG_SUIT_MPI_ROOT_CLASS_NAME="c"\n
     SB_CONFIG_SUIT_MPI_APP_LOCAL_1_VENDOR_NAME="v"\nSB_CONFIG_SUIT_MPI_APP_LOCAL_1_CLASS_NAME="<second>"\n *)
  k_root_vendor ++ [61; 34; 118; 34; 10] ++ kc_key4 [82; 79; 79; 84] ++ [61; 34; 99; 34; 10]
  ++ k_app_vendor ++ [61; 34; 118; 34; 10] ++ kc_key4 [65; 80; 80; 95; 76; 79; 67; 65; 76; 95; 49] ++ [61; 34] ++ second ++ [34; 10].
Example kconfig_nonvacuous :
  (let* cfg := bc_parse (ex_text [100]) in kconfig_assignments cfg) = Ok [([118], [99], 32); ([118], [100], 34)]
  /\ (let* cfg := bc_parse (ex_text [99]) in kconfig_assignments cfg) = Raise GeneratorError.
Proof. vm_compute. split; reflexivity. Qed.

(* F17 — configured names survive the configuration file: the reader's unescaping (regenerated: bc_unescape) undoes the escaping Kconfig
   applies when it writes a string value (a backslash in front of every backslash and double quote), for EVERY name *)
From Verif Require Cmd.KconfigEscape.
Theorem configured_names_survive_the_file : forall name, bc_unescape (Cmd.KconfigEscape.kc_escape name) = name.
Proof. exact Cmd.KconfigEscape.unescape_escape. Qed.
Print Assumptions configured_names_survive_the_file.
Example escaped_name_is_read_back :
  Cmd.KconfigEscape.kc_escape [109; 121; 34; 99; 92; 120] = [109; 121; 92; 34; 99; 92; 92; 120] /\
  bc_unescape [109; 121; 92; 34; 99; 92; 92; 120] = [109; 121; 34; 99; 92; 120].
Proof. vm_compute. split; reflexivity. Qed.
