(* C20 — version strings and default sequence numbers preserve release ordering.
   Only statements, each closed by `exact` of a lemma of Cmd/Version.v about the model REGENERATED from
   /repo/suit_generator/suit/manifest.py (SuitComponentVersion) and /repo/ncs/build.py (append_default_version_values)
   in gen/GenVersion.v, plus non-vacuity examples.

   Specification side (Cmd/VersionSpec.v): a version is (nums, pre) with nums a non-empty list of NON-EMPTY ASCII DIGIT STRINGS
   of any length (unbounded values, leading zeros allowed) and pre = None | Some (alpha|beta|rc, optional digit string);
   `print` writes N(.N)*[-label[.N]]; `semver_cmp` compares the numeric fields zero-padded, then alpha < beta < rc <
   release, then the pre-release number (absent = 0); `list_cmp` is the zero-padded element-wise comparison of
   integer lists; `f9_family v w` is the known finding F9 (different numeric arity, the shorter version is a
   pre-release, numeric parts equal after zero-padding). *)
From Verif Require Import Base.Prim Base.PrimFacts Cmd.StrLemmas Cmd.VersionModel Cmd.VersionSpec gen.GenVersion Cmd.Version.

(* outside the F9 family — in particular for equal arity, or when the version with fewer numeric fields is a release —
   both strings are accepted and semantic-version precedence IS the zero-padded comparison of the converted lists *)
Theorem version_order v w :
  wf v -> wf w -> f9_family v w = false ->
  exists a b, from_obj (print v) = Ok a /\ from_obj (print w) = Ok b /\ semver_cmp v w = list_cmp a b.
Proof. exact (Version.version_order v w). Qed.
Print Assumptions version_order.

Theorem equal_arity_not_f9 v w : length (nums v) = length (nums w) -> f9_family v w = false.
Proof. exact (Version.f9_equal_arity v w). Qed.
Print Assumptions equal_arity_not_f9.

Theorem shorter_release_not_f9 v w :
  (length (nums v) < length (nums w))%nat -> pre v = None -> f9_family v w = false /\ f9_family w v = false.
Proof. exact (Version.f9_shorter_release v w). Qed.
Print Assumptions shorter_release_not_f9.

(* what a printed version converts to: the field values, then the Enum value of the label, then the pre-release number;
   all the ordering needs from the extracted Enum values is: negative and increasing from alpha to rc *)
Theorem convert_print v : wf v -> from_obj (print v) = Ok (ints label_val v).
Proof. exact (Version.convert_print v). Qed.
Print Assumptions convert_print.

Theorem label_values_ordered : label_val Alpha < label_val Beta /\ label_val Beta < label_val Rc /\ label_val Rc < 0.
Proof. exact Version.label_vals_ordered. Qed.
Print Assumptions label_values_ordered.

(* N(.N)*-LABEL[.N] with a label other than alpha / beta / rc is rejected with ValueError *)
Theorem bad_label_rejected ns lab (on : option pystr) :
  ns <> [] -> Forall numeric ns -> cleanp lab -> isnumeric lab = false -> match on with Some n => numeric n | None => True end ->
  lab <> label_name Alpha -> lab <> label_name Beta -> lab <> label_name Rc ->
  from_obj (join [46] ns ++ 45 :: join [46] (lab :: match on with Some n => [n] | None => [] end)) = Raise ValueError.
Proof. exact (Version.bad_label_rejected ns lab on). Qed.
Print Assumptions bad_label_rejected.

(* in any string: a '.'/'-' separated part that is neither numeric nor a member of the Enum makes from_obj raise ValueError *)
Theorem bad_part_rejected s p :
  In p (split (replace_char s 45 46) 46) -> isnumeric p = false -> str_lookup p prerelease_table = None ->
  from_obj s = Raise ValueError.
Proof. exact (Version.bad_part_rejected s p). Qed.
Print Assumptions bad_part_rejected.

Theorem enum_members : map fst prerelease_table = [label_name Alpha; label_name Beta; label_name Rc].
Proof. exact Version.table_labels. Qed.
Print Assumptions enum_members.

(* known finding F9: 0-alpha and 0.0-alpha have equal precedence, their lists [0,-3] and [0,0,-3] do not compare equal *)
Theorem mixed_arity_refuted :
  exists v w a b, wf v /\ wf w /\ f9_family v w = true /\ from_obj (print v) = Ok a /\ from_obj (print w) = Ok b
                  /\ semver_cmp v w = Eq /\ list_cmp a b = Lt.
Proof. exact Version.mixed_arity_refuted. Qed.
Print Assumptions mixed_arity_refuted.

(* DEFAULT_SEQ_NUM = major*2^24 + minor*2^16 + patch*2^8 + tweak for whatever int() reads from the four fields
   (tweak absent = 0), hence strictly increasing in lexicographic (major, minor, patch, tweak) order when minor, patch and
   tweak are in 0..255; major is unbounded (and may even be negative) *)
Theorem seqnum_value M m p t a b c d :
  int_of_str M = Ok a -> int_of_str m = Ok b -> int_of_str p = Ok c -> tweak_val t d ->
  default_seq_num M m p t = Ok (a * 2 ^ 24 + b * 2 ^ 16 + c * 2 ^ 8 + d).
Proof. exact (Version.seqnum_value M m p t a b c d). Qed.
Print Assumptions seqnum_value.

Theorem seqnum_monotone M m p t a b c d M' m' p' t' a' b' c' d' s s' :
  int_of_str M = Ok a -> int_of_str m = Ok b -> int_of_str p = Ok c -> tweak_val t d ->
  int_of_str M' = Ok a' -> int_of_str m' = Ok b' -> int_of_str p' = Ok c' -> tweak_val t' d' ->
  0 <= b < 256 -> 0 <= c < 256 -> 0 <= d < 256 -> 0 <= b' < 256 -> 0 <= c' < 256 -> 0 <= d' < 256 ->
  lex_lt a b c d a' b' c' d' ->
  default_seq_num M m p t = Ok s -> default_seq_num M' m' p' t' = Ok s' -> s < s'.
Proof. exact (Version.seqnum_monotone M m p t a b c d M' m' p' t' a' b' c' d' s s'). Qed.
Print Assumptions seqnum_monotone.

Theorem scfw_seqnum_monotone M m p t a b c d M' m' p' t' a' b' c' d' s s' :
  int_of_str M = Ok a -> int_of_str m = Ok b -> int_of_str p = Ok c -> tweak_val t d ->
  int_of_str M' = Ok a' -> int_of_str m' = Ok b' -> int_of_str p' = Ok c' -> tweak_val t' d' ->
  0 <= b < 256 -> 0 <= c < 256 -> 0 <= d < 256 -> 0 <= b' < 256 -> 0 <= c' < 256 -> 0 <= d' < 256 ->
  lex_lt a b c d a' b' c' d' ->
  scfw_default_seq_num M m p t = Ok s -> scfw_default_seq_num M' m' p' t' = Ok s' -> s < s'.
Proof. exact (Version.scfw_seqnum_monotone M m p t a b c d M' m' p' t' a' b' c' d' s s'). Qed.
Print Assumptions scfw_seqnum_monotone.

(* digit strings are what int() reads as their decimal value *)
Theorem int_of_digit_string s : isnumeric s = true -> int_of_str s = Ok (int_of_digits s).
Proof. exact (StrLemmas.int_of_str_digits s). Qed.
Print Assumptions int_of_digit_string.

(* the default version string built from digit-string MAJOR/MINOR/PATCH and ANY EXTRAVERSION (absent, matching the
   regex, empty, or anything else) is accepted by the converter; its list starts with the three numeric fields *)
Theorem default_version_accepted M m p extra :
  numeric M -> numeric m -> numeric p ->
  exists tl, (let* s := default_version M m p extra in from_obj s) = Ok (three M m p ++ tl).
Proof. exact (Version.default_version_accepted M m p extra). Qed.
Print Assumptions default_version_accepted.

Theorem scfw_default_version_accepted M m p extra :
  numeric M -> numeric m -> numeric p ->
  exists tl, (let* s := scfw_default_version M m p extra in from_obj s) = Ok (three M m p ++ tl).
Proof. exact (Version.scfw_default_version_accepted M m p extra). Qed.
Print Assumptions scfw_default_version_accepted.

(* ---- non-vacuity ---- *)
(* 1.10.0-rc.2 vs 1.9.3 : well-formed, outside F9, precedence Gt, converted to [1;10;0;<rc>;2] and [1;9;3] *)
Definition ex_v := {| nums := [[49]; [49; 48]; [48]]; pre := Some (Rc, Some [50]) |}.
Definition ex_w := {| nums := [[49]; [57]; [51]]; pre := None |}.
Example version_order_nonvacuous :
  wf ex_v /\ wf ex_w /\ f9_family ex_v ex_w = false /\ semver_cmp ex_v ex_w = Gt
  /\ from_obj (print ex_v) = Ok [1; 10; 0; label_val Rc; 2] /\ from_obj (print ex_w) = Ok [1; 9; 3].
Proof. repeat split; try discriminate; repeat constructor. Qed.

(* different arity with the shorter one a release: 2.1 vs 2.1.0-beta *)
Example shorter_release_nonvacuous :
  let v := {| nums := [[50]; [49]]; pre := None |} in let w := {| nums := [[50]; [49]; [48]]; pre := Some (Beta, None) |} in
  wf v /\ wf w /\ f9_family v w = false /\ semver_cmp v w = Gt /\ list_cmp (ints label_val v) (ints label_val w) = Gt.
Proof. repeat split; try discriminate; repeat constructor. Qed.

Example bad_label_nonvacuous : from_obj [49; 46; 48; 45; 100; 101; 118] = Raise ValueError.   (* "1.0-dev" *)
Proof. vm_compute. reflexivity. Qed.

(* VERSION_MAJOR=1 MINOR=2 PATCHLEVEL=3 TWEAK=4 -> 0x01020304; 1.2.255+255 < 1.3.0 *)
Example seqnum_nonvacuous :
  default_seq_num [49] [50] [51] (Some [52]) = Ok 16909060
  /\ default_seq_num [49] [50] [50; 53; 53] (Some [50; 53; 53]) = Ok 16973823 /\ default_seq_num [49] [51] [48] None = Ok 16973824.
Proof. repeat split; vm_compute; reflexivity. Qed.

(* EXTRAVERSION "rc.12" -> "1.2.3-rc.12" -> [1;2;3;<rc>;12];  "foo" -> "1.2.3-alpha";  "" -> "1.2.3" *)
Example default_version_nonvacuous :
  default_version [49] [50] [51] (Some [114; 99; 46; 49; 50]) = Ok [49; 46; 50; 46; 51; 45; 114; 99; 46; 49; 50]
  /\ (let* s := default_version [49] [50] [51] (Some [114; 99; 46; 49; 50]) in from_obj s) = Ok [1; 2; 3; label_val Rc; 12]
  /\ (let* s := default_version [49] [50] [51] (Some [102; 111; 111]) in from_obj s) = Ok [1; 2; 3; label_val Alpha]
  /\ (let* s := default_version [49] [50] [51] (Some []) in from_obj s) = Ok [1; 2; 3].
Proof. repeat split; vm_compute; reflexivity. Qed.
