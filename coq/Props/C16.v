(* C16 — update-candidate info and DFU partition images describe the envelope file.
   Only statements, each closed by `exact` of a lemma proved in Cmd/ImageUpdate.v about the model REGENERATED from
   /repo/suit_generator/cmd_image.py (gen/GenImageUpdate.v: format string, magic constant, value order and struct packing
   by PyG; the two writers and create_files_for_update as skeletons with their argument expressions translated from the
   AST), over the memory-image model Base/Mem.v.  Spec side (by hand, Cmd/ImageUpdate.v): uci_bytes, u32. *)
From Verif Require Import Base.Prim Base.PrimFacts Base.Mem Base.MemFacts gen.GenImageUpdate Cmd.ImageUpdate.

(* uci_record: le32 0x55AA55AA ++ le32 1 ++ le32 addr ++ le32 size ++ zeros(8n), for every 32-bit address and size and
   every cache count (a negative count behaves as 0, as Python's list repetition does) *)
Theorem uci_record addr size n :
  u32 addr -> u32 size ->
  prepare_uci addr size n = Ok (le 4 1437226410 ++ le 4 1 ++ le 4 addr ++ le 4 size ++ repeat 0 (8 * Z.to_nat n)).
Proof. exact (ImageUpdate.uci_record addr size n). Qed.
Print Assumptions uci_record.

Example magic_is_55AA55AA : 1437226410 = 5 * 16^7 + 5 * 16^6 + 10 * 16^5 + 10 * 16^4 + 5 * 16^3 + 5 * 16^2 + 10 * 16 + 10
                            /\ le 4 1437226410 = [170; 85; 170; 85].
Proof. split; reflexivity. Qed.

(* the fields decode back (little-endian 32-bit at offsets 0, 4, 8, 12), the rest is zero *)
Theorem uci_fields magic regions addr size n :
  u32 magic -> u32 regions -> u32 addr -> u32 size ->
  let r := uci_bytes magic regions addr size n in
  blen r = 16 + 8 * Z.of_nat n /\
  unle (slice r 0 4) = magic /\ unle (slice r 4 8) = regions /\ unle (slice r 8 12) = addr /\ unle (slice r 12 16) = size /\
  slice_from r 16 = repeat 0 (8 * n).
Proof. exact (ImageUpdate.uci_fields magic regions addr size n). Qed.
Print Assumptions uci_fields.

(* a value >= 2^32 (or negative) => error *)
Theorem uci_overflow addr size n : ~ u32 addr \/ ~ u32 size -> prepare_uci addr size n = Raise StructError.
Proof. exact (ImageUpdate.uci_overflow addr size n). Qed.
Print Assumptions uci_overflow.

(* images: the storage image is exactly that record at the update-candidate-info address; the partition image is exactly
   the file's bytes starting at the partition address; the recorded size is the file's length *)
Theorem images file uci_addr part_addr n :
  u32 part_addr -> u32 (blen file) ->
  create_files_for_update (Some file) uci_addr part_addr n
    = Ok (frombytes mem_empty (uci_bytes 1437226410 1 part_addr (blen file) (Z.to_nat n)) uci_addr,
          frombytes mem_empty file part_addr).
Proof. exact (ImageUpdate.images file uci_addr part_addr n). Qed.
Print Assumptions images.

Theorem images_read file uci_addr part_addr n st pt :
  u32 part_addr -> u32 (blen file) ->
  create_files_for_update (Some file) uci_addr part_addr n = Ok (st, pt) ->
  let r := uci_bytes 1437226410 1 part_addr (blen file) (Z.to_nat n) in
  (forall a, get st a = if (uci_addr <=? a) && (a <? uci_addr + blen r) then nth_error r (Z.to_nat (a - uci_addr)) else None) /\
  (forall a, get pt a = if (part_addr <=? a) && (a <? part_addr + blen file) then nth_error file (Z.to_nat (a - part_addr)) else None).
Proof. exact (ImageUpdate.images_read file uci_addr part_addr n st pt). Qed.
Print Assumptions images_read.

Theorem missing_file_rejected uci_addr part_addr n : create_files_for_update None uci_addr part_addr n = Raise GeneratorError.
Proof. exact (ImageUpdate.missing_file_rejected uci_addr part_addr n). Qed.
Print Assumptions missing_file_rejected.

Theorem overflow_rejected file uci_addr part_addr n :
  ~ u32 part_addr \/ ~ u32 (blen file) -> create_files_for_update (Some file) uci_addr part_addr n = Raise StructError.
Proof. exact (ImageUpdate.overflow_rejected file uci_addr part_addr n). Qed.
Print Assumptions overflow_rejected.

(* non-vacuity: a 5-byte envelope at 0x0E100000 with 2 caches; the record sits at 0x0E1EF340 *)
Example images_nonvacuous :
  exists st pt, create_files_for_update (Some [216; 107; 162; 2; 3]) 236909376 235929600 2 = Ok (st, pt)
    /\ get st 236909376 = Some 170 /\ get st (236909376 + 8) = Some 0 /\ get st (236909376 + 10) = Some 16 /\ get st (236909376 + 11) = Some 14
    /\ get st (236909376 + 12) = Some 5 /\ get st (236909376 + 31) = Some 0 /\ get st (236909376 + 32) = None
    /\ get pt 235929600 = Some 216 /\ get pt (235929600 + 4) = Some 3 /\ get pt (235929600 + 5) = None.
Proof. eexists. eexists. split; [vm_compute; reflexivity|]. vm_compute. repeat split. Qed.
