(* C04 — signing attaches a verifiable COSE_Sign1 and changes nothing else.
   Only statements, each closed by `exact` of a lemma proved in Cmd/Sign.v about the model REGENERATED from /repo/ncs/sign_script.py,
   /repo/ncs/basic_kms.py and /repo/suit_generator/cmd_sign.py (gen/GenSign.v), plus non-vacuity examples.  The specification side
   (Sig_structure, COSE_Sign1, protected header, algorithm identifiers, COSE verifier) is Cmd/SignModel.v, written from RFC 9052 / 9053.
   The key store and the three signature primitives (ECDSA, Ed25519, Ed25519ph) are universally quantified functions; what is assumed
   about them appears as a premise of the theorem that uses it. *)
Require Import Coq.Strings.String.
From Verif Require Import Base.Prim Base.PrimFacts Base.Str Cbor.Codec Cbor.CodecFacts Suit.Py Cmd.SignPrim gen.GenSign gen.GenSpec Cmd.Sign.

(* For every envelope #6.t({.. 2: bstr w ..}) whose wrapper w holds a list `old` of byte strings none of which is a COSE_Sign1, every
   one of the five algorithms, every key identifier 0 <= kid < 2^64, every key name, context and already-signed action: if signing
   succeeds, the result is the SAME tagged map — same tag, same keys in the same order, every entry other than the one under key 2
   identical (same_but_wrapper) — whose wrapper is the encoding of old ++ [exactly one new byte string], the new element being
   #6.18([bstr protected, {}, nil, bstr signature]) with protected = {1: registered algorithm id, 4: bstr .cbor kid} *)
Theorem sign_appends_one keystore ecdsa eddsa eddsa_ph ent t kvs w old kn kid alg ctx action id env' ent' :
  unsigned_input kvs w old -> spec_cose_alg alg = Some id -> 0 <= kid < 2 ^ 64 ->
  sign_envelope keystore ecdsa eddsa eddsa_ph ent (CTag t (CMap kvs)) kn kid alg ctx action = Ok (env', ent') ->
  exists sig, same_but_wrapper (CTag t (CMap kvs)) env' w
                (encode (CArray (old ++ [CBytes (encode (cose_sign1 (encode (spec_protected id kid)) sig))]))).
Proof. exact (c04_appends_one keystore ecdsa eddsa eddsa_ph ent t kvs w old kn kid alg ctx action id env' ent'). Qed.
Print Assumptions sign_appends_one.

(* ... hence, at the level of files: for a deterministically encoded input file (the image of create) the output FILE of
   `sign single-level` is the input file with the bytes of the wrapper value replaced and not one other byte touched; inside the new
   wrapper the old elements (the digest first) are byte-identical *)
Theorem output_file_frame keystore ecdsa eddsa eddsa_ph ent c t kvs w old kn kid alg ctx action id outfile ent' :
  wf c -> pynormal c -> c = CTag t (CMap kvs) ->
  unsigned_input kvs w old -> spec_cose_alg alg = Some id -> 0 <= kid < 2 ^ 64 ->
  cli_sign_single keystore ecdsa eddsa eddsa_ph ent (encode c) kn kid alg ctx action = Ok (outfile, ent') ->
  exists A B sig, encode c = A ++ encode (CBytes w) ++ B
                  /\ outfile = A ++ encode (CBytes (encode (CArray (old ++ [CBytes (encode (cose_sign1 (encode (spec_protected id kid)) sig))])))) ++ B.
Proof. exact (c04_file_frame keystore ecdsa eddsa eddsa_ph ent c t kvs w old kn kid alg ctx action id outfile ent'). Qed.
Print Assumptions output_file_frame.

(* the protected header carries the matching COSE algorithm: the identifiers of the specification side are those of the hand-written
   registry (/verif/spec/registry.json: -7 / -35 / -36 / -8 / -65537), as are the wrapper key 2, header labels 1 and 4 and tag 18;
   the tool's own enum tables lead to the same identifiers (cose_alg_table, used by every theorem of this file) *)
Theorem protected_header :
  forallb (fun alg => match spec_cose_alg alg, registry_lookup (s2b "cose-algorithms") (registry_name alg) with
                      | Some a, Some b => a =? b | _, _ => false end) five_algs = true
  /\ registry_lookup (s2b "envelope") (s2b "suit-authentication-wrapper") = Some wrapper_key
  /\ registry_lookup (s2b "cose-header") (s2b "suit-cose-algorithm-id") = Some 1
  /\ registry_lookup (s2b "cose-header") (s2b "suit-cose-key-id") = Some 4
  /\ str_lookup (s2b "CoseSign1Tagged") registry_tags = Some sign1_tag
  /\ forall id kid, spec_protected id kid = CMap [(CUint 1, cint id); (CUint 4, CBytes (encode (CUint kid)))].
Proof. exact (conj spec_cose_alg_registry (conj (proj1 registry_constants) (conj (proj1 (proj2 registry_constants))
         (conj (proj1 (proj2 (proj2 registry_constants))) (conj (proj2 (proj2 (proj2 registry_constants))) (fun id kid => eq_refl)))))). Qed.
Print Assumptions protected_header.
Theorem tool_tables_give_registered_id alg id :
  spec_cose_alg alg = Some id ->
  exists name, enum_name list_eqb sign_algs alg = Some name /\ enum_by_name cose_sign_algs (s2b "COSE_ALG_" ++ name) = Ok id.
Proof. exact (cose_alg_table alg id). Qed.
Print Assumptions tool_tables_give_registered_id.

(* the message handed to the KMS is encode ["Signature1", protected, h'', payload] (RFC 9052 4.4) for the protected header OF THE
   APPENDED BLOCK and payload = the re-serialised first element of the wrapper (the digest); the key found under the key name has a
   class matching the algorithm; and the signature of the appended block verifies under the public half of that key with the COSE
   verifier of the specification side (ECDSA: r || s split at ceil(ks/8)), given the law verify (pub k) m (sign k m) = true of each primitive *)
Theorem sig_structure_verifies keystore ecdsa eddsa eddsa_ph (pub : bytes -> bytes) ecdsa_verify eddsa_verify eddsa_ph_verify
    ent t kvs w old kn kid alg ctx action id env' ent' :
  (forall k h m n, ecdsa_verify (pub k) h m (ecdsa k h m n) = true) ->
  (forall k m, eddsa_verify (pub k) m (eddsa k m) = true) ->
  (forall k m, eddsa_ph_verify (pub k) m (eddsa_ph k m) = true) ->
  unsigned_input kvs w old -> spec_cose_alg alg = Some id -> 0 <= kid < 2 ^ 64 ->
  sign_envelope keystore ecdsa eddsa eddsa_ph ent (CTag t (CMap kvs)) kn kid alg ctx action = Ok (env', ent') ->
  exists d0 rest dg sig kind key,
    old = CBytes d0 :: rest /\ py_loads (CBytes d0) = Ok dg /\ keystore ctx kn = Some (kind, key)
    /\ (match kind with KEc ks => 0 <= ks | _ => True end -> spec_key_matches kind alg = true)
    /\ same_but_wrapper (CTag t (CMap kvs)) env' w (encode (CArray (old ++ [CBytes (encode (cose_sign1 (encode (spec_protected id kid)) sig))])))
    /\ cose_verify ecdsa_verify eddsa_verify eddsa_ph_verify kind (pub key) alg
         (encode (sig_structure (encode (spec_protected id kid)) (ser dg))) sig = true.
Proof. exact (c04_sig_structure keystore ecdsa eddsa eddsa_ph pub ecdsa_verify eddsa_verify eddsa_ph_verify ent t kvs w old kn kid alg ctx action id env' ent'). Qed.
Print Assumptions sig_structure_verifies.

(* ... and when the digest element is a deterministically encoded item (SUIT_Digest = [algorithm id, bytes] is), that payload is
   the digest element itself, byte for byte *)
Theorem digest_element_is_the_payload c : wf c -> pynormal c -> py_loads (CBytes (encode c)) = Ok c /\ ser c = encode c.
Proof. exact (digest_is_payload c). Qed.
Print Assumptions digest_element_is_the_payload.
Theorem suit_digest_is_deterministic a h :
  - 2 ^ 64 <= a < 2 ^ 64 -> blen h < 2 ^ 64 -> wf (CArray [cint a; CBytes h]) /\ pynormal (CArray [cint a; CBytes h]).
Proof. exact (suit_digest_normal a h). Qed.
Print Assumptions suit_digest_is_deterministic.

(* ECDSA signatures are fixed-width r || s: for EVERY r, s below 2^(8 * ceil(ks/8)) — in particular every r, s below the group order
   < 2^ks, leading zero bytes or not — the emitted string has 2 * ceil(ks/8) bytes and splits back into (r, s) *)
Theorem ecdsa_fixed_width ks r s :
  0 <= ks -> 0 <= r < 2 ^ (8 * ceil_div ks 8) -> 0 <= s < 2 ^ (8 * ceil_div ks 8) ->
  exists out, es_signature_bytes ks r s = Ok out /\ blen out = 2 * ceil_div ks 8
              /\ unbe (firstn (Z.to_nat (ceil_div ks 8)) out) 0 = r /\ unbe (skipn (Z.to_nat (ceil_div ks 8)) out) 0 = s.
Proof. exact (es_fixed_width ks r s). Qed.
Print Assumptions ecdsa_fixed_width.
Theorem group_elements_fit ks : 0 <= ks -> 2 ^ ks <= 256 ^ ceil_div ks 8.
Proof. exact (pow_ceil_width ks). Qed.
Print Assumptions group_elements_fit.
Example widths : ceil_div 256 8 = 32 /\ ceil_div 384 8 = 48 /\ ceil_div 521 8 = 66.
Proof. vm_compute. auto. Qed.

(* non-vacuity: the toy primitives satisfy the laws, and a concrete unsigned envelope (with a manifest and an integrated dependency)
   is signed by the model with the toy EC key, key id 256: the hypotheses of the theorems are met and signing succeeds *)
Example laws_satisfiable :
  (forall k h m n, toy_ecdsa_verify k h m (toy_ecdsa k h m n) = true) /\ (forall k m, toy_ed_verify k m (toy_ed k m) = true).
Proof. exact (conj toy_ecdsa_law toy_ed_law). Qed.
Example sign_nonvacuous :
  exists kvs w old env',
    toy_env = CTag 107 (CMap kvs) /\ unsigned_input kvs w old /\ wf toy_env /\ pynormal toy_env
    /\ sign_envelope toy_keystore toy_ecdsa toy_ed toy_ed 3 toy_env (s2b "ec") 256 a_es256 None act_error = Ok (env', 4%nat)
    /\ blen (ser env') = blen (ser toy_env) + 82.
Proof.
  eexists _, _, _, _. split; [reflexivity|]. split.
  - split; [reflexivity|]. split; [vm_compute; reflexivity|]. split; [repeat constructor|vm_compute; reflexivity].
  - split; [vm_compute; repeat split; try discriminate; reflexivity|].
    split; [vm_compute; repeat split; try discriminate; reflexivity|]. split; [vm_compute; reflexivity|]. vm_compute. reflexivity.
Qed.
