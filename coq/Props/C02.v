(* C02 — the envelope wire format is the SUIT/COSE encoding of the description.
   Statements only.  `types` is REGENERATED from the package; `spec_types` (Suit/SpecTypes.v) and `registry` are the
   hand-written specification side; `spec_item` (Suit/SpecEnc.v) is the declarative description -> item function that
   the implementation's bytes are compared with on every run. *)
Require Import Coq.Strings.String.
From Verif Require Import Base.Prim Base.Str Cbor.Codec Cbor.CodecFacts Cbor.DecodeSound Suit.Py Suit.PyFacts Suit.Ty Suit.Interp Suit.Tables Suit.Digest
                          Suit.Embed Suit.Flat Suit.Reparse Suit.ByteTrip Suit.SpecTypes Suit.SpecEnc gen.GenTypes gen.GenSpec.
From Verif Require Suit.Typed Suit.Refine.
Open Scope Z_scope.

(* 1. the grammar tables of the tool ARE the pinned grammar: which member carries which node type, every `bstr .cbor`
      layer, flat command pairs, union alternatives and their order, tags — for all 80-odd node classes *)
Theorem tables_match_spec : types = spec_types.
Proof. vm_compute. reflexivity. Qed.
Print Assumptions tables_match_spec.

(* 2. the registered integer of every named member / command / parameter / algorithm / policy bit (shared with C08) *)
Theorem tables_match_registry :
  forall sp cls closed ents, In (sp, cls, closed, ents) registry ->
  exists t tbl, lookup cls types = Some t /\ table_of t = Some tbl /\ forall n i, In (n, i) tbl <-> In (n, i) ents.
Proof. exact (registry_rows_match types registry ltac:(vm_compute; reflexivity)). Qed.
Print Assumptions tables_match_registry.

(* 3. what is written is canonical CBOR: the serialiser is `encode` (definite lengths only, every head in its shortest
      form — Cbor/Codec.v `head`), decoding it gives the same item back with nothing left over, and two different items
      never share an encoding *)
Theorem head_is_shortest major arg :
  head major arg =
    if arg <? 24 then [major * 32 + arg]
    else if arg <? 256 then [major * 32 + 24; arg]
    else if arg <? 65536 then (major * 32 + 25) :: be 2 arg
    else if arg <? 4294967296 then (major * 32 + 26) :: be 4 arg
    else (major * 32 + 27) :: be 8 arg.
Proof. reflexivity. Qed.
Print Assumptions head_is_shortest.

Theorem serialise_deserialise c : normal c -> dec (ser c) = Ok c.
Proof. exact (dec_ser c). Qed.
Print Assumptions serialise_deserialise.

Theorem serialisation_exact c : wf c -> loads_exact (encode c) = Some c.
Proof. exact (loads_exact_encode c). Qed.
Print Assumptions serialisation_exact.

Theorem serialisation_injective a b : wf a -> wf b -> encode a = encode b -> a = b.
Proof. exact (encode_injective a b). Qed.
Print Assumptions serialisation_injective.

(* 3b. the decoder side of the codec: whatever the model of cbor2.loads returns for real bytes is a well-formed item
       (arguments and lengths below 2^64), so decoding, re-encoding canonically and decoding again is stable — for EVERY byte
       string, canonical or not (non-shortest heads, indefinite-length maps) *)
Theorem decoded_items_well_formed b c : bytes_ok b -> loads b = Some c -> wf c.
Proof. exact (loads_sound b c). Qed.
Print Assumptions decoded_items_well_formed.

Theorem decode_reencode_decode_stable b c : bytes_ok b -> loads b = Some c -> loads (encode c) = Some c.
Proof. exact (reencode_stable b c). Qed.
Print Assumptions decode_reencode_decode_stable.

Example non_canonical_input_is_decoded : loads [25; 0; 5] = Some (CUint 5) /\ encode (CUint 5) = [5].
Proof. split; vm_compute; reflexivity. Qed.

(* WHOLE OUTPUT: for every type table, budget and byte-stable tree (Suit/ByteTrip.v), the bytes the encoder writes are the
   canonical encoding (encode: definite lengths, shortest heads — head_is_shortest) of exactly ONE normal item, and reading
   them back with the decoder gives that item: no trailing bytes, no indefinite lengths, no duplicate map keys *)
Theorem created_bytes_are_one_canonical_item env jd f t v b :
  bst env jd t v -> to_cbor env f t v = Ok b -> exists c, normal c /\ b = encode c /\ loads_exact b = Some c.
Proof.
  intros Hb Hgo. destruct (ByteTrip.encoder_output_decodes env jd f t v b Hb Hgo) as (c & Hn & _ & <-). exists c.
  unfold ser. rewrite (unpyn_normal c Hn). split; [exact Hn|]. split; [reflexivity|]. exact (loads_exact_encode c (normal_wf c Hn)).
Qed.
Print Assumptions created_bytes_are_one_canonical_item.


(* 4. node level (any table): a named member is written under its registered integer; `bstr .cbor` is exactly one
      byte-string layer *)
Theorem member_written_under_registered_id env m emb e idx v b c f :
  nth_error m idx = Some e -> key_id e <> -1 -> key_id e <> -2 ->
  to_cbor env f (key_ty e) v = Ok b -> dec b = Ok c ->
  to_cbor env (S f) (TKeyValue m emb) (VKV [(idx, v)]) = Ok (ser (CMap [(cint (key_id e), c)])).
Proof. exact (Tables.kv_member_written_under_id env m emb e idx v b c f). Qed.
Print Assumptions member_written_under_registered_id.

Theorem bstr_cbor_is_one_layer env f t v b :
  to_cbor env (S f) (TCbstr t) v = Ok b -> exists b0, to_cbor env f t v = Ok b0 /\ b = ser (CBytes b0).
Proof. exact (to_cbor_cbstr env f t v b). Qed.
Print Assumptions bstr_cbor_is_one_layer.

(* 5. NOTHING DROPPED, DUPLICATED OR REORDERED in a key-value node (any table with distinct ids):
      (a) from_obj turns the description's members, in description order, into the object's members (one each);
      (b) to_cbor writes exactly one map entry per member of the object, in that order, under the registered integer, the
          value being the deserialisation of the member's own serialisation *)
Theorem description_members_kept_in_order rec m d acc l :
  kv_from_obj_loop rec m d acc = Ok (VKV l) ->
  NoDup (map (fun kx => idx_of m (fst kx)) d) ->
  (forall kx i, In kx d -> idx_of m (fst kx) = Some i -> ~ In i (map fst acc)) ->
  exists ys, Forall2 (parsed rec m) d ys /\ l = acc ++ ys.
Proof. exact (kv_from_obj_ordered rec m d acc l). Qed.
Print Assumptions description_members_kept_in_order.

Theorem kv_from_obj_is_that_loop env hn H u5 fs jl jd sev sp sd f m emb d :
  from_obj env hn H u5 fs jl jd sev sp sd (S f) (TKeyValue m emb) (CMap d) =
  kv_from_obj_loop (fun t' o' => from_obj env hn H u5 fs jl jd sev sp sd f t' o') m d [].
Proof. reflexivity. Qed.
Print Assumptions kv_from_obj_is_that_loop.

Theorem members_written_in_order env rec m emb l b :
  NoDup (map key_id m) ->
  to_cbor_body env rec (TKeyValue m emb) (VKV l) = Ok b -> NoDup (map fst l) ->
  (forall idx v e, In (idx, v) l -> nth_error m idx = Some e -> key_id e <> -1 /\ key_id e <> -2) ->
  exists cs, Forall2 (written rec m) l cs /\ b = ser (CMap cs).
Proof. intros Hids. exact (kv_written_in_order env rec m emb Hids l b). Qed.
Print Assumptions members_written_in_order.

(* non-vacuity: the specification-side encoder accepts a concrete command sequence and yields flat code/argument pairs *)
(* 5. command sequences are FLAT code / argument pairs: a list node declared with a group size serialises to ONE array that is the
      concatenation of what its elements serialise to, in description order; an element that is a single-entry key-value tuple (a
      command or parameter with its argument) serialises to the pair  registered code, argument  (any table; references and unions
      in between are transparent: to_cbor_ref / to_cbor_union) *)
Theorem grouped_lists_are_flat env f et g xs pss b :
  Forall2 (fun x p => (let* bb := to_cbor env (S f) et x in dec bb) = Ok (CArray p)) xs pss ->
  to_cbor env (S (S f)) (TList (Some et) (Some g)) (VSeq xs) = Ok b -> b = ser (CArray (concat pss)).
Proof. exact (grouped_list_is_flat env f et g xs pss b). Qed.
Print Assumptions grouped_lists_are_flat.

Theorem a_command_is_code_then_argument env m f c p :
  cmd_pair env m f c = Ok p -> dec (ser (CArray p)) = Ok (CArray p) ->
  (let* b := to_cbor env (S f) (TKVTuple m) (cmd_tree c) in dec b) = Ok (CArray p)
  /\ exists e a, nth_error m (fst c) = Some e /\ p = [cint (key_id e); a].
Proof.
  intros Hp Hn. split; [exact (one_command env m f c p Hp Hn)|]. unfold cmd_pair in Hp. destruct (nth_error m (fst c)) as [e|]; [|discriminate].
  destruct (to_cbor env f (key_ty e) (snd c)) as [b|]; cbn [bind] in Hp; [|discriminate]. destruct (dec b) as [a|]; cbn [bind] in Hp; [|discriminate].
  injection Hp as <-. exists e, a. auto.
Qed.
Print Assumptions a_command_is_code_then_argument.

(* the regenerated grammar declares command sequences exactly that way *)
Example command_sequence_in_grammar :
  exists mc md, lookup (s2b "SuitCommandSequence") types = Some (TList (Some (TRef (s2b "SuitCommand"))) (Some 2))
            /\ lookup (s2b "SuitCommand") types = Some (TUnion [TRef (s2b "SuitCondition"); TRef (s2b "SuitDirective")])
            /\ lookup (s2b "SuitCondition") types = Some (TKVTuple mc) /\ lookup (s2b "SuitDirective") types = Some (TKVTuple md).
Proof. eexists. eexists. repeat split; vm_compute; reflexivity. Qed.

Example spec_command_sequence :
  spec_item types (fun _ => Raise ValueError) (fun _ _ => Raise Unsupported) 20 (TRef (s2b "SuitCommandSequence"))
    (CArray [CMap [(CText (s2b "suit-directive-set-component-index"), CUint 1)];
             CMap [(CText (s2b "suit-condition-image-match"), CArray [CText (s2b "suit-send-record-failure"); CText (s2b "suit-send-sysinfo-failure")])]])
  = Ok (CArray [CUint 12; CUint 1; CUint 3; CUint 10]).
Proof. vm_compute. reflexivity. Qed.


(* REFINEMENT — the general theorem: the object model computes the encoding the specification assigns.
   For EVERY budget of each side (f: reading the description, g: the specification, h: the encoder), every class t of a
   well-formed table and every normal description d (a description whose integers and lengths fit 64 bits, whose texts are
   UTF-8 and whose maps have pairwise different keys):
     * if reading d gives the tree v, the specification gives the item c and the encoder writes b for v, then b = ser c and c
       is a normal item: nothing dropped, duplicated, reordered or re-typed anywhere in the description;
     * the two sides agree on "not this alternative": when reading succeeds the specification does not answer ValueError and
       conversely — so both choose the same alternative of every union, at every depth.
   The classes whose value comes from outside the description (is_special: UUIDs from names, sizes and digests of files,
   versions, raw encryption info, payload maps, a bare optional header map) are delegated: Hsp assumes for them what the
   theorem states for the others.  json_loads (keys of text maps written as JSON) is an oracle that returns normal objects. *)
Theorem object_model_refines_specification env hn H u5 fs jl jd sev sp sd special hm_m hm_emb :
  Typed.env_wf env = true ->
  (forall s j, jl s = Ok j -> normal j) ->
  (forall f h t d, is_special t = true -> Typed.wf env t = true -> normal d -> Refine.okC (from_obj env hn H u5 fs jl jd sev sp sd f t d) (special t d) (to_cbor env h t)) ->
  lookup (s2b "SuitEmptyBstr") env = Some TEmptyBstr -> lookup (s2b "SuitHeaderMap") env = Some (TKeyValue hm_m hm_emb) ->
  forall f g h t d, Typed.wf env t = true -> normal d ->
    match from_obj env hn H u5 fs jl jd sev sp sd f t d, spec_item env jl special g t d with
    | Ok v, Ok c => normal c /\ forall b, to_cbor env h t v = Ok b -> b = ser c
    | Ok _, Raise e => e <> ValueError
    | Raise e, Ok _ => e <> ValueError
    | Raise _, Raise _ => True
    end.
Proof. intros Henv Hjl Hsp Heb Hhm f g h t d Hw Hn. exact (Refine.refines env hn H u5 fs jl jd sev sp sd special Henv Hjl Hsp hm_m hm_emb Heb Hhm f g h t d Hw Hn). Qed.
Print Assumptions object_model_refines_specification.

(* the same for the regenerated table, with a specification side that declines on the delegated classes: no hypothesis about
   them is left (the table conditions are computed) *)
Theorem created_bytes_are_the_specified_encoding hn H u5 fs jl jd sev sp sd :
  (forall s j, jl s = Ok j -> normal j) ->
  forall f g h t d v c b, Typed.wf types t = true -> normal d ->
    from_obj types hn H u5 fs jl jd sev sp sd f t d = Ok v -> spec_item types jl (fun _ _ => Raise Unsupported) g t d = Ok c -> to_cbor types h t v = Ok b ->
    b = ser c /\ normal c.
Proof.
  intros Hjl f g h t d v c b Hw Hn Ev Ec Eb.
  assert (Henv : Typed.env_wf types = true) by (vm_compute; reflexivity).
  assert (Hhm : exists m emb, lookup (s2b "SuitHeaderMap") types = Some (TKeyValue m emb)) by (vm_compute; eauto).
  destruct Hhm as (m & emb & Hhm).
  pose proof (Refine.refines types hn H u5 fs jl jd sev sp sd (fun _ _ => Raise Unsupported) Henv Hjl
                (fun f0 h0 t0 d0 _ _ _ => Refine.no_delegation types hn H u5 fs jl jd sev sp sd f0 h0 t0 d0) m emb ltac:(vm_compute; reflexivity) Hhm f g h t d Hw Hn) as R.
  unfold Refine.okS in R. rewrite Ev, Ec in R. destruct R as [Hnc Hb]. split; [exact (Hb b Eb)|exact Hnc].
Qed.
Print Assumptions created_bytes_are_the_specified_encoding.

(* non-vacuity: a command sequence of the regenerated grammar is read, specified and encoded — all three succeed *)
Example refinement_is_not_vacuous :
  let d := CArray [CMap [(CText (s2b "suit-directive-set-component-index"), CUint 1)]; CMap [(CText (s2b "suit-condition-image-match"), CArray [])]] in
  let t := TRef (s2b "SuitCommandSequence") in
  Typed.wf types t = true /\ normalb d = true
  /\ exists v c b, from_obj types [] (fun _ _ => Raise Unsupported) (fun _ _ => Raise Unsupported) (fun _ => None) (fun _ => Raise ValueError) (fun _ => Raise Unsupported) [] [] [] 20 t d = Ok v
       /\ spec_item types (fun _ => Raise ValueError) (fun _ _ => Raise Unsupported) 20 t d = Ok c /\ to_cbor types 20 t v = Ok b /\ b = ser c.
Proof. cbv zeta. split; [vm_compute; reflexivity|]. split; [vm_compute; reflexivity|]. eexists. eexists. eexists. split; [vm_compute; reflexivity|]. split; [vm_compute; reflexivity|]. split; vm_compute; reflexivity. Qed.
