(* C10 — DFU cache partitions are well-formed, aligned and content-preserving.
   Only statements, each closed by `exact` of a lemma proved in Cmd/Cache.v about the model REGENERATED from
   /repo/suit_generator/cmd_cache_create.py (gen/GenCache.v), plus non-vacuity examples. *)
From Verif Require Import Base.Prim Base.PrimFacts Cbor.Codec Cbor.CodecFacts gen.GenCache Cmd.Cache.

(* add_padding returns data ++ pad, a multiple of the erase block; pad is empty or one map entry "" |-> zeros whose
   byte-string head is a valid head for the number of zeros *)
Theorem padding_shape self data out :
  0 < eb_size self -> add_padding self data = Ok out ->
  exists pad, out = data ++ pad /\ blen out mod eb_size self = 0 /\ (pad = [] \/ pad_entry pad).
Proof. exact (add_padding_shape self data out). Qed.
Print Assumptions padding_shape.

Theorem padding_never_one_byte self data out :
  0 < eb_size self -> add_padding self data = Ok out -> blen out - blen data <> 1.
Proof. exact (add_padding_not_one self data out). Qed.
Print Assumptions padding_never_one_byte.

(* for every erase-block size and every accepted non-empty slot list the closed file decodes, as one item with
   nothing left over, to ONE indefinite-length map; its entries are the supplied pairs in order (slots_of) and
   padding entries; every slot payload length uses the 0x5A + 4-byte head (entry_bytes/slot_bytes) *)
Theorem cache_decodes eb slots c f out :
  0 < eb -> slots <> [] -> Forall (fun ud => blen (fst ud) < 2 ^ 64) slots ->
  add_all slots (cache_init eb) = Ok c -> close_and_save_cache c f = Ok out ->
  exists es, loads_exact out = Some (CMapI (map entry_pair es)) /\ slots_of es = slots /\ Forall entry_ok es
             /\ (blen out - 1) mod eb = 0.
Proof. exact (Cache.cache_decodes eb slots c f out). Qed.
Print Assumptions cache_decodes.

Theorem slots_aligned c done u d c' :
  0 < eb_size c -> blen u < 2 ^ 64 -> Inv c done -> first_slot c = false -> add_cache_slot c u d = Ok c' ->
  blen (cache_data c) mod eb_size c = 0 /\ exists pad, cache_data c' = cache_data c ++ slot_bytes u d ++ pad.
Proof. exact (Cache.slots_aligned c done u d c'). Qed.
Print Assumptions slots_aligned.

Theorem merge_preserves eb dicts c f out :
  0 < eb -> flat_map (filter nonpad) dicts <> [] ->
  Forall (fun ud => blen (fst ud) < 2 ^ 64) (flat_map (filter nonpad) dicts) ->
  foldM merge_single_cache_dict dicts (cache_init eb) = Ok c -> close_and_save_cache c f = Ok out ->
  exists es, loads_exact out = Some (CMapI (map entry_pair es)) /\ slots_of es = flat_map (filter nonpad) dicts
             /\ Forall entry_ok es /\ (blen out - 1) mod eb = 0.
Proof. exact (Cache.merge_preserves eb dicts c f out). Qed.
Print Assumptions merge_preserves.

Theorem duplicate_rejected c uri data : In uri (uris c) -> uri <> [] -> add_cache_slot c uri data = Raise ValueError.
Proof. exact (Cache.duplicate_rejected c uri data). Qed.
Print Assumptions duplicate_rejected.

Theorem accepted_uris_distinct slots c c' :
  0 < eb_size c -> NoDup (uris c) -> add_all slots c = Ok c' ->
  uris c' = uris c ++ map fst slots /\ NoDup (uris c') /\ Forall (fun ud => fst ud <> []) slots.
Proof. exact (Cache.accepted_uris_distinct slots c c'). Qed.
Print Assumptions accepted_uris_distinct.

Theorem empty_uri_rejected c data : add_cache_slot c [] data = Raise ValueError.
Proof. exact (Cache.empty_uri_rejected c data). Qed.
Print Assumptions empty_uri_rejected.

(* non-vacuity: a concrete two-slot cache with eb = 16 satisfies the hypotheses of cache_decodes and is accepted *)
Example cache_decodes_nonvacuous :
  exists c out, add_all [([104;116;116;112], [1;2;3;4;5]); ([98], repeat 2 40)] (cache_init 16) = Ok c
                /\ close_and_save_cache c [] = Ok out /\ blen out = 81.
Proof. eexists. eexists. split; [vm_compute; reflexivity|]. split; vm_compute; reflexivity. Qed.
