(* C12 — MPI records and merged MPI areas have the exact device layout.
   Only statements, each closed by `exact` of a lemma proved in Cmd/Mpi.v about the model REGENERATED from
   /repo/suit_generator/cmd_mpi.py (gen/GenMpi.v: record assembly by PyG, merge as a skeleton whose condition, padding,
   start/end, hashed message, appended digest and output address are translated from the AST), over the memory-image
   model Base/Mem.v.  uuid5 and sha256 are universally quantified functions; the only assumption on them is that a
   UUID has 16 bytes.  Spec-side definitions (Cmd/Mpi.v, by hand): on_off, sv_policy, mpi_bytes, inside, disjoint. *)
From Verif Require Import Base.Prim Base.PrimFacts Base.Mem Base.MemFacts gen.GenMpi Cmd.Mpi.

(* the policy table of the specification, spelled out: 1 = off / none, 2 = on / update, 3 = update-and-boot *)
Example policy_table :
  (on_off false, on_off true) = (1, 2) /\
  sv_policy None = Some 1 /\ sv_policy (Some s_update) = Some 2 /\ sv_policy (Some s_update_and_boot) = Some 3.
Proof. vm_compute. auto. Qed.

(* record_layout: for all names, addresses, sizes >= 48 and all 2x2x3 policies the image is exactly
   [1; dp; iu; sv] ++ 0xFF x 12 ++ vid ++ cid (48 bytes) ++ 0xFF up to size, placed at address *)
Theorem record_layout (uuid5 : bytes -> bytes -> bytes) outf vendor class address size dp iu sv k :
  (forall ns name, blen (uuid5 ns name) = 16) ->
  sv_policy sv = Some k -> 48 <= size ->
  let rec := mpi_bytes (on_off dp) (on_off iu) k (uuid5 ns_dns vendor) (uuid5 (uuid5 ns_dns vendor) class) in
  mpi_generate uuid5 outf vendor class address size dp iu sv
    = Ok (frombytes mem_empty (rec ++ repeat 255 (Z.to_nat (size - 48))) address)
  /\ blen rec = 48 /\ blen (rec ++ repeat 255 (Z.to_nat (size - 48))) = size.
Proof. intros H. exact (Mpi.record_layout uuid5 H outf vendor class address size dp iu sv k). Qed.
Print Assumptions record_layout.

(* the same, read address by address: record bytes, then 0xFF, nothing outside [address, address + size) *)
Theorem record_read (uuid5 : bytes -> bytes -> bytes) outf vendor class address size dp iu sv k img :
  (forall ns name, blen (uuid5 ns name) = 16) ->
  sv_policy sv = Some k -> 48 <= size ->
  mpi_generate uuid5 outf vendor class address size dp iu sv = Ok img ->
  let rec := mpi_bytes (on_off dp) (on_off iu) k (uuid5 ns_dns vendor) (uuid5 (uuid5 ns_dns vendor) class) in
  (forall i, 0 <= i < 48 -> get img (address + i) = nth_error rec (Z.to_nat i)) /\
  (forall i, 48 <= i < size -> get img (address + i) = Some 255) /\
  (forall a, a < address \/ address + size <= a -> get img a = None).
Proof. intros H. exact (Mpi.record_read uuid5 H outf vendor class address size dp iu sv k img). Qed.
Print Assumptions record_read.

(* any other signature-verification value is rejected and nothing is written *)
Theorem bad_policy_rejected (uuid5 : bytes -> bytes -> bytes) outf vendor class address size dp iu sv :
  sv_policy sv = None -> mpi_generate uuid5 outf vendor class address size dp iu sv = Raise GeneratorError.
Proof. exact (Mpi.bad_policy_rejected uuid5 outf vendor class address size dp iu sv). Qed.
Print Assumptions bad_policy_rejected.

(* merge_image: whenever merge writes, the image is area ++ sha256 area starting at address, |area| = size, every input
   lies inside the area and is disjoint from the others, holds its bytes at its own addresses, 0xFF elsewhere *)
Theorem merge_image (sha256 : bytes -> bytes) A S files img :
  0 < S -> mpi_merge sha256 A S files = MOk img ->
  let fl := files_of files in
  exists area,
    img = frombytes mem_empty (area ++ sha256 area) A /\ blen area = S /\
    Forall (fun f => nonempty f /\ inside A S f) fl /\ ForallOrdPairs disjoint fl /\
    (forall f a b, In f fl -> get f a = Some b -> nth_error area (Z.to_nat (a - A)) = Some b) /\
    (forall a, A <= a < A + S -> (forall f, In f fl -> get f a = None) -> nth_error area (Z.to_nat (a - A)) = Some 255).
Proof. exact (Mpi.merge_image sha256 A S files img). Qed.
Print Assumptions merge_image.

(* inputs inside the area (border included) and pairwise disjoint are accepted *)
Theorem merge_accepts (sha256 : bytes -> bytes) A S files :
  Forall (fun f => nonempty f /\ inside A S f) (files_of files) -> ForallOrdPairs disjoint (files_of files) ->
  exists img, mpi_merge sha256 A S files = MOk img.
Proof. exact (Mpi.merge_accepts sha256 A S files). Qed.
Print Assumptions merge_accepts.

(* an input reaching outside the area => error, nothing written *)
Theorem outside_rejected (sha256 : bytes -> bytes) A S files f a b :
  In f (files_of files) -> get f a = Some b -> a < A \/ A + S <= a -> forall img, mpi_merge sha256 A S files <> MOk img.
Proof. exact (Mpi.outside_rejected sha256 A S files f a b). Qed.
Print Assumptions outside_rejected.

(* two inputs sharing an address => error, nothing written *)
Theorem overlap_rejected (sha256 : bytes -> bytes) A S files l1 f l2 g l3 a :
  files_of files = l1 ++ f :: l2 ++ g :: l3 -> has f a = true -> has g a = true ->
  forall img, mpi_merge sha256 A S files <> MOk img.
Proof. exact (Mpi.overlap_rejected sha256 A S files l1 f l2 g l3 a). Qed.
Print Assumptions overlap_rejected.

Theorem outside_is_generator_error A S f r acc a b :
  get f a = Some b -> a < A \/ A + S <= a -> merge_loop A S (f :: r) acc = MRaise GeneratorError.
Proof. exact (Mpi.outside_is_generator_error A S f r acc a b). Qed.
Print Assumptions outside_is_generator_error.

(* non-vacuity: a concrete record (constant stand-in for uuid5 with 16-byte output) and a concrete merge of two
   records on the borders of a 128-byte area are accepted; an input one byte beyond the border is not *)
Example record_nonvacuous :
  exists img, mpi_generate (fun ns name => firstn 16 (name ++ ns)) [] [110; 111; 114] [97] 65520 64 true false (Some s_update) = Ok img
              /\ get img 65520 = Some 1 /\ get img 65521 = Some 2 /\ get img 65522 = Some 1 /\ get img 65523 = Some 2
              /\ get img 65536 = Some 110 /\ get img 65583 = Some 255 /\ get img 65584 = None.
Proof. eexists. split; [vm_compute; reflexivity|]. vm_compute. repeat split. Qed.

Example merge_nonvacuous :
  let f1 := frombytes mem_empty (repeat 7 48) 4096 in
  let f2 := frombytes mem_empty (repeat 9 48) (4096 + 80) in
  (exists img, mpi_merge (fun m => [blen m]) 4096 128 (Some [f1; f2]) = MOk img
               /\ get img 4096 = Some 7 /\ get img 4144 = Some 255 /\ get img (4096 + 127) = Some 9 /\ get img (4096 + 128) = Some 128)
  /\ mpi_merge (fun m => [blen m]) 4096 128 (Some [f1; frombytes mem_empty (repeat 9 48) (4096 + 81)]) = MRaise GeneratorError
  /\ mpi_merge (fun m => [blen m]) 4096 128 (Some [f1; frombytes mem_empty (repeat 9 48) (4096 + 47)]) = MOverlap.
Proof. cbv zeta. split; [eexists; split; [vm_compute; reflexivity|vm_compute; repeat split]|]. split; vm_compute; reflexivity. Qed.
