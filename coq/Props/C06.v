(* C06 — encryption artifacts are mutually consistent and decrypt to the firmware.
   Only statements, each closed by `exact` of a lemma proved in Cmd/Encrypt.v about the model REGENERATED from
   /repo/ncs/encrypt_script.py, /repo/ncs/basic_kms.py, /repo/suit_generator/cmd_encrypt.py and
   SuitEncryptionInfoExt of /repo/suit_generator/suit/security.py (gen/GenEncrypt.v), plus non-vacuity examples.
   AES-GCM, os.urandom, the hash functions and the key store are universally quantified functions; what is assumed
   about them appears as a premise of the theorem that uses it. *)
From Verif Require Import Base.Prim Base.PrimFacts Cbor.Codec Cbor.CodecFacts gen.GenEncrypt Cmd.Encrypt.

(* the hard-coded AAD bytes of generate_kms_artifacts are the COSE Enc_structure ["Encrypt", protected, h''] of the
   protected header literal that generate_suit_encryption_info publishes (both extracted from the source) *)
Theorem aad_is_enc_structure :
  aad_literal = encode (CArray [CText [69; 110; 99; 114; 121; 112; 116]; CBytes (encode prot_lit); CBytes []]).
Proof. exact Encrypt.aad_is_enc_structure. Qed.
Print Assumptions aad_is_enc_structure.

(* ... and that header is {1: 3}: AES-GCM-256 *)
Theorem protected_header_names_aes_gcm_256 : prot_lit = CMap [(CUint 1, CUint 3)].
Proof. exact Encrypt.prot_lit_is_a256gcm. Qed.
Print Assumptions protected_header_names_aes_gcm_256.

(* nonce(12) | tag(16) | ciphertext *)
Theorem split_concat self asset iv tag ct :
  parse_encrypted_assets self asset = Ok (iv, tag, ct) ->
  iv ++ tag ++ ct = asset /\ (28 <= blen asset -> blen iv = 12 /\ blen tag = 16).
Proof. exact (Encrypt.parse_split self asset iv tag ct). Qed.
Print Assumptions split_concat.

Theorem written_payload_is_tag_then_ciphertext self ct tag : generate_encrypted_payload self ct tag = Ok (tag ++ ct).
Proof. exact (Encrypt.payload_is_tag_ct self ct tag). Qed.
Print Assumptions written_payload_is_tag_then_ciphertext.

(* the encryption info, for every IV, key id, key-wrap algorithm and (optional) wrapped key:
   bstr-wrapped COSE_Encrypt_Tagged naming AES-GCM-256, one recipient with the algorithm and the bstr-wrapped key id *)
Theorem info_shape self iv cek kid :
  0 <= kid ->
  generate_suit_encryption_info self iv cek kid =
  Ok (encode (CBytes (encode (CTag 96 (CArray
        [CBytes (encode (CMap [(CUint 1, CUint 3)])); CMap [(CUint 5, CBytes iv)]; CSimple 22;
         CArray [CArray [CBytes []; CMap [(CUint 1, cint (cose_kw_alg self)); (CUint 4, CBytes (encode (CUint kid)))];
                         match cek with None => CSimple 22 | Some b => CBytes b end]]]))))).
Proof. exact (Encrypt.info_shape self iv cek kid). Qed.
Print Assumptions info_shape.

(* ... and a recipient that decodes the file (proved decoder) finds that protected header and the IV as header 5 *)
Theorem info_readable kw iv kid cek :
  blen iv < 2 ^ 32 -> 0 <= kid < 2 ^ 64 -> - 2 ^ 64 <= kw < 2 ^ 64 -> match cek with Some b => blen b < 2 ^ 32 | None => True end ->
  published (spec_info kw iv kid cek) = Some (encode spec_protected, iv).
Proof. exact (Encrypt.published_spec kw iv kid cek). Qed.
Print Assumptions info_readable.

(* generate-info: the same layout, no byte altered: IV named in the info ++ written file = supplied blob *)
Theorem generate_info_alters_no_byte blob cek kid kw files :
  cli_generate_info blob cek kid kw = Ok files -> 0 <= kid ->
  exists iv tag ct,
    files = [(f_info, spec_info (spec_kw kw) iv kid (Some cek)); (f_content, tag ++ ct)]
    /\ iv ++ tag ++ ct = blob /\ (28 <= blen blob -> blen iv = 12 /\ blen tag = 16).
Proof. exact (Encrypt.generate_info_files blob cek kid kw files). Qed.
Print Assumptions generate_info_alters_no_byte.

(* encrypt-and-generate: for every plaintext, key, 64-bit key id, digest algorithm; under the AES-GCM law *)
Theorem decrypts
  (aesgcm_encrypt : bytes -> bytes -> bytes -> bytes -> bytes) (aesgcm_decrypt : bytes -> bytes -> bytes -> bytes -> option bytes)
  (urandom : nat -> Z -> bytes) (hash : bytes -> Z -> bytes -> bytes) (key_file : bytes -> bytes) :
  (forall k n p a, aesgcm_decrypt k n (aesgcm_encrypt k n p a) a = Some p) ->
  (forall k n p a, blen (aesgcm_encrypt k n p a) = blen p + 16) ->
  (forall n k, 0 <= k -> blen (urandom n k) = k) ->
  forall ent pt kn kid ctx halg kw files ent',
  cli_encrypt_and_generate aesgcm_encrypt urandom hash key_file ent pt kn kid ctx halg kw = Ok (files, ent') -> 0 <= kid < 2 ^ 64 ->
  exists digest size info content prot iv tag ct fam n,
    files = [(f_digest, digest); (f_size, size); (f_info, info); (f_content, content)]
    /\ published info = Some (prot, iv)
    /\ content = tag ++ ct /\ blen tag = 16
    /\ aesgcm_decrypt (key_file kn) iv (ct ++ tag) (encode (enc_structure prot [])) = Some pt
    /\ prot = encode spec_protected /\ info = spec_info (-6) iv kid None
    /\ hash_lookup halg spec_hash_table = Some (fam, n) /\ digest = hash fam n pt /\ size = str_of_nonneg (blen pt).
Proof. exact (Encrypt.decrypts aesgcm_encrypt aesgcm_decrypt urandom hash key_file). Qed.
Print Assumptions decrypts.

(* the tool's digest table maps the five names to the registry's hash functions and lengths *)
Theorem digest_table_is_registry n : hash_lookup n hash_table = hash_lookup n spec_hash_table.
Proof. exact (Encrypt.hash_table_is_spec n). Qed.
Print Assumptions digest_table_is_registry.

(* create accepts the info file unchanged as raw / file encryption-info parameter (model of SuitEncryptionInfoExt;
   the implementation side is compared through SuitEnvelopeTagged.from_obj) *)
Theorem raw_info_accepted kw iv kid cek :
  blen iv < 2 ^ 32 -> match cek with Some b => blen b < 2 ^ 32 | None => True end ->
  enc_info_ext_to_cbor (spec_info kw iv kid cek) = Ok (spec_info kw iv kid cek).
Proof. exact (Encrypt.raw_info_accepted kw iv kid cek). Qed.
Print Assumptions raw_info_accepted.

(* non-vacuity: the premises of `decrypts` are met by a concrete cipher / entropy source, and a concrete invocation
   (3-byte firmware, key id 256, shake128) is accepted and writes the four files *)
Example decrypts_premises_satisfiable :
  (forall k n p a, toy_dec k n (toy_enc k n p a) a = Some p) /\ (forall k n p a, blen (toy_enc k n p a) = blen p + 16)
  /\ (forall n k, 0 <= k -> blen (toy_rnd n k) = k).
Proof. exact (conj toy_law (conj toy_len toy_rnd_len)). Qed.
Example decrypts_nonvacuous :
  exists info, cli_encrypt_and_generate toy_enc toy_rnd toy_hash toy_key 5 [1; 2; 3] [107; 49] 256 None a_shake128 kw_direct
    = Ok ([(f_digest, repeat 7 16); (f_size, [51]); (f_info, info); (f_content, repeat 0 16 ++ [1; 2; 3])], 6%nat)
    /\ published info = Some ([161; 1; 3], repeat 5 12) /\ blen info = 37.
Proof. eexists. split; [vm_compute; reflexivity|]. split; vm_compute; reflexivity. Qed.
Example generate_info_nonvacuous :
  exists info, cli_generate_info (repeat 9 12 ++ repeat 8 16 ++ [1; 2]) [] 24 kw_a256kw = Ok [(f_info, info); (f_content, repeat 8 16 ++ [1; 2])]
    /\ published info = Some ([161; 1; 3], repeat 9 12).
Proof. eexists. split; vm_compute; reflexivity. Qed.
