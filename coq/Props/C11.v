(* C11 — payload extraction conserves payloads and leaves authenticated content intact.
   Only statements, each closed by `exact` of a lemma proved in Cmd/Extract.v about the model REGENERATED from
   /repo/suit_generator/cmd_cache_create.py (CacheFromEnvelope.fill_cache_from_envelope_data, fill_cache_from_envelope, main)
   and /repo/suit_generator/cmd_payload_extract.py (gen/GenExtract.v, skeletons with holes) over the proved CBOR codec, the
   Python-object view Suit/Py.v and the regenerated cache model gen/GenCache.v.
   The two regular expressions are ARBITRARY predicates (omit_re / dep_re : option (bytes -> bool); None = option absent).
   Specification side (Cmd/ExtractModel.v, by hand): `env` (a hierarchy of tagged maps; MDep = a nested envelope the tool
   descends into), enc_env, strip, extracted, all_payloads, skeleton; hypotheses (Cmd/Extract.v): `shape`. *)
From Coq Require Import Permutation.
From Verif Require Import Base.Prim Base.PrimFacts Cbor.Codec Cbor.CodecFacts Suit.Py gen.GenCache Cmd.Cache.
From Verif Require Import Cmd.ExtractModel gen.GenExtract Cmd.Extract.

(* the function itself, at any recursion budget that lets it finish: output = encoding of the stripped hierarchy, the
   cache received exactly `extracted` in order (this level in map order, then each dependency in map order) *)
Theorem extraction_is_split fuel omit_re dep_re e c c' out :
  shape (opt_p dep_re) e ->
  fill_cache_from_envelope_data fuel omit_re dep_re c (enc_env e) = Ok (c', out) ->
  out = enc_env (strip (opt_p dep_re) (opt_p omit_re) e) /\
  exists slots, map slot_item slots = extracted (opt_p dep_re) (opt_p omit_re) e /\ add_all slots c = Ok c'.
Proof. exact (fill_spec omit_re dep_re fuel e c c' out). Qed.
Print Assumptions extraction_is_split.

(* conservation + exact split + others_identical, for `cache_create from_envelope` as a whole (all depths, all names,
   all contents, all predicate pairs, all erase-block sizes) *)
Theorem conservation fuel eb omit_re dep_re e cache_file out :
  shape (opt_p dep_re) e ->
  cache_create_from_envelope fuel eb omit_re dep_re (enc_env e) = Ok (cache_file, out) ->
  let dp := opt_p dep_re in let op := opt_p omit_re in
  exists e' slots c,
    out = enc_env e' /\ add_all slots (cache_init eb) = Ok c /\ close_and_save_cache c [] = Ok cache_file /\
    Permutation (map drop_path (all_payloads [] e)) (map slot_item slots ++ map drop_path (all_payloads [] e')) /\
    Forall (fun ud => dp (fst ud) = false /\ op (fst ud) = false) slots /\
    all_payloads [] e' = filter (fun x => negb (goes dp op (pl_name x))) (all_payloads [] e) /\
    skeleton e' = skeleton e.
Proof. exact (extraction_conserves fuel eb omit_re dep_re e cache_file out). Qed.
Print Assumptions conservation.

(* others_identical on its own, with no hypothesis at all on the hierarchy or the predicates: stripping changes no
   member under a non-text key, no tag, no nesting, at any level; order preserved *)
Theorem others_identical dep_p omit_p e : skeleton (strip dep_p omit_p e) = skeleton e.
Proof. exact (proj1 (skeleton_strip dep_p omit_p) e). Qed.
Print Assumptions others_identical.

(* the cache FILE that is written decodes (proved decoder, nothing left over) to exactly the extracted payloads *)
Theorem cache_holds_extracted fuel eb omit_re dep_re e cache_file out :
  0 < eb -> shape (opt_p dep_re) e -> extracted (opt_p dep_re) (opt_p omit_re) e <> [] ->
  Forall (fun nv => blen (fst nv) < 2 ^ 64) (extracted (opt_p dep_re) (opt_p omit_re) e) ->
  cache_create_from_envelope fuel eb omit_re dep_re (enc_env e) = Ok (cache_file, out) ->
  exists es, loads_exact cache_file = Some (CMapI (map entry_pair es)) /\
             map slot_item (slots_of es) = extracted (opt_p dep_re) (opt_p omit_re) e /\ Forall entry_ok es.
Proof. exact (Extract.cache_holds_extracted fuel eb omit_re dep_re e cache_file out). Qed.
Print Assumptions cache_holds_extracted.

(* extract_single: pop / replace / re-dump changes only that key; the payload file holds the member's bytes *)
Theorem extract_single t l r name replace want_file out file :
  tag_ok t -> blen l < 2 ^ 64 -> distinct_keys l -> stable_pairs l ->
  payload_extract (encode (CTag t (CMap l)) ++ r) name replace want_file = Ok (out, file) ->
  out = encode (CTag t (CMap (without name l ++ replacement name replace))) /\
  (if want_file then exists b, dict_get l (CText name) = Some (CBytes b) /\ file = Some b else file = None).
Proof. exact (payload_extract_spec t l r name replace want_file out file). Qed.
Print Assumptions extract_single.

(* ... where `without` removes exactly the entry at its place *)
Theorem only_that_key pre name v post :
  Forall (fun kv => py_eqb (CText name) (fst kv) = false) pre ->
  without name (pre ++ (CText name, v) :: post) = pre ++ post.
Proof. exact (without_mid pre name v post). Qed.
Print Assumptions only_that_key.

(* ---------------------------------------------------------------- non-vacuity *)
Definition ex_dep : bytes := [100; 101; 112].          (* "dep" *)
Definition ex_keep : bytes := [107].                   (* "k" *)
Definition ex_inner : env :=
  Env 107 (MLeaf (CUint 2) (CBytes [5]) (MLeaf (CText [98]) (CBytes [6; 6]) (MLeaf (CText ex_keep) (CBytes [4]) MNil))).
Definition ex_env : env :=
  Env 107 (MLeaf (CUint 2) (CBytes [1; 2]) (MLeaf (CText [97]) (CBytes [7])
          (MLeaf (CText ex_keep) (CBytes [8; 9]) (MDep ex_dep ex_inner (MLeaf (CUint 3) (CBytes [130; 1; 2]) MNil))))).

Ltac leaf_tac := unfold leaf_ok; cbn [wf]; repeat split; try lia; try reflexivity.
Ltac shape_tac :=
  repeat match goal with
  | |- _ /\ _ => split
  | |- tag_ok _ => split; [lia|split; reflexivity]
  | |- leaf_ok _ _ => leaf_tac
  | |- distinct_keys _ => repeat constructor
  | |- key_ne _ _ => split; vm_compute; reflexivity
  | |- forall n, _ = CText n -> _ => let H := fresh in intros ? H; first [discriminate H | injection H as <-; reflexivity]
  | |- blen _ < _ => vm_compute; reflexivity
  | |- _ = true => reflexivity
  | |- True => exact I
  end.

Example shape_nonvacuous : shape (list_eqb ex_dep) ex_env.
Proof. unfold ex_env, ex_inner. cbn [shape shape_ms pairs]. shape_tac. Qed.

(* depth 2, omit "k", descend into "dep": "a" and "b" go to the cache, both "k" stay, integer keys untouched *)
Example conservation_nonvacuous :
  exists cache_file out,
    cache_create_from_envelope 3 16 (Some (list_eqb ex_keep)) (Some (list_eqb ex_dep)) (enc_env ex_env) = Ok (cache_file, out)
    /\ extracted (list_eqb ex_dep) (list_eqb ex_keep) ex_env = [([97], CBytes [7]); ([98], CBytes [6; 6])]
    /\ out = enc_env (Env 107 (MLeaf (CUint 2) (CBytes [1; 2]) (MLeaf (CText ex_keep) (CBytes [8; 9])
                       (MDep ex_dep (Env 107 (MLeaf (CUint 2) (CBytes [5]) (MLeaf (CText ex_keep) (CBytes [4]) MNil)))
                             (MLeaf (CUint 3) (CBytes [130; 1; 2]) MNil)))))
    /\ blen cache_file = 33.
Proof. eexists. eexists. split; [vm_compute; reflexivity|]. split; [reflexivity|]. split; vm_compute; reflexivity. Qed.

Example extract_single_nonvacuous :
  payload_extract (encode (CTag 107 (CMap [(CUint 2, CBytes [1]); (CText [97], CBytes [7; 7]); (CUint 3, CBytes [2])])))
                  [97] (Some [9]) true
  = Ok (encode (CTag 107 (CMap [(CUint 2, CBytes [1]); (CUint 3, CBytes [2]); (CText [97], CBytes [9])])), Some [7; 7]).
Proof. vm_compute. reflexivity. Qed.
