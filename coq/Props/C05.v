(* C05 — digests, sizes and payloads taken from files describe exactly those files.
   Statements only, over the hand-written object model with the file system `fs`, the hash H and the digest-update order
   as parameters; the update orders used for nested envelopes are the constants EXTRACTED from the source. *)
Require Import Coq.Strings.String.
From Verif Require Import Base.Prim Base.Str Cbor.Codec Suit.Py Suit.Ty Suit.Interp Suit.Digest Suit.Files gen.GenTypes.
Open Scope Z_scope.

(* the three places that prepare a nested envelope use the same order of digest updates as create itself *)
Theorem nested_envelopes_prepared_like_create : steps_processed = steps_prepare /\ steps_digest_ext = steps_prepare.
Proof. split; reflexivity. Qed.
Print Assumptions nested_envelopes_prepared_like_create.

Theorem size_from_file env hn H u5 fs jl jd sev sp sd f p c : fs p = Some c ->
  from_obj env hn H u5 fs jl jd sev sp sd (S f) TImageSize (CMap [(CText (s2b "file"), CText p)]) = Ok (VRaw (cint (blen c))).
Proof. exact (Files.size_from_file env hn H u5 fs jl jd sev sp sd f p c). Qed.
Print Assumptions size_from_file.

Theorem digest_from_file env hn H u5 fs jl jd sev sp sd f a p c h : str_in a hn = true -> fs p = Some c -> H a c = Ok h ->
  from_obj env hn H u5 fs jl jd sev sp sd (S f) TDigestExt (CMap [(kalg, CText a); (kbytes, CMap [(CText (s2b "file"), CText p)])]) =
  from_obj env hn H u5 fs jl jd sev sp sd f (TRef (s2b "SuitDigestRaw")) (CMap [(kalg, CText a); (kbytes, CText (hex_of_bytes h))]).
Proof. exact (Files.digest_from_file env hn H u5 fs jl jd sev sp sd f a p c h). Qed.
Print Assumptions digest_from_file.

Theorem digest_from_file_direct env hn H u5 fs jl jd sev sp sd f a p c : fs p = Some c ->
  from_obj env hn H u5 fs jl jd sev sp sd (S f) TDigestExt (CMap [(kalg, a); (kbytes, CMap [(CText (s2b "file_direct"), CText p)])]) =
  from_obj env hn H u5 fs jl jd sev sp sd f (TRef (s2b "SuitDigestRaw")) (CMap [(kalg, a); (kbytes, CText (hex_of_bytes c))]).
Proof. exact (Files.digest_from_file_direct env hn H u5 fs jl jd sev sp sd f a p c). Qed.
Print Assumptions digest_from_file_direct.

Theorem digest_raw env hn H u5 fs jl jd sev sp sd f a x :
  from_obj env hn H u5 fs jl jd sev sp sd (S f) TDigestExt (CMap [(kalg, a); (kbytes, CMap [(CText (s2b "raw"), x)])]) =
  from_obj env hn H u5 fs jl jd sev sp sd f (TRef (s2b "SuitDigestRaw")) (CMap [(kalg, a); (kbytes, x)]).
Proof. exact (Files.digest_raw env hn H u5 fs jl jd sev sp sd f a x). Qed.
Print Assumptions digest_raw.

(* hex text written by the tool reads back as the same bytes (both spellings) *)
Theorem hex_text_reads_back l : Forall (fun b => 0 <= b < 256) l -> unhex (hex_of_bytes l) = Some l /\ unhex (upper_hex l) = Some l.
Proof. intros Hl. split; [exact (unhex_lower_hex l Hl)|exact (unhex_upper_hex l Hl)]. Qed.
Print Assumptions hex_text_reads_back.

Theorem payload_from_file env hn H u5 fs jl jd sev sp sd f name p c kt :
  fs p = Some c -> all_hexdigits p = false -> Forall (fun b => 0 <= b < 256) c ->
  forall kv, from_obj env hn H u5 fs jl jd sev sp sd f kt (CText name) = Ok kv ->
  from_obj env hn H u5 fs jl jd sev sp sd (S f) (TPayloadMap kt THex) (CMap [(CText name, CText p)]) = Ok (VKVU [(CText name, (O, kv, VRaw (CBytes c)))]).
Proof. exact (Files.payload_from_file env hn H u5 fs jl jd sev sp sd f name p c kt). Qed.
Print Assumptions payload_from_file.

(* a payload / dependency given inline is embedded byte-identically to what creating it on its own produces *)
Theorem inline_envelope_is_create env hn H u5 fs jl jd sev spr sp sd f name d0 kt : sp = spr -> d0 <> [] ->
  forall bin, create env hn H u5 fs jl jd sev spr sp sd f (CMap d0) = Ok bin -> Forall (fun b => 0 <= b < 256) bin ->
  forall kv, from_obj env hn H u5 fs jl jd sev sp sd f kt (CText name) = Ok kv ->
  from_obj env hn H u5 fs jl jd sev sp sd (S f) (TPayloadMap kt THex) (CMap [(CText name, CMap d0)]) = Ok (VKVU [(CText name, (O, kv, VRaw (CBytes bin)))]).
Proof. exact (Files.inline_envelope_is_create env hn H u5 fs jl jd sev spr sp sd f name d0 kt). Qed.
Print Assumptions inline_envelope_is_create.

(* the digest of a dependency given inline is the digest of ITS manifest member (as serialised, i.e. byte-string wrapped:
   get_manifest_digest hashes to_cbor of the cbstr member, see C01) after the child's own digests were updated, under the
   algorithm the PARENT names *)
Theorem digest_of_inline_envelope env hn H u5 fs jl jd sev sp sd f a child e e2 h :
  child <> [] ->
  from_obj env hn H u5 fs jl jd sev sp sd f (TRef (s2b "SuitEnvelopeTagged")) (CMap child) = Ok e ->
  apply_steps env hn H sev (fun t' v' => to_cbor env f t' v') (s2b "SuitEnvelopeTagged") sd e = Ok e2 ->
  get_manifest_digest env hn H (fun t' v' => to_cbor env f t' v') (s2b "SuitEnvelopeTagged") e2 a = Ok h ->
  from_obj env hn H u5 fs jl jd sev sp sd (S f) TDigestExt (CMap [(kalg, a); (kbytes, CMap [(CText (s2b "envelope"), CMap child)])]) =
  from_obj env hn H u5 fs jl jd sev sp sd f (TRef (s2b "SuitDigestRaw")) (CMap [(kalg, a); (kbytes, CText (hex_of_bytes h))]).
Proof. exact (Files.digest_of_inline_envelope env hn H u5 fs jl jd sev sp sd f a child e e2 h). Qed.
Print Assumptions digest_of_inline_envelope.

(* F8 (known finding): a payload given by a relative file name that consists of hex digits is taken as the hex string *)
Theorem payload_hexname_refuted :
  exists fs name p c v,
    fs p = Some c /\
    from_obj types [] (fun _ _ => Raise Unsupported) (fun _ _ => Raise Unsupported) fs (fun _ => Raise ValueError) (fun _ => Raise Unsupported) [] [] [] 10
      (TRef (s2b "SuitIntegratedPayloadMap")) (CMap [(CText name, CText p)]) = Ok v /\
    v <> VKVU [(CText name, (O, VRaw (CText name), VRaw (CBytes c)))].
Proof.
  exists (fun p => if list_eqb p (s2b "cafe") then Some [1; 2; 3] else None), (s2b "#p"), (s2b "cafe"), [1; 2; 3].
  eexists. split; [reflexivity|]. split; [vm_compute; reflexivity|]. discriminate.
Qed.
Print Assumptions payload_hexname_refuted.

(* non-vacuity *)
Example size_from_file_instance :
  from_obj types [] (fun _ _ => Raise Unsupported) (fun _ _ => Raise Unsupported) (fun p => Some [7; 7; 7]) (fun _ => Raise ValueError)
    (fun _ => Raise Unsupported) [] [] [] 5 TImageSize (CMap [(CText (s2b "file"), CText (s2b "/x"))]) = Ok (VRaw (CUint 3)).
Proof. vm_compute. reflexivity. Qed.
