From Verif Require Import Base.Prim Base.PrimFacts Cbor.Codec Cbor.CodecFacts gen.GenSign gen.GenSpec Cmd.Sign.
