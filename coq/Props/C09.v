(* C09 — signing policy: already-signed action, key match, recursive configuration.
   Only statements, each closed by `exact` of a lemma proved in Cmd/Sign.v about the model REGENERATED from /repo/ncs/sign_script.py
   (Signer.already_signed_action, sign_envelope), /repo/ncs/basic_kms.py (SuitKMS._verify_signing_key_type, sign) and
   /repo/suit_generator/cmd_sign.py (RecursiveSigner.__init__ / _load_dependency / recursive_sign, main) in gen/GenSign.v, plus
   non-vacuity examples.  Specification side: Cmd/SignModel.v.  Key store and signature primitives are universally quantified; the
   sign script that recursive signing calls is an arbitrary function `sc` wherever the statement does not depend on what it does. *)
Require Import Coq.Strings.String.
From Verif Require Import Base.Prim Base.PrimFacts Base.Str Cbor.Codec Cbor.CodecFacts Suit.Py Cmd.SignPrim gen.GenSign gen.GenSpec Cmd.Sign.

(* ---------------------------------------------------------------- the input already bears a signature *)
(* 'error' refuses: sign_envelope raises SignerError, and so does the command — whose only write (save_envelope) comes after *)
Theorem error_refuses keystore ecdsa eddsa eddsa_ph ent infile t kvs w old a0 kn kid alg ctx :
  load_envelope infile = Ok (CTag t (CMap kvs)) -> signed_input kvs w old a0 ->
  sign_envelope keystore ecdsa eddsa eddsa_ph ent (CTag t (CMap kvs)) kn kid alg ctx act_error = Raise SignerError
  /\ cli_sign_single keystore ecdsa eddsa eddsa_ph ent infile kn kid alg ctx act_error = Raise SignerError.
Proof. exact (c09_error_refuses keystore ecdsa eddsa eddsa_ph ent infile t kvs w old a0 kn kid alg ctx). Qed.
Print Assumptions error_refuses.

(* 'skip' returns the envelope unchanged, without consulting the KMS (the entropy state is untouched, no key is looked up) *)
Theorem skip_identity keystore ecdsa eddsa eddsa_ph ent infile t kvs w old a0 kn kid alg ctx :
  load_envelope infile = Ok (CTag t (CMap kvs)) -> signed_input kvs w old a0 ->
  sign_envelope keystore ecdsa eddsa eddsa_ph ent (CTag t (CMap kvs)) kn kid alg ctx act_skip = Ok (CTag t (CMap kvs), ent)
  /\ cli_sign_single keystore ecdsa eddsa eddsa_ph ent infile kn kid alg ctx act_skip = Ok (ser (CTag t (CMap kvs)), ent).
Proof. exact (c09_skip_identity keystore ecdsa eddsa eddsa_ph ent infile t kvs w old a0 kn kid alg ctx). Qed.
Print Assumptions skip_identity.
Theorem skip_output_file_is_input_file keystore ecdsa eddsa eddsa_ph ent c t kvs w old a0 kn kid alg ctx :
  wf c -> pynormal c -> c = CTag t (CMap kvs) -> signed_input kvs w old a0 ->
  cli_sign_single keystore ecdsa eddsa eddsa_ph ent (encode c) kn kid alg ctx act_skip = Ok (encode c, ent).
Proof. exact (c09_skip_file keystore ecdsa eddsa eddsa_ph ent c t kvs w old a0 kn kid alg ctx). Qed.
Print Assumptions skip_output_file_is_input_file.

(* 'remove-old': the first old signature block a0 is dropped, every other wrapper element keeps its place (the digest first), the
   new block comes last, nothing else in the envelope changes, and the new signature verifies.  For a singly signed input
   (first_tagged 18 post = Ok None as well) the only signature of the output is the new one: remove_old_single below *)
Theorem remove_old keystore ecdsa eddsa eddsa_ph (pub : bytes -> bytes) ecdsa_verify eddsa_verify eddsa_ph_verify
    ent t kvs w old a0 kn kid alg ctx id env' ent' :
  (forall k h m n, ecdsa_verify (pub k) h m (ecdsa k h m n) = true) ->
  (forall k m, eddsa_verify (pub k) m (eddsa k m) = true) ->
  (forall k m, eddsa_ph_verify (pub k) m (eddsa_ph k m) = true) ->
  signed_input kvs w old a0 -> bstr_list old -> blen old < 2 ^ 64 -> spec_cose_alg alg = Some id -> 0 <= kid < 2 ^ 64 ->
  sign_envelope keystore ecdsa eddsa eddsa_ph ent (CTag t (CMap kvs)) kn kid alg ctx act_remove_old = Ok (env', ent') ->
  exists pre post x d0 rest dg sig kind key,
    old = pre ++ a0 :: post /\ first_tagged 18 pre = Ok None /\ py_loads a0 = Ok (CTag 18 x)
    /\ pre ++ post = CBytes d0 :: rest /\ py_loads (CBytes d0) = Ok dg /\ keystore ctx kn = Some (kind, key)
    /\ same_but_wrapper (CTag t (CMap kvs)) env' w
         (encode (CArray ((pre ++ post) ++ [CBytes (encode (cose_sign1 (encode (spec_protected id kid)) sig))])))
    /\ cose_verify ecdsa_verify eddsa_verify eddsa_ph_verify kind (pub key) alg
         (encode (sig_structure (encode (spec_protected id kid)) (ser dg))) sig = true.
Proof. exact (c09_remove_old keystore ecdsa eddsa eddsa_ph pub ecdsa_verify eddsa_verify eddsa_ph_verify ent t kvs w old a0 kn kid alg ctx id env' ent'). Qed.
Print Assumptions remove_old.
(* no old signature is left when the input had exactly one *)
Theorem remove_old_single pre post : first_tagged 18 pre = Ok None -> first_tagged 18 post = Ok None -> first_tagged 18 (pre ++ post) = Ok None.
Proof. exact (fun H1 H2 => eq_trans (first_tagged_app_none 18 pre post H1) H2). Qed.
Print Assumptions remove_old_single.

(* ---------------------------------------------------------------- key type *)
(* the check of the KMS is the specification's relation between key classes and the five algorithms, for every EC key size *)
Theorem key_type_check_is_spec kind alg :
  In alg five_algs -> match kind with KEc ks => 0 <= ks | _ => True end ->
  verify_signing_key_type kind alg = match kind with KOther => Raise ValueError | _ => Ok (spec_key_matches kind alg) end.
Proof. exact (key_type_spec kind alg). Qed.
Print Assumptions key_type_check_is_spec.
(* a key whose class does not match the requested algorithm is refused by the KMS (ValueError) whatever the message, and the
   command raises — no output *)
Theorem key_type_mismatch_refused keystore ecdsa eddsa eddsa_ph ent infile t kvs w old d0 rest dg kn kid alg ctx action id kind key :
  load_envelope infile = Ok (CTag t (CMap kvs)) ->
  dict_get kvs (CUint 2) = Some (CBytes w) -> py_loads (CBytes w) = Ok (CArray old) -> first_tagged 18 old = Ok None ->
  old = d0 :: rest -> py_loads d0 = Ok dg -> spec_cose_alg alg = Some id ->
  keystore ctx kn = Some (kind, key) -> match kind with KEc ks => 0 <= ks | _ => True end -> spec_key_matches kind alg = false ->
  (forall msg, kms_sign keystore ecdsa eddsa eddsa_ph ent msg kn alg ctx = Raise ValueError)
  /\ cli_sign_single keystore ecdsa eddsa eddsa_ph ent infile kn kid alg ctx action = Raise ValueError.
Proof. exact (c09_key_mismatch keystore ecdsa eddsa eddsa_ph ent infile t kvs w old d0 rest dg kn kid alg ctx action id kind key). Qed.
Print Assumptions key_type_mismatch_refused.

(* ---------------------------------------------------------------- recursive signing *)
(* For every configuration tree, every envelope and EVERY sign script `sc`: if the command succeeds, the calls of sign_envelope it made
   are, in order, exactly spec_calls: for each node of the configuration that is not marked omit-signing one call — dependencies
   before their parent — with the node's OWN key name, key id and already-signed action, and with sign script, KMS script, algorithm
   and context of the nearest ancestor-or-self that sets them (spec_call, via inherit / inherit_opt / spec_script) *)
Theorem recursive_signs_named sc envvar ent infile c nm out ent' tr :
  cli_sign_recursive sc envvar ent infile c nm = Ok (out, ent', tr) -> map fst tr = spec_calls envvar [] c nm.
Proof. exact (recursive_calls sc envvar ent infile c nm out ent' tr). Qed.
Print Assumptions recursive_signs_named.
(* ... where "nearest ancestor-or-self" is what inherit computes: the last node of the path that sets the attribute, else the default *)
Theorem inherited_from_nearest_ancestor {A} (pre post : list (option A)) v d :
  Forall (fun o => o = None) post -> inherit (pre ++ Some v :: post) d = v /\ inherit_opt (pre ++ Some v :: post) = Some v.
Proof. exact (fun H => conj (inherit_nearest pre post v d H) (inherit_opt_nearest pre post v H)). Qed.
Print Assumptions inherited_from_nearest_ancestor.
Theorem inherited_default {A} (path : list (option A)) d : Forall (fun o => o = None) path -> inherit path d = d.
Proof. exact (inherit_default path d). Qed.
Theorem script_from_nearest_ancestor envvar (pre post : list (option bytes)) v var suf :
  Forall (fun o => o = None) post -> spec_script envvar (pre ++ Some v :: post) var suf = Some v.
Proof. exact (spec_script_nearest envvar pre post v var suf). Qed.
Print Assumptions script_from_nearest_ancestor.

(* With the NCS sign script, for every configuration whose dependency names are pairwise different (keys of a JSON object): at every
   level of the tree the signed envelope has the same tag and the same keys in the same order as the input envelope of that level, and
   every entry other than the authentication wrapper and the dependencies named in the configuration is identical (unnamed_untouched);
   each named dependency is re-embedded, serialised, under its own name and the same holds inside it (every_level);
   in particular the manifest (key 3) is identical at every level (manifests_identical), so digests recorded by parents stay valid *)
Theorem unnamed_untouched_manifests_identical keystore ecdsa eddsa eddsa_ph envvar ent infile c nm out ent' tr :
  cfg_ok c -> cli_sign_recursive (ncs_call keystore ecdsa eddsa eddsa_ph) envvar ent infile c nm = Ok (out, ent', tr) ->
  exists env n env', load_envelope infile = Ok env /\ rs_init envvar c env nm None None default_alg None = Ok n /\ rn_env n = env
                     /\ out = ser env' /\ every_level frame_level n env' /\ every_level manifest_level n env'.
Proof. exact (c09_recursive_frame keystore ecdsa eddsa eddsa_ph envvar ent infile c nm out ent' tr). Qed.
Print Assumptions unnamed_untouched_manifests_identical.
(* the same for any sign script that changes nothing but the entry under key 2 *)
Theorem unnamed_untouched sc n :
  (forall f env ent env' ent', sc f env ent = Ok (env', ent') -> only_wrapper env env') -> rnode_ok n ->
  forall ent env' ent' tr, rs_sign sc n ent = Ok (env', ent', tr) -> every_level frame_level n env'.
Proof. exact (fun H => rs_sign_frame sc H n). Qed.
Print Assumptions unnamed_untouched.
Theorem ncs_sign_script_touches_only_the_wrapper keystore ecdsa eddsa eddsa_ph f env ent env' ent' :
  ncs_call keystore ecdsa eddsa eddsa_ph f env ent = Ok (env', ent') -> only_wrapper env env'.
Proof. exact (ncs_call_frame keystore ecdsa eddsa eddsa_ph f env ent env' ent'). Qed.
Print Assumptions ncs_sign_script_touches_only_the_wrapper.

(* omit-signing: a node so marked makes no call (spec_calls lists none for it, by recursive_signs_named), and its key-name / key-id
   are never looked at: for every node — whatever envelope, name and inherited attributes it is constructed with — and every sign
   script, construction followed by signing gives the same result with any key attributes as with none *)
Theorem omit_needs_no_key sc envvar c kn kid env name ss ks alg ctx ent :
  cfg_omit c = true ->
  match rs_init envvar (with_keys c kn kid) env name ss ks alg ctx with Ok n => rs_sign sc n ent | Raise x => Raise x end =
  match rs_init envvar (with_keys c None None) env name ss ks alg ctx with Ok n => rs_sign sc n ent | Raise x => Raise x end.
Proof. exact (node_omit_no_key sc envvar c kn kid env name ss ks alg ctx ent). Qed.
Print Assumptions omit_needs_no_key.
Theorem omit_needs_no_key_command sc envvar ent infile c nm kn kid :
  cfg_omit c = true ->
  cli_sign_recursive sc envvar ent infile (with_keys c kn kid) nm = cli_sign_recursive sc envvar ent infile (with_keys c None None) nm.
Proof. exact (c09_omit_cli sc envvar ent infile c nm kn kid). Qed.
Print Assumptions omit_needs_no_key_command.

(* a dependency named anywhere in the configuration that is absent from its parent envelope, is not a byte string, does not decode, or
   does not decode to a tagged item: the command raises, with an exception that does not depend on the sign script or the entropy —
   the constructor phase fails before anything is signed and before the only write *)
Theorem bad_dependency_fails_first envvar infile env c nm :
  load_envelope infile = Ok env -> bad_dependency c env ->
  exists e, forall sc ent, cli_sign_recursive sc envvar ent infile c nm = Raise e.
Proof. exact (c09_bad_dependency envvar infile env c nm). Qed.
Print Assumptions bad_dependency_fails_first.

(* ---------------------------------------------------------------- non-vacuity *)
Definition toy_sign ent env kn kid alg act := sign_envelope toy_keystore toy_ecdsa toy_ed toy_ed ent env kn kid alg None act.
Definition toy_signed : cbor := match toy_sign 0 toy_env (s2b "ec") 7 a_es256 act_error with Ok (e, _) => e | Raise _ => cnull end.
(* a singly signed envelope exists; error refuses it, skip returns it, remove-old leaves one block *)
Example signed_input_nonvacuous :
  exists kvs w old a0, toy_signed = CTag 107 (CMap kvs) /\ signed_input kvs w old a0 /\ bstr_list old
    /\ toy_sign 1 toy_signed (s2b "ed") 9 a_eddsa act_error = Raise SignerError
    /\ toy_sign 1 toy_signed (s2b "ed") 9 a_eddsa act_skip = Ok (toy_signed, 1%nat)
    /\ exists e', toy_sign 1 toy_signed (s2b "ed") 9 a_eddsa act_remove_old = Ok (e', 1%nat) /\ blen (ser e') < blen (ser toy_signed).
Proof.
  eexists _, _, _, _. split; [vm_compute; reflexivity|]. split; [split; [vm_compute; reflexivity|]; split; vm_compute; reflexivity|].
  split; [repeat (constructor; [unfold blen; cbn [length]; lia|]); constructor|]. split; [vm_compute; reflexivity|]. split; [vm_compute; reflexivity|].
  eexists. split; [vm_compute; reflexivity|]. vm_compute. reflexivity.
Qed.
(* a two-level configuration: both levels are signed, the dependency first, each with its own key; the child inherits the scripts *)
Example recursive_nonvacuous :
  exists out tr, cfg_ok toy_cfg
    /\ cli_sign_recursive (ncs_call toy_keystore toy_ecdsa toy_ed toy_ed) toy_no_env 0 (ser toy_env) toy_cfg (s2b "in") = Ok (out, 1%nat, tr)
    /\ map (fun f => (r_name f, r_key_name f, r_key_id f, r_alg f, r_sign_script f)) (map fst tr)
       = [(s2b "#dep", Some (s2b "ed"), Some 256, a_eddsa, s2b "sign.py"); (s2b "in", Some (s2b "ec"), Some 7, a_es256, s2b "sign.py")].
Proof.
  eexists _, _. split.
  - constructor; [vm_compute; repeat constructor; intuition discriminate|]. intros dn dc [[= <- <-]|[]]. constructor; [constructor|intros ? ? []].
  - split; vm_compute; reflexivity.
Qed.
Example mismatch_nonvacuous : toy_sign 0 toy_env (s2b "ed") 7 a_es256 act_error = Raise ValueError.
Proof. vm_compute. reflexivity. Qed.
Example bad_dependency_nonvacuous :
  bad_dependency (Cfg (Some true) None None (Some (s2b "s")) (Some (s2b "k")) None None None false
                      (Some [(s2b "#nope", Cfg (Some true) None None None None None None None false None)])) toy_env.
Proof. eapply BadHere; [left; reflexivity|vm_compute; reflexivity]. Qed.

(* F21 — what recursive signing takes for a named dependency is an envelope: tag 107 around a map, nothing else (the regenerated
   _load_dependency).  A payload that merely begins with a CBOR tag is refused (ValueError), it is never handed on, let alone written back. *)
Theorem loaded_dependency_is_an_envelope envelope name c :
  load_dependency envelope name = Ok c -> exists m, c = CTag 107 (CMap m) \/ c = CTag 107 (CMapI m).
Proof.
  unfold load_dependency. intros H.
  repeat match type of H with
         | match ?x with _ => _ end = _ => destruct x eqn:?; try discriminate
         end.
  all: injection H as <-; eexists; eauto.
Qed.
Print Assumptions loaded_dependency_is_an_envelope.
Example tag_looking_payload_is_refused :
  load_dependency (CTag 107 (CMap [(CText (s2b "#p"), CBytes [216; 107; 1; 7; 7; 7])])) (s2b "#p") = Raise ValueError.
Proof. vm_compute. reflexivity. Qed.
Example envelope_dependency_is_loaded :
  load_dependency (CTag 107 (CMap [(CText (s2b "#d"), CBytes [216; 107; 160])])) (s2b "#d") = Ok (CTag 107 (CMap [])).
Proof. vm_compute. reflexivity. Qed.
