(* Suit/Idem.v — recomputing the digests of an envelope whose digests were just computed changes nothing:

     apply_steps [1; 2] e = Ok e2  ->  apply_steps [1; 2] e2 = Ok e2

   (update_severable_digests, then update_digest; the hash is a function, the severed members and the manifest are the ones the
   first pass hashed).  With Suit/ByteTrip.v and Suit/Reparse.v this closes the round trip of whole envelopes: the bytes
   create writes are parsed, shown, read back, their digests recomputed and encoded again to THE SAME BYTES. *)
Require Import Coq.Strings.String.
From Verif Require Import Base.Prim Base.PrimFacts Base.Str Cbor.Codec Suit.Py Suit.Ty Suit.Interp Suit.Digest.
Open Scope Z_scope.

Lemma kv_set_same (l : list (nat * val)) i x : kv_get l i = Some x -> kv_set l i x = l.
Proof.
  induction l as [|[j y] r IH]; cbn [kv_get kv_set]; [discriminate|]. destruct (Nat.eqb i j) eqn:E.
  - intros [= ->]. reflexivity.
  - intros Hg. rewrite (IH Hg). reflexivity.
Qed.

Lemma foldM_fix {S A} (f : S -> A -> res S) (l : list A) (s : S) : (forall a, In a l -> f s a = Ok s) -> foldM f l s = Ok s.
Proof.
  induction l as [|a r IH]; intros Hf; cbn [foldM]; [reflexivity|]. rewrite (Hf a (or_introl eq_refl)). cbn [bind].
  apply IH. intros b Hb. apply Hf. right. exact Hb.
Qed.

Section Idem.
  Variable env : list (bytes * ty).
  Variable hash_names : list bytes.
  Variable H : bytes -> bytes -> res bytes.
  Variable severable_ids : list Z.
  Notation update_digest' := (update_digest env hash_names H).
  Notation update_sev' := (update_severable_digests env hash_names H severable_ids).
  Notation sev_step' := (sev_step env hash_names H).
  Notation hash_of' := (hash_of hash_names H).

  Hypothesis Hnd : NoDup severable_ids.
  Hypothesis Hsev : forall sid, In sid severable_ids -> sid <> 2 /\ sid <> 3.

  Lemma idx_distinct' (em : list (bytes * Z * ty)) a b ia ea ib eb :
    a <> b -> find_idx (fun x => key_id x =? a) em O = Some (ia, ea) -> find_idx (fun x => key_id x =? b) em O = Some (ib, eb) -> ia <> ib.
  Proof.
    intros Hne Ha Hb ->. destruct (find_idx_nth' _ _ _ _ Ha) as (H1 & P1). destruct (find_idx_nth' _ _ _ _ Hb) as (H2 & P2).
    rewrite H1 in H2. injection H2 as ->. lia.
  Qed.

  Lemma digest_set_again d h d' : digest_set d h = Ok d' -> digest_set d' h = Ok d'.
  Proof. intros Hd. destruct (digest_set_bytes d h d' Hd) as (j & a & old & -> & ->). reflexivity. Qed.

  (* where the fold stands when it reaches the member sid: its entry is still the initial one, and what the step leaves there is final *)
  Lemma sev_fold_at tc em mm ents sids : forall ments m1, NoDup sids ->
    foldM (sev_step' tc em mm ents) sids ments = Ok m1 ->
    forall sid si se, In sid sids -> find_idx (fun x => key_id x =? sid) mm O = Some (si, se) ->
      exists mb ma, kv_get mb si = kv_get ments si /\ sev_step' tc em mm ents mb sid = Ok ma /\ kv_get m1 si = kv_get ma si.
  Proof.
    induction sids as [|s sids IH]; intros ments m1 Hnds Hf sid si se Hin Hidx; [destruct Hin|].
    cbn [foldM] in Hf. destruct (sev_step' tc em mm ents ments s) as [m0|] eqn:Es; cbn [bind] in Hf; [|discriminate].
    inversion Hnds as [|? ? Hnotin Hnds']; subst.
    destruct (Z.eq_dec s sid) as [->|Hne].
    - exists ments, m0. split; [reflexivity|]. split; [exact Es|]. exact (sev_fold_other env hash_names H tc em mm ents sids m0 m1 sid si se Hf Hnotin Hidx).
    - destruct Hin as [->|Hin]; [congruence|].
      destruct (IH m0 m1 Hnds' Hf sid si se Hin Hidx) as (mb & ma & Hb & Hs & Ha). exists mb, ma. split; [|split; assumption].
      rewrite Hb. exact (sev_step_other env hash_names H tc em mm ents ments s m0 sid si se Es Hne Hidx).
  Qed.

  (* the step for sid on a map whose entry for sid is what the step left there, with the same envelope member: nothing changes *)
  Lemma sev_step_again tc em mm ents ents' mb ma m1 sid :
    sev_step' tc em mm ents mb sid = Ok ma ->
    (forall si se, find_idx (fun x => key_id x =? sid) mm O = Some (si, se) -> kv_get m1 si = kv_get ma si) ->
    (forall ei ee, find_idx (fun x => key_id x =? sid) em O = Some (ei, ee) -> kv_get ents' ei = kv_get ents ei) ->
    sev_step' tc em mm ents' m1 sid = Ok m1.
  Proof.
    intros Hs Hm He. unfold sev_step in Hs |- *.
    destruct (find_idx (fun x => key_id x =? sid) mm O) as [[si se]|] eqn:Ef; [|reflexivity]. specialize (Hm si se eq_refl).
    destruct (kv_get mb si) as [[c|ai dv|l|l|l|v]|] eqn:Eg;
      try (injection Hs as <-; rewrite Hm, Eg; reflexivity).
    destruct (nth_error (alts_of env (key_ty se)) ai) as [at_|] eqn:Eat; [|injection Hs as <-; rewrite Hm, Eg, Eat; reflexivity].
    destruct (is_ref at_ "SuitDigest") eqn:Eis; [|injection Hs as <-; rewrite Hm, Eg, Eat, Eis; reflexivity].
    destruct (digest_alg dv) as [alg|] eqn:Ealg; cbn [bind] in Hs; [|discriminate].
    destruct (find_idx (fun x => key_id x =? sid) em O) as [[ei ee]|] eqn:Ee; [|discriminate]. specialize (He ei ee eq_refl).
    destruct (kv_get ents ei) as [ev|] eqn:Eev; [|injection Hs as <-; rewrite Hm, Eg, Eat, Eis, Ealg; cbn [bind]; rewrite He; reflexivity].
    destruct (tc (key_ty ee) ev) as [data|] eqn:Ed; cbn [bind] in Hs; [|discriminate].
    destruct (hash_of' alg data) as [h|] eqn:Eh; cbn [bind] in Hs; [|discriminate].
    destruct (digest_set dv h) as [dv'|] eqn:Eds; cbn [bind] in Hs; [|discriminate].
    injection Hs as <-. rewrite kv_get_set_same in Hm. rewrite Hm, Eat, Eis.
    rewrite (digest_set_alg dv h dv' Eds), Ealg. cbn [bind]. rewrite He, Ed. cbn [bind]. rewrite Eh. cbn [bind].
    rewrite (digest_set_again dv h dv' Eds). cbn [bind]. rewrite (kv_set_same m1 si _ Hm). reflexivity.
  Qed.

  Lemma sev_fold_again tc em mm ents ents' ments m1 :
    foldM (sev_step' tc em mm ents) severable_ids ments = Ok m1 ->
    (forall sid ei ee, In sid severable_ids -> find_idx (fun x => key_id x =? sid) em O = Some (ei, ee) -> kv_get ents' ei = kv_get ents ei) ->
    foldM (sev_step' tc em mm ents') severable_ids m1 = Ok m1.
  Proof.
    intros Hf He. apply foldM_fix. intros sid Hin.
    destruct (find_idx (fun x => key_id x =? sid) mm O) as [[si se]|] eqn:Ef.
    - destruct (sev_fold_at tc em mm ents severable_ids ments m1 Hnd Hf sid si se Hin Ef) as (mb & ma & _ & Hs & Ha).
      apply (sev_step_again tc em mm ents ents' mb ma m1 sid Hs).
      + intros si' se' Ef'. rewrite Ef in Ef'. injection Ef' as <- <-. exact Ha.
      + intros ei ee Ee. exact (He sid ei ee Hin Ee).
    - unfold sev_step. rewrite Ef. reflexivity.
  Qed.

  (* the two updaters, run on their own result *)
  Theorem digests_idempotent tc root e e1 e2 :
    update_sev' tc root e = Ok e1 -> update_digest' tc root e1 = Ok e2 ->
    update_sev' tc root e2 = Ok e2 /\ update_digest' tc root e2 = Ok e2.
  Proof.
    intros Hs Hd.
    destruct (update_sev_shape env hash_names H severable_ids tc root e e1 Hs) as (ents & em & mi & me & ments & mm & ments' & -> & Hem & Hmi & Hgm & Hmm & Hfold & ->).
    destruct (update_digest_spec env hash_names H tc root _ e2 Hd) as (ents1 & em' & ai & ae & mi' & me' & mv & d & blocks & alg & mb & h & d' & E1 & Hem' & Hai & Hmi'' & Hga & Hgm1 & Halg & Hmb & Hh & Hds & ->).
    injection E1 as <-. rewrite Hem in Hem'. injection Hem' as <-. rewrite Hmi in Hmi''. injection Hmi'' as <- <-.
    assert (Hne : ai <> mi) by exact (idx_distinct' em 2 3 ai ae mi me ltac:(lia) Hai Hmi).
    set (ents1 := kv_set ents mi (VKV ments')) in *. set (ents2 := kv_set ents1 ai (VSeq (d' :: blocks))).
    assert (Hg2m : kv_get ents2 mi = Some (VKV ments')).
    { unfold ents2. rewrite kv_get_set_other by exact Hne. unfold ents1. apply kv_get_set_same. }
    assert (Hmv : mv = VKV ments') by (unfold ents1 in Hgm1; rewrite kv_get_set_same in Hgm1; injection Hgm1 as <-; reflexivity).
    split.
    - unfold update_severable_digests. rewrite Hem, Hmi, Hg2m, Hmm.
      rewrite (sev_fold_again tc em mm ents ents2 ments ments' Hfold).
      + cbn [bind]. rewrite (kv_set_same ents2 mi _ Hg2m). reflexivity.
      + intros sid ei ee Hin Hei. destruct (Hsev sid Hin) as [H2 H3].
        unfold ents2, ents1. rewrite kv_get_set_other by exact (idx_distinct' em 2 sid ai ae ei ee ltac:(congruence) Hai Hei).
        rewrite kv_get_set_other by exact (idx_distinct' em 3 sid mi me ei ee ltac:(congruence) Hmi Hei). reflexivity.
    - unfold update_digest. rewrite Hem, Hai. unfold ents2 at 1. rewrite kv_get_set_same.
      rewrite (digest_set_alg d h d' Hds), Halg. cbn [bind]. unfold get_manifest_digest. rewrite Hem, Hmi, Hg2m. rewrite <- Hmv, Hmb. cbn [bind]. rewrite Hh. cbn [bind].
      rewrite (digest_set_again d h d' Hds). cbn [bind].
      assert (Hga2 : kv_get ents2 ai = Some (VSeq (d' :: blocks))) by (unfold ents2; apply kv_get_set_same).
      rewrite (kv_set_same ents2 ai _ Hga2). reflexivity.
  Qed.

  Corollary apply_steps_idempotent tc root e e2 :
    apply_steps env hash_names H severable_ids tc root [1; 2] e = Ok e2 -> apply_steps env hash_names H severable_ids tc root [1; 2] e2 = Ok e2.
  Proof.
    unfold apply_steps. cbn [foldM]. change (1 =? 1) with true. change (2 =? 1) with false. change (2 =? 2) with true. cbv iota.
    destruct (update_sev' tc root e) as [e1|] eqn:Es; cbn [bind]; [|discriminate].
    destruct (update_digest' tc root e1) as [e2'|] eqn:Ed; cbn [bind]; [|discriminate]. intros [= <-].
    destruct (digests_idempotent tc root e e1 e2' Es Ed) as [Hs2 Hd2]. rewrite Hs2. cbn [bind]. rewrite Hd2. reflexivity.
  Qed.
End Idem.
