(* Suit/TypedObj.v — the object trees built FROM A DESCRIPTION (from_obj) are well-typed too (same relation wt as for parsed
   trees, Suit/Typed.v).  Consequence used by C01: the member list of the envelope object that create serialises has
   pairwise different indices. *)
Require Import Coq.Strings.String.
From Verif Require Import Base.Prim Base.PrimFacts Base.Str Cbor.Codec Suit.Py Suit.Ty Suit.Interp Suit.Digest Suit.Typed.
Open Scope Z_scope.

Section ObjBody.
  Variable env : list (bytes * ty).
  Hypothesis Henv : env_wf env = true.
  Variable hash_names : list bytes.
  Variable H : bytes -> bytes -> res bytes.
  Variable uuid5 : bytes -> bytes -> res bytes.
  Variable fs : bytes -> option bytes.
  Variable json_loads : bytes -> res cbor.
  Variable severable_ids steps_processed steps_digest_ext : list Z.
  Variable tcbor : ty -> val -> res bytes.
  Variable fcbor : ty -> bytes -> res val.
  Variable rec : ty -> cbor -> res val.

  Definition wtR (t : ty) (r : res val) : Prop := match r with Ok v => wt env t v | Raise _ => True end.
  Hypothesis Hrec : forall t o, wf env t = true -> wtR t (rec t o).

  Lemma bind_wtR {A} (m : res A) (k : A -> res val) t : (forall a, m = Ok a -> wtR t (k a)) -> wtR t (bind m k).
  Proof. destruct m as [a|e]; cbn [bind]; intros Hk; [apply Hk; reflexivity|exact I]. Qed.

  Lemma wtR_weaken t t' r : (forall v, wt env t' v -> wt env t v) -> wtR t' r -> wtR t r.
  Proof. intros Hw. destruct r as [v|e]; cbn [wtR]; [apply Hw|exact (fun x => x)]. Qed.

  Lemma seq_wt et items : wf env et = true ->
    match (fix go (l : list cbor) : res (list val) :=
               match l with [] => Ok [] | x :: r => let* y := rec et x in let* ys := go r in Ok (y :: ys) end) items with
    | Ok ys => forall y, In y ys -> wt env et y
    | Raise _ => True
    end.
  Proof.
    intros Hw. induction items as [|x r IH]; [intros y []|].
    pose proof (Hrec et x Hw) as Hx. destruct (rec et x) as [y|e]; cbn [bind]; [|exact I].
    match goal with |- match bind ?M _ with _ => _ end => destruct M as [ys|e] end; cbn [bind]; [|exact I].
    intros y' [<-|Hy]; [exact Hx|exact (IH y' Hy)].
  Qed.

  Lemma hex_obj_wt o : forall t, (forall b, wt env t (VRaw (CBytes b))) -> wtR t (hex_obj o).
  Proof. intros t Hb. unfold hex_obj. destruct o as [?|?|?|s|?|?|?|? ?|?]; try exact I. destruct (unhex s); [apply Hb|exact I]. Qed.

  Lemma star_last fields0 done key ft fr : wf env (TTuple fields0) = true -> fields0 = done ++ (key, ft) :: fr -> ends_with_star key = true ->
    fr = [] /\ forall i, (length done <= i)%nat -> tuple_pos_ok fields0 i ft.
  Proof.
    intros Hwf Hsplit Estar.
    assert (fr = []) as ->.
    { destruct fr as [|f2 fr']; [reflexivity|]. exfalso. pose proof (wf_tuple_nostar env fields0 Hwf) as Hns.
      rewrite Hsplit in Hns. rewrite map_app in Hns. cbn [map] in Hns. rewrite removelast_app in Hns by discriminate.
      rewrite existsb_app in Hns. apply orb_false_elim in Hns. destruct Hns as [_ Hns]. cbn [removelast fst existsb] in Hns.
      rewrite (ends_has_star key Estar) in Hns. discriminate Hns. }
    split; [reflexivity|].
    assert (Hnth : nth_error fields0 (length done) = Some (key, ft)).
    { rewrite Hsplit. rewrite nth_error_app2 by lia. rewrite Nat.sub_diag. reflexivity. }
    assert (Hls : last_star fields0 = true).
    { unfold last_star. rewrite Hsplit, map_app, rev_app_distr. cbn [map rev app fst]. exact (ends_has_star key Estar). }
    intros i Hi. split; [|right; exact Hls]. unfold field_ty. destruct (nth_error fields0 i) as [[k' t']|] eqn:En.
    - assert (i = length done) as ->.
      { assert (Hlt : (i < length fields0)%nat) by (apply nth_error_Some; congruence). rewrite Hsplit, app_length in Hlt. cbn [length] in Hlt. lia. }
      rewrite Hnth in En. injection En as <- <-. reflexivity.
    - rewrite Hsplit, rev_app_distr. reflexivity.
  Qed.

  Lemma tuple_obj_wt fields0 d : wf env (TTuple fields0) = true -> forall fields done acc,
    fields0 = done ++ fields -> (fields <> [] -> length acc = length done) -> posinv env fields0 acc ->
    wtR (TTuple fields0)
      ((fix go (fields : list (bytes * ty)) (acc : list val) : res val :=
               match fields with
               | [] => Ok (VSeq (rev acc))
               | (k, ft) :: fr =>
                   match dict_get d (CText k) with
                   | Some x => let* y := rec ft x in go fr (y :: acc)
                   | None =>
                       if ends_with_star k then
                         let pre := replace_star k [] in
                         (fix subs (ks : list (cbor * cbor)) (acc : list val) : res val :=
                            match ks with
                            | [] => go fr acc
                            | (CText kk, x) :: kr =>
                                if starts_with kk pre then let* y := rec ft x in subs kr (y :: acc) else subs kr acc
                            | _ :: _ => Raise AttributeError
                            end) d acc
                       else Raise ValueError
                   end
               end) fields acc).
  Proof.
    intros Hwf. induction fields as [|[key ft] fr IH]; intros done acc Hsplit Hlen Hpos.
    - constructor. exact Hpos.
    - assert (Hnth : nth_error fields0 (length done) = Some (key, ft)).
      { rewrite Hsplit. rewrite nth_error_app2 by lia. rewrite Nat.sub_diag. reflexivity. }
      pose proof (wf_tuple_field env fields0 _ key ft Hwf Hnth) as Hwft.
      assert (Hsplit' : fields0 = (done ++ [(key, ft)]) ++ fr) by (rewrite <- app_assoc; exact Hsplit).
      specialize (Hlen ltac:(discriminate)).
      destruct (dict_get d (CText key)) as [x|].
      + pose proof (Hrec ft x Hwft) as Hy. destruct (rec ft x) as [y|e]; cbn [bind]; [|exact I].
        apply (IH (done ++ [(key, ft)]) (y :: acc) Hsplit').
        * intros _. rewrite app_length. cbn [length]. lia.
        * apply (posinv_push env fields0 acc y ft Hpos); [|exact Hy]. rewrite Hlen. split; [exact (field_ty_nth _ _ _ _ Hnth)|].
          left. apply nth_error_Some. congruence.
      + destruct (ends_with_star key) eqn:Estar; [|exact I]. cbv zeta.
        destruct (star_last fields0 done key ft fr Hwf Hsplit Estar) as [-> Hpk].
        assert (Hge : (length done <= length acc)%nat) by lia. clear Hlen.
        match goal with |- wtR _ (?F d acc) =>
          assert (G : forall ks acc, (length done <= length acc)%nat -> posinv env fields0 acc -> wtR (TTuple fields0) (F ks acc)); [|apply G; assumption] end.
        clear acc Hge Hpos. induction ks as [|[kk x] kr IHk]; intros acc Hge Hpos.
        * constructor. exact Hpos.
        * destruct kk as [?|?|?|kt|?|?|?|? ?|?]; try exact I. destruct (starts_with kt (replace_star key [])); [|apply IHk; assumption].
          pose proof (Hrec ft x Hwft) as Hy. destruct (rec ft x) as [y|e]; cbn [bind]; [|exact I].
          apply IHk; [cbn [length]; lia|]. apply (posinv_push env fields0 acc y ft Hpos (Hpk _ Hge) Hy).
  Qed.

  Ltac ow :=
    repeat first
      [ exact I | assumption
      | apply bind_wtR; intros ? ?
      | match goal with |- wtR _ (if ?c then _ else _) => destruct c eqn:? end
      | match goal with |- wtR _ (match ?x with _ => _ end) => destruct x eqn:? end
      | progress cbn [wtR]
      | apply hex_obj_wt; intros; constructor
      | constructor ].

  Lemma from_obj_body_wt t o : wf env t = true ->
    wtR t (from_obj_body env hash_names H uuid5 fs json_loads severable_ids steps_processed steps_digest_ext tcbor fcbor rec t o).
  Proof.
    intros Hwf. destruct t; unfold from_obj_body; cbv beta zeta; try (ow; fail).
    - (* TDigestExt *)
      assert (Hraw : forall x, wtR TDigestExt (rec (TRef (s2b "SuitDigestRaw")) x)).
      { intros x. apply (wtR_weaken TDigestExt (TRef (s2b "SuitDigestRaw"))); [intros v Hv; constructor; exact Hv|apply Hrec; exact Hwf]. }
      destruct o as [?|?|?|?|?|d|?|? ?|?]; try exact I.
      destruct (dict_get d (CText (s2b "suit-digest-algorithm-id"))) as [alg|]; [|apply bind_wtR; intros; exact I].
      destruct (dict_get d (CText (s2b "suit-digest-bytes"))) as [[?|?|?|?|?|dd|?|? ?|?]|]; try apply Hraw.
      apply bind_wtR. intros hx _. apply Hraw.
    - (* TComponentVersion *)
      cbn [wf] in Hwf. apply bind_wtR. intros o' _. apply bind_wtR. intros items _.
      pose proof (seq_wt t items Hwf) as Hs.
      match goal with |- wtR _ (bind ?M _) => destruct M as [ys|e] end; cbn [bind wtR]; [constructor; exact Hs|exact I].
    - (* TPayloadMap *)
      cbn [wf] in Hwf. apply andb_prop in Hwf. destruct Hwf as [Hw1 Hw2].
      apply bind_wtR. intros d _.
      match goal with |- wtR _ (?F d []) =>
        assert (G : forall kvs acc, (forall p, In p acc -> wt env t1 (snd (fst (snd p))) /\ wt env t2 (snd (snd p))) -> wtR (TPayloadMap t1 t2) (F kvs acc));
          [|apply G; intros p []] end.
      induction kvs as [|[k x] r IH]; intros acc Hacc; [constructor; exact Hacc|].
      apply bind_wtR. intros data _. apply bind_wtR. intros hit Hhit. apply IH. intros p Hp.
      destruct (kvu_set_in _ _ _ _ Hp) as [Hi|Hs]; [exact (Hacc p Hi)|]. rewrite Hs.
      pose proof (Hrec t1 k Hw1) as Hk. destruct (rec t1 k) as [kv|e]; cbn [bind] in Hhit; [|discriminate Hhit].
      pose proof (Hrec t2 data Hw2) as Hv. destruct (rec t2 data) as [vv|e]; cbn [bind] in Hhit; [|discriminate Hhit].
      injection Hhit as <-. cbn [fst snd]. split; assumption.
    - (* TUnionHMO *)
      assert (Hpos : forall p o', wtR (TUnionHMO alts)
                (match find_idx p alts O with Some (i, a) => let* x := rec a o' in Ok (VUnion i x) | None => Raise Unsupported end)).
      { intros p o'. destruct (find_idx p alts O) as [[i a]|] eqn:Ef; [|exact I]. destruct (find_idx_nth' _ _ _ _ Ef) as [Hn _].
        pose proof (Hrec a o' (wf_hmo env alts i a Hwf Hn)) as Hx. destruct (rec a o') as [x|e]; cbn [bind wtR]; [|exact I].
        econstructor; eassumption. }
      destruct o as [?|?|b|s|?|d|?|? ?|?]; try exact I.
      + destruct b; [apply Hpos|exact I].
      + destruct s; [apply Hpos|exact I].
      + destruct d; apply Hpos.
    - (* TUnion *)
      match goal with |- wtR _ (?F alts O) =>
        assert (G : forall l i, (forall j a, nth_error l j = Some a -> nth_error alts (i + j) = Some a) -> wtR (TUnion alts) (F l i));
          [|apply G; intros j a Hj; exact Hj] end.
      induction l as [|a r IH]; intros i Hsub; [exact I|].
      pose proof (Hsub O a eq_refl) as Ha. rewrite Nat.add_0_r in Ha.
      pose proof (Hrec a o (wf_union env alts i a Hwf Ha)) as Hx. destruct (rec a o) as [x|e]; [econstructor; eassumption|].
      destruct e; try exact I. apply IH. intros j a' Hj. replace (S i + j)%nat with (i + S j)%nat by lia. apply Hsub. exact Hj.
    - (* TTuple *)
      destruct o as [?|?|?|?|?|d|?|? ?|?]; try exact I.
      apply (tuple_obj_wt fields d Hwf fields [] [] eq_refl (fun _ => eq_refl)). intros i x Hi. destruct i; discriminate Hi.
    - (* TKeyValue *)
      destruct o as [?|?|?|?|?|d|?|? ?|?]; try exact I.
      match goal with |- wtR _ (?F d []) =>
        assert (G : forall kvs acc, kvinv env m acc -> wtR (TKeyValue m embedded) (F kvs acc)); [|apply G; split; [constructor|intros p []]] end.
      induction kvs as [|[k x] r IH]; intros acc Hacc; [destruct Hacc; constructor; assumption|].
      destruct (find_idx (fun e : list Z * Z * ty => py_eqb (CText (key_name e)) k) m 0) as [[idx e]|] eqn:Ef; [|exact I].
      destruct (find_idx_nth' _ _ _ _ Ef) as [Hn _].
      pose proof (Hrec (key_ty e) x (wf_kv env m embedded idx e Hwf Hn)) as Hy. destruct (rec (key_ty e) x) as [y|er]; cbn [bind]; [|exact I].
      apply IH. exact (kvinv_set env m acc idx e y Hacc Hn Hy).
    - (* TKVTuple *)
      destruct o as [?|?|?|?|?|d|?|? ?|?]; try exact I.
      match goal with |- wtR _ (?F d []) =>
        assert (G : forall kvs acc, kvinv env m acc -> wtR (TKVTuple m) (F kvs acc)); [|apply G; split; [constructor|intros p []]] end.
      induction kvs as [|[k x] r IH]; intros acc Hacc; [destruct Hacc; constructor; assumption|].
      destruct (find_idx (fun e : list Z * Z * ty => py_eqb (CText (key_name e)) k) m 0) as [[idx e]|] eqn:Ef; [|exact I].
      destruct (find_idx_nth' _ _ _ _ Ef) as [Hn _].
      pose proof (Hrec (key_ty e) x (wf_kvt env m idx e Hwf Hn)) as Hy. destruct (rec (key_ty e) x) as [y|er]; cbn [bind]; [|exact I].
      apply IH. exact (kvinv_set env m acc idx e y Hacc Hn Hy).
    - (* TKVUnnamed *)
      apply bind_wtR. intros d _.
      match goal with |- wtR _ (?F d []) =>
        assert (G : forall kvs acc, (forall p, In p acc -> hit_ok env pairs p) -> wtR (TKVUnnamed pairs) (F kvs acc)); [|apply G; intros p []] end.
      induction kvs as [|[k x] r IH]; intros acc Hacc; [constructor; exact Hacc|].
      match goal with |- wtR _ (bind (?T pairs O) _) =>
        assert (HT : forall ps i, (forall j p, nth_error ps j = Some p -> nth_error pairs (i + j) = Some p) ->
                      match T ps i with Ok h => hit_ok env pairs (k, h) | Raise _ => True end) end.
      { induction ps as [|[kt vt] ps' IHp]; intros i Hsub; [exact I|]. cbv zeta.
        pose proof (Hsub O (kt, vt) eq_refl) as Hp. rewrite Nat.add_0_r in Hp. destruct (wf_kvu env pairs i kt vt Hwf Hp) as [Hwk Hwv].
        assert (Hnext : forall j p, nth_error ps' j = Some p -> nth_error pairs (S i + j) = Some p).
        { intros j p Hj. replace (S i + j)%nat with (i + S j)%nat by lia. apply Hsub. exact Hj. }
        match goal with |- match (match ?A with _ => _ end) with _ => _ end =>
          assert (HA : match A with Ok h => hit_ok env pairs (k, h) | Raise _ => True end) end.
        { assert (Hkv : forall kx, match catch_value (let* j := json_loads kx in rec kt j) (rec kt k) with Ok kv => wt env kt kv | Raise _ => True end).
          { intros kx. unfold catch_value. destruct (json_loads kx) as [j|e]; cbn [bind].
            - pose proof (Hrec kt j Hwk) as H1. destruct (rec kt j) as [kv|e]; [exact H1|]. destruct e; try exact I. exact (Hrec kt k Hwk).
            - destruct e; try exact I. exact (Hrec kt k Hwk). }
          destruct k as [?|?|ks|ks|?|?|?|? ?|?]; try exact I.
          + specialize (Hkv ks). destruct (catch_value _ _) as [kv|e]; cbn [bind]; [|exact I].
            pose proof (Hrec vt x Hwv) as Hv. destruct (rec vt x) as [vv|e]; cbn [bind]; [|exact I]. exists kt, vt. cbn [fst snd]. auto.
          + specialize (Hkv ks). destruct (catch_value _ _) as [kv|e]; cbn [bind]; [|exact I].
            pose proof (Hrec vt x Hwv) as Hv. destruct (rec vt x) as [vv|e]; cbn [bind]; [|exact I]. exists kt, vt. cbn [fst snd]. auto. }
        match goal with |- match (match ?A with _ => _ end) with _ => _ end => destruct A as [h|e] end; [exact HA|].
        destruct e; try exact I. apply IHp. exact Hnext. }
      specialize (HT pairs O (fun j p Hj => Hj)).
      match goal with |- wtR _ (bind ?M _) => destruct M as [hit|e] end; cbn [bind]; [|exact I].
      apply IH. intros p Hp. destruct (kvu_set_in _ _ _ _ Hp) as [Hi|Hs]; [exact (Hacc p Hi)|].
      unfold hit_ok in *. rewrite Hs. exact HT.
    - (* TList *)
      destruct elem as [et|]; [|discriminate Hwf]. cbn [wf] in Hwf. apply bind_wtR. intros items _.
      pose proof (seq_wt et items Hwf) as Hs.
      match goal with |- wtR _ (bind ?M _) => destruct M as [ys|e] end; cbn [bind wtR]; [constructor; exact Hs|exact I].
    - (* TBitfield *)
      cbn [wf] in Hwf. destruct o as [?|?|?|?|items|?|?|? ?|?]; try exact I.
      pose proof (seq_wt t items Hwf) as Hs.
      match goal with |- wtR _ (bind ?M _) => destruct M as [ys|e] end; cbn [bind wtR]; [constructor; exact Hs|exact I].
    - (* TTag *)
      cbn [wf] in Hwf. destruct o as [?|?|?|?|?|d|?|? ?|?]; try exact I. destruct (dict_get d (CText name)) as [x|]; [|exact I].
      pose proof (Hrec t x Hwf) as Hy. destruct (rec t x) as [y|e]; cbn [bind wtR]; [constructor; exact Hy|exact I].
    - (* TCbstr *)
      cbn [wf] in Hwf. apply (wtR_weaken (TCbstr t) t); [intros v Hv; constructor; exact Hv|apply Hrec; exact Hwf].
    - (* TRef *)
      cbn [wf] in Hwf. unfold bound in Hwf. destruct (lookup name env) as [t'|] eqn:El; [|discriminate Hwf].
      apply (wtR_weaken (TRef name) t'); [intros v Hv; econstructor; eassumption|apply Hrec; exact (lookup_wf env name t' Henv El)].
  Qed.
End ObjBody.

(* every tree built from a description is well-typed, for every description, budget and well-formed type table *)
Theorem from_obj_wt env hn H u5 fs jl jd sev sp sd : env_wf env = true ->
  forall f t o, wf env t = true -> wtR env t (from_obj env hn H u5 fs jl jd sev sp sd f t o).
Proof.
  intros Henv. induction f as [|f IH]; intros t o Hwf; [exact I|]. cbn [from_obj].
  apply from_obj_body_wt; [exact Henv|exact IH|exact Hwf].
Qed.

(* the member list of a created envelope object has pairwise different indices *)
Theorem from_obj_envelope_nodup env hn H u5 fs jl jd sev sp sd root n name envn em emb f o ents :
  env_wf env = true -> lookup root env = Some (TTag n name (TRef envn)) -> lookup envn env = Some (TKeyValue em emb) ->
  from_obj env hn H u5 fs jl jd sev sp sd f (TRef root) o = Ok (VTagged (VKV ents)) -> NoDup (map fst ents).
Proof.
  intros Henv Hroot Henvn E.
  assert (Hb : wf env (TRef root) = true) by (cbn [wf]; unfold bound; rewrite Hroot; reflexivity).
  pose proof (from_obj_wt env hn H u5 fs jl jd sev sp sd Henv f (TRef root) o Hb) as Hw. rewrite E in Hw. cbn [wtR] in Hw.
  inversion Hw as [n0 t0 v0 Hl Hw1| | | | | | | | | | | | | | | | | | | | | | | | | | |]; subst. rewrite Hroot in Hl. injection Hl as <-.
  inversion Hw1 as [| | | | | | | | | | | | | | | | | | | | | | | | | | |n1 nm1 t1 v1 Hw2]; subst.
  inversion Hw2 as [n2 t2 v2 Hl2 Hw3| | | | | | | | | | | | | | | | | | | | | | | | | | |]; subst. rewrite Henvn in Hl2. injection Hl2 as <-.
  inversion Hw3; subst. assumption.
Qed.

Theorem from_obj_envelope_entries env hn H u5 fs jl jd sev sp sd root n name envn em emb f o ents :
  env_wf env = true -> lookup root env = Some (TTag n name (TRef envn)) -> lookup envn env = Some (TKeyValue em emb) ->
  from_obj env hn H u5 fs jl jd sev sp sd f (TRef root) o = Ok (VTagged (VKV ents)) ->
  forall p, In p ents -> exists e, nth_error em (fst p) = Some e /\ wt env (key_ty e) (snd p).
Proof.
  intros Henv Hroot Henvn E.
  assert (Hb : wf env (TRef root) = true) by (cbn [wf]; unfold bound; rewrite Hroot; reflexivity).
  pose proof (from_obj_wt env hn H u5 fs jl jd sev sp sd Henv f (TRef root) o Hb) as Hw. rewrite E in Hw. cbn [wtR] in Hw.
  inversion Hw as [n0 t0 v0 Hl Hw1| | | | | | | | | | | | | | | | | | | | | | | | | | |]; subst. rewrite Hroot in Hl. injection Hl as <-.
  inversion Hw1 as [| | | | | | | | | | | | | | | | | | | | | | | | | | |n1 nm1 t1 v1 Hw2]; subst.
  inversion Hw2 as [n2 t2 v2 Hl2 Hw3| | | | | | | | | | | | | | | | | | | | | | | | | | |]; subst. rewrite Henvn in Hl2. injection Hl2 as <-.
  inversion Hw3; subst. assumption.
Qed.
