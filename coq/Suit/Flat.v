(* Suit/Flat.v — C02: command sequences are written as FLAT code / argument pairs: a list node whose elements are single-entry
   key-value tuples (a command or a parameter with its argument) and that is declared with group size 2 serialises to ONE array
   code_1, arg_1, code_2, arg_2, ... in description order, with code_i the registered integer of the i-th command. *)
Require Import Coq.Strings.String.
From Verif Require Import Base.Prim Base.PrimFacts Base.Str Cbor.Codec Suit.Py Suit.PyFacts Suit.Ty Suit.Interp.
Open Scope Z_scope.

Section Flat.
  Variable env : list (bytes * ty).
  Variable m : list (bytes * Z * ty).

  (* one command: (index of its table entry, argument tree) *)
  Definition cmd_tree (c : nat * val) : val := VKV [c].

  (* the pair that one command contributes: registered code, deserialised serialisation of its argument *)
  Definition cmd_pair (f : nat) (c : nat * val) : res (list cbor) :=
    match nth_error m (fst c) with
    | None => Raise Unsupported
    | Some e => let* b := to_cbor env f (key_ty e) (snd c) in let* a := dec b in Ok [cint (key_id e); a]
    end.

  Fixpoint flat_pairs (f : nat) (cs : list (nat * val)) : res (list cbor) :=
    match cs with [] => Ok [] | c :: r => let* p := cmd_pair f c in let* ps := flat_pairs f r in Ok (p ++ ps) end.

  Lemma to_cbor_unfold f t v : to_cbor env (S f) t v = to_cbor_body env (fun t' v' => to_cbor env f t' v') t v.
  Proof. reflexivity. Qed.

  Lemma one_command f c p : cmd_pair f c = Ok p -> dec (ser (CArray p)) = Ok (CArray p) ->
    (let* b := to_cbor env (S f) (TKVTuple m) (cmd_tree c) in dec b) = Ok (CArray p).
  Proof.
    unfold cmd_pair, cmd_tree. destruct c as [idx v]. cbn [fst snd]. intros Hp Hn. rewrite to_cbor_unfold. unfold to_cbor_body. cbv beta zeta.
    destruct (nth_error m idx) as [e|]; [|discriminate].
    destruct (to_cbor env f (key_ty e) v) as [b|] eqn:Eb; cbn [bind] in Hp |- *; [|discriminate].
    destruct (dec b) as [a|] eqn:Ea; cbn [bind] in Hp |- *; [|discriminate]. injection Hp as <-. exact Hn.
  Qed.

  (* a grouped list concatenates the arrays its elements serialise to *)
  Theorem grouped_list_is_flat f et g xs pss b :
    Forall2 (fun x p => (let* bb := to_cbor env (S f) et x in dec bb) = Ok (CArray p)) xs pss ->
    to_cbor env (S (S f)) (TList (Some et) (Some g)) (VSeq xs) = Ok b -> b = ser (CArray (concat pss)).
  Proof.
    intros HF. rewrite to_cbor_unfold. unfold to_cbor_body. cbv beta zeta. intros Hb.
    match type of Hb with (let* cs0 := ?M in _) = _ => assert (HM : M = Ok (concat pss)) end.
    { clear Hb. induction HF as [|x p xs pss Hx _ IH]; [reflexivity|]. rewrite Hx. cbn [bind extend_items concat]. rewrite IH. reflexivity. }
    rewrite HM in Hb. cbn [bind] in Hb. injection Hb as <-. reflexivity.
  Qed.

  (* references and unions are transparent for serialisation *)
  Lemma to_cbor_ref f n t v : lookup n env = Some t -> to_cbor env (S f) (TRef n) v = to_cbor env f t v.
  Proof. intros Hl. rewrite to_cbor_unfold. unfold to_cbor_body. rewrite Hl. reflexivity. Qed.
  Lemma to_cbor_union f alts i t v : nth_error alts i = Some t -> to_cbor env (S f) (TUnion alts) (VUnion i v) = to_cbor env f t v.
  Proof. intros Hn. rewrite to_cbor_unfold. unfold to_cbor_body. rewrite Hn. reflexivity. Qed.
End Flat.
