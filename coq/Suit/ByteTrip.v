(* Suit/ByteTrip.v — encode, then parse (the byte-level half of the round trip):

     bst t v -> to_cbor f t v = Ok b -> exists c, normal c /\ b = ser c /\ from_cbor f t (ensure_cbor c) = Ok v

   for every recursion budget f, every type table and every tree v that is BYTE-STABLE for its type (bst): leaves hold
   normal values of the right kind, maps carry each known key once, tuples have the right number of members, a union
   value is rejected by the alternatives tried before its own.  In particular the encoder's output is always the
   serialisation of ONE normal item (so the decoder accepts it), and the parser rebuilds exactly the tree.
   Not covered by bst (no constructor): payload / text maps (their entries are merged into the parent map), bit fields
   with members, the empty byte string node (it encodes to no bytes at all). *)
Require Import Coq.Strings.String.
From Verif Require Import Base.Prim Base.PrimFacts Base.Str Cbor.Codec Cbor.CodecFacts Suit.Py Suit.PyFacts Suit.Ty Suit.Interp Suit.Tables Suit.Reparse.
Open Scope Z_scope.

Lemma ends_star_has_star k : ends_with_star k = true -> has_star k = true.
Proof.
  unfold ends_with_star, has_star. intros H. destruct (rev k) as [|c r] eqn:E; [discriminate|].
  destruct (c =? 42) eqn:Ec; [|destruct c as [|p|p]; try discriminate; do 6 (destruct p as [p|p|]; try discriminate)].
  apply Z.eqb_eq in Ec. subst c. apply existsb_exists. exists 42. split; [|reflexivity]. apply in_rev. rewrite E. left. reflexivity.
Qed.

Lemma find_idx_by_id (m : list (bytes * Z * ty)) : NoDup (map key_id m) -> forall idx e, nth_error m idx = Some e ->
  find_idx (fun e' => py_eqb (cint (key_id e')) (cint (key_id e))) m O = Some (idx, e).
Proof.
  induction m as [|a m IH]; intros Hnd idx e Hn; [destruct idx; discriminate|]. cbn [map] in Hnd. inversion Hnd as [|? ? Hnot Hnd']; subst.
  cbn [find_idx]. destruct idx as [|idx]; cbn [nth_error] in Hn.
  - injection Hn as <-. rewrite py_eqb_cint, Z.eqb_refl. reflexivity.
  - rewrite py_eqb_cint. destruct (key_id a =? key_id e) eqn:E.
    + apply Z.eqb_eq in E. exfalso. apply Hnot. rewrite E. apply in_map. exact (nth_error_In _ _ Hn).
    + rewrite find_idx_shift, (IH Hnd' idx e Hn). reflexivity.
Qed.

Lemma nth_same_id (m : list (bytes * Z * ty)) : NoDup (map key_id m) -> forall i j e1 e2,
  nth_error m i = Some e1 -> nth_error m j = Some e2 -> key_id e1 = key_id e2 -> i = j.
Proof.
  intros Hnd i j e1 e2 H1 H2 He. pose proof (find_idx_by_id m Hnd i e1 H1) as F1. pose proof (find_idx_by_id m Hnd j e2 H2) as F2.
  rewrite He in F1. rewrite F1 in F2. injection F2 as -> _. reflexivity.
Qed.

Lemma Forall2_length {A B} (R : A -> B -> Prop) l1 l2 : Forall2 R l1 l2 -> length l1 = length l2.
Proof. induction 1; cbn [length]; congruence. Qed.

Lemma normal_cint i : - two64 <= i < two64 -> normal (cint i).
Proof. unfold cint. destruct (0 <=? i) eqn:E; cbn [normal]; unfold two64 in *; lia. Qed.

Lemma chunks_concat {A} (g : nat) (ps : list (list A)) : (0 < g)%nat -> Forall (fun p => length p = g) ps ->
  forall fuel, (length ps < fuel)%nat -> chunks fuel g (concat ps) = ps.
Proof.
  intros Hg. induction ps as [|p ps IH]; intros Hall fuel Hf.
  - destruct fuel; reflexivity.
  - inversion Hall as [|? ? Hp Hps]; subst. destruct fuel as [|fuel]; [cbn [length] in Hf; lia|]. cbn [concat chunks].
    destruct (p ++ concat ps) as [|a r] eqn:E; [destruct p; [cbn [length] in Hg; lia|discriminate]|]. rewrite <- E.
    rewrite firstn_app, Nat.sub_diag, firstn_O, app_nil_r, firstn_all. rewrite skipn_app, Nat.sub_diag, skipn_all. cbn [skipn app].
    rewrite (IH Hps fuel) by (cbn [length] in Hf; lia). reflexivity.
Qed.

Section ByteTrip.
  Variable env : list (bytes * ty).
  Variable json_dumps : cbor -> res bytes.
  Notation tc := (to_cbor env).
  Notation fc := (from_cbor env json_dumps).

  Definition not_bytes (c : cbor) : Prop := forall bb, c <> CBytes bb.

  (* byte-stable trees *)
  Inductive bst : ty -> val -> Prop :=
  | b_ref n t v : lookup n env = Some t -> bst t v -> bst (TRef n) v
  (* a wrapped member: its encoding fits a byte string, and is not itself a bare byte string *)
  | b_cbstr t v : bst t v -> (forall f b, tc f t v = Ok b -> blen b < two64 /\ forall bb, b <> ser (CBytes bb)) -> bst (TCbstr t) v
  | b_any c : normal c -> not_bytes c -> bst TAny (VRaw c)
  | b_int c : normal c -> check_int c = true -> bst TInt (VRaw c)
  | b_uint c : normal c -> check_uint c = true -> bst TUint (VRaw c)
  | b_size c : normal c -> check_uint c = true -> bst TImageSize (VRaw c)
  | b_bool c : normal c -> is_none c || is_bool c = true -> bst TBool (VRaw c)
  | b_null : bst TNull (VRaw cnull)
  | b_tstr c : normal c -> is_none c || is_str c = true -> bst TTstr (VRaw c)
  | b_bstr bb : blen bb < two64 -> bst TBstr (VRaw (CBytes bb))
  | b_hex bb : blen bb < two64 -> bst THex (VRaw (CBytes bb))
  | b_uuid bb : blen bb = 16 -> bst TUUID (VRaw (CBytes bb))
  | b_bchar ch : is_ascii_alpha ch = true -> bst TBchar (VRaw (CText [ch]))
  | b_enum tbl n i : In (n, i) tbl -> NoDup (map fst tbl) -> NoDup (map snd tbl) -> (forall n i, In (n, i) tbl -> - 2 ^ 64 <= i < 2 ^ 64) ->
      bst (TEnum tbl) (VRaw (CText n))
  | b_union alts i t v : nth_error alts i = Some t -> bst t v ->
      (forall f b c, tc f t v = Ok b -> dec b = Ok c -> forall j a, (j < i)%nat -> nth_error alts j = Some a -> fc f a (ensure_cbor c) = Raise ValueError) ->
      bst (TUnion alts) (VUnion i v)
  | b_hmo alts i t v : nth_error alts i = Some t -> bst t v ->
      (forall f b c, tc f t v = Ok b -> dec b = Ok c -> forall j a, (j < i)%nat -> nth_error alts j = Some a -> fc f a (ensure_cbor c) = Raise ValueError) ->
      bst (TUnionHMO alts) (VUnion i v)
  | b_tag n name t v : 0 <= n < two64 -> n <> 2 -> n <> 3 -> bst t v -> (forall f b bb, tc f t v = Ok b -> b <> ser (CBytes bb)) ->
      bst (TTag n name t) (VTagged v)
  | b_tuple fields l : tuple_ok fields -> len_ok fields l -> blen l < two64 ->
      (forall j x, nth_error l j = Some x -> exists ft, field_ty fields j = Some ft /\ bst ft x) -> bst (TTuple fields) (VSeq l)
  (* a map: each known key at most once, ids of the table pairwise different and encodable; payload / text members
     (ids -1, -2, merged into the map itself) excluded *)
  | b_kv m emb l : NoDup (map fst l) -> NoDup (map key_id m) -> blen l < two64 -> (forall e, In e m -> - two64 <= key_id e < two64) ->
      (forall p, In p l -> exists e, nth_error m (fst p) = Some e /\ bst (key_ty e) (snd p) /\ key_id e <> -1 /\ key_id e <> -2) ->
      bst (TKeyValue m emb) (VKV l)
  | b_kvt m idx x e : NoDup (map key_id m) -> nth_error m idx = Some e -> - two64 <= key_id e < two64 -> bst (key_ty e) x ->
      bst (TKVTuple m) (VKV [(idx, x)])
  | b_list et l : blen l < two64 -> (forall x, In x l -> bst et x) -> bst (TList (Some et) None) (VSeq l)
  (* a grouped list: every member encodes to an array of exactly g items (a command and its argument) *)
  | b_glist et g l : 0 < g -> (forall x, In x l -> bst et x) ->
      blen l * g < two64 ->
      (forall x, In x l -> forall f b c, tc f et x = Ok b -> dec b = Ok c -> exists p, c = CArray p /\ length p = Z.to_nat g) ->
      bst (TList (Some et) (Some g)) (VSeq l)
  | b_version et l : blen l < two64 -> (forall x, In x l -> bst et x) -> bst (TComponentVersion et) (VSeq l)
  | b_bits_empty bt n : bst (TBitfield bt n) (VSeq []).

  Section Body.
    Variable rt : ty -> val -> res bytes.
    Variable rf : ty -> bytes -> res val.
    Variable tobj : ty -> val -> res cbor.
    Variable f : nat.
    Hypothesis Hrt : forall t v, rt t v = tc f t v.
    Hypothesis Hrf : forall t b, rf t b = fc f t b.
    Hypothesis IH : forall t v, bst t v -> forall b, rt t v = Ok b -> exists c, normal c /\ b = ser c /\ rf t (ensure_cbor c) = Ok v.

    Lemma item_ok t v c : bst t v -> (let* b := rt t v in dec b) = Ok c -> normal c /\ rf t (ensure_cbor c) = Ok v /\ rt t v = Ok (ser c).
    Proof.
      intros Hb Hi. destruct (rt t v) as [b|] eqn:E; cbn [bind] in Hi; [|discriminate].
      destruct (IH t v Hb b E) as (c0 & Hn & -> & Hf). rewrite (dec_ser c0 Hn) in Hi. injection Hi as <-. auto.
    Qed.

    (* ---- plain sequences ---- *)
    Lemma seq_fwd et l : (forall x, In x l -> bst et x) -> forall cs,
      (fix go (l : list val) : res (list cbor) :=
         match l with [] => Ok [] | x :: r => let* z := (let* b := rt et x in dec b) in let* cs := go r in Ok (z :: cs) end) l = Ok cs ->
      Forall2 (fun x c => normal c /\ rf et (ensure_cbor c) = Ok x /\ rt et x = Ok (ser c)) l cs.
    Proof.
      induction l as [|x r IHl]; intros Hst cs Hgo; [injection Hgo as <-; constructor|].
      destruct (let* b := rt et x in dec b) as [z|] eqn:Ez; cbn [bind] in Hgo; [|discriminate].
      match type of Hgo with (let* cs := ?M in _) = _ => destruct M as [cs0|] eqn:Ecs; cbn [bind] in Hgo; [|discriminate] end.
      injection Hgo as <-. constructor; [exact (item_ok et x z (Hst x (or_introl eq_refl)) Ez)|].
      apply IHl; [intros y Hy; apply Hst; right; exact Hy|reflexivity].
    Qed.

    Lemma seq_back et l cs : Forall2 (fun x c => normal c /\ rf et (ensure_cbor c) = Ok x /\ rt et x = Ok (ser c)) l cs ->
      (fix go (l : list cbor) : res (list val) :=
         match l with [] => Ok [] | x :: r => let* y := rf et (ensure_cbor x) in let* ys := go r in Ok (y :: ys) end) cs = Ok l.
    Proof. induction 1 as [|x c l cs (Hn & Hf & _) _ IHl]; [reflexivity|]. rewrite Hf. cbn [bind]. rewrite IHl. reflexivity. Qed.

    Lemma seq_normal {A} (P : A -> cbor -> Prop) l cs : Forall2 (fun x c => normal c /\ P x c) l cs -> blen l < two64 -> normal (CArray cs).
    Proof.
      intros HF Hl. cbn [normal]. split; [unfold blen in *; rewrite <- (Forall2_length _ _ _ HF); exact Hl|].
      clear Hl. induction HF as [|x c l cs (Hn & _) _ IHl]; [exact I|]. split; assumption.
    Qed.

    (* ---- tuples ---- *)
    Section Tuple.
      Variable fields : list (bytes * ty).

      Fixpoint titems (i : nat) (l : list val) (cs : list cbor) : Prop :=
        match l, cs with
        | [], [] => True
        | x :: l', c :: cs' => (exists ft, field_ty fields i = Some ft /\ normal c /\ rf ft (ensure_cbor c) = Ok x) /\ titems (S i) l' cs'
        | _, _ => False
        end.

      Lemma tuple_fwd l : forall i cs, (forall j x, nth_error l j = Some x -> exists ft, field_ty fields (i + j) = Some ft /\ bst ft x) ->
        (fix go (l : list val) (i : nat) : res (list cbor) :=
           match l with
           | [] => Ok []
           | x :: r => match field_ty fields i with
                       | None => Raise Unsupported
                       | Some ft => let* c := (let* b := rt ft x in dec b) in let* cs := go r (S i) in Ok (c :: cs)
                       end
           end) l i = Ok cs -> titems i l cs /\ length cs = length l /\ normal_list cs.
      Proof.
        induction l as [|x r IHl]; intros i cs Hst Hgo; [injection Hgo as <-; cbn; auto|].
        destruct (Hst O x eq_refl) as (ft & Hft & Hb). rewrite Nat.add_0_r in Hft. rewrite Hft in Hgo.
        destruct (let* b := rt ft x in dec b) as [c|] eqn:Ec; cbn [bind] in Hgo; [|discriminate].
        match type of Hgo with (let* cs := ?M in _) = _ => destruct M as [cs0|] eqn:Ecs; cbn [bind] in Hgo; [|discriminate] end.
        injection Hgo as <-. destruct (item_ok ft x c Hb Ec) as (Hn & Hf & _).
        destruct (IHl (S i) cs0) as (Ht & Hlen & Hnl); [|exact Ecs|].
        { intros j y Hj. replace (S i + j)%nat with (i + S j)%nat by lia. apply Hst. exact Hj. }
        cbn [titems length normal_list]. repeat split; eauto.
      Qed.

      Definition tgo :=
        (fix go (fields : list (bytes * ty)) (items : list cbor) (acc : list val) : res val :=
           match fields with
           | [] => Ok (VSeq (rev acc))
           | (key, ft) :: fr =>
               if ends_with_star key then
                 (fix star (items : list cbor) (acc : list val) : res val :=
                    match items with
                    | [] => go fr [] acc
                    | x :: ir => match rf ft (ensure_cbor x) with
                                 | Ok y => star ir (y :: acc)
                                 | Raise ValueError | Raise IndexError => go fr items acc
                                 | Raise e => Raise e
                                 end
                    end) items acc
               else
                 match items with
                 | [] => Raise ValueError
                 | x :: ir => let* y := rf ft (ensure_cbor x) in go fr ir (y :: acc)
                 end
           end).

      Lemma field_ty_in pre key ft fr : fields = pre ++ (key, ft) :: fr -> field_ty fields (length pre) = Some ft.
      Proof. intros ->. unfold field_ty. rewrite nth_error_app2, Nat.sub_diag by lia. reflexivity. Qed.

      Lemma field_ty_past pre key ft j : fields = pre ++ [(key, ft)] -> (length pre <= j)%nat -> field_ty fields j = Some ft.
      Proof.
        intros -> Hj. unfold field_ty. destruct (Nat.eq_dec j (length pre)) as [->|Hne].
        - rewrite nth_error_app2, Nat.sub_diag by lia. reflexivity.
        - assert (E : nth_error (pre ++ [(key, ft)]) j = None) by (apply nth_error_None; rewrite app_length; cbn [length]; lia).
          rewrite E, rev_app_distr. reflexivity.
      Qed.

      Lemma star_all pre key ft : fields = pre ++ [(key, ft)] -> forall cs l i acc, (length pre <= i)%nat -> titems i l cs ->
        (fix star (items : list cbor) (acc : list val) : res val :=
           match items with
           | [] => tgo [] [] acc
           | x :: ir => match rf ft (ensure_cbor x) with
                        | Ok y => star ir (y :: acc)
                        | Raise ValueError | Raise IndexError => tgo [] items acc
                        | Raise e => Raise e
                        end
           end) cs acc = Ok (VSeq (rev acc ++ l)).
      Proof.
        intros Hf. induction cs as [|c cs IHc]; intros l i acc Hi Ht; destruct l as [|x l]; cbn [titems] in Ht; try contradiction.
        - cbn [tgo]. rewrite app_nil_r. reflexivity.
        - destruct Ht as ((ft' & Hft & _ & Hrf') & Ht). rewrite (field_ty_past pre key ft i Hf Hi) in Hft. injection Hft as <-.
          rewrite Hrf'. rewrite (IHc l (S i) (x :: acc)) by (try lia; exact Ht). cbn [rev]. rewrite <- app_assoc. reflexivity.
      Qed.

      Lemma tgo_run : forall fs pre l cs acc, fields = pre ++ fs -> titems (length pre) l cs ->
        (forall a key ft b, fs = a ++ (key, ft) :: b -> ends_with_star key = true -> b = []) ->
        (length fs - 1 <= length l)%nat ->
        (forall key ft, last fs ([], TAny) = (key, ft) -> ends_with_star key = false -> length l = length fs) ->
        (fs = [] -> l = []) ->
        tgo fs cs acc = Ok (VSeq (rev acc ++ l)).
      Proof.
        induction fs as [|[key ft] fr IHf]; intros pre l cs acc Hf Ht Hstar Hlen Hlast Hnil.
        - rewrite (Hnil eq_refl), app_nil_r. reflexivity.
        - cbn [tgo]. fold tgo. destruct (ends_with_star key) eqn:Es.
          + pose proof (Hstar [] key ft fr eq_refl Es) as ->. exact (star_all pre key ft Hf cs l (length pre) acc (le_n _) Ht).
          + assert (Hl1 : (1 <= length l)%nat).
            { destruct fr as [|a fr']; [rewrite (Hlast key ft eq_refl Es); cbn [length]; lia|cbn [length] in Hlen; lia]. }
            destruct l as [|x l]; [cbn [length] in Hl1; lia|]. destruct cs as [|c cs]; cbn [titems] in Ht; [contradiction|].
            destruct Ht as ((ft' & Hft & _ & Hrf') & Ht). rewrite (field_ty_in pre key ft fr Hf) in Hft. injection Hft as <-.
            rewrite Hrf'. cbn [bind].
            rewrite (IHf (pre ++ [(key, ft)]) l cs (x :: acc)).
            * cbn [rev]. rewrite <- app_assoc. reflexivity.
            * rewrite <- app_assoc. exact Hf.
            * rewrite app_length. cbn [length]. rewrite Nat.add_1_r. exact Ht.
            * intros a k t b E. apply (Hstar ((key, ft) :: a) k t b). rewrite E. reflexivity.
            * cbn [length] in *. lia.
            * intros k t Hl Hk. destruct fr as [|a fr']; [specialize (Hlast key ft eq_refl Es); cbn [length] in *; lia|].
              assert (Hl' : last ((key, ft) :: a :: fr') ([], TAny) = (k, t)) by exact Hl. specialize (Hlast k t Hl' Hk). cbn [length] in *. lia.
            * intros ->. specialize (Hlast key ft eq_refl Es). cbn [length] in Hlast. destruct l; [reflexivity|cbn [length] in Hlast; lia].
      Qed.

      Hypothesis Hok : tuple_ok fields.

      Lemma star_is_last a key ft b : fields = a ++ (key, ft) :: b -> ends_with_star key = true -> b = [].
      Proof.
        intros Hf Es. destruct b as [|x b]; [reflexivity|]. exfalso. pose proof (t_init fields Hok) as Hi.
        assert (Hin : In key (removelast (map fst fields))).
        { rewrite Hf, map_app. cbn [map fst]. rewrite removelast_app by discriminate. apply in_or_app. right.
          change (fst x :: map fst b) with (map fst (x :: b)). destruct (map fst (x :: b)) eqn:E; [discriminate|]. left. reflexivity. }
        assert (Hex : existsb (fun k => existsb (Z.eqb 42) k) (removelast (map fst fields)) = true).
        { apply existsb_exists. exists key. split; [exact Hin|exact (ends_star_has_star key Es)]. }
        rewrite Hex in Hi. discriminate.
      Qed.

      Lemma tuple_back l cs : len_ok fields l -> titems O l cs -> tgo fields cs [] = Ok (VSeq l).
      Proof.
        intros (Hl1 & Hl2 & Hl3) Ht. rewrite map_length in Hl1.
        apply (tgo_run fields [] l cs []); [reflexivity|exact Ht|exact star_is_last|exact Hl1| |exact Hl3].
        intros key ft Hlast Es. rewrite <- (map_length fst fields). apply (Hl2 key ft Hlast).
        destruct (has_star key) eqn:Hs; [|reflexivity]. exfalso.
        assert (Hne : fields <> []) by (intros E; rewrite E in Hlast; cbn in Hlast; injection Hlast as <- _; discriminate Hs).
        destruct (t_last fields Hok key ft Hlast Hne) as [Hn|(pre & -> & _)]; [rewrite Hn in Hs; discriminate|].
        rewrite ends_with_star_last in Es. discriminate.
      Qed.
    End Tuple.

    (* ---- key-value maps (without merged members) ---- *)
    Section KV.
      Variable m : list (bytes * Z * ty).
      Hypothesis Hids : NoDup (map key_id m).
      Hypothesis Hrange : forall e, In e m -> - two64 <= key_id e < two64.

      Definition kshown (l : list (nat * val)) (d : list (cbor * cbor)) : Prop :=
        Forall2 (fun p kv => exists e, nth_error m (fst p) = Some e /\ fst kv = cint (key_id e) /\ normal (snd kv)
                                       /\ rf (key_ty e) (ensure_cbor (snd kv)) = Ok (snd p)) l d.

      Lemma kshown_fresh done acc idx e : kshown done acc -> nth_error m idx = Some e -> ~ In idx (map fst done) ->
        Forall (fun kv => py_eqb (cint (key_id e)) (fst kv) = false) acc.
      Proof.
        intros Hs He Hn. induction Hs as [|p kv l d (e' & He' & Hk & _) _ IHs]; constructor.
        - rewrite Hk, py_eqb_cint. destruct (key_id e =? key_id e') eqn:E; [|reflexivity]. apply Z.eqb_eq in E.
          exfalso. apply Hn. left. symmetry. exact (nth_same_id m Hids _ _ _ _ He He' E).
        - apply IHs. intros Hi. apply Hn. right. exact Hi.
      Qed.

      Lemma kv_fwd l : forall done acc b, kshown done acc -> NoDup (map fst (done ++ l)) ->
        (forall p, In p l -> exists e, nth_error m (fst p) = Some e /\ bst (key_ty e) (snd p) /\ key_id e <> -1 /\ key_id e <> -2) ->
        (fix go (l : list (nat * val)) (acc : list (cbor * cbor)) : res bytes :=
           match l with
           | [] => Ok (ser (CMap acc))
           | (idx, x) :: r =>
               match nth_error m idx with
               | None => Raise Unsupported
               | Some e =>
                   let* c := (let* b := rt (key_ty e) x in dec b) in
                   if (key_id e =? -1) || (key_id e =? -2)
                   then match c with CMap d => go r (dict_update acc d) | _ => Raise TypeError end
                   else go r (dict_set acc (cint (key_id e)) c)
               end
           end) l acc = Ok b -> exists d, b = ser (CMap d) /\ kshown (done ++ l) d.
      Proof.
        induction l as [|[idx x] r IHl]; intros done acc b Hs Hnd Hst Hgo.
        - injection Hgo as <-. exists acc. rewrite app_nil_r. auto.
        - destruct (Hst _ (or_introl eq_refl)) as (e & He & Hb & Hn1 & Hn2). cbn [fst snd] in He, Hb. rewrite He in Hgo.
          destruct (let* b := rt (key_ty e) x in dec b) as [c|] eqn:Ec; cbn [bind] in Hgo; [|discriminate].
          destruct (item_ok _ _ _ Hb Ec) as (Hnc & Hfc & _).
          assert (E1 : (key_id e =? -1) = false) by lia. assert (E2 : (key_id e =? -2) = false) by lia. rewrite E1, E2 in Hgo. cbn [orb] in Hgo.
          assert (Hni : ~ In idx (map fst done)).
          { rewrite map_app in Hnd. cbn [map fst] in Hnd. apply NoDup_remove_2 in Hnd. intros Hi. apply Hnd. apply in_or_app. left. exact Hi. }
          rewrite (dict_set_fresh acc _ c (kshown_fresh done acc idx e Hs He Hni)) in Hgo.
          replace (done ++ (idx, x) :: r) with ((done ++ [(idx, x)]) ++ r) in * by (rewrite <- app_assoc; reflexivity).
          apply (IHl (done ++ [(idx, x)]) (acc ++ [(cint (key_id e), c)]) b); [|exact Hnd|intros p Hp; apply Hst; right; exact Hp|exact Hgo].
          apply Forall2_app; [exact Hs|]. constructor; [|constructor]. exists e. cbn [fst snd]. auto.
      Qed.

      Lemma kshown_normal l d : kshown l d -> NoDup (map fst l) -> blen l < two64 -> normal (CMap d).
      Proof.
        intros Hs Hnd Hl. cbn [normal]. split; [unfold blen in *; rewrite <- (Forall2_length _ _ _ Hs); exact Hl|]. clear Hl.
        induction Hs as [|p kv l d (e & He & Hk & Hn & _) Hs IHs]; [split; exact I|].
        cbn [map] in Hnd. inversion Hnd as [|? ? Hnot Hnd']; subst. destruct (IHs Hnd') as [Hkd Hnp]. destruct kv as [k c]. cbn [fst snd] in *. subst k.
        split; [split; [|exact Hkd]|].
        - clear IHs Hkd Hnp Hnd'. try clear Hnd. revert Hnot. induction Hs as [|p' kv' l' d' (e' & He' & Hk' & _) _ IHs']; intros Hnot; constructor.
          + rewrite Hk', py_eqb_cint. destruct (key_id e' =? key_id e) eqn:E; [|reflexivity]. apply Z.eqb_eq in E. exfalso. apply Hnot. left.
            exact (nth_same_id m Hids _ _ _ _ He' He E).
          + apply IHs'. intros Hi. apply Hnot. right. exact Hi.
        - split; [apply normal_cint; apply Hrange; exact (nth_error_In _ _ He)|]. split; assumption.
      Qed.

      Lemma kv_back emb d2 : forall done l2, kshown l2 d2 -> NoDup (map fst (done ++ l2)) ->
        (fix go (kvs : list (cbor * cbor)) (acc : list (nat * val)) : res val :=
           match kvs with
           | [] => Ok (VKV acc)
           | (k, x) :: r =>
               match find_idx (fun e => py_eqb (cint (key_id e)) k) m O with
               | Some (idx, e) => let* y := rf (key_ty e) (ensure_cbor x) in go r (kv_set acc idx y)
               | None =>
                   match emb with
                   | None => Raise ValueError
                   | Some items =>
                       (fix each (items : list Z) (acc : list (nat * val)) : res val :=
                          match items with
                          | [] => go r acc
                          | it :: ir =>
                              let probe := match x with
                                           | CBytes xb =>
                                               match loads xb, lookup (s2b "SuitEnvelopeTaggedSimplified") env with
                                               | Some (CTag tg _), Some (TTag n _ _) =>
                                                   if tg =? n then rf (TRef (s2b "SuitEnvelopeTaggedSimplified")) xb
                                                   else Raise SUITError
                                               | _, _ => Raise SUITError
                                               end
                                           | _ => Raise TypeError
                                           end in
                              match probe with
                              | Raise e => if model_error e then Raise e else
                                  match find_idx (fun e => key_id e =? it) m O with
                                  | None => each ir acc
                                  | Some (idx, e) =>
                                      match rf (key_ty e) (ser (CMap [(k, x)])) with
                                      | Raise ValueError => each ir acc
                                      | Raise e' => Raise e'
                                      | Ok nv =>
                                          match kv_get acc idx, nv with
                                          | Some (VKVU old), VKVU new =>
                                              if (it =? -1) || (it =? -2)
                                              then each ir (kv_set acc idx (VKVU (fold_left (fun o kv => kvu_set o (fst kv) (snd kv)) new old)))
                                              else each ir (kv_set acc idx nv)
                                          | _, _ => each ir (kv_set acc idx nv)
                                          end
                                      end
                                  end
                              | Ok _ =>
                                  match find_idx (fun e => key_id e =? -2) m O with
                                  | None => each ir acc
                                  | Some (idx, e) =>
                                      match rf (key_ty e) (ser (CMap [(k, x)])) with
                                      | Raise ValueError => each ir acc
                                      | Raise e' => Raise e'
                                      | Ok nv =>
                                          match kv_get acc idx, nv with
                                          | Some (VKVU old), VKVU new =>
                                              each ir (kv_set acc idx (VKVU (fold_left (fun o kv => kvu_set o (fst kv) (snd kv)) new old)))
                                          | _, _ => each ir (kv_set acc idx nv)
                                          end
                                      end
                                  end
                              end
                          end) items acc
                   end
               end
           end) d2 done = Ok (VKV (done ++ l2)).
      Proof.
        induction d2 as [|[k x] r IHd]; intros done l2 Hs Hnd; inversion Hs as [|p kv l2' d' (e & He & Hk & Hn & Hf) Hs']; subst.
        - rewrite app_nil_r. reflexivity.
        - cbn [fst snd] in *. subst k. rewrite (find_idx_by_id m Hids (fst p) e He). rewrite Hf. cbn [bind].
          assert (Hni : ~ In (fst p) (map fst done)).
          { rewrite map_app in Hnd. cbn [map] in Hnd. apply NoDup_remove_2 in Hnd. intros Hi. apply Hnd. apply in_or_app. left. exact Hi. }
          rewrite (kv_set_fresh done (fst p) (snd p) Hni). destruct p as [pi pv]. cbn [fst snd].
          replace (done ++ (pi, pv) :: l2') with ((done ++ [(pi, pv)]) ++ l2') in * by (rewrite <- app_assoc; reflexivity).
          apply IHd; assumption.
      Qed.
    End KV.

    (* ---- grouped lists ---- *)
    Lemma glist_fwd et g l : (forall x, In x l -> bst et x) ->
      (forall x, In x l -> forall c, (let* b := rt et x in dec b) = Ok c -> exists p, c = CArray p /\ length p = Z.to_nat g) ->
      forall cs,
      (fix go (l : list val) : res (list cbor) :=
         match l with
         | [] => Ok []
         | x :: r =>
             let* z := (let* b := rt et x in dec b) in
             let* zs := extend_items z in
             let* cs := go r in Ok (zs ++ cs)
         end) l = Ok cs ->
      exists ps, cs = concat ps /\ Forall2 (fun x p => normal (CArray p) /\ length p = Z.to_nat g /\ rf et (ensure_cbor (CArray p)) = Ok x) l ps.
    Proof.
      induction l as [|x r IHl]; intros Hst Hsh cs Hgo; [injection Hgo as <-; exists []; split; [reflexivity|constructor]|].
      destruct (let* b := rt et x in dec b) as [z|] eqn:Ez; cbn [bind] in Hgo; [|discriminate].
      destruct (Hsh x (or_introl eq_refl) z Ez) as (p & -> & Hp). cbn [extend_items bind] in Hgo.
      match type of Hgo with (let* cs := ?M in _) = _ => destruct M as [cs0|] eqn:Ecs; cbn [bind] in Hgo; [|discriminate] end.
      injection Hgo as <-. destruct (item_ok et x _ (Hst x (or_introl eq_refl)) Ez) as (Hn & Hf & _).
      destruct (IHl (fun y Hy => Hst y (or_intror Hy)) (fun y Hy => Hsh y (or_intror Hy)) cs0 eq_refl) as (ps & -> & HF).
      exists (p :: ps). split; [reflexivity|]. constructor; auto.
    Qed.

    Lemma glist_back et (g : nat) l ps : Forall2 (fun x p => normal (CArray p) /\ length p = g /\ rf et (ensure_cbor (CArray p)) = Ok x) l ps ->
      (fix go (l : list cbor) : res (list val) :=
         match l with [] => Ok [] | x :: r => let* y := rf et (ensure_cbor x) in let* ys := go r in Ok (y :: ys) end) (map CArray ps) = Ok l.
    Proof. induction 1 as [|x p l ps (_ & _ & Hf) _ IHl]; [reflexivity|]. cbn [map]. rewrite Hf. cbn [bind]. rewrite IHl. reflexivity. Qed.

    (* ---- plain lists (the encoder's loop appends one-item lists) ---- *)
    Lemma list_fwd et l : (forall x, In x l -> bst et x) -> forall cs,
      (fix go (l : list val) : res (list cbor) :=
         match l with
         | [] => Ok []
         | x :: r =>
             let* z := (let* b := rt et x in dec b) in
             let* zs := Ok [z] in
             let* cs := go r in Ok (zs ++ cs)
         end) l = Ok cs ->
      Forall2 (fun x c => normal c /\ rf et (ensure_cbor c) = Ok x /\ rt et x = Ok (ser c)) l cs.
    Proof.
      induction l as [|x r IHl]; intros Hst cs Hgo; [injection Hgo as <-; constructor|].
      destruct (let* b := rt et x in dec b) as [z|] eqn:Ez; cbn [bind] in Hgo; [|discriminate].
      match type of Hgo with (let* cs := ?M in _) = _ => destruct M as [cs0|] eqn:Ecs; cbn [bind] in Hgo; [|discriminate] end.
      injection Hgo as <-. cbn [app]. constructor; [exact (item_ok et x z (Hst x (or_introl eq_refl)) Ez)|].
      apply IHl; [intros y Hy; apply Hst; right; exact Hy|exact Ecs].
    Qed.

    Lemma ualt_back alts0 i t v e : nth_error alts0 i = Some t -> rf t e = Ok v ->
      (forall j a, (j < i)%nat -> nth_error alts0 j = Some a -> rf a e = Raise ValueError) ->
      forall alts k, (forall j a, nth_error alts j = Some a -> nth_error alts0 (k + j) = Some a) -> (k <= i)%nat -> (i < k + length alts)%nat ->
      (fix go (alts : list ty) (i : nat) : res val :=
         match alts with
         | [] => Raise ValueError
         | a :: r => match rf a e with
                     | Ok x => Ok (VUnion i x)
                     | Raise ValueError => go r (S i)
                     | Raise e => Raise e
                     end
         end) alts k = Ok (VUnion i v).
    Proof.
      intros Hn Hv Hrej. induction alts as [|a r IHa]; intros k Hsub Hk Hlt; [cbn [length] in Hlt; lia|].
      pose proof (Hsub O a eq_refl) as Ha. rewrite Nat.add_0_r in Ha.
      destruct (Nat.eq_dec k i) as [->|Hne].
      - rewrite Hn in Ha. injection Ha as <-. rewrite Hv. reflexivity.
      - rewrite (Hrej k a ltac:(lia) Ha). apply IHa; [|lia|cbn [length] in Hlt; lia].
        intros j a' Hj. replace (S k + j)%nat with (k + S j)%nat by lia. apply Hsub. exact Hj.
    Qed.

    Lemma ensure_nb c : not_bytes c -> ensure_cbor c = ser c.
    Proof. intros Hn. destruct c; try reflexivity. exfalso. exact (Hn _ eq_refl). Qed.

    Lemma bits_zero bt : forall k bit,
      (fix go (k : nat) (bit : Z) (sum : Z) (acc : list val) : res val :=
         match k with
         | O => if sum =? 0 then Ok (VSeq (rev acc)) else Raise ValueError
         | S k' =>
             if Z.testbit 0 bit
             then let* y := rf bt (ser (cint (2 ^ bit))) in go k' (bit + 1) (sum + 2 ^ bit) (y :: acc)
             else go k' (bit + 1) sum acc
         end) k bit 0 [] = Ok (VSeq []).
    Proof. induction k as [|k IHk]; intros bit; [reflexivity|]. rewrite Z.testbit_0_l. apply IHk. Qed.

    Lemma concat_len {A} (g : nat) (ps : list (list A)) : Forall (fun p => length p = g) ps -> length (concat ps) = (length ps * g)%nat.
    Proof. induction 1 as [|p ps Hp _ IHp]; [reflexivity|]. cbn [concat length]. rewrite app_length, Hp, IHp. lia. Qed.

    Notation fbody := (from_cbor_body env json_dumps tobj rf).

    Lemma trip_body t v : bst t v -> forall b, to_cbor_body env rt t v = Ok b -> exists c, normal c /\ b = ser c /\ fbody t (ensure_cbor c) = Ok v.
    Proof.
      intros Hb. inversion Hb; subst; intros b Hgo; cbn [to_cbor_body] in Hgo.
      - (* ref *) rewrite H in Hgo. destruct (IH _ _ H0 b Hgo) as (c & Hn & -> & Hf). exists c. cbn [from_cbor_body]. rewrite H. auto.
      - (* cbstr *) destruct (rt t0 v) as [b0|] eqn:E; cbn [bind] in Hgo; [|discriminate]. injection Hgo as <-.
        destruct (IH _ _ H b0 E) as (c0 & Hn0 & -> & Hf0). rewrite Hrt in E. destruct (H0 f _ E) as [Hlen Hnb].
        exists (CBytes (ser c0)). split; [exact Hlen|]. split; [reflexivity|]. cbn [from_cbor_body ensure_cbor].
        replace (ser c0) with (ensure_cbor c0) at 1; [exact Hf0|]. destruct c0; try reflexivity. exfalso. exact (Hnb _ eq_refl).
      - (* any *) injection Hgo as <-. exists c. rewrite (ensure_nb c H0). cbn [from_cbor_body]. rewrite (dec_ser c H). auto.
      - (* int *) injection Hgo as <-. exists c. assert (Hnb : not_bytes c) by (intros bb ->; discriminate H0). rewrite (ensure_nb c Hnb).
        cbn [from_cbor_body]. rewrite (dec_ser c H). cbn [bind]. rewrite H0, list_eqb_refl. auto.
      - (* uint *) injection Hgo as <-. exists c. assert (Hnb : not_bytes c) by (intros bb ->; discriminate H0). rewrite (ensure_nb c Hnb).
        cbn [from_cbor_body]. rewrite (dec_ser c H). cbn [bind]. rewrite H0, list_eqb_refl. auto.
      - (* size *) injection Hgo as <-. exists c. assert (Hnb : not_bytes c) by (intros bb ->; discriminate H0). rewrite (ensure_nb c Hnb).
        cbn [from_cbor_body]. rewrite (dec_ser c H). cbn [bind]. rewrite H0, list_eqb_refl. auto.
      - (* bool *) injection Hgo as <-. exists c. assert (Hnb : not_bytes c) by (intros bb ->; discriminate H0). rewrite (ensure_nb c Hnb).
        cbn [from_cbor_body]. rewrite (dec_ser c H). cbn [bind]. rewrite H0. auto.
      - (* null *) injection Hgo as <-. exists cnull. split; [cbn; lia|]. split; reflexivity.
      - (* tstr *) injection Hgo as <-. exists c. assert (Hnb : not_bytes c) by (intros bb ->; discriminate H0). rewrite (ensure_nb c Hnb).
        cbn [from_cbor_body]. rewrite (dec_ser c H). cbn [bind]. rewrite H0. auto.
      - (* bstr *) injection Hgo as <-. exists (CBytes bb). split; [exact H|]. split; reflexivity.
      - (* hex *) injection Hgo as <-. exists (CBytes bb). split; [exact H|]. split; reflexivity.
      - (* uuid *) injection Hgo as <-. exists (CBytes bb). split; [cbn [normal]; rewrite H; reflexivity|]. split; [reflexivity|].
        cbn [from_cbor_body ensure_cbor]. rewrite H. reflexivity.
      - (* bchar *) injection Hgo as <-. exists (CBytes [ch]). split; [cbn [normal]; reflexivity|]. split; [reflexivity|].
        cbn [from_cbor_body ensure_cbor]. rewrite H. reflexivity.
      - (* enum *) destruct (by_name tbl H0 n i H) as (k & E). rewrite E in Hgo. cbn [snd] in Hgo. injection Hgo as <-.
        assert (Hr : - two64 <= i < two64) by (rewrite <- two64_eq; exact (H2 n i H)).
        exists (cint i). split; [exact (normal_cint i Hr)|]. split; [reflexivity|].
        assert (Ee : ensure_cbor (cint i) = ser (cint i)) by (unfold cint; destruct (0 <=? i); reflexivity). rewrite Ee.
        cbn [from_cbor_body]. destruct tbl as [|e0 tbl'] eqn:Et; [destruct H|]. rewrite <- Et in *.
        rewrite (dec_ser _ (normal_cint i Hr)). cbn [bind]. destruct (by_id tbl H1 n i H) as (k' & ->). reflexivity.
      - (* union *) rewrite H in Hgo. destruct (IH _ _ H0 b Hgo) as (c & Hn & -> & Hf). exists c. split; [exact Hn|]. split; [reflexivity|].
        cbn [from_cbor_body]. apply (ualt_back alts i t0 v0 (ensure_cbor c) H Hf).
        + intros j a Hj Ha. rewrite Hrf. rewrite Hrt in Hgo. exact (H1 f (ser c) c Hgo (dec_ser c Hn) j a Hj Ha).
        + intros j a Hj. exact Hj.
        + lia.
        + apply nth_error_Some. rewrite H. discriminate.
      - (* header-map union *) rewrite H in Hgo. destruct (IH _ _ H0 b Hgo) as (c & Hn & -> & Hf). exists c. split; [exact Hn|]. split; [reflexivity|].
        cbn [from_cbor_body]. apply (ualt_back alts i t0 v0 (ensure_cbor c) H Hf).
        + intros j a Hj Ha. rewrite Hrf. rewrite Hrt in Hgo. exact (H1 f (ser c) c Hgo (dec_ser c Hn) j a Hj Ha).
        + intros j a Hj. exact Hj.
        + lia.
        + apply nth_error_Some. rewrite H. discriminate.
      - (* tag *) destruct (let* b := rt t0 v0 in dec b) as [c'|] eqn:Ec; cbn [bind] in Hgo; [|discriminate]. injection Hgo as <-.
        destruct (item_ok _ _ _ H2 Ec) as (Hn & Hf & Ert).
        assert (HnT : normal (CTag n c')) by (cbn [normal]; auto).
        exists (CTag n c'). split; [exact HnT|]. split; [reflexivity|]. cbn [ensure_cbor from_cbor_body]. rewrite (dec_ser _ HnT). cbn [bind].
        rewrite Z.eqb_refl. replace (ser c') with (ensure_cbor c'); [rewrite Hf; reflexivity|].
        destruct c'; try reflexivity. exfalso. rewrite Hrt in Ert. exact (H3 f _ _ Ert eq_refl).
      - (* tuple *) match type of Hgo with (let* cs := ?M in _) = _ => destruct M as [cs|] eqn:Ecs; cbn [bind] in Hgo; [|discriminate] end.
        injection Hgo as <-. destruct (tuple_fwd fields l O cs H2 Ecs) as (Ht & Hlen & Hnl).
        assert (HnA : normal (CArray cs)) by (cbn [normal]; split; [unfold blen in *; rewrite Hlen; exact H1|exact Hnl]).
        exists (CArray cs). split; [exact HnA|]. split; [reflexivity|]. cbn [ensure_cbor from_cbor_body]. rewrite (dec_ser _ HnA). cbn [bind].
        exact (tuple_back fields H l cs H0 Ht).
      - (* key-value *) destruct (kv_fwd m H0 H2 l [] [] b (Forall2_nil _) H H3 Hgo) as (d & -> & Hs).
        assert (HnM : normal (CMap d)) by exact (kshown_normal m H0 H2 l d Hs H H1).
        exists (CMap d). split; [exact HnM|]. split; [reflexivity|]. cbn [ensure_cbor from_cbor_body]. rewrite (dec_ser _ HnM). cbn [bind].
        exact (kv_back m H0 emb d [] l Hs H).
      - (* key-value pair *) rewrite H0 in Hgo. destruct (let* b := rt (key_ty e) x in dec b) as [c|] eqn:Ec; cbn [bind] in Hgo; [|discriminate].
        injection Hgo as <-. destruct (item_ok _ _ _ H2 Ec) as (Hn & Hf & _).
        assert (HnA : normal (CArray [cint (key_id e); c])).
        { cbn [normal]. split; [reflexivity|]. split; [exact (normal_cint _ H1)|]. split; [exact Hn|exact I]. }
        exists (CArray [cint (key_id e); c]). split; [exact HnA|]. split; [reflexivity|]. cbn [ensure_cbor from_cbor_body]. rewrite (dec_ser _ HnA). cbn [bind].
        rewrite (find_idx_by_id m H idx e H0). rewrite Hf. reflexivity.
      - (* list *) match type of Hgo with (let* cs := ?M in _) = _ => destruct M as [cs|] eqn:Ecs; cbn [bind] in Hgo; [|discriminate] end.
        injection Hgo as <-. pose proof (list_fwd et l H0 cs Ecs) as HF.
        assert (HnA : normal (CArray cs)) by exact (seq_normal _ l cs HF H).
        exists (CArray cs). split; [exact HnA|]. split; [reflexivity|]. cbn [ensure_cbor from_cbor_body]. rewrite (dec_ser _ HnA). cbn [bind].
        rewrite (seq_back et l cs HF). reflexivity.
      - (* grouped list *) match type of Hgo with (let* cs := ?M in _) = _ => destruct M as [cs|] eqn:Ecs; cbn [bind] in Hgo; [|discriminate] end.
        injection Hgo as <-.
        assert (Hsh : forall x, In x l -> forall c, (let* b := rt et x in dec b) = Ok c -> exists p, c = CArray p /\ length p = Z.to_nat g).
        { intros x Hx c Hc. destruct (rt et x) as [bx|] eqn:Ex; cbn [bind] in Hc; [|discriminate]. rewrite Hrt in Ex. exact (H2 x Hx f bx c Ex Hc). }
        destruct (glist_fwd et g l H0 Hsh cs Ecs) as (ps & -> & HF).
        assert (Hall : Forall (fun p => length p = Z.to_nat g) ps).
        { clear - HF. induction HF as [|x p l ps (_ & Hp & _) _ IHF]; constructor; assumption. }
        assert (Hlen : length ps = length l) by (symmetry; exact (Forall2_length _ _ _ HF)).
        assert (HnA : normal (CArray (concat ps))).
        { cbn [normal]. split.
          - unfold blen in *. rewrite (concat_len _ ps Hall), Hlen. rewrite Nat2Z.inj_mul, Z2Nat.id by lia. exact H1.
          - clear - HF. induction HF as [|x p l ps (Hn & _) _ IHF]; [exact I|]. cbn [concat]. destruct Hn as [_ Hn].
            induction p as [|a p IHp]; [exact IHF|]. destruct Hn as [Ha Hp]. split; [exact Ha|exact (IHp Hp)]. }
        exists (CArray (concat ps)). split; [exact HnA|]. split; [reflexivity|]. cbn [ensure_cbor from_cbor_body]. rewrite (dec_ser _ HnA). cbn [bind].
        rewrite (chunks_concat (Z.to_nat g) ps ltac:(lia) Hall) by (rewrite (concat_len _ ps Hall); nia).
        rewrite (glist_back et (Z.to_nat g) l ps HF). reflexivity.
      - (* version *) match type of Hgo with (let* cs := ?M in _) = _ => destruct M as [cs|] eqn:Ecs; cbn [bind] in Hgo; [|discriminate] end.
        injection Hgo as <-. pose proof (seq_fwd et l H0 cs Ecs) as HF.
        assert (HnA : normal (CArray cs)) by exact (seq_normal _ l cs HF H).
        exists (CArray cs). split; [exact HnA|]. split; [reflexivity|]. cbn [ensure_cbor from_cbor_body]. rewrite (dec_ser _ HnA). cbn [bind].
        rewrite (seq_back et l cs HF). reflexivity.
      - (* bit field without members *) injection Hgo as <-. exists (cint 0). split; [cbn; unfold two64; lia|]. split; [reflexivity|].
        change (ensure_cbor (cint 0)) with (ser (cint 0)). cbn [from_cbor_body]. rewrite (dec_ser (cint 0)) by (cbn; unfold two64; lia). cbn [bind].
        change (as_pyint (cint 0)) with (Some 0). exact (bits_zero bt (Z.to_nat n) 0).
    Qed.
  End Body.

  Theorem encode_then_parse_item : forall f t v b, bst t v -> tc f t v = Ok b ->
    exists c, normal c /\ b = ser c /\ fc f t (ensure_cbor c) = Ok v.
  Proof.
    induction f as [|f IHf]; intros t v b Hb Hgo; [discriminate Hgo|].
    cbn [to_cbor] in Hgo. cbn [from_cbor].
    exact (trip_body (fun t' v' => tc f t' v') (fun t' b' => fc f t' b') (fun t' v' => to_obj env f t' v') f
             (fun _ _ => eq_refl) (fun _ _ => eq_refl) (fun t' v' Hb' b' Hgo' => IHf t' v' b' Hb' Hgo') t v Hb b Hgo).
  Qed.

  (* whatever the encoder produces for a byte-stable tree is accepted by the decoder as ONE normal item *)
  Corollary encoder_output_decodes f t v b : bst t v -> tc f t v = Ok b -> exists c, normal c /\ dec b = Ok c /\ ser c = b.
  Proof. intros Hb Hgo. destruct (encode_then_parse_item f t v b Hb Hgo) as (c & Hn & -> & _). exists c. auto using dec_ser. Qed.

  (* a tree whose encoding is not a bare byte string (every class but the byte-string leaves): parsing the very bytes
     that were written gives the tree back *)
  Theorem encode_then_parse f t v b : bst t v -> tc f t v = Ok b -> (forall bb, b <> ser (CBytes bb)) -> fc f t b = Ok v.
  Proof.
    intros Hb Hgo Hnb. destruct (encode_then_parse_item f t v b Hb Hgo) as (c & Hn & -> & Hf).
    replace (ser c) with (ensure_cbor c); [exact Hf|]. destruct c; try reflexivity. exfalso. exact (Hnb _ eq_refl).
  Qed.

  (* the encoding of a tagged class is never a bare byte string: the first byte carries major type 6 *)
  Lemma tagged_not_bytes f n tg name t' v b : lookup n env = Some (TTag tg name t') -> bst (TRef n) v -> tc f (TRef n) v = Ok b ->
    forall bb, b <> ser (CBytes bb).
  Proof.
    intros Hlk Hb Hgo bb E. inversion Hb as [n0 t0 v0 Hl0 Hb0| | | | | | | | | | | | | | | | | | | | | | |]; subst. rewrite Hlk in Hl0. injection Hl0 as <-.
    inversion Hb0; subst.
    destruct f as [|[|f2]]; [discriminate| |].
    - cbn [to_cbor to_cbor_body] in Hgo. rewrite Hlk in Hgo. discriminate.
    - cbn [to_cbor to_cbor_body] in Hgo. rewrite Hlk in Hgo. cbn [to_cbor to_cbor_body] in Hgo.
      match type of Hgo with (let* c := ?M in _) = _ => destruct M as [c|]; cbn [bind] in Hgo; [|discriminate] end. injection Hgo as E.
      unfold ser in E. cbn [unpyn encode] in E.
      destruct (head_first 6 tg ltac:(lia) ltac:(lia)) as (x & r & Hx & Hdiv & _). destruct (head_first 2 (blen bb) ltac:(lia) (blen_nonneg bb)) as (y & r' & Hy & Hdiv' & _).
      rewrite Hx, Hy in E. cbn [app] in E. injection E as -> _. lia.
  Qed.
End ByteTrip.
