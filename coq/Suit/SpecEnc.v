(* Suit/SpecEnc.v — SPECIFICATION side of C02: the CBOR item that the SUIT / COSE CDDL assigns to a description, written
   declaratively (description -> item, no intermediate object tree, no serialise/deserialise round trips):
     key-value      |-> a map holding the registered integer of each named member, in description order
     command tuple  |-> code, argument  (a sequence of them is one flat array)
     bstr .cbor X   |-> exactly one byte string around the encoding of X
     tuple          |-> array in field order;  tag |-> tag;  bitfield |-> the union (bitwise or) of the named bits;  enum |-> its integer
     union          |-> the first alternative that accepts the description
   Classes whose value comes from outside the description (UUIDs from names, digests and sizes from files, payload
   files, version strings, raw encryption info) are delegated to the object model: they are the subject of C05 / C13 / C20. *)
Require Import Coq.Strings.String.
From Verif Require Import Base.Prim Base.Str Cbor.Codec Suit.Py Suit.Ty Suit.Interp.
Open Scope Z_scope.
Local Notation "x |> g" := (g x) (at level 70, only parsing).

(* boolean form of the normality of Python objects (Suit/PyFacts.v normal): every item the specification assigns is checked to be
   a normal one (lengths and integers below 2^64, valid UTF-8, pairwise different map keys, no bignum tags) — otherwise the
   specification side declines (fail closed) *)
Fixpoint keys_distinctb (l : list (cbor * cbor)) : bool :=
  match l with
  | [] => true
  | (k, _) :: r => forallb (fun kv => negb (py_eqb (fst kv) k)) r && keys_distinctb r
  end.
Fixpoint normalb (c : cbor) : bool :=
  match c with
  | CUint n | CNint n => (0 <=? n) && (n <? 18446744073709551616)
  | CBytes b => blen b <? 18446744073709551616
  | CText b => (blen b <? 18446744073709551616) && utf8_valid b
  | CArray l => (blen l <? 18446744073709551616) && (fix all (l : list cbor) := match l with [] => true | x :: r => normalb x && all r end) l
  | CMap l => (blen l <? 18446744073709551616) && keys_distinctb l
              && (fix all (l : list (cbor * cbor)) := match l with [] => true | (k, v) :: r => normalb k && normalb v && all r end) l
  | CMapI _ => false
  | CTag t c => (0 <=? t) && (t <? 18446744073709551616) && negb (t =? 2) && negb (t =? 3) && normalb c
  | CSimple v => (0 <=? v) && (v <? 24)
  end.

Section Spec.
  Variable env : list (bytes * ty).
  Variable json_loads : bytes -> res cbor.
  (* delegated classes: description -> item, through the object model *)
  Variable special : ty -> cbor -> res cbor.

  Definition is_special (t : ty) : bool :=
    match t with
    | TUUID | TImageSize | TDigestExt | TEncInfoExt | TComponentVersion _ | TPayloadMap _ _ | TUnionHMO _ => true
    | _ => false
    end.

  Definition flatten_group (z : cbor) : res (list cbor) :=
    match z with CArray l => Ok l | _ => Raise TypeError end.

  (* the member is `bstr .cbor header_map / h''` (a protected header that may be empty) *)
  Definition hmo_of (t : ty) : bool :=
    match t with TRef n => match lookup n env with Some (TUnionHMO _) => true | _ => false end | _ => false end.

  Definition spec_core (rec : ty -> cbor -> res cbor) (t : ty) (d : cbor) : res cbor :=
    if is_special t then special t d else
    match t with
    | TRef n => match lookup n env with Some t' => rec t' d | None => Raise Unsupported end
    | TCbstr t' =>
        if hmo_of t' then
          (* protected header of a recipient: the empty byte string, or bstr .cbor header map *)
          match d with
          | CMap [] | CText [] | CBytes [] => Ok (CBytes [])
          | _ => let* c := rec (TRef (s2b "SuitHeaderMap")) d in Ok (CBytes (ser c))
          end
        else let* c := rec t' d in Ok (CBytes (ser c))
    | TAny => Ok d
    | TInt => if check_int d then Ok d else Raise ValueError
    | TUint => if check_uint d then Ok d else Raise ValueError
    | TBool => if is_none d || is_bool d then Ok d else Raise ValueError
    | TNull => if is_none d then Ok d else Raise ValueError
    | TTstr => if is_none d || is_str d then Ok d else Raise ValueError
    | TBstr | THex => match d with CText s => match unhex s with Some b => Ok (CBytes b) | None => Raise ValueError end | _ => Raise ValueError end
    | TEmptyBstr =>                            (* no item of its own: it only occurs as the empty alternative of a protected header *)
        match d with CText s => match unhex s with Some _ => Raise Unsupported | None => Raise ValueError end | _ => Raise ValueError end
    | TBchar => match d with
                | CSimple 22 => Raise Unsupported
                | CText s => if utf8_len s =? 1 then Ok (CBytes s) else Raise ValueError
                | _ => Raise ValueError end
    | TEnum tbl =>
        if is_none d then Raise Unsupported else
        match find_idx (fun e => py_eqb (CText (fst e)) d) tbl O with
        | Some (_, e) => Ok (cint (snd e))
        | None => Raise ValueError
        end
    | TUnion alts =>
        (fix go (alts : list ty) : res cbor :=
           match alts with
           | [] => Raise ValueError
           | a :: r => match rec a d with Raise ValueError => go r | other => other end
           end) alts
    | TTuple fields =>
        match d with
        | CMap dd =>
            (fix go (fields : list (bytes * ty)) : res (list cbor) :=
               match fields with
               | [] => Ok []
               | (k, ft) :: fr =>
                   match dict_get dd (CText k) with
                   | Some x => let* c := rec ft x in let* cs := go fr in Ok (c :: cs)
                   | None =>
                       if ends_with_star k then
                         let pre := replace_star k [] in
                         let* here := mapM (fun kv => rec ft (snd kv))
                                           (filter (fun kv => match fst kv with CText kk => starts_with kk pre | _ => false end) dd) in
                         let* cs := go fr in Ok (here ++ cs)
                       else Raise ValueError
                   end
               end) fields
            |> (fun r => let* cs := r in Ok (CArray cs))
        | _ => Raise ValueError
        end
    | TKeyValue m _ =>
        match d with
        | CMap dd =>
            (fix go (dd : list (cbor * cbor)) (acc : list (cbor * cbor)) : res cbor :=
               match dd with
               | [] => Ok (CMap acc)
               | (k, x) :: r =>
                   match find_idx (fun e => py_eqb (CText (key_name e)) k) m O with
                   | None => Raise ValueError
                   | Some (_, e) =>
                       let* c := rec (key_ty e) x in
                       if (key_id e =? -1) || (key_id e =? -2)
                       then match c with CMap pl => go r (dict_update acc pl) | _ => Raise TypeError end   (* text-keyed members *)
                       else go r (dict_set acc (cint (key_id e)) c)
                   end
               end) dd []
        | _ => Raise ValueError
        end
    | TKVTuple m =>
        match d with
        | CMap dd =>
            (fix go (dd : list (cbor * cbor)) : res (list cbor) :=
               match dd with
               | [] => Ok []
               | (k, x) :: r =>
                   match find_idx (fun e => py_eqb (CText (key_name e)) k) m O with
                   | None => Raise ValueError
                   | Some (_, e) => let* c := rec (key_ty e) x in let* cs := go r in Ok (cint (key_id e) :: c :: cs)
                   end
               end) dd
            |> (fun r => let* cs := r in Ok (CArray cs))
        | _ => Raise ValueError
        end
    | TKVUnnamed pairs =>
        match d with
        | CMap dd =>
            (fix go (dd : list (cbor * cbor)) (acc : list (cbor * cbor)) : res cbor :=
               match dd with
               | [] => Ok (CMap acc)
               | (k, x) :: r =>
                   let* kv :=
                     (fix try (ps : list (ty * ty)) : res (cbor * cbor) :=
                        match ps with
                        | [] => Raise ValueError
                        | (kt, vt) :: ps' =>
                            let attempt :=
                              let* kc := match k with
                                         | CText ks => catch_value (let* j := json_loads ks in rec kt j) (rec kt k)
                                         | _ => Raise TypeError end in
                              let* vc := rec vt x in Ok (kc, vc) in
                            match attempt with Raise ValueError => try ps' | other => other end
                        end) pairs in
                   go r (dict_set acc (fst kv) (snd kv))
               end) dd []
        | _ => Raise ValueError
        end
    | TList (Some et) grp =>
        match d with
        | CArray items =>
            (fix go (l : list cbor) : res (list cbor) :=
               match l with
               | [] => Ok []
               | x :: r =>
                   let* c := rec et x in
                   let* cs := match grp with Some _ => flatten_group c | None => Ok [c] end in
                   let* rest := go r in Ok (cs ++ rest)
               end) items
            |> (fun r => let* cs := r in Ok (CArray cs))
        | CMap _ | CText _ | CBytes _ => Raise Unsupported      (* Python would iterate over keys / characters / bytes *)
        | _ => Raise TypeError
        end
    | TList None _ => Raise Unsupported
    | TBitfield bt _ =>
        match d with
        | CArray items =>
            (fix go (l : list cbor) (acc : Z) : res cbor :=
               match l with
               | [] => Ok (cint acc)
               | x :: r => let* c := rec bt x in match as_pyint c with Some n => go r (Z.lor acc n) | None => Raise TypeError end
               end) items 0
        | _ => Raise ValueError
        end
    | TTag n name t' =>
        match d with
        | CMap dd => match dict_get dd (CText name) with
                     | Some x => let* c := rec t' x in Ok (CTag n c)
                     | None => Raise ValueError end
        | _ => Raise ValueError
        end
    | _ => Raise Unsupported
    end.

  Definition spec_body (rec : ty -> cbor -> res cbor) (t : ty) (d : cbor) : res cbor :=
    let* c := spec_core rec t d in if normalb c then Ok c else Raise Unsupported.

  Fixpoint spec_item (fuel : nat) (t : ty) (d : cbor) {struct fuel} : res cbor :=
    match fuel with O => Raise RecursionLimit | S f => spec_body (fun t' d' => spec_item f t' d') t d end.
End Spec.
