(* Suit/Tables.v — key spaces as tables, boolean checks with their soundness lemmas, and the interpreter-level
   consequences of a table having pairwise distinct names and ids (C08). *)
Require Import Coq.Strings.String.
From Verif Require Import Base.Prim Base.PrimFacts Base.Str Cbor.Codec Cbor.CodecFacts Suit.Py Suit.Ty Suit.Interp.
Open Scope Z_scope.

Definition table_of (t : ty) : option (list (bytes * Z)) :=
  match t with
  | TEnum tbl => Some tbl
  | TKeyValue m _ | TKVTuple m => Some (map (fun e => (key_name e, key_id e)) m)
  | _ => None
  end.

Fixpoint nodup_bytes (l : list bytes) : bool :=
  match l with [] => true | x :: r => negb (existsb (list_eqb x) r) && nodup_bytes r end.
Fixpoint nodup_Z (l : list Z) : bool :=
  match l with [] => true | x :: r => negb (existsb (Z.eqb x) r) && nodup_Z r end.

Lemma nodup_bytes_ok l : nodup_bytes l = true -> NoDup l.
Proof.
  induction l as [|x r IH]; intros H; [constructor|]. cbn [nodup_bytes] in H. apply andb_prop in H. destruct H as [H1 H2].
  constructor; [|auto]. intros Hin. apply negb_true_iff in H1.
  assert (existsb (list_eqb x) r = true); [|congruence]. apply existsb_exists. exists x. split; [assumption|apply list_eqb_refl].
Qed.
Lemma nodup_Z_ok l : nodup_Z l = true -> NoDup l.
Proof.
  induction l as [|x r IH]; intros H; [constructor|]. cbn [nodup_Z] in H. apply andb_prop in H. destruct H as [H1 H2].
  constructor; [|auto]. intros Hin. apply negb_true_iff in H1.
  assert (existsb (Z.eqb x) r = true); [|congruence]. apply existsb_exists. exists x. split; [assumption|apply Z.eqb_refl].
Qed.

Definition table_ok (tbl : list (bytes * Z)) : bool := nodup_bytes (map fst tbl) && nodup_Z (map snd tbl).
Definition all_tables_ok (env : list (bytes * ty)) : bool :=
  forallb (fun nt => match table_of (snd nt) with Some tbl => table_ok tbl | None => true end) env.

Theorem all_tables_nodup env :
  all_tables_ok env = true ->
  forall n t tbl, In (n, t) env -> table_of t = Some tbl -> NoDup (map fst tbl) /\ NoDup (map snd tbl).
Proof.
  intros H n t tbl Hin Ht. unfold all_tables_ok in H. rewrite forallb_forall in H. specialize (H (n, t) Hin).
  cbn [snd] in H. rewrite Ht in H. apply andb_prop in H. destruct H. split; [apply nodup_bytes_ok|apply nodup_Z_ok]; assumption.
Qed.

(* ---- registry comparison: the table of the implementing class has exactly the registered (name, id) pairs ---- *)
Definition pair_eqb (a b : bytes * Z) : bool := list_eqb (fst a) (fst b) && (snd a =? snd b).
Definition incl_b (a b : list (bytes * Z)) : bool := forallb (fun x => existsb (pair_eqb x) b) a.
Definition same_table (a b : list (bytes * Z)) : bool := incl_b a b && incl_b b a.

Lemma pair_eqb_eq a b : pair_eqb a b = true -> a = b.
Proof.
  destruct a as [n i], b as [m j]. unfold pair_eqb. cbn [fst snd]. intros H. apply andb_prop in H. destruct H as [H1 H2].
  apply list_eqb_eq in H1. apply Z.eqb_eq in H2. congruence.
Qed.
Lemma incl_b_ok a b : incl_b a b = true -> incl a b.
Proof.
  unfold incl_b. rewrite forallb_forall. intros H x Hx. specialize (H x Hx). apply existsb_exists in H.
  destruct H as (y & Hy & He). apply pair_eqb_eq in He. subst. assumption.
Qed.
Lemma same_table_ok a b : same_table a b = true -> forall n i, In (n, i) a <-> In (n, i) b.
Proof.
  unfold same_table. intros H. apply andb_prop in H. destruct H as [H1 H2]. apply incl_b_ok in H1. apply incl_b_ok in H2.
  intros n i. split; auto.
Qed.

Definition registry_row_ok (env : list (bytes * ty)) (row : bytes * bytes * bool * list (bytes * Z)) : bool :=
  match row with (_, cls, _, ents) =>
    match lookup cls env with
    | Some t => match table_of t with Some tbl => same_table tbl ents | None => false end
    | None => false
    end
  end.

Theorem registry_rows_match env reg :
  forallb (registry_row_ok env) reg = true ->
  forall sp cls closed ents, In (sp, cls, closed, ents) reg ->
  exists t tbl, lookup cls env = Some t /\ table_of t = Some tbl /\ forall n i, In (n, i) tbl <-> In (n, i) ents.
Proof.
  intros H sp cls closed ents Hin. rewrite forallb_forall in H. specialize (H _ Hin). unfold registry_row_ok in H.
  destruct (lookup cls env) as [t|]; [|discriminate]. destruct (table_of t) as [tbl|] eqn:Et; [|discriminate].
  exists t, tbl. split; [reflexivity|]. split; [exact Et|]. apply same_table_ok; assumption.
Qed.

Definition tag_ok (env : list (bytes * ty)) (row : bytes * Z) : bool :=
  match lookup (fst row) env with Some (TTag n _ _) => n =? snd row | _ => false end.

(* ---- a table with distinct names and ids is a bijection: lookups by name and by id find the same entry ---- *)
Section Bijection.
  Variable tbl : list (bytes * Z).
  Hypothesis Hn : NoDup (map fst tbl).
  Hypothesis Hi : NoDup (map snd tbl).

  Lemma find_idx_spec {A} (p : A -> bool) (l : list A) (k : nat) i x :
    find_idx p l k = Some (i, x) -> (k <= i)%nat /\ nth_error l (i - k) = Some x /\ p x = true.
  Proof.
    revert k. induction l as [|y r IH]; intros k H; cbn [find_idx] in H; [discriminate|].
    destruct (p y) eqn:E.
    - injection H as <- <-. rewrite Nat.sub_diag. auto.
    - apply IH in H. destruct H as (Hk & Hnth & Hp). split; [lia|]. split; [|assumption].
      replace (i - k)%nat with (S (i - S k)) by lia. exact Hnth.
  Qed.

  Lemma find_idx_none {A} (p : A -> bool) (l : list A) k : find_idx p l k = None <-> forall x, In x l -> p x = false.
  Proof.
    revert k. induction l as [|y r IH]; intros k; cbn [find_idx].
    - split; [intros _ x []|reflexivity].
    - destruct (p y) eqn:E.
      + split; [discriminate|]. intros H. specialize (H y (or_introl eq_refl)). congruence.
      + rewrite IH. split; [intros H x [<-|Hx]; auto | intros H x Hx; apply H; right; assumption].
  Qed.

  Lemma nodup_fst_unique n i j : In (n, i) tbl -> In (n, j) tbl -> i = j.
  Proof using Hn.
    clear Hi. induction tbl as [|[m k] r IH]; intros H1 H2; [destruct H1|].
    cbn [map fst] in Hn. inversion Hn as [|? ? Hnot Hr]; subst.
    destruct H1 as [E1|H1], H2 as [E2|H2].
    - congruence.
    - injection E1 as -> ->. exfalso. apply Hnot. change n with (fst (n, j)). apply in_map. assumption.
    - injection E2 as -> ->. exfalso. apply Hnot. change n with (fst (n, i)). apply in_map. assumption.
    - apply IH; assumption.
  Qed.

  Lemma nodup_snd_unique n m i : In (n, i) tbl -> In (m, i) tbl -> n = m.
  Proof using Hi.
    clear Hn. induction tbl as [|[m' k] r IH]; intros H1 H2; [destruct H1|].
    cbn [map snd] in Hi. inversion Hi as [|? ? Hnot Hr]; subst.
    destruct H1 as [E1|H1], H2 as [E2|H2].
    - congruence.
    - injection E1 as -> ->. exfalso. apply Hnot. change i with (snd (m, i)). apply in_map. assumption.
    - injection E2 as -> ->. exfalso. apply Hnot. change i with (snd (n, i)). apply in_map. assumption.
    - apply IH; assumption.
  Qed.

  (* lookup by name (from_obj side) and by id (from_cbor side) return the entry itself *)
  Lemma by_name n i : In (n, i) tbl ->
    exists k, find_idx (fun e => py_eqb (CText (fst e)) (CText n)) tbl O = Some (k, (n, i)).
  Proof using Hn.
    intros Hin. destruct (find_idx (fun e => py_eqb (CText (fst e)) (CText n)) tbl O) as [[k [m j]]|] eqn:E.
    - pose proof (find_idx_spec _ _ _ _ _ E) as (_ & Hnth & Hp). cbn [fst] in Hp. unfold py_eqb in Hp. cbn in Hp.
      apply list_eqb_eq in Hp. subst m. apply nth_error_In in Hnth.
      rewrite (nodup_fst_unique n i j Hin Hnth). eauto.
    - rewrite find_idx_none in E. specialize (E _ Hin). cbn [fst] in E. unfold py_eqb in E. cbn in E.
      rewrite list_eqb_refl in E. discriminate.
  Qed.

  Lemma by_name_unknown n : ~ In n (map fst tbl) -> find_idx (fun e => py_eqb (CText (fst e)) (CText n)) tbl O = None.
  Proof using.
    intros Hnot. apply find_idx_none. intros [m j] Hin. cbn [fst]. unfold py_eqb. cbn.
    destruct (list_eqb m n) eqn:E; [|reflexivity]. apply list_eqb_eq in E. subst. exfalso. apply Hnot.
    change n with (fst (n, j)). apply in_map. assumption.
  Qed.

  Lemma py_eqb_cint a b : py_eqb (cint a) (cint b) = (a =? b).
  Proof.
    unfold py_eqb, cint. destruct (0 <=? a) eqn:Ea, (0 <=? b) eqn:Eb; cbn [as_pyint];
      destruct (a =? b) eqn:E; lia.
  Qed.

  Lemma by_id n i : In (n, i) tbl ->
    exists k, find_idx (fun e => py_eqb (cint (snd e)) (cint i)) tbl O = Some (k, (n, i)).
  Proof using Hi.
    intros Hin. destruct (find_idx (fun e => py_eqb (cint (snd e)) (cint i)) tbl O) as [[k [m j]]|] eqn:E.
    - pose proof (find_idx_spec _ _ _ _ _ E) as (_ & Hnth & Hp). cbn [snd] in Hp. rewrite py_eqb_cint in Hp.
      apply Z.eqb_eq in Hp. subst j. apply nth_error_In in Hnth.
      rewrite (nodup_snd_unique n m i Hin Hnth). eauto.
    - rewrite find_idx_none in E. specialize (E _ Hin). cbn [snd] in E. rewrite py_eqb_cint, Z.eqb_refl in E. discriminate.
  Qed.
End Bijection.

(* ---- the enum node: name |-> id |-> the same name; unknown names rejected ---- *)
Section EnumNode.
  Variable env : list (bytes * ty).
  Variable json_dumps : cbor -> res bytes.
  Variable tbl : list (bytes * Z).
  Hypothesis Hn : NoDup (map fst tbl).
  Hypothesis Hi : NoDup (map snd tbl).

  Lemma validate_small b0 r : 0 <= b0 < 64 -> validate_cbor (b0 :: r) = Ok tt.
  Proof.
    intros Hb. unfold validate_cbor. assert (E : (1 <? b0 / 32) = false) by lia. rewrite E. reflexivity.
  Qed.

  Lemma head_small_major major arg : 0 <= major <= 1 -> 0 <= arg -> exists b0 r, head major arg = b0 :: r /\ 0 <= b0 < 64.
  Proof.
    intros Hm Ha. unfold head.
    destruct (arg <? 24) eqn:E1; [eexists; eexists; split; [reflexivity|lia]|].
    destruct (arg <? 256) eqn:E2; [eexists; eexists; split; [reflexivity|lia]|].
    destruct (arg <? 65536) eqn:E3; [eexists; eexists; split; [reflexivity|lia]|].
    destruct (arg <? 4294967296) eqn:E4; eexists; eexists; (split; [reflexivity|lia]).
  Qed.

  Lemma dec_ser_int i : - 2 ^ 64 <= i < 2 ^ 64 -> dec (ser (cint i)) = Ok (cint i).
  Proof.
    intros Hr. assert (P : 2 ^ 64 = 18446744073709551616) by reflexivity.
    unfold ser, cint. destruct (0 <=? i) eqn:E; cbn [unpyn]; rewrite P in *.
    - assert (i <? 18446744073709551616 = true) as -> by lia. unfold dec. cbn [encode].
      assert (Hpos : 0 <= i) by lia.
      destruct (head_small_major 0 i ltac:(lia) Hpos) as (b0 & r & Hh & Hb). rewrite Hh, validate_small by assumption. cbn [bind].
      rewrite <- Hh. change (head 0 i) with (encode (CUint i)). rewrite <- (app_nil_r (encode (CUint i))).
      rewrite loads_encode; [reflexivity|unfold wf; rewrite P; lia].
    - assert (-1 - i <? 18446744073709551616 = true) as -> by lia. unfold dec. cbn [encode].
      assert (Hneg : 0 <= -1 - i) by lia.
      destruct (head_small_major 1 (-1 - i) ltac:(lia) Hneg) as (b0 & r & Hh & Hb). rewrite Hh, validate_small by assumption. cbn [bind].
      rewrite <- Hh. change (head 1 (-1 - i)) with (encode (CNint (-1 - i))). rewrite <- (app_nil_r (encode (CNint (-1 - i)))).
      rewrite loads_encode; [reflexivity|unfold wf; rewrite P; lia].
  Qed.
End EnumNode.

Lemma find_idx_map {A B} (g : A -> B) (p : B -> bool) (l : list A) k :
  find_idx p (map g l) k = match find_idx (fun x => p (g x)) l k with Some (i, x) => Some (i, g x) | None => None end.
Proof.
  revert k. induction l as [|x r IH]; intros k; cbn [map find_idx]; [reflexivity|].
  destruct (p (g x)); [reflexivity|apply IH].
Qed.

Lemma find_idx_nth {A} (p : A -> bool) (l : list A) i x : find_idx p l O = Some (i, x) -> nth_error l i = Some x /\ p x = true.
Proof. intros H. destruct (find_idx_spec _ _ _ _ _ H) as (_ & Hn & Hp). rewrite Nat.sub_0_r in Hn. auto. Qed.

(* ---- node-level statements of C08 over the interpreter, for ANY table with distinct names and ids ---- *)
Section Nodes.
  Variable env : list (bytes * ty).
  Variable hash_names : list bytes.
  Variable H : bytes -> bytes -> res bytes.
  Variable uuid5 : bytes -> bytes -> res bytes.
  Variable fs : bytes -> option bytes.
  Variable json_loads : bytes -> res cbor.
  Variable json_dumps : cbor -> res bytes.
  Variable severable_ids steps_processed steps_digest_ext : list Z.
  Notation from_obj' := (from_obj env hash_names H uuid5 fs json_loads json_dumps severable_ids steps_processed steps_digest_ext).

  Section Enum.
    Variable tbl : list (bytes * Z).
    Hypothesis Hn : NoDup (map fst tbl).
    Hypothesis Hi : NoDup (map snd tbl).
    Hypothesis Hr : forall n i, In (n, i) tbl -> - 2 ^ 64 <= i < 2 ^ 64.

    (* a name of the key space encodes to its registered integer, and that integer is rendered back as the same name *)
    Theorem enum_name_id_name n i f : In (n, i) tbl ->
      from_obj' (S f) (TEnum tbl) (CText n) = Ok (VRaw (CText n))
      /\ to_cbor env (S f) (TEnum tbl) (VRaw (CText n)) = Ok (ser (cint i))
      /\ from_cbor env json_dumps (S f) (TEnum tbl) (ser (cint i)) = Ok (VRaw (CText n))
      /\ to_obj env (S f) (TEnum tbl) (VRaw (CText n)) = Ok (CText n).
    Proof using Type Hn Hi Hr.
      intros Hin. split; [|split; [|split]].
      - cbn [from_obj from_obj_body is_none]. assert (E : existsb (fun e => py_eqb (CText (fst e)) (CText n)) tbl = true).
        { apply existsb_exists. exists (n, i). split; [assumption|]. cbn [fst]. unfold py_eqb. cbn. apply list_eqb_refl. }
        rewrite E. reflexivity.
      - cbn [to_cbor to_cbor_body]. destruct (by_name tbl Hn n i Hin) as (k & ->). reflexivity.
      - cbn [from_cbor from_cbor_body]. destruct tbl as [|e0 tbl'] eqn:Et; [destruct Hin|]. rewrite <- Et in *.
        rewrite dec_ser_int by (eapply Hr; eassumption). cbn [bind].
        destruct (by_id tbl Hi n i Hin) as (k & ->). reflexivity.
      - reflexivity.
    Qed.

    (* a string that is not a name of this key space is rejected *)
    Theorem enum_rejects_foreign n f : ~ In n (map fst tbl) -> from_obj' (S f) (TEnum tbl) (CText n) = Raise ValueError.
    Proof using Type.
      intros Hnot. cbn [from_obj from_obj_body is_none].
      assert (E : existsb (fun e => py_eqb (CText (fst e)) (CText n)) tbl = false).
      { destruct (existsb _ tbl) eqn:E; [|reflexivity]. apply existsb_exists in E. destruct E as ([m j] & Hin & He).
        cbn [fst] in He. unfold py_eqb in He. cbn in He. apply list_eqb_eq in He. subst. exfalso. apply Hnot.
        change n with (fst (n, j)). apply in_map. assumption. }
      rewrite E. reflexivity.
    Qed.

    (* an integer that is not registered in this key space is rejected when parsing *)
    Theorem enum_rejects_unknown_id i f : - 2 ^ 64 <= i < 2 ^ 64 -> ~ In i (map snd tbl) ->
      from_cbor env json_dumps (S f) (TEnum tbl) (ser (cint i)) = Raise ValueError.
    Proof using Type.
      clear Hn Hi Hr. intros Hri Hnot. cbn [from_cbor from_cbor_body]. destruct tbl as [|e0 tbl'] eqn:Et; [reflexivity|]. rewrite <- Et in *.
      rewrite dec_ser_int by assumption. cbn [bind].
      assert (E : find_idx (fun e => py_eqb (cint (snd e)) (cint i)) tbl O = None).
      { apply find_idx_none. intros [m j] Hin. cbn [snd]. rewrite py_eqb_cint. destruct (j =? i) eqn:E; [|reflexivity].
        apply Z.eqb_eq in E. subst. exfalso. apply Hnot. change i with (snd (m, i)). apply in_map. assumption. }
      rewrite E. reflexivity.
    Qed.
  End Enum.

  Section KeyValue.
    Variable m : list (bytes * Z * ty).
    Variable emb : option (list Z).
    Let tbl := map (fun e => (key_name e, key_id e)) m.
    Hypothesis Hn : NoDup (map fst tbl).
    Hypothesis Hi : NoDup (map snd tbl).

    (* a member named in the description is looked up in exactly its own entry *)
    Theorem kv_member_by_name e x f : In e m ->
      exists idx, nth_error m idx = Some e /\
        from_obj' (S f) (TKeyValue m emb) (CMap [(CText (key_name e), x)]) =
        (let* y := from_obj' f (key_ty e) x in Ok (VKV [(idx, y)])).
    Proof using Type Hn.
      intros Hin. assert (Hin' : In (key_name e, key_id e) tbl) by (unfold tbl; apply (in_map (fun e => (key_name e, key_id e))); assumption).
      destruct (by_name tbl Hn _ _ Hin') as (k & Hk). unfold tbl in Hk. rewrite find_idx_map in Hk. cbn [fst] in Hk.
      destruct (find_idx (fun x0 => py_eqb (CText (key_name x0)) (CText (key_name e))) m O) as [[k' e']|] eqn:E; [|discriminate].
      injection Hk as Hk1 Hname Hid. subst k'.
      destruct (find_idx_nth _ _ _ _ E) as (Hnth & _).
      assert (e' = e).
      { (* same name and same id, and names are distinct: the entry is the same position, hence the same entry *)
        assert (Hn' : NoDup (map key_name m)).
        { unfold tbl in Hn. rewrite map_map in Hn. exact Hn. }
        clear - Hin Hnth Hname Hn'. apply nth_error_In in Hnth.
        induction m as [|a r IH]; [destruct Hin|]. cbn [map] in Hn'. inversion Hn' as [|? ? Hnot Hr]; subst.
        destruct Hin as [<-|Hin], Hnth as [<-|Hnth]; auto.
        - exfalso. apply Hnot. rewrite <- Hname. apply in_map. assumption.
        - exfalso. apply Hnot. rewrite Hname. apply in_map. assumption. }
      subst e'. exists k. split; [assumption|]. cbn [from_obj from_obj_body]. rewrite E. cbn [kv_set].
      destruct (from_obj' f (key_ty e) x); reflexivity.
    Qed.

    (* a name that is not in this key space is rejected (closed key space) *)
    Theorem kv_rejects_foreign n x rest f : ~ In n (map fst tbl) ->
      from_obj' (S f) (TKeyValue m emb) (CMap ((CText n, x) :: rest)) = Raise ValueError.
    Proof using Type.
      intros Hnot. cbn [from_obj from_obj_body].
      pose proof (by_name_unknown tbl n Hnot) as Hk. unfold tbl in Hk. rewrite find_idx_map in Hk. cbn [fst] in Hk.
      destruct (find_idx (fun x0 => py_eqb (CText (key_name x0)) (CText n)) m O) as [[k' e']|]; [discriminate|reflexivity].
    Qed.

    (* when parsing, the registered integer selects exactly its own entry *)
    Theorem kv_member_by_id e x f : In e m -> - 2 ^ 64 <= key_id e < 2 ^ 64 ->
      exists idx, nth_error m idx = Some e /\
        forall b, dec b = Ok (CMap [(cint (key_id e), x)]) ->
        from_cbor env json_dumps (S f) (TKeyValue m emb) b =
        (let* y := from_cbor env json_dumps f (key_ty e) (ensure_cbor x) in Ok (VKV [(idx, y)])).
    Proof using Type Hi.
      intros Hin Hrange. assert (Hin' : In (key_name e, key_id e) tbl) by (unfold tbl; apply (in_map (fun e => (key_name e, key_id e))); assumption).
      destruct (by_id tbl Hi _ _ Hin') as (k & Hk). unfold tbl in Hk. rewrite find_idx_map in Hk. cbn [snd] in Hk.
      destruct (find_idx (fun x0 => py_eqb (cint (key_id x0)) (cint (key_id e))) m O) as [[k' e']|] eqn:E; [|discriminate].
      injection Hk as Hk1 Hname Hid. subst k'.
      destruct (find_idx_nth _ _ _ _ E) as (Hnth & _).
      assert (e' = e).
      { assert (Hi' : NoDup (map key_id m)).
        { unfold tbl in Hi. rewrite map_map in Hi. exact Hi. }
        clear - Hin Hnth Hid Hi'. apply nth_error_In in Hnth.
        induction m as [|a r IH]; [destruct Hin|]. cbn [map] in Hi'. inversion Hi' as [|? ? Hnot Hr]; subst.
        destruct Hin as [<-|Hin], Hnth as [<-|Hnth]; auto.
        - exfalso. apply Hnot. rewrite <- Hid. apply in_map. assumption.
        - exfalso. apply Hnot. rewrite Hid. apply in_map. assumption. }
      subst e'. exists k. split; [assumption|]. intros b Hb. cbn [from_cbor from_cbor_body]. rewrite Hb. cbn [bind]. rewrite E. cbn [kv_set].
      destruct (from_cbor env json_dumps f (key_ty e) (ensure_cbor x)); reflexivity.
    Qed.
  End KeyValue.
End Nodes.

    (* the member is written under its registered integer *)
Theorem kv_member_written_under_id env m emb e idx v b c f :
      nth_error m idx = Some e -> key_id e <> -1 -> key_id e <> -2 ->
      to_cbor env f (key_ty e) v = Ok b -> dec b = Ok c ->
      to_cbor env (S f) (TKeyValue m emb) (VKV [(idx, v)]) = Ok (ser (CMap [(cint (key_id e), c)])).
Proof.
      intros Hnth H1 H2 Hb Hc. cbn [to_cbor to_cbor_body]. rewrite Hnth, Hb. cbn [bind]. rewrite Hc. cbn [bind].
      assert ((key_id e =? -1) || (key_id e =? -2) = false) as -> by lia. reflexivity.
    Qed.

