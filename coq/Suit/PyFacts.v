(* Suit/PyFacts.v — serialise-then-deserialise is the identity on normal Python objects:
     normal c -> dec (ser c) = Ok c
   (validate_cbor passes on every encoding, cbor2.loads inverts cbor2.dumps, normalisation is idempotent). *)
From Verif Require Import Base.Prim Base.PrimFacts Cbor.Codec Cbor.CodecFacts Suit.Py.
Open Scope Z_scope.

Definition two64 : Z := 18446744073709551616.
Lemma two64_eq : 2 ^ 64 = two64. Proof. reflexivity. Qed.

(* keys of a dict are pairwise different for Python's == *)
Fixpoint keys_distinct (l : list (cbor * cbor)) : Prop :=
  match l with
  | [] => True
  | (k, _) :: r => Forall (fun kv => py_eqb (fst kv) k = false) r /\ keys_distinct r
  end.

Fixpoint normal (c : cbor) : Prop :=
  match c with
  | CUint n | CNint n => 0 <= n < two64
  | CBytes b => blen b < two64
  | CText b => blen b < two64 /\ utf8_valid b = true
  | CArray l => blen l < two64 /\ (fix all (l : list cbor) := match l with [] => True | x :: r => normal x /\ all r end) l
  | CMap l => blen l < two64 /\ keys_distinct l
              /\ (fix all (l : list (cbor*cbor)) := match l with [] => True | (k,v) :: r => normal k /\ normal v /\ all r end) l
  | CMapI _ => False
  | CTag t c => 0 <= t < two64 /\ t <> 2 /\ t <> 3 /\ normal c
  | CSimple v => 0 <= v < 24
  end.
Definition normal_list (l : list cbor) := (fix all (l : list cbor) := match l with [] => True | x :: r => normal x /\ all r end) l.
Definition normal_pairs (l : list (cbor*cbor)) :=
  (fix all (l : list (cbor*cbor)) := match l with [] => True | (k,v) :: r => normal k /\ normal v /\ all r end) l.

(* ---- unpyn is the identity on normal objects, and they are well-formed items ---- *)
Lemma unpyn_normal : forall c, normal c -> unpyn c = c.
Proof.
  induction c using cbor_ind'; cbn [normal unpyn]; intros Hn; try reflexivity.
  - assert (n <? 2 ^ 64 = true) as -> by (rewrite two64_eq; unfold two64 in *; lia). reflexivity.
  - assert (n <? 2 ^ 64 = true) as -> by (rewrite two64_eq; unfold two64 in *; lia). reflexivity.
  - destruct Hn as [_ Hn]. f_equal. induction l as [|x l IH]; [reflexivity|]. cbn [map]. inversion H as [|? ? Hx Hl]; subst.
    destruct Hn as [Hnx Hnl]. rewrite (Hx Hnx), (IH Hl Hnl). reflexivity.
  - destruct Hn as (_ & _ & Hn). f_equal. induction l as [|[k v] l IH]; [reflexivity|]. cbn [map]. inversion H as [|? ? Hx Hl]; subst.
    destruct Hn as (Hnk & Hnv & Hnl). cbn [fst snd] in Hx. destruct Hx as [Hk Hv]. rewrite (Hk Hnk), (Hv Hnv), (IH Hl Hnl). reflexivity.
  - destruct Hn.
  - destruct Hn as (_ & _ & _ & Hn). rewrite (IHc Hn). reflexivity.
Qed.

Lemma normal_wf : forall c, normal c -> wf c.
Proof.
  induction c using cbor_ind'; cbn [normal wf]; intros Hn; rewrite ?two64_eq; try exact Hn.
  - exact (proj1 Hn).
  - destruct Hn as [Hl Hn]. split; [assumption|]. induction l as [|x l IH]; [exact I|]. inversion H as [|? ? Hx Hr]; subst.
    destruct Hn as [Hnx Hnl]. split; [auto|]. apply IH; [assumption| |assumption]. unfold blen in *. cbn [length] in Hl. lia.
  - destruct Hn as (Hl & _ & Hn). split; [assumption|]. induction l as [|[k v] l IH]; [exact I|]. inversion H as [|? ? Hx Hr]; subst.
    destruct Hn as (Hnk & Hnv & Hnl). cbn [fst snd] in Hx. destruct Hx as [Hk Hv]. split; [auto|]. split; [auto|].
    apply IH; [assumption| |assumption]. unfold blen in *. cbn [length] in Hl. lia.
  - destruct Hn.
  - destruct Hn as (Ht & _ & _ & Hn). split; [assumption|auto].
Qed.

(* ---- pyn is the identity on normal objects ---- *)
Lemma dict_set_fresh d k v : Forall (fun kv => py_eqb k (fst kv) = false) d -> dict_set d k v = d ++ [(k, v)].
Proof.
  induction d as [|[k' v'] d IH]; intros Hf; cbn [dict_set app]; [reflexivity|].
  inversion Hf as [|? ? H1 H2]; subst. cbn [fst] in H1. rewrite H1. rewrite IH by assumption. reflexivity.
Qed.

Lemma list_eqb_sym a : forall b, list_eqb a b = list_eqb b a.
Proof. induction a as [|x a IH]; intros [|y b]; cbn [list_eqb]; try reflexivity. rewrite Z.eqb_sym, IH. reflexivity. Qed.

Lemma cbor_eqb_sym : forall a b, cbor_eqb a b = cbor_eqb b a.
Proof.
  induction a using cbor_ind'; intros c; destruct c; cbn [cbor_eqb]; try reflexivity; try apply Z.eqb_sym; try apply list_eqb_sym.
  - revert l0. induction l as [|x r IH]; intros [|y l0]; try reflexivity. inversion H as [|? ? Hx Hr]; subst.
    rewrite Hx, (IH Hr). reflexivity.
  - revert l0. induction l as [|[k v] r IH]; intros [|[k0 v0] l0]; try reflexivity. inversion H as [|? ? [Hk Hv] Hr]; subst. cbn [fst snd] in *.
    rewrite Hk, Hv, (IH Hr). reflexivity.
  - revert l0. induction l as [|[k v] r IH]; intros [|[k0 v0] l0]; try reflexivity. inversion H as [|? ? [Hk Hv] Hr]; subst. cbn [fst snd] in *.
    rewrite Hk, Hv, (IH Hr). reflexivity.
  - rewrite Z.eqb_sym, IHa. reflexivity.
Qed.

Lemma py_eqb_sym a b : py_eqb a b = py_eqb b a.
Proof.
  unfold py_eqb. destruct (as_pyint a) as [x|], (as_pyint b) as [y|]; try reflexivity; [apply Z.eqb_sym|apply cbor_eqb_sym].
Qed.

Lemma dict_of_pairs_distinct l : keys_distinct l -> dict_of_pairs l = l.
Proof.
  unfold dict_of_pairs.
  assert (G : forall acc, keys_distinct l -> Forall (fun kv => Forall (fun a => py_eqb (fst kv) (fst a) = false) acc) l ->
              fold_left (fun d kv => dict_set d (fst kv) (snd kv)) l acc = acc ++ l).
  { induction l as [|[k v] l IH]; intros acc Hd Hf; cbn [fold_left]; [rewrite app_nil_r; reflexivity|].
    destruct Hd as [Hk Hd]. inversion Hf as [|? ? Hf1 Hf2]; subst. cbn [fst snd] in *.
    rewrite dict_set_fresh by assumption. rewrite IH; [rewrite <- app_assoc; reflexivity|assumption|].
    rewrite Forall_forall in *. intros kv Hin. apply Forall_app. split; [apply Hf2; assumption|].
    constructor; [|constructor]. cbn [fst]. rewrite py_eqb_sym. rewrite py_eqb_sym. specialize (Hk kv Hin). exact Hk. }
  intros Hd. rewrite G; [reflexivity|assumption|]. apply Forall_forall. intros; constructor.
Qed.

Lemma pyn_normal : forall c, normal c -> pyn c = Ok c.
Proof.
  induction c using cbor_ind'; cbn [normal pyn]; intros Hn; try reflexivity.
  - destruct Hn as [_ Hn].
    assert (E : mapR pyn l = Ok l).
    { induction l as [|x l IH]; [reflexivity|]. cbn [mapR]. inversion H as [|? ? Hx Hl]; subst. destruct Hn as [Hnx Hnl].
      rewrite (Hx Hnx), (IH Hl Hnl). reflexivity. }
    rewrite E. reflexivity.
  - destruct Hn as (_ & Hd & Hn).
    assert (E : mapR (fun kv => match kv with (k0, v0) =>
                  match pyn k0 with Raise e => Raise e | Ok k => match pyn v0 with Raise e => Raise e | Ok v => Ok (k, v) end end end) l = Ok l).
    { induction l as [|[k v] l IH]; [reflexivity|]. cbn [mapR]. inversion H as [|? ? Hx Hl]; subst. cbn [fst snd] in Hx. destruct Hx as [Hk Hv].
      destruct Hn as (Hnk & Hnv & Hnl). destruct Hd as [_ Hd]. rewrite (Hk Hnk), (Hv Hnv), (IH Hl Hd Hnl). reflexivity. }
    rewrite E. rewrite dict_of_pairs_distinct by assumption. reflexivity.
  - destruct Hn.
  - destruct Hn as (_ & H2 & H3 & Hn). assert ((t =? 2) = false) as -> by lia. assert ((t =? 3) = false) as -> by lia.
    rewrite (IHc Hn). reflexivity.
Qed.

Lemma normal_utf8 : forall c, normal c -> utf8_ok c = true.
Proof.
  induction c using cbor_ind'; cbn [normal utf8_ok]; intros Hn; try reflexivity.
  - exact (proj2 Hn).
  - destruct Hn as [_ Hn]. induction l as [|x l IH]; [reflexivity|]. cbn [forallb]. inversion H as [|? ? Hx Hl]; subst.
    destruct Hn as [Hnx Hnl]. rewrite (Hx Hnx), (IH Hl Hnl). reflexivity.
  - destruct Hn as (_ & _ & Hn). induction l as [|[k v] l IH]; [reflexivity|]. cbn [forallb]. inversion H as [|? ? Hx Hl]; subst.
    cbn [fst snd] in Hx. destruct Hx as [Hk Hv]. destruct Hn as (Hnk & Hnv & Hnl). rewrite (Hk Hnk), (Hv Hnv), (IH Hl Hnl). reflexivity.
  - destruct Hn.
  - destruct Hn as (_ & _ & _ & Hn). exact (IHc Hn).
Qed.

(* ---- validate_cbor accepts every encoding ---- *)
Lemma slice_to_app_exact {A} (a r : list A) : slice_to (a ++ r) (blen a) = a.
Proof. unfold slice_to, blen. rewrite Nat2Z.id, firstn_app, Nat.sub_diag, firstn_all. cbn. apply app_nil_r. Qed.

Lemma validate_head major arg payload :
  0 <= major < 8 -> 0 <= arg < two64 -> (1 < major < 6 -> arg <= blen (head major arg ++ payload)) ->
  validate_cbor (head major arg ++ payload) = Ok tt.
Proof.
  intros Hm Ha Hlen. unfold two64 in Ha. unfold head in *.
  destruct (arg <? 24) eqn:E1.
  { cbn [app validate_cbor]. replace ((major*32+arg) mod 32) with arg by lia.
    assert ((23 <? arg) = false) as -> by lia. rewrite !andb_false_r, ?andb_false_l. reflexivity. }
  destruct (arg <? 256) eqn:E2.
  { cbn [app validate_cbor] in *. replace ((major*32+24)/32) with major by lia. replace ((major*32+24) mod 32) with 24 by lia.
    destruct ((1 <? major) && (major <? 6)) eqn:Em; cbn [andb]; [|reflexivity].
    apply andb_prop in Em. specialize (Hlen ltac:(lia)).
    change ((23 <? 24) && (24 <? 28)) with true. cbv iota. unfold decode_cbor_length.
    change (24 <? 24) with false. change (24 =? 24) with true. cbv iota.
    destruct (arg =? 0) eqn:E0; cbn [negb andb]; [reflexivity|].
    match goal with |- context [if ?c then Raise ValueError else Ok tt] => destruct c eqn:E end; [lia|reflexivity]. }
  destruct (arg <? 65536) eqn:E3.
  { cbn [app validate_cbor] in *. replace ((major*32+25)/32) with major by lia. replace ((major*32+25) mod 32) with 25 by lia.
    destruct ((1 <? major) && (major <? 6)) eqn:Em; cbn [andb]; [|reflexivity].
    apply andb_prop in Em. specialize (Hlen ltac:(lia)).
    change ((23 <? 25) && (25 <? 28)) with true. cbv iota. unfold decode_cbor_length.
    change (25 <? 24) with false. change (25 =? 24) with false. change (25 =? 25) with true. cbv iota.
    assert (2 <=? blen (be 2 arg ++ payload) = true) as -> by (rewrite blen_app, be_len; pose proof (blen_nonneg payload); lia).
    pose proof (slice_to_app_exact (be 2 arg) payload) as S. rewrite be_len in S. change (Z.of_nat 2) with 2 in S. rewrite S.
    rewrite unbe_be by (change (256 ^ Z.of_nat 2) with 65536; lia). change (256 ^ Z.of_nat 2) with 65536.
    destruct (0 * 65536 + arg =? 0) eqn:E0; cbn [negb andb]; [reflexivity|].
    match goal with |- context [if ?c then Raise ValueError else Ok tt] => destruct c eqn:E end; [lia|reflexivity]. }
  destruct (arg <? 4294967296) eqn:E4.
  { cbn [app validate_cbor] in *. replace ((major*32+26)/32) with major by lia. replace ((major*32+26) mod 32) with 26 by lia.
    destruct ((1 <? major) && (major <? 6)) eqn:Em; cbn [andb]; [|reflexivity].
    apply andb_prop in Em. specialize (Hlen ltac:(lia)).
    change ((23 <? 26) && (26 <? 28)) with true. cbv iota. unfold decode_cbor_length.
    change (26 <? 24) with false. change (26 =? 24) with false. change (26 =? 25) with false. change (26 =? 26) with true. cbv iota.
    assert (4 <=? blen (be 4 arg ++ payload) = true) as -> by (rewrite blen_app, be_len; pose proof (blen_nonneg payload); lia).
    pose proof (slice_to_app_exact (be 4 arg) payload) as S. rewrite be_len in S. change (Z.of_nat 4) with 4 in S. rewrite S.
    rewrite unbe_be by (change (256 ^ Z.of_nat 4) with 4294967296; lia). change (256 ^ Z.of_nat 4) with 4294967296.
    destruct (0 * 4294967296 + arg =? 0) eqn:E0; cbn [negb andb]; [reflexivity|].
    match goal with |- context [if ?c then Raise ValueError else Ok tt] => destruct c eqn:E end; [lia|reflexivity]. }
  cbn [app validate_cbor] in *. replace ((major*32+27)/32) with major by lia. replace ((major*32+27) mod 32) with 27 by lia.
  destruct ((1 <? major) && (major <? 6)) eqn:Em; cbn [andb]; [|reflexivity].
  apply andb_prop in Em. specialize (Hlen ltac:(lia)).
  change ((23 <? 27) && (27 <? 28)) with true. cbv iota. unfold decode_cbor_length.
  change (27 <? 24) with false. change (27 =? 24) with false. change (27 =? 25) with false. change (27 =? 26) with false. change (27 =? 27) with true. cbv iota.
  assert (8 <=? blen (be 8 arg ++ payload) = true) as -> by (rewrite blen_app, be_len; pose proof (blen_nonneg payload); lia).
  pose proof (slice_to_app_exact (be 8 arg) payload) as S. rewrite be_len in S. change (Z.of_nat 8) with 8 in S. rewrite S.
  rewrite unbe_be by (change (256 ^ Z.of_nat 8) with 18446744073709551616; lia). change (256 ^ Z.of_nat 8) with 18446744073709551616.
  destruct (0 * 18446744073709551616 + arg =? 0) eqn:E0; cbn [negb andb]; [reflexivity|].
  match goal with |- context [if ?c then Raise ValueError else Ok tt] => destruct c eqn:E end; [lia|reflexivity].
Qed.

Lemma validate_encode c : wf c -> validate_cbor (encode c) = Ok tt.
Proof.
  destruct c as [n|n|b|b|l|l|l|t c|v]; cbn [wf encode]; rewrite ?two64_eq; intros Hw.
  - rewrite <- (app_nil_r (head 0 n)). apply validate_head; [lia|assumption|lia].
  - rewrite <- (app_nil_r (head 1 n)). apply validate_head; [lia|assumption|lia].
  - apply validate_head; [lia|pose proof (blen_nonneg b); lia|]. intros _. rewrite blen_app. pose proof (blen_nonneg (head 2 (blen b))). lia.
  - apply validate_head; [lia|pose proof (blen_nonneg b); lia|]. intros _. rewrite blen_app. pose proof (blen_nonneg (head 3 (blen b))). lia.
  - destruct Hw as [Hl Hw]. apply validate_head; [lia|pose proof (blen_nonneg l); lia|]. intros _. rewrite blen_app.
    pose proof (blen_nonneg (head 4 (blen l))). pose proof (items_length_le l Hw). unfold blen in *. lia.
  - destruct Hw as [Hl Hw]. apply validate_head; [lia|pose proof (blen_nonneg l); lia|]. intros _. rewrite blen_app.
    pose proof (blen_nonneg (head 5 (blen l))). pose proof (pairs_length_le l Hw). fold encpair. unfold blen in *. lia.
  - reflexivity.
  - destruct Hw as [Ht Hw]. apply validate_head; [lia|assumption|lia].
  - assert (E : [7 * 32 + v] = head 7 v ++ []) by (unfold head; assert (v <? 24 = true) as -> by lia; reflexivity).
    rewrite E. apply validate_head; [lia|unfold two64; lia|lia].
Qed.

(* ---- the theorem ---- *)
Theorem dec_ser c : normal c -> dec (ser c) = Ok c.
Proof.
  intros Hn. unfold dec, ser. rewrite (unpyn_normal c Hn). pose proof (normal_wf c Hn) as Hw.
  rewrite (validate_encode c Hw). cbn [bind]. rewrite <- (app_nil_r (encode c)). rewrite (loads_encode c [] Hw).
  rewrite (normal_utf8 c Hn). apply pyn_normal. assumption.
Qed.

Lemma ensure_cbor_bytes b : ensure_cbor (CBytes b) = b.
Proof. reflexivity. Qed.
